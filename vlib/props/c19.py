"""C19 — concurrent calls behave like sequential calls."""
import sys, json, time, collections, threading
from . import buildm as B
from . import c18 as S18

CLAIM = dict(
    text="Coq theorems about the thread semantics of the Build model (Model/BuildM.v: a pool of thread-local positions, run_schedule over any list of thread ids, one dictionary operation / source-line boundary per step). C19_built: once the function has been built by a completed call, ANY schedule over ANY number of threads calling with ANY keys (racing cache misses for equal and different keys, racing call_next chains, warm keys) returns the outcomes over the complete table and leaves a state in which every later probe does too (every step of a call keeps the table consistent -- resolve writes the first-rank entry last since the repair of KF-20, /repo 7cfed94 -- and each thread's invariant is stable under the other threads' steps; induction over the schedule). C19_warm: on the decidable domain warm (built, first-rank entries of the keys present), for arbitrary parameters, any schedule leaves the shared state untouched and every thread exactly where it would be alone. The full statement is REFUTED for racing FIRST calls with explicit schedules (KF-21: the second caller enters through the swapped entry point over an empty table -> 'no method'; or is already in the trampoline, builds a second table into which the first registers its remaining methods -> permanent spurious ambiguity). Tie to /repo on every run: a cooperative scheduler (sys.settrace in each thread + per-thread semaphores, every executed library line a scheduling point) replays the witness schedules and random schedules with <= 3 pre-emptions placed at source-anchored markers on the real code with 2 (sampled: 3) threads -- thread results and later probes must equal the extracted model's for the same schedule; random line-level schedules must land in the model's reachable set (exhaustive enumeration with the same pre-emption bound); randomised OS-level runs (switch interval 1 microsecond). The oracle (each call returns what it returns alone, probes afterwards equal a fresh function) is evaluated on the implementation alone; a failure on a built function is a violation, a failure while racing the first build must lie in KF-21's class. One-pre-emption explorer (thread A held at every library line / call of its call while B makes a whole call) over built functions the Build model does not cover: value-dependent handlers, an Ovld used as a descriptor, optional keyword-only parameters (what the entry point collects per call).",
    note="Partial: the model cannot exhibit interpreter-level atomicity inside one source line: pre-emption inside a line is assumed equivalent to pre-emption at one of its boundaries, each dictionary operation atomic (GIL), and the model's steps are coarser than lines in four places: the computation of the candidate ranks (mro, with its iteration over the shared set of registered types and its per-position caches) is one step, argument analysis (the shared ArgumentAnalyzer) is one step, the five-line swap of the entry point's code/defaults/globals is one step, MultiTypeMap.register is one step. Line-level and OS-level schedules that pre-empt INSIDE such a step while the first build is racing produce further failures of the same defect (observed: 'Set changed size during iteration', an entry point generated from a half-filled analyzer, a permanently stale per-position cache); they are attributed to KF-21 by the scenario class alone and counted separately in the evidence (first_build_race_failures_finer_than_model_steps); everywhere else (marker-anchored schedules, built functions, warm keys) the model must predict the outcome exactly. Dependent ranks, optional parameters, racing register/unregister are outside the harness. Trusted: Coq kernel, extraction, driver, the model (validated by the schedule replays), CPython's tracing and threading. No axioms.",
    technique="Coq proof (invariant stable under other threads' steps, induction over the schedule; refutations by vm_compute on explicit schedules) + deterministic schedule replay on the real code (trace-function cooperative scheduler) + OS-level stress", design="6 C19")

THEOREMS = ["C19_warm", "C19_warm_results", "C19_built", "C19_chain_window_safe", "C19_refuted", "C19_refuted_build"]
ASSUMPTIONS = ["pre-emption inside a source line is equivalent to pre-emption at one of its boundaries; dictionary operations are atomic; the rank computation of one resolution is one step",
               "rank data sent to the model is validated per scenario against MultiTypeMap.mro"]
TRUSTED_EXTRA = ["the cooperative scheduler (vlib/props/buildm.py Sched): sys.settrace per thread, per-thread semaphores, source-text anchored markers as pre-emption points"]

MARK_KINDS = ["FIRST", "NEWMAP", "SWAP", "CNMAP", "REG", "FLAG", "ALL", "WRITE"]


# ----------------------------------------------------------------------------------------------- scenarios
def gen_scenario(rng, kind, nthreads=2):
    """kind: first | miss_eq | miss_diff | chain | warm"""
    pair = rng.choice([("int", "object"), ("bool", "int"), ("B", "A"), ("C", "B"), ("str", "object")])
    ts = list(pair)
    extra = [t for t in S18.TYPE_POOL if t not in ts]
    rng.shuffle(extra)
    ts += extra[:rng.randint(0, 2)]
    rng.shuffle(ts)
    methods = []
    for t in ts:
        m = {"t": t}
        if t == pair[0] or (t != "object" and rng.random() < 0.4):
            m["body"] = "next"
        methods.append(m)
    defs0 = list(range(len(methods)))
    rng.shuffle(defs0)
    keys = []
    for m in methods:
        k = S18.KEY_FOR[m["t"]]
        if k not in keys:
            keys.append(k)
    for e in ("list", "float"):
        if e not in keys and len(keys) < 5:
            keys.append(e)
    scn = {"methods": methods, "defs0": defs0, "keys": keys}
    kc = keys.index(S18.KEY_FOR[pair[0]])          # key with a call_next chain
    others = [k for k in range(len(keys)) if k != kc]
    if kind == "first":
        setup = []
        tops = [("call", kc if rng.random() < 0.6 else rng.randrange(len(keys))) for _ in range(nthreads)]
    elif kind in ("miss_eq", "chain"):
        setup = [("call", rng.choice(others))]
        tops = [("call", kc)] * nthreads
    elif kind == "miss_diff":
        setup = [("call", rng.choice(others))]
        pool = [k for k in range(len(keys)) if ("call", k) not in setup]
        rng.shuffle(pool)
        tops = [("call", pool[i % len(pool)]) for i in range(nthreads)]
        if ("call", kc) not in tops:
            tops[0] = ("call", kc)
    else:  # warm
        tops = [("call", rng.randrange(len(keys))) for _ in range(nthreads)]
        setup = sorted({t for t in tops}) + [("call", rng.randrange(len(keys)))]
    after = [("call", k) for k in range(len(keys))]
    return {"scn": scn, "setup": [list(o) for o in setup], "tops": [list(o) for o in tops], "after": [list(o) for o in after], "kind": kind}


def scenario_class(case):
    """known-finding class of a racing scenario, decided from the scenario alone"""
    scn = case["scn"]
    if not any(o[0] == "call" for o in case["setup"]):
        return "KF-21"
    return None   # built: C19_built speaks about every schedule (KF-20 is repaired) -- any failure is a violation


def expected(case):
    scn = case["scn"]
    return {"threads": [B.fresh_outcome(scn, scn["defs0"], o[1]) for o in case["tops"]],
            "after": [B.fresh_outcome(scn, scn["defs0"], o[1]) for o in case["after"]]}


def rand_marker_schedule(rng, nthreads, maxpre=3):
    segs, last = [], None
    for _ in range(rng.randint(1, maxpre)):
        tid = rng.choice([t for t in range(nthreads) if t != last])
        kind = rng.choice(MARK_KINDS)
        segs.append([tid, kind, 1 if kind == "FIRST" else rng.randint(1, 3)])
        last = tid
    segs.append([last, "END", 1])
    return segs


def rand_line_schedule(rng, nthreads, horizon, maxpre=3):
    segs, last = [], None
    for _ in range(rng.randint(1, maxpre)):
        tid = rng.choice([t for t in range(nthreads) if t != last])
        segs.append([tid, "STEP", rng.randint(1, horizon)])
        last = tid
    segs.append([last, "END", 1])
    return segs


# ----------------------------------------------------------------------------------------------- checks
def judge(ctx, case, res, stats, mode, model_res=None, reach=None):
    """oracle on the implementation + attribution.  res = {"threads": [...], "after": [...]}"""
    exp = expected(case)
    payload = dict(case, mode=mode)
    ok = res["threads"] == exp["threads"] and res["after"] == exp["after"]
    stats["outcome_hist"]["ok" if ok else "fail"] += 1
    if ok:
        return
    cls = scenario_class(case)
    predicted = True
    if model_res is not None:
        predicted = (model_res["threads"] == res["threads"] and model_res["after"] == res["after"])
    elif reach is not None:
        predicted = json.dumps([res["threads"], res["after"]]) in reach
    if cls is not None and predicted:
        ctx.known_hit(cls, payload)
        stats["known"][cls] += 1
    elif cls is None:
        ctx.violation(f"C19 violated outside every known-finding class ({case['kind']} scenario, {mode}): threads {res['threads']} after {res['after']} "
                      f"expected {exp['threads']} {exp['after']}", payload)
    elif cls == "KF-21" and mode in ("lines", "os"):
        # racing the first build, pre-empted INSIDE a step of the model (iteration over the shared type set, the shared
        # argument analyzer, the per-position caches, the five-line swap): a failure of the unsynchronised build that the
        # model's granularity cannot express -- attributed by the scenario class alone and counted separately
        ctx.known_hit(cls, payload)
        stats["known"][cls] += 1
        stats["beyond_model"] += 1
        kinds = sorted({o[1] for o in res["threads"] + res["after"] if o})
        stats["beyond_kinds"][",".join(kinds)] += 1
        if len(stats["beyond_examples"]) < 4:
            stats["beyond_examples"].append({"case": payload, "threads": res["threads"], "after": res["after"]})
    else:
        ctx.violation(f"concurrent failure in class {cls} that the model does not predict ({mode}): threads {res['threads']} after {res['after']}", payload, kind="correspondence")


def replay_segments(ctx, case, segs, stats, mode):
    im = B.impl_segments(case["scn"], case["setup"], case["tops"], segs, case["after"])
    mo = B.model_segments(case["scn"], [tuple(o) for o in case["setup"]], [tuple(o) for o in case["tops"]], [tuple(s) for s in segs], [tuple(o) for o in case["after"]])
    stats["evaluations"] += 1
    payload = dict(case, segments=segs, mode=mode)
    if im["threads"] != mo["threads"] or im["after"] != mo["after"]:
        exp = expected(case)
        if im["threads"] == exp["threads"] and im["after"] == exp["after"] and scenario_class(case) is not None:
            stats["improved"] += 1     # better than the faithful model inside a known-finding class: not a violation
            return im
        ctx.violation(f"schedule replay: implementation {im['threads']} {im['after']} differs from the model {mo['threads']} {mo['after']} on schedule {segs}",
                      payload, kind="correspondence")
        return im
    stats["traces_validated"] += 1
    judge(ctx, dict(case, segments=segs), im, stats, mode, model_res=mo)
    return im


def os_level(case, trials, switch=1e-6):
    """real OS threads, tiny switch interval, a barrier to start together"""
    out = []
    old = sys.getswitchinterval()
    sys.setswitchinterval(switch)
    try:
        for _ in range(trials):
            im = B.Impl(case["scn"])
            for o in case["setup"]:
                im.do(tuple(o))
            n = len(case["tops"])
            bar = threading.Barrier(n)
            res = [None] * n

            def body(i):
                bar.wait()
                res[i] = im.do(tuple(case["tops"][i]))
            ths = [threading.Thread(target=body, args=(i,)) for i in range(n)]
            for t in ths:
                t.start()
            for t in ths:
                t.join()
            after = [im.do(tuple(o)) for o in case["after"]]
            out.append({"threads": res, "after": after})
    finally:
        sys.setswitchinterval(old)
    return out


WITNESS_SCN = {"methods": [{"t": "int", "body": "next"}, {"t": "object"}], "defs0": [0, 1], "keys": ["int", "str"]}
WITNESSES = {
    "KF-21-empty": dict(scn=WITNESS_SCN, setup=[], tops=[["call", 0], ["call", 0]], after=[["call", 0], ["call", 1]], kind="first",
                        segments=[[0, "SWAP", 1], [1, "END", 1]]),
    "KF-21-double": dict(scn=WITNESS_SCN, setup=[], tops=[["call", 0], ["call", 0]], after=[["call", 0], ["call", 1]], kind="first",
                         segments=[[1, "FIRST", 1], [0, "REG", 1], [1, "END", 1]]),
    "KF-20-chain": dict(scn=WITNESS_SCN, setup=[["call", 1]], tops=[["call", 0], ["call", 0]], after=[["call", 0], ["call", 1]], kind="chain",
                        segments=[[0, "WRITE", 1], [1, "END", 1]]),
}


# ----------------------------------------------------------------------------------------------- functions outside the model
def _preempt_scenarios():
    """functions already built by a completed call, of kinds the Build model does not cover (value-dependent handlers:
    generated per-rank dispatchers; an Ovld object used as a descriptor in a class).  Each scenario: make() -> (call_a,
    call_b, probes, expected) with expected = the sequential answers."""
    import ovld as _ov
    from ovld import Dependent

    def dep():
        f = _ov.Ovld(name="f")

        def pos(x: Dependent[int, lambda v: v > 0]):
            return "pos"

        def neg(x: Dependent[int, lambda v: v < 0]):
            return "neg"

        def nonempty(x: Dependent[str, lambda v: len(v) > 0]):
            return "nonempty-str"

        def obj(x: object):
            return "obj"
        for m in (pos, neg, nonempty, obj):
            f.register(m)
        f(2.5)
        return (lambda: f(7)), (lambda: f("s")), [lambda: f(7), lambda: f("s"), lambda: f(-1), lambda: f(0), lambda: f("")], ["pos", "nonempty-str", "pos", "nonempty-str", "neg", "obj", "obj"]

    def descriptor():
        class C:
            f = _ov.Ovld(name="f")

            @f.register
            def f(self, x: int):
                return "int"

            @f.register
            def f(self, x: object):
                return "obj"
        o = C()
        o.f(2.5)
        return (lambda: o.f(2)), (lambda: o.f("s")), [lambda: o.f(2), lambda: o.f("s"), lambda: o.f(2.5)], ["int", "obj", "int", "obj", "obj"]
    def optkw():
        # optional keyword-only parameters: the entry point collects the keywords it was given per call
        f = _ov.Ovld(name="f")

        def i(x: int, y: object = None, *, unit: str = "u", scale: int = 1):
            return ("int", x, y, unit, scale)

        def st(x: str, y: object = None, *, unit: str = "u", scale: int = 1):
            return ("str", x, y, unit, scale)

        def o(x: object, y: object = None, *, unit: str = "u", scale: int = 1):
            return ("obj", x, y, unit, scale)
        for m in (i, st, o):
            f.register(m)
        f(2.5)
        return ((lambda: f(7, unit="kg")), (lambda: f("s", 1, scale=3)),
                [lambda: f(7, unit="kg"), lambda: f("s", 1, scale=3), lambda: f(1), lambda: f(2.5, unit="m", scale=2)],
                [("int", 7, None, "kg", 1), ("str", "s", 1, "u", 3), ("int", 7, None, "kg", 1), ("str", "s", 1, "u", 3),
                 ("int", 1, None, "u", 1), ("obj", 2.5, None, "m", 2)])
    def ambiguous():
        # a built function on which both threads make the same ambiguous call (remembered errors are shared state too)
        class A:
            pass

        class B:
            pass

        class C(A, B):
            pass
        f = _ov.Ovld(name="f")

        def fa(x: A, y: object):
            return "A"

        def fb(x: B, y: object):
            return "B"

        def fo(x: object, y: int):
            return "o-int"
        for m in (fa, fb, fo):
            f.register(m)
        f(A(), 1.5)
        _outcome(lambda: f(C(), "s"))          # has failed once already
        amb = _outcome(lambda: f(C(), "s"))
        return ((lambda: f(C(), "s")), (lambda: f(C(), "s")), [lambda: f(C(), "s"), lambda: f(A(), "s"), lambda: f(B(), "s")],
                [amb, amb, amb, "A", "B"])
    return {"dependent_handlers": dep, "descriptor_ovld": descriptor, "optional_keywords": optkw, "ambiguous_call_twice": ambiguous}


def _outcome(thunk):
    try:
        return thunk()
    except Exception as e:  # noqa
        return "EXC:" + type(e).__name__ + ":" + str(e)[:40]


def check_one_preemption(ctx, stats, stride):
    """thread A is held before its n-th executed library line -- and, in a second sweep, at its n-th entry into a library
    function -- thread B then makes its whole call, A resumes: for every n both results and the later probes must be the
    sequential ones.  Property oracle alone."""
    import os
    from .. import REPO_SRC
    libdir = os.path.join(REPO_SRC, "ovld")
    for (name, make), unit in [(sc, u) for sc in _preempt_scenarios().items() for u in ("line", "call")]:
        n = 0
        while n < 3000:
            call_a, call_b, probes, expected = make()
            count = [0]
            paused, resume, done = threading.Event(), threading.Event(), threading.Event()
            res = {}

            def tracer(frame, event, arg):
                inlib = frame.f_code.co_filename.startswith(libdir)
                if event == "call":
                    if inlib and unit == "call":
                        if count[0] == n and not paused.is_set():
                            paused.set()
                            resume.wait(10)
                        count[0] += 1
                    return tracer if inlib else None
                if event == "line" and inlib and unit == "line":
                    if count[0] == n and not paused.is_set():
                        paused.set()
                        resume.wait(10)
                    count[0] += 1
                return tracer

            def run_a():
                sys.settrace(tracer)
                try:
                    res["a"] = _outcome(call_a)
                finally:
                    sys.settrace(None)
                    done.set()
            ta = threading.Thread(target=run_a)
            ta.start()
            while not (paused.is_set() or done.is_set()):
                paused.wait(0.01)
            reached = paused.is_set()
            res["b"] = _outcome(call_b)
            resume.set()
            ta.join(20)
            got = [res.get("a"), res["b"]] + [_outcome(p) for p in probes]
            stats["evaluations"] += 1
            stats["one_preemption_schedules"] = stats.get("one_preemption_schedules", 0) + 1
            if got != expected:
                ctx.violation(f"{name}: thread A held at its library {unit} #{n} while thread B makes its whole call: results {got}, sequentially {expected}",
                              {"one_preemption": name, "unit": unit, "n": n})
                return
            if not reached:
                break
            n += stride


def run(ctx):
    stats = {"evaluations": 0, "traces_validated": 0, "known": collections.Counter(), "outcome_hist": collections.Counter(),
             "kinds": collections.Counter(), "modes": collections.Counter(), "distinct": set(), "chain_invalid": 0, "reach_sizes": [], "os_trials": 0,
             "warm_runs": 0, "improved": 0, "beyond_model": 0, "outside_reach": 0, "beyond_kinds": collections.Counter(), "beyond_examples": []}
    samples = []
    rng = ctx.rng
    t0 = time.time()
    check_one_preemption(ctx, stats, stride=1)
    # (a) the refutation witnesses, replayed on the real code
    for name, w in WITNESSES.items():
        case = {k: w[k] for k in ("scn", "setup", "tops", "after", "kind")}
        replay_segments(ctx, case, w["segments"], stats, "witness:" + name)
        stats["modes"]["witness"] += 1
    quick = ctx.quick()
    kinds = ["first", "chain", "miss_diff"] if quick else ["first", "miss_eq", "miss_diff", "chain", "warm"] * 8
    n_marker = 200 if quick else 300
    n_line = 200 if quick else 250
    n_os = 400 if quick else 2000
    cases = []
    for kind in kinds:
        for _ in range(20):
            case = gen_scenario(rng, kind, 2)
            if B.chain_valid(case["scn"]):
                break
            stats["chain_invalid"] += 1
        cases.append(case)
    if quick:
        cases.append(gen_scenario(rng, "warm", 2))
    for ci, case in enumerate(cases):
        stats["kinds"][case["kind"]] += 1
        base = B.impl_segments(case["scn"], case["setup"], case["tops"], [[0, "END", 1]], case["after"])
        horizon = max(base["lines"]) + 5
        nm, nl = (n_marker, n_line) if case["kind"] != "warm" else (n_marker // 3, n_line // 2)
        # (b) marker-anchored random schedules: exact comparison with the model
        for _ in range(nm):
            segs = rand_marker_schedule(rng, 2)
            replay_segments(ctx, case, segs, stats, "markers")
            stats["modes"]["markers"] += 1
            stats["distinct"].add(hash(json.dumps([case["scn"], case["setup"], case["tops"], segs])))
            if len(ctx.violations) > 10:
                break
        # (c) line-level random schedules: outcome must be reachable in the model with the same pre-emption bound
        reach = B.model_reach(case["scn"], [tuple(o) for o in case["setup"]], [tuple(o) for o in case["tops"]], 3, [tuple(o) for o in case["after"]])
        stats["reach_sizes"].append(len(reach))
        for _ in range(nl):
            segs = rand_line_schedule(rng, 2, horizon)
            im = B.impl_segments(case["scn"], case["setup"], case["tops"], segs, case["after"])
            stats["evaluations"] += 1
            stats["modes"]["lines"] += 1
            key = json.dumps([im["threads"], im["after"]])
            if key in reach:
                stats["traces_validated"] += 1
            else:
                stats["outside_reach"] += 1
            judge(ctx, dict(case, segments=segs), im, stats, "lines", reach=reach)
            stats["distinct"].add(hash(json.dumps([case["scn"], case["setup"], case["tops"], segs])))
            if len(ctx.violations) > 10:
                break
        if case["kind"] == "warm":
            stats["warm_runs"] += nm + nl
        # (d) OS-level
        for r in os_level(case, n_os // len(cases) + 1):
            stats["evaluations"] += 1
            stats["modes"]["os"] += 1
            stats["os_trials"] += 1
            judge(ctx, case, r, stats, "os", reach=reach)
        if len(samples) < 4:
            samples.append({"case": case, "example_schedule": rand_marker_schedule(rng, 2), "lines_per_thread_alone": base["lines"], "model_reachable_outcomes_3_preemptions": len(reach)})
        if len(ctx.violations) > 10:
            break
    # sampled: three threads (exact replay at markers only)
    n3 = 40 if quick else 300
    for _ in range(n3):
        case = gen_scenario(rng, rng.choice(["first", "chain", "miss_diff", "warm"]), 3)
        if not B.chain_valid(case["scn"]):
            continue
        segs = rand_marker_schedule(rng, 3)
        replay_segments(ctx, case, segs, stats, "markers3")
        stats["modes"]["markers3"] += 1
        stats["kinds"][case["kind"] + "/3"] += 1
        stats["distinct"].add(hash(json.dumps([case["scn"], case["setup"], case["tops"], segs])))
        if len(ctx.violations) > 10:
            break
    cross = 0
    if not quick:
        raw = [[61, B.enc_methods(c["scn"]), list(c["scn"]["defs0"]), B.enc_ops([tuple(o) for o in c["setup"]]), B.enc_ops([tuple(o) for o in c["tops"]]),
                B.enc_segments([[0, "SWAP", 1], [1, "WRITE", 1], [0, "REG", 2]]), B.enc_ops([tuple(o) for o in c["after"]])] for c in cases[:4]]
        cross = len(raw)
        if not B.crosscheck_extraction(raw):
            ctx.violation("extracted model and vm_compute disagree", {"cases": raw}, kind="extraction")
    return {"evaluations": stats["evaluations"], "distinct_nontrivial": len(stats["distinct"]), "vm_compute_crosscheck_cases": cross,
            "one_preemption_schedules_on_functions_outside_the_model": stats.get("one_preemption_schedules", 0),
            "rule": "scenarios = random single-argument method sets with a call_next chain, racing the first call / cache misses for equal and different keys / call_next chains / warm keys, 2 threads (3 sampled); schedules = the three refutation witnesses, random schedules with <= 3 pre-emptions at source-anchored markers (replayed on both sides, exact comparison), random line-level schedules with <= 3 pre-emptions (outcome must be in the model's exhaustively enumerated reachable set), OS-level trials with switch interval 1e-6; a schedule is non-trivial when it contains at least one pre-emption (all do); distinct by (scenario, thread operations, schedule)",
            "samples": samples, "traces_validated_against_impl": stats["traces_validated"], "schedule_modes": dict(stats["modes"]),
            "scenario_kind_histogram": dict(stats["kinds"]), "outcome_histogram": dict(stats["outcome_hist"]),
            "failures_attributed": dict(stats["known"]), "os_level_trials": stats["os_trials"], "better_than_model_inside_known_class": stats["improved"], "runs_in_warm_domain": stats["warm_runs"],
            "line_level_outcomes_outside_model_reachable_set": stats["outside_reach"],
            "first_build_race_failures_finer_than_model_steps": stats["beyond_model"], "finer_than_model_error_kinds": dict(stats["beyond_kinds"]),
            "finer_than_model_examples": stats["beyond_examples"],
            "model_reachable_set_sizes": stats["reach_sizes"], "scenarios_skipped_chain_data_invalid": stats["chain_invalid"],
            "wall_explore_s": round(time.time() - t0, 1)}


def replay(ctx, payload):
    case = payload["case"]
    core = {k: case[k] for k in ("scn", "setup", "tops", "after", "kind")}
    segs = case.get("segments") or [[0, "END", 1]]
    im = B.impl_segments(core["scn"], core["setup"], core["tops"], segs, core["after"])
    exp = expected(core)
    out = {"impl": im, "expected": exp, "class": scenario_class(core)}
    bad = False
    if all(s[1] != "STEP" for s in segs):
        mo = B.model_segments(core["scn"], [tuple(o) for o in core["setup"]], [tuple(o) for o in core["tops"]], [tuple(s) for s in segs], [tuple(o) for o in core["after"]])
        out["model"] = mo
        bad = im["threads"] != mo["threads"] or im["after"] != mo["after"]
    else:
        reach = B.model_reach(core["scn"], [tuple(o) for o in core["setup"]], [tuple(o) for o in core["tops"]], 3, [tuple(o) for o in core["after"]])
        bad = json.dumps([im["threads"], im["after"]]) not in reach and scenario_class(core) != "KF-21"
    print(json.dumps(out))
    failing = im["threads"] != exp["threads"] or im["after"] != exp["after"]
    return bad or (failing and scenario_class(core) is None)


def replay_finding(ctx, e):
    """True = the witness schedules still violate the property on the real code (open: with the recorded outcomes, twice)"""
    wit = e["witness"].get("c19", e["witness"])
    ok = True
    anyfail = False
    for w in wit["schedules"]:
        im = B.impl_segments(w["scn"], w["setup"], w["tops"], w["segments"], w["after"])
        im2 = B.impl_segments(w["scn"], w["setup"], w["tops"], w["segments"], w["after"])
        exp = expected(w)
        failing = im["threads"] != exp["threads"] or im["after"] != exp["after"]
        anyfail = anyfail or failing
        ok = ok and im["threads"] == w["expect_threads"] and im["after"] == w["expect_after"] and im2["threads"] == im["threads"] and failing
    return ok if e.get("status") == "open" else anyfail
