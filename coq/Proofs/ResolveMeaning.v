(* ResolveMeaning.v — C01 joined with C13: whatever method a lookup (direct or continuation) returns, every argument
   whose run-time type is a plain class lies in the documented meaning (Spec/Denot.v) of the type the method declares
   at that position / name -- any nesting depth of the declared type. *)
From Coq Require Import ZArith List Bool Arith Lia.
Import ListNotations.
From OvldV Require Import Model.Order Model.Ty Model.TyDom Model.Resolve Spec.Denot Proofs.TyEq Proofs.TySub Proofs.TyTotal
  Proofs.TyMeaning Proofs.ResolveCands Proofs.ResolveNext.

Section RM.
  Variable sub : nat -> nat -> bool.
  Variable hasm : nat -> nat -> bool.
  Variable chk : nat -> nat -> bool.
  Variable sub_fresh : nat -> bool.
  Hypothesis sub_refl : forall c, sub c c = true.

  Notation applicable_ty := (applicable_ty sub hasm chk sub_fresh).
  Notation lookup := (lookup sub hasm chk sub_fresh).
  Notation lookup_next := (lookup_next sub hasm chk sub_fresh).
  Notation denot := (denot sub hasm chk).

  Definition args_in_meaning (m : meth) (k : key) : Prop :=
    forall s c, In (s, Cls c) (key_slots k) -> exists t, slot_ty m s = Some t /\ denot t c = true.

  Lemma applicable_in_meaning m k : applicable_ty m k = true -> args_in_meaning m k.
  Proof.
    unfold ResolveCands.applicable_ty. intros H. apply andb_true_iff in H. destruct H as [_ H].
    rewrite forallb_forall in H. intros s c Hin. specialize (H _ Hin). cbn [fst snd] in H.
    destruct (slot_ty m s) as [t|]; [|discriminate]. exists t. split; [reflexivity|].
    rewrite (subclasscheck_denot sub hasm chk sub_fresh sub_refl) in H.
    now destruct (denot t c).
  Qed.

  Theorem run_args_in_meaning ms k i :
    lookup ms k = ORun i -> exists m, In m ms /\ m_id m = i /\ args_in_meaning m k.
  Proof.
    intros H. apply lookup_run_applicable in H. destruct H as [m [Hin [Hid Ha]]].
    exists m. repeat split; auto. now apply applicable_in_meaning.
  Qed.

  Theorem next_args_in_meaning ms k caller i :
    lookup_next ms caller k = ORun i -> exists m, In m ms /\ m_id m = i /\ args_in_meaning m k.
  Proof.
    intros H. apply next_run_applicable in H. destruct H as [m [Hin [Hid Ha]]].
    exists m. repeat split; auto. now apply applicable_in_meaning.
  Qed.
End RM.
