(* RewriteSyn.v — syntactic facts about the rewriter: the counter only grows, the temporaries it introduces are
   exactly those numbered from the counter it was started with (freshness), the names it assigns, the domain
   excludes UsageError, and rewriting preserves Python's static rules outside comprehension iterables. *)
From Coq Require Import ZArith List Bool Arith Lia.
Import ListNotations.
From OvldV Require Import Model.Rewrite.

Scheme expr_mut := Induction for expr Sort Prop
with exprs_mut := Induction for exprs Sort Prop
with args_mut := Induction for args Sort Prop
with kws_mut := Induction for kws Sort Prop.
Combined Scheme expr_mutind from expr_mut, exprs_mut, args_mut, kws_mut.

Ltac dlet :=
  repeat match goal with
         | |- context [let '(_, _) := ?x in _] => let E := fresh "E" in destruct x eqn:E
         | H : context [let '(_, _) := ?x in _] |- _ => let E := fresh "E" in destruct x eqn:E
         end.

Ltac bsplit :=
  repeat match goal with
         | H : _ && _ = true |- _ => apply andb_true_iff in H; destruct H
         | H : _ || _ = false |- _ => apply orb_false_iff in H; destruct H
         | H : negb _ = true |- _ => apply negb_true_iff in H
         | H : negb _ = false |- _ => apply negb_false_iff in H
         end.

(* ---- equality deciders *)
Lemma okey_eqb_eq : forall a b, okey_eqb a b = true <-> a = b.
Proof.
  destruct a, b; simpl; split; intros H; try discriminate; try reflexivity.
  - apply Nat.eqb_eq in H. now subst.
  - injection H as ->. apply Nat.eqb_refl.
Qed.
Lemma tkey_eqb_eq : forall a b, tkey_eqb a b = true <-> a = b.
Proof.
  destruct a, b; simpl; split; intros H; try discriminate.
  - apply Nat.eqb_eq in H. now subst.
  - injection H as ->. apply Nat.eqb_refl.
  - apply okey_eqb_eq in H. now subst.
  - injection H as ->. now apply okey_eqb_eq.
Qed.
Lemma name_eqb_eq : forall a b, name_eqb a b = true <-> a = b.
Proof.
  destruct a, b; simpl; split; intros H; try discriminate; try reflexivity;
    try (apply Nat.eqb_eq in H; subst; reflexivity);
    try (injection H as ->; apply Nat.eqb_refl).
  - apply andb_true_iff in H. destruct H as [H1 H2]. apply Nat.eqb_eq in H1. apply tkey_eqb_eq in H2. now subst.
  - injection H as -> ->. rewrite Nat.eqb_refl. simpl. now apply tkey_eqb_eq.
Qed.
Lemma name_eqb_refl : forall a, name_eqb a a = true.
Proof. intros. now apply name_eqb_eq. Qed.
Lemma name_eqb_neq : forall a b, name_eqb a b = false <-> a <> b.
Proof.
  intros. split; intros H.
  - intros ->. rewrite name_eqb_refl in H. discriminate.
  - destruct (name_eqb a b) eqn:E; [apply name_eqb_eq in E; contradiction | reflexivity].
Qed.
Lemma name_eqb_sym : forall a b, name_eqb a b = name_eqb b a.
Proof.
  intros. destruct (name_eqb a b) eqn:E.
  - apply name_eqb_eq in E. subst. now rewrite name_eqb_refl.
  - symmetry. apply name_eqb_neq. apply name_eqb_neq in E. congruence.
Qed.

(* ---- the counter only grows *)
Lemma rw_mono_all : forall p,
  (forall e k, k <= snd (rw p k e)) /\
  (forall es k, k <= snd (rw_list p k es)) /\
  (forall a k, k <= snd (rw_args p k a) /\ forall n i, k <= snd (rw_pos p n i k a)) /\
  (forall a k, k <= snd (rw_kws p k a) /\ forall n, k <= snd (rw_kwparts p n k a)).
Proof.
  intros p. apply expr_mutind; intros; simpl;
    try (split; [|intros]); dlet; simpl;
    repeat match goal with
           | IH : forall k, _ <= snd (rw _ k ?e), E : rw _ ?k ?e = _ |- _ =>
               let T := fresh in pose proof (IH k) as T; rewrite E in T; simpl in T; clear E
           | IH : forall k, _ <= snd (rw_list _ k ?e), E : rw_list _ ?k ?e = _ |- _ =>
               let T := fresh in pose proof (IH k) as T; rewrite E in T; simpl in T; clear E
           | IH : forall k, _ <= snd (rw_args _ k ?e) /\ _, E : rw_args _ ?k ?e = _ |- _ =>
               let T := fresh in pose proof (proj1 (IH k)) as T; rewrite E in T; simpl in T; clear E
           | IH : forall k, _ /\ (forall n i, _ <= snd (rw_pos _ n i k ?e)), E : rw_pos _ ?n ?i ?k ?e = _ |- _ =>
               let T := fresh in pose proof (proj2 (IH k) n i) as T; rewrite E in T; simpl in T; clear E
           | IH : forall k, _ <= snd (rw_kws _ k ?e) /\ _, E : rw_kws _ ?k ?e = _ |- _ =>
               let T := fresh in pose proof (proj1 (IH k)) as T; rewrite E in T; simpl in T; clear E
           | IH : forall k, _ /\ (forall n, _ <= snd (rw_kwparts _ n k ?e)), E : rw_kwparts _ ?n ?k ?e = _ |- _ =>
               let T := fresh in pose proof (proj2 (IH k) n) as T; rewrite E in T; simpl in T; clear E
           end; try lia.
  (* ECall *)
  destruct (site p f); [destruct (has_star ar)|]; dlet; simpl;
    repeat match goal with
           | IH : forall k, _ <= snd (rw _ k ?e), E : rw _ ?k ?e = _ |- _ =>
               let T := fresh in pose proof (IH k) as T; rewrite E in T; simpl in T; clear E
           | IH : forall k, _ <= snd (rw_args _ k ?e) /\ _, E : rw_args _ ?k ?e = _ |- _ =>
               let T := fresh in pose proof (proj1 (IH k)) as T; rewrite E in T; simpl in T; clear E
           | IH : forall k, _ /\ (forall n i, _ <= snd (rw_pos _ n i k ?e)), E : rw_pos _ ?n ?i ?k ?e = _ |- _ =>
               let T := fresh in pose proof (proj2 (IH k) n i) as T; rewrite E in T; simpl in T; clear E
           | IH : forall k, _ <= snd (rw_kws _ k ?e) /\ _, E : rw_kws _ ?k ?e = _ |- _ =>
               let T := fresh in pose proof (proj1 (IH k)) as T; rewrite E in T; simpl in T; clear E
           | IH : forall k, _ /\ (forall n, _ <= snd (rw_kwparts _ n k ?e)), E : rw_kwparts _ ?n ?k ?e = _ |- _ =>
               let T := fresh in pose proof (proj2 (IH k) n) as T; rewrite E in T; simpl in T; clear E
           end; lia.
Qed.

Lemma rw_mono : forall p e k, k <= snd (rw p k e).
Proof. intros. apply rw_mono_all. Qed.
Lemma rw_list_mono : forall p es k, k <= snd (rw_list p k es).
Proof. intros. apply rw_mono_all. Qed.
Lemma rw_args_mono : forall p a k, k <= snd (rw_args p k a).
Proof. intros. apply rw_mono_all. Qed.
Lemma rw_pos_mono : forall p a n i k, k <= snd (rw_pos p n i k a).
Proof. intros. apply rw_mono_all. Qed.
Lemma rw_kws_mono : forall p a k, k <= snd (rw_kws p k a).
Proof. intros. apply rw_mono_all. Qed.
Lemma rw_kwparts_mono : forall p a n k, k <= snd (rw_kwparts p n k a).
Proof. intros. apply rw_mono_all. Qed.

From OvldV Require Import Spec.RewriteRel.

(* name the components of every rewriting in the context by projections *)
Ltac nrm :=
  repeat match goal with
         | E : ?t = (?a, ?b) |- _ =>
             is_var a; is_var b;
             let Ha := fresh in let Hb := fresh in
             assert (Ha : a = fst t) by (rewrite E; reflexivity);
             assert (Hb : b = snd t) by (rewrite E; reflexivity);
             clear E; subst a b
         end.

Lemma binder_ok_user : forall p x, binder_ok p x = true -> exists i, x = NUser i /\ rw_name p x = x /\ is_tmp x = false.
Proof.
  intros p x H. destruct x; simpl in H; try discriminate. exists i. bsplit. simpl. rewrite H. auto.
Qed.

Lemma rw_name_tmp : forall p x, is_tmp (rw_name p x) = is_tmp x.
Proof. intros p x. destruct x; simpl; try reflexivity. destruct (is_sym (p_rs p) i); reflexivity. Qed.

(* ---- freshness: a temporary numbered below the counter is not assigned by the rewritten expression;
        within a call site, the parts still to come do not assign the temporaries of the parts already done *)
Lemma asg_small_all : forall p,
  (forall e, dom p e = true -> forall k m key, m < k -> asg (NTmp m key) (fst (rw p k e)) = false) /\
  (forall es, dom_list p es = true -> forall k m key, m < k -> asg_list (NTmp m key) (fst (rw_list p k es)) = false) /\
  (forall a, dom_args p a = true -> forall k m key, m < k ->
       asg_args (NTmp m key) (fst (rw_args p k a)) = false /\
       forall n i, (m = n -> forall j, i <= j -> key <> KPos j) -> asg_list (NTmp m key) (fst (rw_pos p n i k a)) = false) /\
  (forall a, dom_kws p a = true -> forall k m key, m < k ->
       asg_kws (NTmp m key) (fst (rw_kws p k a)) = false /\
       forall n, (m = n -> ~ In key (map KKw (kw_keys a))) -> asg_list (NTmp m key) (fst (rw_kwparts p n k a)) = false).
Proof.
  intros p. apply expr_mutind; intros; simpl in *; try reflexivity.
  - (* EAttr *) dlet; nrm; simpl. auto.
  - (* EBin *) bsplit. dlet; nrm; simpl. rewrite H by assumption. rewrite H0; [reflexivity|assumption|].
    pose proof (rw_mono p a k). lia.
  - (* EBool *) dlet; nrm; simpl. auto.
  - (* EIf *) bsplit. dlet; nrm; simpl. pose proof (rw_mono p c k). pose proof (rw_mono p a (snd (rw p k c))).
    rewrite H, H0, H1; auto; lia.
  - (* ECall *)
    destruct (site p f) eqn:Es; [destruct (has_star ar) eqn:Est|]; bsplit; dlet; nrm; simpl.
    + pose proof (rw_mono p f k). pose proof (rw_args_mono p ar (snd (rw p k f))).
      rewrite H by assumption.
      destruct (H0 ltac:(assumption) (snd (rw p k f)) m key) as [-> _]; [lia|].
      destruct (H1 ltac:(assumption) (snd (rw_args p (snd (rw p k f)) ar)) m key) as [-> _]; [lia|]. reflexivity.
    + (* handled site *)
      pose proof (rw_pos_mono p ar k 0 (S k)).
      assert (Hp : asg_list (NTmp m key) (fst (rw_pos p k 0 (S k) ar)) = false).
      { destruct (H0 ltac:(assumption) (S k) m key) as [_ Hx]; [lia|]. apply Hx. intros ->. lia. }
      assert (Hk : asg_list (NTmp m key) (fst (rw_kwparts p k (snd (rw_pos p k 0 (S k) ar)) kw)) = false).
      { destruct (H1 ltac:(assumption) (snd (rw_pos p k 0 (S k) ar)) m key) as [_ Hx]; [lia|]. apply Hx. intros ->. lia. }
      assert (Hc : forall cn es, asg_list (NTmp m key) es = false -> asg_list (NTmp m key) (code_part p cn es) = false).
      { intros [] es He; simpl; auto. }
      assert (Happ : forall a b, asg_list (NTmp m key) a = false -> asg_list (NTmp m key) b = false -> asg_list (NTmp m key) (eapp a b) = false).
      { intros xa xb. induction xa; simpl; intros Hxa Hxb; auto. apply orb_false_iff in Hxa. destruct Hxa as [Hx1 Hx2]. rewrite Hx1. simpl. auto. }
      rewrite (Hc _ _ (Happ _ _ Hp Hk)). simpl.
      assert (Ht : forall n i a0, asg_args (NTmp m key) (tmp_args n i a0) = false).
      { intros n i xa. revert i. induction xa; simpl; intros; auto. }
      assert (Hs : forall a0, asg_args (NTmp m key) a0 = false -> asg_args (NTmp m key) (self_arg p a0) = false).
      { intros xa Ha. unfold self_arg. destruct (a_method (p_anal p)); simpl; auto. }
      rewrite (Hs _ (Ht _ _ _)). simpl.
      clear. induction kw; simpl; auto.
    + pose proof (rw_mono p f k). pose proof (rw_args_mono p ar (snd (rw p k f))).
      rewrite H by assumption.
      destruct (H0 ltac:(assumption) (snd (rw p k f)) m key) as [-> _]; [lia|].
      destruct (H1 ltac:(assumption) (snd (rw_args p (snd (rw p k f)) ar)) m key) as [-> _]; [lia|]. reflexivity.
  - (* ENamed *) bsplit. dlet; nrm; simpl. rewrite H by assumption.
    match goal with Hb : binder_ok _ _ = true |- _ => destruct (binder_ok_user _ _ Hb) as (i & -> & Hr & _) end.
    rewrite Hr. reflexivity.
  - (* ELam *) dlet; nrm; reflexivity.
  - (* EComp *) bsplit. dlet; nrm; simpl.
    pose proof (rw_mono p elt k). pose proof (rw_mono p it (snd (rw p k elt))).
    rewrite H, H0, H1; auto; lia.
  - (* EFstr *) dlet; nrm; simpl; auto.
  - (* EEffect *) dlet; nrm; simpl; auto.
  - (* ETuple *) dlet; nrm; simpl; auto.
  - (* ESub *) bsplit. dlet; nrm; simpl. pose proof (rw_mono p e k). rewrite H, H0; auto; lia.
  - (* ECons *) bsplit. dlet; nrm; simpl. pose proof (rw_mono p e k). rewrite H, H0; auto; lia.
  - (* ANil *) split; auto.
  - (* ACons *) bsplit. split.
    + dlet; nrm; simpl. pose proof (rw_mono p e k). rewrite H by assumption.
      destruct (H0 ltac:(assumption) (snd (rw p k e)) m key) as [-> _]; [lia|]. reflexivity.
    + intros n i Hn. dlet; nrm; simpl. pose proof (rw_mono p e k). rewrite H by assumption.
      destruct (H0 ltac:(assumption) (snd (rw p k e)) m key) as [_ Hx]; [lia|]. rewrite (Hx n (S i)).
      * rewrite orb_false_r. rewrite orb_false_r.
        destruct (Nat.eqb m n) eqn:Emn; simpl; [|reflexivity].
        apply Nat.eqb_eq in Emn. destruct key; simpl; [|reflexivity].
        destruct (Nat.eqb i0 i) eqn:Ei; [|reflexivity]. apply Nat.eqb_eq in Ei. subst.
        exfalso. apply (Hn eq_refl i); auto.
      * intros Hmn j Hj. apply Hn; auto. lia.
  - (* KNil *) split; auto.
  - (* KCons *) bsplit. split.
    + dlet; nrm; simpl. pose proof (rw_mono p e k0). rewrite H by assumption.
      destruct (H0 ltac:(assumption) (snd (rw p k0 e)) m key) as [-> _]; [lia|]. reflexivity.
    + intros n Hn. dlet; nrm; simpl. pose proof (rw_mono p e k0). rewrite H by assumption.
      destruct (H0 ltac:(assumption) (snd (rw p k0 e)) m key) as [_ Hx]; [lia|]. rewrite (Hx n).
      * rewrite !orb_false_r.
        destruct (Nat.eqb m n) eqn:Emn; simpl; [|reflexivity].
        apply Nat.eqb_eq in Emn. destruct key; simpl; [reflexivity|].
        destruct (okey_eqb k1 k) eqn:Ek; [|reflexivity]. apply okey_eqb_eq in Ek. subst.
        exfalso. apply (Hn eq_refl). left. reflexivity.
      * intros Hmn Hin. apply Hn; simpl; auto.
Qed.

(* ---- in the domain the rewriter does not raise UsageError *)
Lemma dom_no_usage_all : forall p,
  (forall e, dom p e = true -> usage_err p e = false) /\
  (forall es, dom_list p es = true -> usage_err_list p es = false) /\
  (forall a, dom_args p a = true -> usage_err_args p a = false) /\
  (forall a, dom_kws p a = true -> usage_err_kws p a = false).
Proof.
  intros p. apply expr_mutind; intros; simpl in *; try reflexivity; bsplit;
    repeat match goal with IH : ?c = true -> _ = false, Hc : ?c = true |- _ => rewrite (IH Hc); clear IH end;
    try reflexivity; try assumption.
  - (* ECall *)
    destruct (site p f) eqn:Es; [destruct (has_star ar)|]; bsplit;
      repeat match goal with IH : ?c = true -> _ = false, Hc : ?c = true |- _ => rewrite (IH Hc); clear IH end; reflexivity.
  - (* ENamed *)
    match goal with Hb : binder_ok _ _ = true |- _ => destruct (binder_ok_user _ _ Hb) as (i & -> & _ & _); simpl in Hb; bsplit end.
    simpl. repeat match goal with H : is_sym _ _ = false |- _ => rewrite H; clear H end. reflexivity.
  - (* EComp *)
    match goal with Hb : binder_ok _ _ = true |- _ => destruct (binder_ok_user _ _ Hb) as (i & -> & _ & _); simpl in Hb; bsplit end.
    simpl. repeat match goal with H : is_sym _ _ = false |- _ => rewrite H; clear H end. reflexivity.
Qed.

Lemma dom_rewrite : forall p e, dom p e = true -> rewrite p e = Some (fst (rw p 0 e)).
Proof. intros p e H. unfold rewrite. rewrite (proj1 (dom_no_usage_all p) e H). reflexivity. Qed.

(* ---- rewriting keeps Python's static rules, except for a call site inside a comprehension iterable (KF-11) *)
Definition no_tmp_list (cv : list name) : bool := forallb (fun x => negb (is_tmp x)) cv.

Lemma mem_name_tmp : forall cv n k, no_tmp_list cv = true -> mem_name (NTmp n k) cv = false.
Proof.
  induction cv; simpl; intros; auto. bsplit. rewrite IHcv by assumption.
  destruct a; simpl in *; try discriminate; reflexivity.
Qed.

Lemma valid_list_app : forall it cv a b, valid_list it cv (eapp a b) = valid_list it cv a && valid_list it cv b.
Proof. induction a; simpl; intros; auto. rewrite IHa. apply andb_assoc. Qed.
Lemma valid_tmp_args : forall it cv n i a, valid_args it cv (tmp_args n i a) = true.
Proof. intros it cv n i a. revert i. induction a; simpl; intros; auto. Qed.
Lemma valid_tmp_kws : forall it cv n a, valid_kws it cv (tmp_kws n a) = true.
Proof. induction a; simpl; intros; auto. Qed.
Lemma kw_keys_tmp : forall n a, kw_keys (tmp_kws n a) = kw_keys a.
Proof. induction a; simpl; intros; auto. rewrite IHa. reflexivity. Qed.
Lemma kw_keys_rw : forall p a k, kw_keys (fst (rw_kws p k a)) = kw_keys a.
Proof. induction a; intros; simpl; auto. dlet. nrm. simpl. rewrite IHa. reflexivity. Qed.

Ltac use_hs :=
  let Hi := fresh "Hi" in
  intros Hi; match goal with Hh : _ = true -> _ = false |- _ => specialize (Hh Hi); bsplit; assumption end.

Lemma valid_rw_all : forall p,
  (forall e, dom p e = true -> forall it cv k, no_tmp_list cv = true -> valid_e it cv e = true ->
      site_in_iter p e = false -> (it = true -> has_site p e = false) -> valid_e it cv (fst (rw p k e)) = true) /\
  (forall es, dom_list p es = true -> forall it cv k, no_tmp_list cv = true -> valid_list it cv es = true ->
      site_in_iter_list p es = false -> (it = true -> has_site_list p es = false) -> valid_list it cv (fst (rw_list p k es)) = true) /\
  (forall a, dom_args p a = true -> forall it cv k, no_tmp_list cv = true -> valid_args it cv a = true ->
      site_in_iter_args p a = false ->
      ((it = true -> has_site_args p a = false) -> valid_args it cv (fst (rw_args p k a)) = true) /\
      (it = false -> forall n i, valid_list it cv (fst (rw_pos p n i k a)) = true)) /\
  (forall a, dom_kws p a = true -> forall it cv k, no_tmp_list cv = true -> valid_kws it cv a = true ->
      site_in_iter_kws p a = false ->
      ((it = true -> has_site_kws p a = false) -> valid_kws it cv (fst (rw_kws p k a)) = true) /\
      (it = false -> forall n, valid_list it cv (fst (rw_kwparts p n k a)) = true)).
Proof.
  intros p. apply expr_mutind; intros; simpl in *; try reflexivity.
  - (* EAttr *) dlet; nrm; simpl. auto.
  - (* EBin *) bsplit. dlet; nrm; simpl. rewrite H, H0; auto; use_hs.
  - (* EBool *) dlet; nrm; simpl. auto.
  - (* EIf *) bsplit. dlet; nrm; simpl.
    rewrite H, H0, H1; auto; use_hs.
  - (* ECall *)
    destruct (site p f) eqn:Es; [destruct (has_star ar) eqn:Est|]; bsplit; dlet; nrm; simpl.
    + rewrite kw_keys_rw. rewrite H by (auto; use_hs).
      destruct (H0 ltac:(assumption) it cv (snd (rw p k f))) as [-> _]; auto; [|use_hs].
      destruct (H1 ltac:(assumption) it cv (snd (rw_args p (snd (rw p k f)) ar))) as [-> _]; auto.
      use_hs.
    + (* handled site: cannot be inside an iterable *)
      assert (Hit : it = false) by (destruct it; auto; specialize (H7 eq_refl); discriminate).
      subst it.
      assert (Hc : forall cn es, valid_list false cv es = true -> valid_list false cv (code_part p cn es) = true).
      { intros [] es He; simpl; auto. }
      rewrite Hc.
      * rewrite kw_keys_tmp. unfold self_arg. destruct (a_method (p_anal p)); simpl; rewrite valid_tmp_args, valid_tmp_kws; simpl; assumption.
      * rewrite valid_list_app.
        destruct (H0 ltac:(assumption) false cv (S k)) as [_ ->]; auto.
        destruct (H1 ltac:(assumption) false cv (snd (rw_pos p k 0 (S k) ar))) as [_ ->]; auto.
    + rewrite kw_keys_rw. rewrite H by (auto; use_hs).
      destruct (H0 ltac:(assumption) it cv (snd (rw p k f))) as [-> _]; auto; [|use_hs].
      destruct (H1 ltac:(assumption) it cv (snd (rw_args p (snd (rw p k f)) ar))) as [-> _]; auto.
      use_hs.
  - (* ENamed *) bsplit. dlet; nrm; simpl.
    match goal with Hb : binder_ok _ _ = true |- _ => destruct (binder_ok_user _ _ Hb) as (i & -> & Hr & _) end.
    rewrite Hr. rewrite H; auto.
    repeat match goal with Hx : _ = false |- _ => rewrite Hx end. reflexivity.
  - (* ELam *) bsplit. dlet; nrm; simpl. rewrite H; auto.
    repeat match goal with Hx : _ = true |- _ => rewrite Hx end. reflexivity.
  - (* EComp *) bsplit. dlet; nrm; simpl.
    match goal with Hb : binder_ok _ _ = true |- _ => destruct (binder_ok_user _ _ Hb) as (i & -> & Hr & _) end.
    rewrite Hr.
    assert (Hcv : no_tmp_list (NUser i :: cv) = true) by (simpl; assumption).
    rewrite H, H0, H1; auto; use_hs.
  - (* EFstr *) dlet; nrm; simpl. auto.
  - (* EEffect *) dlet; nrm; simpl. auto.
  - (* ETuple *) dlet; nrm; simpl. auto.
  - (* ESub *) bsplit. dlet; nrm; simpl. rewrite H, H0; auto; use_hs.
  - (* ECons *) bsplit. dlet; nrm; simpl. rewrite H, H0; auto; use_hs.
  - (* ANil *) split; auto.
  - (* ACons *) bsplit. split.
    + intros Hh. dlet; nrm; simpl. rewrite H by (auto; use_hs).
      destruct (H0 ltac:(assumption) it cv (snd (rw p k e))) as [-> _]; auto. use_hs.
    + intros -> n i. dlet; nrm; simpl. rewrite (mem_name_tmp cv n (KPos i)) by assumption. simpl.
      rewrite H by (auto; discriminate). simpl.
      destruct (H0 ltac:(assumption) false cv (snd (rw p k e))) as [_ ->]; auto.
  - (* KNil *) split; auto.
  - (* KCons *) bsplit. split.
    + intros Hh. dlet; nrm; simpl. rewrite H by (auto; use_hs).
      destruct (H0 ltac:(assumption) it cv (snd (rw p k0 e))) as [-> _]; auto. use_hs.
    + intros -> n. dlet; nrm; simpl. rewrite (mem_name_tmp cv n (KKw k)) by assumption. simpl.
      rewrite H by (auto; discriminate). simpl.
      destruct (H0 ltac:(assumption) false cv (snd (rw p k0 e))) as [_ ->]; auto.
Qed.

Lemma valid_rw : forall p e k, dom p e = true -> valid e = true -> site_in_iter p e = false -> valid (fst (rw p k e)) = true.
Proof. intros p e k Hd Hv Hs. apply (proj1 (valid_rw_all p) e Hd false [] k); auto. discriminate. Qed.

(* ---- the temporaries introduced by a rewriting are numbered from its counter and pairwise distinct *)
Definition in_rng (k k' : nat) (x : name) : bool :=
  match x with NTmp n _ => Nat.leb k n && Nat.ltb n k' | _ => false end.

Lemma in_rng_tmp : forall k k' n key, in_rng k k' (NTmp n key) = true -> k <= n < k'.
Proof.
  intros k k' n key H. simpl in H. apply andb_true_iff in H. destruct H as [H1 H2].
  apply Nat.leb_le in H1. apply Nat.ltb_lt in H2. lia.
Qed.
Lemma in_rng_intro : forall k k' n key, k <= n < k' -> in_rng k k' (NTmp n key) = true.
Proof. intros. simpl. apply andb_true_iff. split; [apply Nat.leb_le | apply Nat.ltb_lt]; lia. Qed.
Lemma in_rng_widen : forall k k' a b x, in_rng k k' x = true -> a <= k -> k' <= b -> in_rng a b x = true.
Proof.
  intros k k' a b x H Ha Hb. destruct x; try (simpl in H; discriminate). apply in_rng_tmp in H. apply in_rng_intro. lia.
Qed.
Lemma in_rng_disj : forall a b c x, in_rng a b x = true -> in_rng b c x = true -> False.
Proof.
  intros a b c x H1 H2. destruct x; try (simpl in H1; discriminate). apply in_rng_tmp in H1. apply in_rng_tmp in H2. lia.
Qed.

Lemma NoDup_app_disj : forall A (a b : list A), NoDup a -> NoDup b -> (forall x, In x a -> In x b -> False) -> NoDup (a ++ b).
Proof.
  induction a; simpl; intros; auto. inversion H; subst. constructor.
  - intros Hin. apply in_app_or in Hin. destruct Hin; [contradiction | eapply H1; eauto].
  - apply IHa; auto. intros. eapply H1; eauto.
Qed.

Lemma Forall_widen : forall k k' a b l, Forall (fun x => in_rng k k' x = true) l -> a <= k -> k' <= b ->
  Forall (fun x => in_rng a b x = true) l.
Proof. intros k k' a b l H Ha Hb. eapply Forall_impl; [|exact H]. intros x Hx. simpl in Hx. exact (in_rng_widen k k' a b x Hx Ha Hb). Qed.

Lemma seq2 : forall k k1 k2 (a b : list name),
  Forall (fun x => in_rng k k1 x = true) a /\ NoDup a -> Forall (fun x => in_rng k1 k2 x = true) b /\ NoDup b ->
  k <= k1 -> k1 <= k2 -> Forall (fun x => in_rng k k2 x = true) (a ++ b) /\ NoDup (a ++ b).
Proof.
  intros k k1 k2 a b [Fa Na] [Fb Nb] H1 H2. split.
  - apply Forall_app. split; eapply Forall_widen; eauto.
  - apply NoDup_app_disj; auto. intros x Ia Ib. rewrite Forall_forall in Fa, Fb. eapply in_rng_disj; eauto.
Qed.

Lemma tmp_targets_eapp : forall a b, tmp_targets_list (eapp a b) = tmp_targets_list a ++ tmp_targets_list b.
Proof. induction a; simpl; intros; auto. rewrite IHa. apply app_assoc. Qed.
Lemma tmp_targets_tmp_args : forall n i a, tmp_targets_args (tmp_args n i a) = [].
Proof. intros n i a. revert i. induction a; simpl; intros; auto. Qed.
Lemma tmp_targets_tmp_kws : forall n a, tmp_targets_kws (tmp_kws n a) = [].
Proof. induction a; simpl; intros; auto. Qed.

Definition site_rng (k k' : nat) (own : name -> Prop) (x : name) : Prop := in_rng k k' x = true \/ own x.

Lemma tmp_targets_all : forall p,
  (forall e, dom p e = true -> forall k,
      Forall (fun x => in_rng k (snd (rw p k e)) x = true) (tmp_targets (fst (rw p k e))) /\ NoDup (tmp_targets (fst (rw p k e)))) /\
  (forall es, dom_list p es = true -> forall k,
      Forall (fun x => in_rng k (snd (rw_list p k es)) x = true) (tmp_targets_list (fst (rw_list p k es))) /\
      NoDup (tmp_targets_list (fst (rw_list p k es)))) /\
  (forall a, dom_args p a = true -> forall k,
      (Forall (fun x => in_rng k (snd (rw_args p k a)) x = true) (tmp_targets_args (fst (rw_args p k a))) /\
       NoDup (tmp_targets_args (fst (rw_args p k a)))) /\
      (forall n i, n < k ->
         Forall (site_rng k (snd (rw_pos p n i k a)) (fun x => exists j, i <= j /\ x = NTmp n (KPos j)))
                (tmp_targets_list (fst (rw_pos p n i k a))) /\
         NoDup (tmp_targets_list (fst (rw_pos p n i k a))))) /\
  (forall a, dom_kws p a = true -> forall k,
      (Forall (fun x => in_rng k (snd (rw_kws p k a)) x = true) (tmp_targets_kws (fst (rw_kws p k a))) /\
       NoDup (tmp_targets_kws (fst (rw_kws p k a)))) /\
      (forallb (kw_named_ok p) (kw_keys a) = true -> nodup_kwnames (kw_keys a) = true -> forall n, n < k ->
         Forall (site_rng k (snd (rw_kwparts p n k a)) (fun x => exists o, In o (kw_keys a) /\ x = NTmp n (KKw o)))
                (tmp_targets_list (fst (rw_kwparts p n k a))) /\
         NoDup (tmp_targets_list (fst (rw_kwparts p n k a))))).
Proof.
  intros p. apply expr_mutind; intros; simpl in *; try (split; constructor; fail).
  - (* EAttr *) dlet; nrm; simpl. auto.
  - (* EBin *) bsplit. dlet; nrm; simpl.
    eapply seq2; [apply H | apply H0 | apply rw_mono | apply rw_mono]; assumption.
  - (* EBool *) dlet; nrm; simpl. auto.
  - (* EIf *) bsplit. dlet; nrm; simpl.
    eapply seq2; [apply H; assumption | | apply rw_mono |].
    + eapply seq2; [apply H0 | apply H1 | apply rw_mono | apply rw_mono]; assumption.
    + pose proof (rw_mono p a (snd (rw p k c))). pose proof (rw_mono p b (snd (rw p (snd (rw p k c)) a))). lia.
  - (* ECall *)
    destruct (site p f) eqn:Es; [destruct (has_star ar) eqn:Est|]; bsplit; dlet; nrm; simpl.
    + eapply seq2; [apply H; assumption | | apply rw_mono |].
      * eapply seq2; [apply (H0 ltac:(assumption)) | apply (H1 ltac:(assumption)) | apply rw_args_mono | apply rw_kws_mono].
      * pose proof (rw_args_mono p ar (snd (rw p k f))). pose proof (rw_kws_mono p kw (snd (rw_args p (snd (rw p k f)) ar))). lia.
    + (* handled site *)
      assert (Hself : tmp_targets_args (self_arg p (tmp_args k 0 ar)) = []).
      { unfold self_arg. destruct (a_method (p_anal p)); simpl; apply tmp_targets_tmp_args. }
      rewrite Hself, tmp_targets_tmp_kws, !app_nil_r.
      assert (Hcode : forall cn es, tmp_targets_list (code_part p cn es) = tmp_targets_list es) by (intros [] es; reflexivity).
      rewrite Hcode, tmp_targets_eapp.
      set (k1 := snd (rw_pos p k 0 (S k) ar)). set (k2 := snd (rw_kwparts p k k1 kw)).
      destruct (proj2 (H0 ltac:(assumption) (S k)) k 0 ltac:(lia)) as [Fp Np]. fold k1 in Fp.
      assert (Hk1 : S k <= k1) by apply rw_pos_mono.
      assert (Hk2 : k1 <= k2) by apply rw_kwparts_mono.
      destruct (proj2 (H1 ltac:(assumption) k1) ltac:(assumption) ltac:(assumption) k ltac:(lia)) as [Fk Nk]. fold k2 in Fk.
      rewrite Forall_forall in Fp, Fk. split.
      * apply Forall_forall. intros x Hx. apply in_app_or in Hx. destruct Hx as [Hx|Hx].
        -- destruct (Fp _ Hx) as [Hr | (j & _ & ->)]; [eapply in_rng_widen; eauto; lia|].
           apply in_rng_intro. lia.
        -- destruct (Fk _ Hx) as [Hr | (o & _ & ->)]; [eapply in_rng_widen; eauto; lia|].
           apply in_rng_intro. lia.
      * apply NoDup_app_disj; auto. intros x Ha Hb.
        destruct (Fp _ Ha) as [Hr | (j & _ & ->)]; destruct (Fk _ Hb) as [Hr' | (o & _ & Heq)].
        -- exact (in_rng_disj _ _ _ _ Hr Hr').
        -- subst x. apply in_rng_tmp in Hr. lia.
        -- apply in_rng_tmp in Hr'. lia.
        -- discriminate.
    + eapply seq2; [apply H; assumption | | apply rw_mono |].
      * eapply seq2; [apply (H0 ltac:(assumption)) | apply (H1 ltac:(assumption)) | apply rw_args_mono | apply rw_kws_mono].
      * pose proof (rw_args_mono p ar (snd (rw p k f))). pose proof (rw_kws_mono p kw (snd (rw_args p (snd (rw p k f)) ar))). lia.
  - (* ENamed *) bsplit. dlet; nrm; simpl.
    match goal with Hb : binder_ok _ _ = true |- _ => destruct (binder_ok_user _ _ Hb) as (i & -> & Hr & _) end.
    rewrite Hr. simpl. auto.
  - (* ELam *) bsplit. dlet; nrm; simpl. auto.
  - (* EComp *) bsplit. dlet; nrm; simpl.
    eapply seq2; [apply H; assumption | | apply rw_mono |].
    + eapply seq2; [apply H0 | apply H1 | apply rw_mono | apply rw_list_mono]; assumption.
    + pose proof (rw_mono p it (snd (rw p k elt))). pose proof (rw_list_mono p conds (snd (rw p (snd (rw p k elt)) it))). lia.
  - (* EFstr *) dlet; nrm; simpl. auto.
  - (* EEffect *) dlet; nrm; simpl. auto.
  - (* ETuple *) dlet; nrm; simpl. auto.
  - (* ESub *) bsplit. dlet; nrm; simpl.
    eapply seq2; [apply H | apply H0 | apply rw_mono | apply rw_mono]; assumption.
  - (* ECons *) bsplit. dlet; nrm; simpl.
    eapply seq2; [apply H | apply H0 | apply rw_mono | apply rw_list_mono]; assumption.
  - (* ANil *) split; [split; constructor|]. intros. split; constructor.
  - (* ACons *) bsplit. split.
    + dlet; nrm; simpl. eapply seq2; [apply H; assumption | apply (H0 ltac:(assumption)) | apply rw_mono | apply rw_args_mono].
    + intros n i Hn. dlet; nrm; simpl.
      destruct (H ltac:(assumption) k) as [Fe Ne].
      pose proof (rw_mono p e k) as Hm1.
      destruct (proj2 (H0 ltac:(assumption) (snd (rw p k e))) n (S i) ltac:(lia)) as [Fr Nr].
      pose proof (rw_pos_mono p r n (S i) (snd (rw p k e))) as Hm2.
      rewrite ?app_nil_r; simpl; rewrite ?app_nil_r. rewrite Forall_forall in Fe, Fr. split.
      * constructor; [right; exists i; auto|]. apply Forall_forall. intros x Hx. apply in_app_or in Hx. destruct Hx as [Hx|Hx].
        -- left. eapply in_rng_widen; [apply (Fe _ Hx) | lia | lia].
        -- destruct (Fr _ Hx) as [Hr | (j & Hj & ->)]; [left; eapply in_rng_widen; eauto; lia | right; exists j; split; [lia | reflexivity]].
      * constructor.
        -- intros Hin. apply in_app_or in Hin. destruct Hin as [Hx|Hx].
           ++ specialize (Fe _ Hx). apply in_rng_tmp in Fe. lia.
           ++ destruct (Fr _ Hx) as [Hr | (j & Hj & Heq)].
              ** apply in_rng_tmp in Hr. lia.
              ** injection Heq as Heq. lia.
        -- apply NoDup_app_disj; auto. intros x Ha Hb. specialize (Fe _ Ha).
           destruct (Fr _ Hb) as [Hr | (j & Hj & ->)]; [exact (in_rng_disj _ _ _ _ Fe Hr)|].
           apply in_rng_tmp in Fe. lia.
  - (* KNil *) split; [split; constructor|]. intros. split; constructor.
  - (* KCons *) bsplit. split.
    + dlet; nrm; simpl. eapply seq2; [apply H; assumption | apply (H0 ltac:(assumption)) | apply rw_mono | apply rw_kws_mono].
    + intros Hnamed Hnodup n Hn. dlet; nrm; simpl.
      apply andb_true_iff in Hnamed. destruct Hnamed as [Hk Hnamed]. destruct k as [kn|]; [|discriminate].
      simpl in Hnodup. apply andb_true_iff in Hnodup. destruct Hnodup as [Hfresh Hnodup]. apply negb_true_iff in Hfresh.
      destruct (H ltac:(assumption) k0) as [Fe Ne].
      pose proof (rw_mono p e k0) as Hm1.
      destruct (proj2 (H0 ltac:(assumption) (snd (rw p k0 e))) Hnamed Hnodup n ltac:(lia)) as [Fr Nr].
      pose proof (rw_kwparts_mono p r n (snd (rw p k0 e))) as Hm2.
      rewrite ?app_nil_r; simpl; rewrite ?app_nil_r. rewrite Forall_forall in Fe, Fr. split.
      * constructor; [right; exists (Some kn); auto|]. apply Forall_forall. intros x Hx. apply in_app_or in Hx. destruct Hx as [Hx|Hx].
        -- left. eapply in_rng_widen; [apply (Fe _ Hx) | lia | lia].
        -- destruct (Fr _ Hx) as [Hr | (o & Ho & ->)]; [left; eapply in_rng_widen; eauto; lia | right; exists o; auto].
      * constructor.
        -- intros Hin. apply in_app_or in Hin. destruct Hin as [Hx|Hx].
           ++ specialize (Fe _ Hx). apply in_rng_tmp in Fe. lia.
           ++ destruct (Fr _ Hx) as [Hr | (o & Ho & Heq)].
              ** apply in_rng_tmp in Hr. lia.
              ** injection Heq as <-. clear -Ho Hfresh. induction (kw_keys r); simpl in *; auto.
                 apply orb_false_iff in Hfresh. destruct Hfresh as [F1 F2]. destruct Ho as [->|Ho]; auto.
                 rewrite Nat.eqb_refl in F1. discriminate.
        -- apply NoDup_app_disj; auto. intros x Ha Hb. specialize (Fe _ Ha).
           destruct (Fr _ Hb) as [Hr | (o & Ho & ->)]; [exact (in_rng_disj _ _ _ _ Fe Hr)|].
           apply in_rng_tmp in Fe. lia.
Qed.

Theorem tmp_fresh : forall p e k, dom p e = true ->
  Forall (fun x => in_rng k (snd (rw p k e)) x = true) (tmp_targets (fst (rw p k e))).
Proof. intros. apply (proj1 (tmp_targets_all p)); assumption. Qed.
Theorem tmp_distinct : forall p e k, dom p e = true -> NoDup (tmp_targets (fst (rw p k e))).
Proof. intros. apply (proj1 (tmp_targets_all p)); assumption. Qed.

(* ---- the rewriting for function N refers to no other function's table *)
Lemma mentions_eapp : forall x a b, mentions_list x (eapp a b) = mentions_list x a || mentions_list x b.
Proof. induction a; simpl; intros; auto. rewrite IHa. apply orb_assoc. Qed.
Lemma foreign_rw_name : forall p x y, foreign p x = true -> name_eqb x (rw_name p y) = true -> name_eqb x y = true.
Proof.
  intros p x y Hf H. destruct y; simpl in *; auto. destruct (is_sym (p_rs p) i); auto.
  apply name_eqb_eq in H. subst x. simpl in Hf. rewrite Nat.eqb_refl in Hf. discriminate.
Qed.
Lemma foreign_tmp_args : forall p x n i a, foreign p x = true -> mentions_args x (tmp_args n i a) = false.
Proof. intros p x n i a Hf. revert i. induction a; simpl; intros; auto. rewrite IHa. destruct x; simpl in *; try discriminate; reflexivity. Qed.
Lemma foreign_tmp_kws : forall p x n a, foreign p x = true -> mentions_kws x (tmp_kws n a) = false.
Proof. intros p x n a Hf. induction a; simpl; intros; auto. rewrite IHa. destruct x; simpl in *; try discriminate; reflexivity. Qed.

Lemma own_id_all : forall p x, foreign p x = true ->
  (forall e k, mentions x (fst (rw p k e)) = true -> mentions x e = true) /\
  (forall es k, mentions_list x (fst (rw_list p k es)) = true -> mentions_list x es = true) /\
  (forall a k, (mentions_args x (fst (rw_args p k a)) = true -> mentions_args x a = true) /\
               (forall n i, mentions_list x (fst (rw_pos p n i k a)) = true -> mentions_args x a = true)) /\
  (forall a k, (mentions_kws x (fst (rw_kws p k a)) = true -> mentions_kws x a = true) /\
               (forall n, mentions_list x (fst (rw_kwparts p n k a)) = true -> mentions_kws x a = true)).
Proof.
  intros p x Hf. apply expr_mutind; intros; simpl in *; auto.
  - (* EName *) eapply foreign_rw_name; eauto.
  - (* EAttr *) dlet; nrm; simpl in *. eauto.
  - (* EBin *) dlet; nrm; simpl in *. apply orb_true_iff in H1. apply orb_true_iff. destruct H1; [left|right]; eauto.
  - (* EBool *) dlet; nrm; simpl in *. eauto.
  - (* EIf *) dlet; nrm; simpl in *. apply orb_true_iff in H2. destruct H2 as [H2|H2]; [apply orb_true_iff in H2; destruct H2|].
    + rewrite (H _ H2). reflexivity.
    + rewrite (H0 _ H2). rewrite orb_true_r. reflexivity.
    + rewrite (H1 _ H2). rewrite !orb_true_r. reflexivity.
  - (* ECall *)
    destruct (site p f) eqn:Es; [destruct (has_star ar) eqn:Est|]; dlet; nrm; simpl in *.
    + apply orb_true_iff in H2. destruct H2 as [H2|H2]; [apply orb_true_iff in H2; destruct H2 as [H2|H2]|].
      * rewrite (H _ H2). reflexivity.
      * rewrite (proj1 (H0 _) H2). rewrite orb_true_r. reflexivity.
      * rewrite (proj1 (H1 _) H2). rewrite !orb_true_r. reflexivity.
    + assert (Hm : name_eqb x (NMap (p_id p)) = false).
      { destruct x; simpl in *; try reflexivity. apply negb_true_iff in Hf. exact Hf. }
      rewrite Hm in H2. simpl in H2.
      assert (Hself : mentions_args x (self_arg p (tmp_args k 0 ar)) = false).
      { unfold self_arg. destruct (a_method (p_anal p)); simpl; rewrite (foreign_tmp_args p x k 0 ar Hf); auto.
        destruct x; simpl in *; try discriminate; reflexivity. }
      rewrite Hself, (foreign_tmp_kws p x k kw Hf), !orb_false_r in H2.
      assert (Hcode : mentions_list x (code_part p b (eapp (fst (rw_pos p k 0 (S k) ar)) (fst (rw_kwparts p k (snd (rw_pos p k 0 (S k) ar)) kw)))) =
                      mentions_list x (eapp (fst (rw_pos p k 0 (S k) ar)) (fst (rw_kwparts p k (snd (rw_pos p k 0 (S k) ar)) kw)))).
      { destruct b; simpl; auto. destruct x; simpl in *; try reflexivity. apply negb_true_iff in Hf. rewrite Hf. reflexivity. }
      rewrite Hcode, mentions_eapp in H2. apply orb_true_iff in H2. destruct H2 as [H2|H2].
      * rewrite (proj2 (H0 _) _ _ H2). rewrite orb_true_r. reflexivity.
      * rewrite (proj2 (H1 _) _ H2). rewrite !orb_true_r. reflexivity.
    + apply orb_true_iff in H2. destruct H2 as [H2|H2]; [apply orb_true_iff in H2; destruct H2 as [H2|H2]|].
      * rewrite (H _ H2). reflexivity.
      * rewrite (proj1 (H0 _) H2). rewrite orb_true_r. reflexivity.
      * rewrite (proj1 (H1 _) H2). rewrite !orb_true_r. reflexivity.
  - (* ENamed *) dlet; nrm; simpl in *. apply orb_true_iff in H0. apply orb_true_iff. destruct H0; [left; eapply foreign_rw_name; eauto | right; eauto].
  - (* ELam *) dlet; nrm; simpl in *. apply orb_true_iff in H0. apply orb_true_iff. destruct H0; [left | right]; eauto.
  - (* EComp *) dlet; nrm; simpl in *.
    apply orb_true_iff in H2. destruct H2 as [H2|H2]; [apply orb_true_iff in H2; destruct H2 as [H2|H2]; [apply orb_true_iff in H2; destruct H2 as [H2|H2]|]|].
    + rewrite (foreign_rw_name p x x0 Hf H2). reflexivity.
    + rewrite (H _ H2). rewrite orb_true_r. reflexivity.
    + rewrite (H0 _ H2). rewrite !orb_true_r. reflexivity.
    + rewrite (H1 _ H2). rewrite !orb_true_r. reflexivity.
  - (* EFstr *) dlet; nrm; simpl in *. eauto.
  - (* EEffect *) dlet; nrm; simpl in *. eauto.
  - (* ETuple *) dlet; nrm; simpl in *. eauto.
  - (* ESub *) dlet; nrm; simpl in *. apply orb_true_iff in H1. apply orb_true_iff. destruct H1; [left|right]; eauto.
  - (* ECons *) dlet; nrm; simpl in *. apply orb_true_iff in H1. apply orb_true_iff. destruct H1; [left|right]; eauto.
  - (* ACons *) split.
    + intros Hm. dlet; nrm; simpl in *. apply orb_true_iff in Hm. apply orb_true_iff. destruct Hm as [Hm|Hm]; [left; eauto | right; apply (proj1 (H0 _) Hm)].
    + intros n i Hm. dlet; nrm; simpl in *.
      assert (Ht : name_eqb x (type_name p (KPos i)) = false) by (unfold type_name; destruct (subtle _ _); destruct x; simpl in *; try discriminate; reflexivity).
      assert (Htm : name_eqb x (NTmp n (KPos i)) = false) by (destruct x; simpl in *; try discriminate; reflexivity).
      rewrite Ht, Htm in Hm. simpl in Hm. rewrite !orb_false_r in Hm.
      apply orb_true_iff in Hm. apply orb_true_iff. destruct Hm as [Hm|Hm]; [left; eauto | right; apply (proj2 (H0 _) _ _ Hm)].
  - (* KCons *) split.
    + intros Hm. dlet; nrm; simpl in *. apply orb_true_iff in Hm. apply orb_true_iff. destruct Hm as [Hm|Hm]; [left; eauto | right; apply (proj1 (H0 _) Hm)].
    + intros n Hm. dlet; nrm; simpl in *.
      assert (Ht : name_eqb x (type_name p (KKw k)) = false) by (unfold type_name; destruct (subtle _ _); destruct x; simpl in *; try discriminate; reflexivity).
      assert (Htm : name_eqb x (NTmp n (KKw k)) = false) by (destruct x; simpl in *; try discriminate; reflexivity).
      rewrite Ht, Htm in Hm. simpl in Hm. rewrite !orb_false_r in Hm.
      apply orb_true_iff in Hm. apply orb_true_iff. destruct Hm as [Hm|Hm]; [left; eauto | right; apply (proj2 (H0 _) _ Hm)].
Qed.

Theorem own_id : forall p x e k, foreign p x = true -> mentions x (fst (rw p k e)) = true -> mentions x e = true.
Proof. intros p x e k Hf. apply (proj1 (own_id_all p x Hf)). Qed.
