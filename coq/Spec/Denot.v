(* Denot.v — the documented meaning of each (non value-dependent) type as a set of classes (C13):
   a member of some union arm / of all intersection arms / exactly the class / a proper subclass /
   has the method / satisfies the predicate; a parametrised generic has no plain class under it;
   for value-dependent types the type-level meaning is that of the bound. *)
From Coq Require Import List Bool Arith.
Import ListNotations.
From OvldV Require Import Model.Order Model.Ty Model.TyDom.

Section Hier.
  Variable sub : nat -> nat -> bool.
  Variable hasm : nat -> nat -> bool.
  Variable chk : nat -> nat -> bool.

  Fixpoint denot (T : ty) (c : nat) {struct T} : bool :=
    match T with
    | Cls d => sub c d
    | Gen o a => sub c o && is_nil a
    | Uni ts => existsb (fun t => denot t c) ts
    | Int ts => forallb (fun t => denot t c) ts
    | Exa _ d => Nat.eqb c d
    | Strict _ d => sub c d && negb (Nat.eqb c d)
    | HasM _ m => hasm c m
    | Chk _ p => chk p c
    | Lit _ b | Fn _ _ b | TFn _ _ b | Prod _ b => denot b c
    end.

  (* types whose meaning is closed under subclassing (no Exactly, no arbitrary class predicate) *)
  Fixpoint down_closed (T : ty) : bool :=
    match T with
    | Exa _ _ | Chk _ _ => false
    | Uni ts | Int ts => forallb down_closed ts
    | Lit _ b | Fn _ _ b | TFn _ _ b | Prod _ b => down_closed b
    | _ => true
    end.
End Hier.
