(* C16 — variants and mixins compose without ever disturbing their parents.
   Theorems only; every proof is [exact <lemma>] or a witness checked by vm_compute; Print Assumptions under each.
   Model: Model/Graph.v (one node per Ovld object; [step] = one public operation; [run ops] = the graph after the
   history [ops] from nothing).  Every statement quantifies over ALL finite histories.
   Observable of a node ([obs]): the table snapshot of its last build if it is in use, else what a first use would build.
   Abstraction: a node's behaviour IS its effective table (signature key -> method); dispatch over a table is the
   Resolve component's business.
   Relations: [Anc g a n] a is n or something n derives from;  [Lb g a n] n is a or derives from a through linkback
   derivations only (Proofs/GraphBase.v);  [NLPath g c a] a is reached from c through non-linkback derivations only. *)
From Coq Require Import ZArith List Bool Arith.
Import ListNotations.
From OvldV Require Import Model.Graph Spec.Overlay Proofs.GraphTab Proofs.GraphBase Proofs.GraphUpd Proofs.GraphInv
  Proofs.GraphProps Proofs.GraphLock.

(* no traversal ever runs out of fuel: the model answers every operation of every history *)
Theorem C16_never_stuck : forall ops o, snd (step (run ops) o) <> Stuck.
Proof. exact never_stuck. Qed.
Print Assumptions C16_never_stuck.

(* ---------- overlay ---------- *)
(* what any (re)build of node n snapshots is the parents' effective tables overlaid by the own table: the own method
   wins on an identical signature key, among parents the later mixin wins (Spec/Overlay.v overlay_get) *)
Theorem C16_overlay : forall ops n x t, let g := run ops in
  g_get g n = Some x -> defns (length g) g n = Some t ->
  exists pts, Forall2 (fun m pt => defns (length g) g m = Some pt) (n_mixins x) pts /\
              forall k, t_get k t = overlay_get k pts (n_own x).
Proof. intros ops n x t. exact (overlay_defns (run ops) n x t (Inv_run ops)). Qed.
Print Assumptions C16_overlay.

(* FULL STATEMENT (false of the faithful model, see the two refutations below):
     in every history, every node's observable is the overlay of its parents' observables and its own table.
   PROVED for the histories in the decidable domain [stale_free] (Model/Graph.v) = complement of the two finding classes:
   no successful register/unregister on a node from which a used node derives without being reached by the linkback
   propagation (KF-18), no successful add_mixins on a node that is, or has a descendant, in use (KF-40). *)
Theorem C16_overlay_used_partial : forall ops n x t, stale_free ops = true -> let g := run ops in
  g_get g n = Some x -> obs g n = Some t ->
  exists pts, Forall2 (fun m pt => obs g m = Some pt) (n_mixins x) pts /\
              forall k, t_get k t = overlay_get k pts (n_own x).
Proof. exact overlay_used. Qed.
Print Assumptions C16_overlay_used_partial.

(* KF-18: f0 <- f1 <- f2 (plain copies), f2 used, then f0.register: f2 silently keeps the old table *)
Definition kf18_history : list op :=
  [OCreate [] false; ORegister 0 0 1; OCopy 0 [] false; OCopy 1 [] false; OUse 2; ORegister 0 1 9].

Theorem C16_overlay_refuted_stale :
  exists ops n, stale_free ops = false /\ obs (run ops) n <> defns (length (run ops)) (run ops) n /\
                obs (run ops) n = Some [((0, 0%Z), 1)] /\
                defns (length (run ops)) (run ops) n = Some [((0, 0%Z), 1); ((1, 0%Z), 9)].
Proof. exists kf18_history, 2. vm_compute. repeat split; try reflexivity. discriminate. Qed.
Print Assumptions C16_overlay_refuted_stale.

(* KF-40: f0 used, then f0.add_mixins(f1): f0 is not rebuilt, f1's method is invisible in it *)
Definition kf40_history : list op :=
  [OCreate [] false; ORegister 0 0 1; OCreate [] false; ORegister 1 1 2; OUse 0; OAddMixins 0 [1]].

Theorem C16_overlay_refuted_late_mixin :
  exists ops n, stale_free ops = false /\
                obs (run ops) n = Some [((0, 0%Z), 1)] /\
                defns (length (run ops)) (run ops) n = Some [((1, 0%Z), 2); ((0, 0%Z), 1)].
Proof. exists kf40_history, 0. vm_compute. repeat split; reflexivity. Qed.
Print Assumptions C16_overlay_refuted_late_mixin.

(* ---------- isolation ---------- *)
(* an operation on N (for the constructors: the node they create) changes the observable of no node that does not
   derive from N -- in particular of no parent and no sibling *)
Theorem C16_isolation : forall ops o m, let g := run ops in
  m < length g -> ~ Anc g (target g o) m -> obs (step_g g o) m = obs g m.
Proof. exact isolation. Qed.
Print Assumptions C16_isolation.

(* ... and of no node already in use that is not reached from N through linkback derivations
   (an unused non-linkback child legitimately sees its parent's changes: it has not been built yet) *)
Theorem C16_isolation_used : forall ops o m x, let g := run ops in
  g_get g m = Some x -> n_compiled x = true -> m <> target g o -> ~ Lb g (target g o) m ->
  obs (step_g g o) m = obs g m.
Proof. exact isolation_used. Qed.
Print Assumptions C16_isolation_used.

(* putting a node to use changes no observable (it only builds and locks) *)
Theorem C16_use_invisible : forall ops n m, let g := run ops in obs (step_g g (OUse n)) m = obs g m.
Proof. exact use_invisible. Qed.
Print Assumptions C16_use_invisible.

(* ---------- lock ---------- *)
(* a refused operation changes nothing at all *)
Theorem C16_refused_unchanged : forall g o, snd (step g o) <> Done -> step_g g o = g.
Proof. exact refused_unchanged. Qed.
Print Assumptions C16_refused_unchanged.

(* a locked node refuses every modification *)
Theorem C16_locked_refuses : forall g o x, is_modification o = true -> g_get g (target g o) = Some x -> n_locked x = true ->
  step_g g o = g /\ (snd (step g o) = Locked \/ snd (step g o) = Invalid).
Proof. exact locked_refuses. Qed.
Print Assumptions C16_locked_refuses.

(* FULL STATEMENT (false of the faithful model, see C16_lock_refuted and C16_lock_refuted_late_mixin):
     forall ops c y a z, g_get (run ops) c = Some y -> n_compiled y = true -> NLPath (run ops) c a ->
                         g_get (run ops) a = Some z -> n_locked z = true
   (once a node is in use, every function it derives from through non-linkback derivations refuses modification).
   PROVED: the same for paths of length one -- the direct non-linkback parents -- for the histories in the decidable
   domain [no_late_mixin] (add_mixins never applied to a node already in use, KF-40). *)
Theorem C16_lock_partial : forall ops, no_late_mixin ops = true ->
  forall c y m z, g_get (run ops) c = Some y -> n_compiled y = true -> n_linkback y = false ->
                  In m (n_mixins y) -> g_get (run ops) m = Some z -> n_locked z = true.
Proof. exact lock_partial. Qed.
Print Assumptions C16_lock_partial.

(* KF-18: the grandparent of a used node is still modifiable; the modification succeeds and the grandchild is stale *)
Theorem C16_lock_refuted :
  exists ops c a y z, no_late_mixin ops = true /\
    g_get (run ops) c = Some y /\ n_compiled y = true /\ NLPath (run ops) c a /\
    g_get (run ops) a = Some z /\ n_locked z = false /\
    snd (step (run ops) (ORegister a 1 9)) = Done /\ fresh_b (step_g (run ops) (ORegister a 1 9)) c = false.
Proof.
  exists [OCreate [] false; ORegister 0 0 1; OCopy 0 [] false; OCopy 1 [] false; OUse 2], 2, 0.
  eexists. eexists. split; [vm_compute; reflexivity|]. split; [vm_compute; reflexivity|]. split; [reflexivity|].
  split. { eapply nl_step with (m := 1); [vm_compute; reflexivity | reflexivity | left; reflexivity |].
           eapply nl_one; [vm_compute; reflexivity | reflexivity | left; reflexivity]. }
  split; [vm_compute; reflexivity|]. split; [reflexivity|]. split; vm_compute; reflexivity.
Qed.
Print Assumptions C16_lock_refuted.

(* KF-40: a parent added to a node already in use is not locked (and stays modifiable) *)
Theorem C16_lock_refuted_late_mixin :
  exists ops c m y z, no_late_mixin ops = false /\
    g_get (run ops) c = Some y /\ n_compiled y = true /\ n_linkback y = false /\ In m (n_mixins y) /\
    g_get (run ops) m = Some z /\ n_locked z = false.
Proof.
  exists kf40_history, 0, 1. eexists. eexists. split; [vm_compute; reflexivity|]. split; [vm_compute; reflexivity|].
  split; [reflexivity|]. split; [reflexivity|]. split; [left; reflexivity|]. split; [vm_compute; reflexivity | reflexivity].
Qed.
Print Assumptions C16_lock_refuted_late_mixin.

(* ---------- linkback ---------- *)
(* after every successful register / unregister on N, every node deriving from N through linkback derivations shows
   exactly what a rebuild would give now (which, by C16_overlay, contains N's change) *)
Theorem C16_linkback : forall ops o k, let g := run ops in
  (match o with ORegister _ _ _ | OUnregister _ _ => True | _ => False end) ->
  snd (step g o) = Done -> Lb g (target g o) k ->
  obs (step_g g o) k = defns (length (step_g g o)) (step_g g o) k.
Proof. exact linkback. Qed.
Print Assumptions C16_linkback.

(* KF-40: the same is false for add_mixins: the linkback child of N does not see N's new parent *)
Theorem C16_linkback_refuted_add_mixins :
  exists ops n ms k, let g := run ops in
    snd (step g (OAddMixins n ms)) = Done /\ lb_b (length g) g n k = true /\
    obs (step_g g (OAddMixins n ms)) k <> defns (length (step_g g (OAddMixins n ms))) (step_g g (OAddMixins n ms)) k.
Proof.
  exists [OCreate [] false; ORegister 0 0 1; OCopy 0 [] true; OUse 1; OCreate [] false; ORegister 2 1 2], 0, [2], 1.
  vm_compute. repeat split; try reflexivity. discriminate.
Qed.
Print Assumptions C16_linkback_refuted_add_mixins.

(* ---------- non-vacuity of the domains ---------- *)
Example C16_domains_inhabited :
  let ops := [OCreate [] false; ORegister 0 0 1; OCopy 0 [] true; OCopy 0 [] false; OUse 1; ORegister 0 1 2;
              OUse 2; ORegister 0 2 3; OVariant 1 [] false 3 4; OUse 3; OAddMixins 0 [1]] in
  stale_free ops = true /\ no_late_mixin ops = true /\
  map (fun o => snd o) (map (step (run (firstn 7 ops))) [ORegister 0 2 3]) = [Locked] /\
  obs (run ops) 1 = Some [((0, 0%Z), 1); ((1, 0%Z), 2)] /\
  obs (run ops) 3 = Some [((0, 0%Z), 1); ((1, 0%Z), 2); ((3, 0%Z), 4)].
Proof. vm_compute. repeat split; reflexivity. Qed.
