(* LeafDep.v -- FuncDependentType.__lt__ as regenerated from /repo's current source (Gen/Leaf.v dep_lt_src) equals the
   comparison the type-order model uses (Model/Ty.v dep_lt); and what that comparison says: a parametrised condition is
   strictly more specific than another of the same arity exactly when the other has a wildcard wherever it has one, and
   one more somewhere -- slot by slot.  Crossing wildcards order neither way. *)
From Coq Require Import ZArith List Bool Arith Lia.
Import ListNotations.
From OvldV Require Import Model.Order Model.Ty Gen.Leaf.

Definition fn_like (t : ty) : bool := match t with Fn _ _ _ | TFn _ _ _ => true | _ => false end.

Lemma count2_ext (f g : bool -> bool -> bool) l1 l2 : (forall x y, f x y = g x y) -> count2 f l1 l2 = count2 g l1 l2.
Proof. intros H. revert l2. induction l1 as [|x xs IH]; intros [|y ys]; simpl; try reflexivity. now rewrite H, IH. Qed.

(* however the two wildcard tests and the final combination are spelt: the tests are brought to the model's spelling by
   extensionality over the four boolean cases, the combination is decided by whether each count is zero *)
Ltac canon_counts :=
  repeat match goal with
         | |- context [count2 ?f ?l1 ?l2] =>
             lazymatch f with
             | (fun x y => x && negb y) => fail
             | (fun x y => y && negb x) => fail
             | _ => first [ rewrite (count2_ext f (fun x y => x && negb y) l1 l2) by (intros [] []; reflexivity)
                          | rewrite (count2_ext f (fun x y => y && negb x) l1 l2) by (intros [] []; reflexivity) ]
             end
         end.

Ltac split_count :=
  match goal with
  | |- context [count2 ?f ?l1 ?l2] => generalize (count2 f l1 l2); intros [|?]
  end.

Lemma dep_lt_agree : forall a b, fn_like a = true -> dep_lt a b = dep_lt_src (any_flags a) (any_flags b).
Proof.
  intros a b H. destruct a; try discriminate H; unfold dep_lt, dep_lt_src;
    first [reflexivity
          | cbv zeta; canon_counts;
            match goal with |- context [Nat.eqb (length ?l1) (length ?l2)] => destruct (Nat.eqb (length l1) (length l2)) end;
            cbn [negb]; try reflexivity;
            repeat split_count; reflexivity].
Qed.

(* slot-wise reading *)
Fixpoint covers (fa fb : list bool) : bool :=        (* fb has a wildcard wherever fa has one *)
  match fa, fb with
  | x :: xs, y :: ys => implb x y && covers xs ys
  | _, _ => true
  end.
Fixpoint more_somewhere (fa fb : list bool) : bool :=  (* fb has a wildcard where fa has none *)
  match fa, fb with
  | x :: xs, y :: ys => (y && negb x) || more_somewhere xs ys
  | _, _ => false
  end.

Lemma count_zero_covers : forall fa fb, Nat.eqb (count2 (fun x y => x && negb y) fa fb) 0 = covers fa fb.
Proof.
  induction fa as [|x xs IH]; intros [|y ys]; try reflexivity.
  cbn [count2 covers]. rewrite <- IH. destruct x, y; cbn; try reflexivity.
Qed.

Lemma count_pos_more : forall fa fb, negb (Nat.eqb (count2 (fun x y => y && negb x) fa fb) 0) = more_somewhere fa fb.
Proof.
  induction fa as [|x xs IH]; intros [|y ys]; try reflexivity.
  cbn [count2 more_somewhere]. rewrite <- IH. destruct x, y; cbn; try reflexivity.
Qed.

Theorem dep_lt_slotwise : forall a b, fn_like a = true ->
  dep_lt a b = Nat.eqb (length (any_flags a)) (length (any_flags b)) && covers (any_flags a) (any_flags b) && more_somewhere (any_flags a) (any_flags b).
Proof.
  intros a b H. destruct a; try discriminate H; unfold dep_lt;
    (destruct (Nat.eqb (length (any_flags _)) (length (any_flags b))); [|reflexivity]);
    rewrite count_zero_covers, count_pos_more; cbn [andb]; apply andb_comm.
Qed.

Lemma covers_more_asym : forall fa fb, covers fa fb = true -> more_somewhere fa fb = true -> covers fb fa = false.
Proof.
  induction fa as [|x xs IH]; intros [|y ys] Hc Hm; try discriminate.
  cbn in *. apply andb_true_iff in Hc as [Hxy Hc]. apply orb_true_iff in Hm as [Hm|Hm].
  - destruct x, y; try discriminate; reflexivity.
  - rewrite (IH _ Hc Hm). apply andb_false_r.
Qed.

(* never both ways: what is strictly more specific one way is not the other way (so crossing wildcards give NONE) *)
Theorem dep_lt_asym_slot : forall a b, fn_like a = true -> fn_like b = true -> dep_lt a b = true -> dep_lt b a = false.
Proof.
  intros a b Ha Hb H. rewrite (dep_lt_slotwise a b Ha) in H. rewrite (dep_lt_slotwise b a Hb).
  apply andb_true_iff in H as [H Hm]. apply andb_true_iff in H as [_ Hc].
  rewrite (covers_more_asym _ _ Hc Hm). now rewrite andb_false_r.
Qed.

Theorem dep_lt_irrefl : forall a, dep_lt a a = false.
Proof.
  intros a. destruct (fn_like a) eqn:E; [|destruct a; try discriminate E; reflexivity].
  destruct (dep_lt a a) eqn:H; [|reflexivity]. now rewrite (dep_lt_asym_slot a a E E H) in H.
Qed.

(* crossing wildcards: a has one where b has none and b has one where a has none => unordered both ways *)
Theorem dep_lt_crossing : forall a b, fn_like a = true -> fn_like b = true ->
  more_somewhere (any_flags a) (any_flags b) = true -> more_somewhere (any_flags b) (any_flags a) = true ->
  dep_lt a b = false /\ dep_lt b a = false.
Proof.
  assert (X : forall fa fb, more_somewhere fb fa = true -> covers fa fb = false).
  { induction fa as [|x xs IH]; intros [|y ys] H; try discriminate.
    cbn in *. apply orb_true_iff in H as [H|H].
    - destruct x, y; try discriminate; reflexivity.
    - rewrite (IH _ H). apply andb_false_r. }
  intros a b Ha Hb H1 H2. rewrite (dep_lt_slotwise a b Ha), (dep_lt_slotwise b a Hb).
  rewrite (X _ _ H2), (X _ _ H1). now rewrite !andb_false_r.
Qed.

Example crossing_example :
  let a := Fn 10 [None; Some (VInt 1); Some (VInt 1)] (Cls 2) in
  let b := Fn 10 [Some (VInt 1); None; None] (Cls 2) in
  dep_lt a b = false /\ dep_lt b a = false /\ dep_lt (Fn 10 [Some (VInt 1); Some (VInt 1); Some (VInt 1)] (Cls 2)) b = true.
Proof. repeat split; reflexivity. Qed.

(* the order between two parametrised conditions on the same bound is read off the wildcards *)
Section Hier.
  Variable sub : nat -> nat -> bool.
  Variable hasm : nat -> nat -> bool.
  Variable chk : nat -> nat -> bool.
  Variable sub_fresh : nat -> bool.

  Theorem tord_same_bound : forall n a b, fn_like a = true -> is_dep b = true -> ty_eqb a b = false ->
    tord sub hasm chk sub_fresh n (dep_bound a) (dep_bound b) = Some SAME ->
    tord sub hasm chk sub_fresh (S n) a b = Some (if dep_lt a b then LESS else if dep_lt b a then MORE else NONE).
  Proof.
    intros n a b Ha Hb Hne Hbd. destruct a; try discriminate Ha;
      cbn [tord]; unfold tord_body; rewrite Hne; cbn [hook_order]; unfold dep_order; rewrite Hb;
      cbn [dep_bound] in *; rewrite Hbd; reflexivity.
  Qed.
End Hier.

(* ---- DependentType.__type_order__, Union.__type_order__, Intersection.__type_order__ as regenerated from the source ---- *)
Lemma dep_order_src_agree : forall odep bo lt gt s1 s2, dep_order_src odep bo lt gt s1 s2 = dep_decide odep bo lt gt s1 s2.
Proof. intros odep bo lt gt s1 s2. first [reflexivity | destruct odep, bo, lt, gt, s1, s2; reflexivity]. Qed.

Lemma existsb_ext_order (f g : order -> bool) l : (forall x, f x = g x) -> existsb f l = existsb g l.
Proof. intros H. induction l as [|x xs IH]; simpl; [reflexivity|]. now rewrite H, IH. Qed.

Lemma union_order_src_agree : forall cmp,
  union_order_src cmp = match cmp with [] => NONE | _ => if existsb ge_same cmp then MORE else LESS end.
Proof.
  intros cmp. first [reflexivity
    | unfold union_order_src; destruct cmp as [|c cs]; [reflexivity|];
      rewrite (existsb_ext_order _ ge_same) by (intros x; destruct x; reflexivity); reflexivity].
Qed.

Lemma inter_order_src_agree : forall cmp,
  inter_order_src cmp = match cmp with [] => NONE | _ => if existsb le_same cmp then LESS else MORE end.
Proof.
  intros cmp. first [reflexivity
    | unfold inter_order_src; destruct cmp as [|c cs]; [reflexivity|];
      rewrite (existsb_ext_order _ le_same) by (intros x; destruct x; reflexivity); reflexivity].
Qed.

(* the model's hooks are these decisions with the calls (and their fuel) put back in *)
Section Hooks.
  Variable tord : ty -> ty -> option order.
  Variable subck : ty -> ty -> option bool.

  Theorem dep_order_decides : forall t o,
    dep_order tord subck t o =
      if is_dep o then
        omap (fun bo => Some (dep_order_src true bo (dep_lt t o) (dep_lt o t) false false)) (tord (dep_bound t) (dep_bound o))
      else
        obind (subck o (dep_bound t)) (fun s1 =>
          if s1 then Some (Some (dep_order_src false SAME false false true false))
          else omap (fun s2 => Some (dep_order_src false SAME false false false s2)) (subck (dep_bound t) o)).
  Proof.
    intros t o. unfold dep_order. destruct (is_dep o).
    - destruct (tord (dep_bound t) (dep_bound o)) as [bo|]; [|reflexivity].
      cbn [omap]. rewrite dep_order_src_agree. destruct bo; reflexivity.
    - destruct (subck o (dep_bound t)) as [[|]|]; cbn [obind]; rewrite ?dep_order_src_agree; try reflexivity.
      destruct (subck (dep_bound t) o) as [[|]|]; cbn [omap]; rewrite ?dep_order_src_agree; reflexivity.
  Qed.

  Theorem union_hook_decides : forall ts o,
    hook_order tord subck (Uni ts) o =
      omap (fun rs => Some (union_order_src (filter (fun r => negb (order_eqb r NONE)) rs))) (omapM (fun x => tord x o) ts).
  Proof.
    intros ts o. cbn [hook_order]. destruct (omapM (fun x => tord x o) ts) as [rs|]; [|reflexivity].
    cbn [omap]. now rewrite union_order_src_agree.
  Qed.

  Theorem inter_hook_decides : forall ts o,
    hook_order tord subck (Int ts) o =
      omap (fun rs => Some (inter_order_src (filter (fun r => negb (order_eqb r NONE)) rs))) (omapM (fun x => tord x o) ts).
  Proof.
    intros ts o. cbn [hook_order]. destruct (omapM (fun x => tord x o) ts) as [rs|]; [|reflexivity].
    cbn [omap]. now rewrite inter_order_src_agree.
  Qed.
End Hooks.

(* ---- subclasscheck's generic-alias branch as regenerated from the source ---- *)
Lemma gen_sub_src_agree : forall osub plain n1 n2 ok, gen_sub_src osub plain n1 n2 ok = gen_sub_decide osub plain n1 n2 ok.
Proof.
  intros osub plain n1 n2 ok.
  first [reflexivity
        | unfold gen_sub_src, gen_sub_decide; destruct osub, plain, ok;
          destruct (Nat.eqb n1 n2) eqn:E; destruct (Nat.ltb n1 n2) eqn:L1; destruct (Nat.ltb n2 n1) eqn:L2;
          destruct (Nat.leb n1 n2) eqn:G1; destruct (Nat.leb n2 n1) eqn:G2; cbn; try reflexivity;
          exfalso;
          repeat match goal with
                 | H : Nat.eqb _ _ = true |- _ => apply Nat.eqb_eq in H
                 | H : Nat.eqb _ _ = false |- _ => apply Nat.eqb_neq in H
                 | H : Nat.ltb _ _ = true |- _ => apply Nat.ltb_lt in H
                 | H : Nat.ltb _ _ = false |- _ => apply Nat.ltb_ge in H
                 | H : Nat.leb _ _ = true |- _ => apply Nat.leb_le in H
                 | H : Nat.leb _ _ = false |- _ => apply Nat.leb_gt in H
                 end; lia].
Qed.

Section GenBranch.
  Variable sub : nat -> nat -> bool.
  Variable hasm : nat -> nat -> bool.
  Variable chk : nat -> nat -> bool.
  Variable sub_fresh : nat -> bool.

  (* a parametrised generic on the right (no hook there): the model's subclasscheck is the decision of the source, with
     the origin test and the argument-wise tests put back in *)
  Theorem gen_branch_decides : forall (rec : ty -> ty -> option bool) t1 o2 a2,
    ty_eqb t1 (Gen o2 a2) = false ->
    subck_body sub hasm chk sub_fresh rec t1 (Gen o2 a2) =
      let o1' := match t1 with Gen o _ => Cls o | _ => t1 end in
      let a1 := match t1 with Gen _ a => a | _ => [] end in
      match issub_cls sub sub_fresh o1' o2 with
      | None => None
      | Some osub =>
          if osub && Nat.eqb (length a1) (length a2)
          then omap (fun ok => gen_sub_src osub false (length a1) (length a2) ok) (oforall2 rec a1 a2)
          else Some (gen_sub_src osub false (length a1) (length a2) false)
      end.
  Proof.
    intros rec t1 o2 a2 Hne. unfold subck_body. rewrite Hne. cbn [supck].
    cbv zeta. destruct (issub_cls sub sub_fresh match t1 with Gen o _ => Cls o | _ => t1 end o2) as [[|]|].
    - first [reflexivity |
        cbn [andb]; destruct (Nat.eqb (length match t1 with Gen _ a => a | _ => [] end) (length a2)) eqn:E;
        [ destruct (oforall2 rec match t1 with Gen _ a => a | _ => [] end a2) as [ok|]; [|reflexivity];
          cbn [omap]; rewrite gen_sub_src_agree; unfold gen_sub_decide; now rewrite E
        | rewrite gen_sub_src_agree; unfold gen_sub_decide; now rewrite E ]].
    - first [reflexivity | cbn [andb]; rewrite gen_sub_src_agree; reflexivity].
    - reflexivity.
  Qed.
End GenBranch.

(* ---- typeorder's generic-alias block as regenerated from the source ---- *)
Lemma gen_order_src_agree : forall o2p ot2 oo e1 e2 n1 n2 merged,
  gen_order_src o2p ot2 oo e1 e2 n1 n2 merged = gen_order_decide o2p ot2 oo e1 e2 n1 n2 merged.
Proof.
  intros o2p ot2 oo e1 e2 n1 n2 merged.
  first [reflexivity
        | unfold gen_order_src, gen_order_decide; destruct o2p, ot2, oo, e1, e2;
          destruct (Nat.eqb n1 n2) eqn:E; destruct (Nat.ltb n1 n2) eqn:L1; destruct (Nat.ltb n2 n1) eqn:L2;
          destruct (Nat.leb n1 n2) eqn:G1; destruct (Nat.leb n2 n1) eqn:G2; cbn; try reflexivity;
          exfalso;
          repeat match goal with
                 | H : Nat.eqb _ _ = true |- _ => apply Nat.eqb_eq in H
                 | H : Nat.eqb _ _ = false |- _ => apply Nat.eqb_neq in H
                 | H : Nat.ltb _ _ = true |- _ => apply Nat.ltb_lt in H
                 | H : Nat.ltb _ _ = false |- _ => apply Nat.ltb_ge in H
                 | H : Nat.leb _ _ = true |- _ => apply Nat.leb_le in H
                 | H : Nat.leb _ _ = false |- _ => apply Nat.leb_gt in H
                 end; lia].
Qed.

Definition nonempty {X} (l : list X) : bool := match l with [] => false | _ => true end.

Section GenOrder.
  Variable sub : nat -> nat -> bool.
  Variable hasm : nat -> nat -> bool.
  Variable chk : nat -> nat -> bool.
  Variable sub_fresh : nat -> bool.
  Variable rec : ty -> ty -> option order.
  Variable srec : ty -> ty -> option bool.
  Notation tord_body := (tord_body sub hasm chk sub_fresh).

  (* two generic aliases: the model's typeorder is the decision of the source with the comparisons put back in *)
  Theorem gen_gen_order_decides : forall o1 a1 o2 a2,
    ty_eqb (Gen o1 a1) (Gen o2 a2) = false ->
    tord_body rec srec (Gen o1 a1) (Gen o2 a2) =
      match rec (Cls o1) (Cls o2) with
      | None => None
      | Some oo =>
          if order_eqb oo SAME && negb (nonempty a1 && negb (nonempty a2)) && negb (nonempty a2 && negb (nonempty a1))
             && Nat.eqb (length a1) (length a2)
          then omap (fun rs => gen_order_src true NONE oo (nonempty a1) (nonempty a2) (length a1) (length a2) (merge rs)) (omapM2 rec a1 a2)
          else Some (gen_order_src true NONE oo (nonempty a1) (nonempty a2) (length a1) (length a2) NONE)
      end.
  Proof.
    intros o1 a1 o2 a2 Hne. unfold tord_body. rewrite Hne. cbn [hook_order].
    destruct (rec (Cls o1) (Cls o2)) as [oo|]; [|reflexivity].
    rewrite !gen_order_src_agree. unfold gen_order_decide. cbn [negb].
    destruct oo; cbn [order_eqb andb]; try reflexivity.
    destruct a1 as [|x xs], a2 as [|y ys]; cbn [nonempty andb negb length Nat.eqb]; try reflexivity.
    destruct (Nat.eqb (length xs) (length ys)) eqn:E; [|reflexivity].
    destruct (omapM2 rec (x :: xs) (y :: ys)) as [rs|]; cbn [omap]; [|reflexivity].
    reflexivity || (cbn; rewrite ?E; reflexivity).
  Qed.

  (* a generic alias against a plain class: the comparison of the origin, SAME read as LESS *)
  Theorem gen_cls_order_decides : forall o1 a1 d,
    tord_body rec srec (Gen o1 a1) (Cls d) =
      omap (fun ot2 => gen_order_src false ot2 NONE (nonempty a1) false (length a1) 0 NONE) (rec (Cls o1) (Cls d)).
  Proof.
    intros o1 a1 d. unfold tord_body. cbn [ty_eqb hook_order].
    destruct (rec (Cls o1) (Cls d)) as [ot2|]; [|reflexivity].
    cbn [omap]. rewrite gen_order_src_agree. unfold gen_order_decide. cbn [negb]. destruct ot2; reflexivity.
  Qed.
End GenOrder.

(* ---- generate_dependent_dispatch: the two decisions that pick the strategy, as regenerated from recode.py ---- *)
From OvldV Require Import Model.Dep Proofs.LeafTactics.

Lemma keyable_agree : forall distinct nkeyed nfeat, keyable_src distinct nkeyed nfeat = keyable_decide distinct nkeyed nfeat.
Proof.
  intros distinct nkeyed nfeat.
  first [reflexivity
        | unfold keyable_src, keyable_decide; split_ifs; to_prop; try reflexivity; exfalso; lia].
Qed.

Lemma final_choice_agree : forall haskey exclusive, final_src haskey exclusive = final_choice haskey exclusive.
Proof. intros haskey exclusive. first [reflexivity | destruct haskey, exclusive; reflexivity]. Qed.
