(* ClassDict.v — the class-body namespace of the overloading metaclass (core.py: ovld_cls_dict.__setitem__,
   OvldMC.__prepare__, extend_super, to_ovld, and the part of @ovld / _find_overload that looks the name up in the
   class body being executed), as functions from
     - what each base class (in base order) answers for [getattr(base, name, None)]:
         nothing | a plain function | an overloaded function (graph node, with or without the _extend_super mark)
     - the definitions of that name in the class body, in order: plain [def], [@ovld def], [@extend_super def]
   to graph operations (Model/Graph.v) and the resulting entry of the class dictionary.
   Names are independent of each other in both functions, so one name is treated at a time.

   The _extend_super mark lives on the dispatch function of the node made by [extend_super]; no path renames such a
   node afterwards, so the mark is carried in the attribute value. *)
From Coq Require Import ZArith List Bool Arith.
Import ListNotations.
From OvldV Require Import Model.Graph.

Inductive attr : Type :=
| ANone                              (* the name is absent / getattr gave None *)
| APlain (sig l : nat)               (* a plain function *)
| AOvld (n : nat) (mark : bool).     (* the dispatch function of node n; mark = _extend_super *)

Inductive defkind : Type := DPlain | DOvld | DExt.
Record def : Type := mkDef { d_kind : defkind; d_sig : nat; d_label : nat }.

(* how the execution of a class statement can fail *)
Inductive cerr : Type :=
| EName      (* AttributeError: 'function' object has no attribute 'name' -- raised before the repair of KF-41
                (to_ovld of a plain function returned the dispatch function); no longer produced by the model *)
| ENotOvld   (* TypeError: @ovld requires Ovld instance (the name is bound to a plain function) *)
| ELocked    (* "locked for modifications" *)
| EOther.    (* Invalid / Stuck of the graph model: unreachable from well-formed inputs *)

Inductive cres (A : Type) : Type :=
| COk (g : graph) (a : A)
| CFail (e : cerr).
Arguments COk {A} g a.
Arguments CFail {A} e.

Definition cbind {A B} (r : cres A) (k : graph -> A -> cres B) : cres B :=
  match r with COk g a => k g a | CFail e => CFail e end.

Definition of_step (r : graph * outcome) : cres unit :=
  match r with
  | (g, Done) => COk g tt
  | (_, Locked) => CFail ELocked
  | (_, _) => CFail EOther
  end.

Definition cd_create (g : graph) (ms : list nat) : cres nat :=
  cbind (of_step (do_create g ms false)) (fun g' _ => COk g' (length g)).
Definition cd_register (g : graph) (n sig l : nat) : cres unit := of_step (do_register g n sig l).
Definition cd_add_mixins (g : graph) (n : nat) (ms : list nat) : cres unit := of_step (do_add_mixins g n ms).

(* ovld(fn, fresh=True): a new node with fn registered *)
Definition cd_fresh (g : graph) (sig l : nat) : cres nat :=
  cbind (cd_create g []) (fun g1 n => cbind (cd_register g1 n sig l) (fun g2 _ => COk g2 n)).

(* [to_ovld(candidate)] for each base, skipping those that answer nothing *)
Fixpoint cd_base_mixins (g : graph) (bases : list attr) : cres (list nat) :=
  match bases with
  | [] => COk g []
  | ANone :: r => cd_base_mixins g r
  | AOvld m _ :: r => cbind (cd_base_mixins g r) (fun g' ms => COk g' (m :: ms))
  | APlain s l :: r => cbind (cd_fresh g s l) (fun g1 m => cbind (cd_base_mixins g1 r) (fun g2 ms => COk g2 (m :: ms)))
  end.

Fixpoint cd_add_each (g : graph) (p : nat) (others : list nat) : cres unit :=
  match others with
  | [] => COk g tt
  | m :: r => cbind (cd_add_mixins g p [m]) (fun g' _ => cd_add_each g' p r)
  end.

Fixpoint cd_register_each (g : graph) (o : nat) (others : list attr) : cres unit :=
  match others with
  | [] => COk g tt
  | APlain s l :: r => cbind (cd_register g o s l) (fun g' _ => cd_register_each g' o r)
  | _ :: r => cd_register_each g o r
  end.

Definition is_ov (a : attr) : bool := match a with AOvld _ _ => true | _ => false end.
Definition marked_nodes (l : list attr) : list nat :=
  flat_map (fun a => match a with AOvld m true => [m] | _ => [] end) l.

(* OvldMC.__prepare__, for one name: when an overloaded function of a later base carries the _extend_super mark,
   the first base's overloaded function is copied with the marked ones as mixins, the bases' plain functions of
   that name are registered on the copy, and the copy is put in the namespace before the body runs *)
Definition cd_prepare (g : graph) (bases : list attr) : cres attr :=
  match filter is_ov bases with
  | AOvld n0 _ :: rest =>
      match marked_nodes rest with
      | [] => COk g ANone
      | mixins =>
          cbind (cd_create g (n0 :: mixins)) (fun g1 o =>
          cbind (cd_register_each g1 o bases) (fun g2 _ => COk g2 (AOvld o false)))
      end
  | _ => COk g ANone
  end.

(* does __prepare__ put a merged function into the namespace for this name? *)
Definition prepared_b (bases : list attr) : bool :=
  match filter is_ov bases with
  | AOvld _ _ :: rest => negb (is_nil (marked_nodes rest))
  | _ => false
  end.

(* one definition in the body: the decorator (if any), then ovld_cls_dict.__setitem__ *)
Definition cd_setitem (g : graph) (bases : list attr) (cur : attr) (d : def) : cres attr :=
  let sig := d_sig d in
  let l := d_label d in
  match d_kind d with
  | DPlain =>
      match cur with
      | ANone => COk g (APlain sig l)
      | APlain s0 l0 =>
          cbind (cd_fresh g s0 l0) (fun g1 p => cbind (cd_register g1 p sig l) (fun g2 _ => COk g2 (AOvld p false)))
      | AOvld n f => cbind (cd_register g n sig l) (fun g1 _ => COk g1 (AOvld n f))
      end
  | DOvld =>
      match cur with
      | ANone => cbind (cd_fresh g sig l) (fun g1 n => COk g1 (AOvld n false))
      | APlain _ _ => CFail ENotOvld
      | AOvld n f =>
          cbind (cd_register g n sig l) (fun g1 _ =>
          cbind (cd_add_mixins g1 n [n]) (fun g2 _ => COk g2 (AOvld n f)))
      end
  | DExt =>
      cbind (cd_fresh g sig l) (fun g1 N =>
      match cur with
      | APlain s0 l0 =>
          (* to_ovld wraps the plain function into a fresh Ovld p; the marked function becomes a mixin of p *)
          cbind (cd_fresh g1 s0 l0) (fun g2 p =>
          cbind (cd_add_mixins g2 p [N]) (fun g3 _ => COk g3 (AOvld p false)))
      | AOvld n f => cbind (cd_add_mixins g1 n [N]) (fun g2 _ => COk g2 (AOvld n f))
      | ANone =>
          cbind (cd_base_mixins g1 bases) (fun g2 ms =>
          match ms with
          | [] => COk g2 (AOvld N true)
          | m0 :: others =>
              cbind (cd_create g2 [m0]) (fun g3 p =>
              cbind (cd_add_each g3 p others) (fun g4 _ =>
              cbind (cd_add_mixins g4 p [N]) (fun g5 _ => COk g5 (AOvld p false))))
          end)
      end)
  end.

Fixpoint cd_body (g : graph) (bases : list attr) (cur : attr) (body : list def) : cres attr :=
  match body with
  | [] => COk g cur
  | d :: r => cbind (cd_setitem g bases cur d) (fun g' cur' => cd_body g' bases cur' r)
  end.

(* one name of one class statement: __prepare__, then the body's definitions in order *)
Definition cd_name (g : graph) (bases : list attr) (body : list def) : cres attr :=
  cbind (cd_prepare g bases) (fun g1 cur0 => cd_body g1 bases cur0 body).

(* a class WITHOUT the metaclass (plain mixin class): the body's namespace is an ordinary dict; only the decorators act *)
Definition pd_setitem (g : graph) (cur : attr) (d : def) : cres attr :=
  let sig := d_sig d in
  let l := d_label d in
  match d_kind d with
  | DPlain => COk g (APlain sig l)
  | DOvld =>
      match cur with
      | ANone => cbind (cd_fresh g sig l) (fun g1 n => COk g1 (AOvld n false))
      | APlain _ _ => CFail ENotOvld
      | AOvld n f => cbind (cd_register g n sig l) (fun g1 _ => COk g1 (AOvld n f))
      end
  | DExt => cbind (cd_fresh g sig l) (fun g1 N => COk g1 (AOvld N true))
  end.

Fixpoint pd_body (g : graph) (cur : attr) (body : list def) : cres attr :=
  match body with
  | [] => COk g cur
  | d :: r => cbind (pd_setitem g cur d) (fun g' cur' => pd_body g' cur' r)
  end.

Definition pd_name (g : graph) (body : list def) : cres attr := pd_body g ANone body.

(* ---------- decidable domains used by the theorems of Props/C17.v ---------- *)
Definition attr_valid (g : graph) (a : attr) : bool :=
  match a with AOvld m _ => Nat.ltb m (length g) | _ => true end.
Definition attrs_valid (g : graph) (bases : list attr) : bool := forallb (attr_valid g) bases.
Definition present (a : attr) : bool := match a with ANone => false | _ => true end.
Definition regs_of (body : list def) : list (nat * nat) := map (fun d => (d_sig d, d_label d)) body.

Definition is_ext (d : def) : bool := match d_kind d with DExt => true | _ => false end.
Definition is_dovld (d : def) : bool := match d_kind d with DOvld => true | _ => false end.
Definition is_dplain (d : def) : bool := match d_kind d with DPlain => true | _ => false end.

(* bodies whose definitions merge into one function: no extend_super mark, and no @ovld after a lone plain def *)
Definition merge_dom (body : list def) : bool :=
  match body with
  | d1 :: d2 :: r =>
      forallb (fun d => negb (is_ext d)) body &&
      (is_dovld d1 || (is_dplain d1 && is_dplain d2))
  | _ => false
  end.

(* bodies that extend the inherited function: the mark is on the first definition only, the rest are plain or @ovld *)
Definition extend_dom (body : list def) : bool :=
  match body with
  | d1 :: r => is_ext d1 && forallb (fun d => negb (is_ext d)) r
  | [] => false
  end.

(* cls_kf41: plain def directly followed (as second definition of the name) by an extend_super-marked one
   (crashed before the repair of KF-41; now an instance of cls_kf42);
   KF-42: an extend_super mark on a definition that is not the first of its name in the body *)
Definition cls_kf41 (cur0 : attr) (body : list def) : bool :=
  match cur0, body with
  | ANone, d1 :: d2 :: _ => is_dplain d1 && is_ext d2
  | _, _ => false
  end.
Definition cls_kf42 (body : list def) : bool :=
  match body with
  | _ :: r => existsb is_ext r
  | [] => false
  end.
