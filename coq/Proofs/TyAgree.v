(* TyAgree.v — the specificity order and the subtype test agree on plain classes at their public entry points:
   "strictly more specific" is "proper subclass", "equally specific" is "same class", and a class that is not under
   another is never more specific than it (C12 / C13). *)
From Coq Require Import List Bool Arith Lia.
Import ListNotations.
From OvldV Require Import Model.Order Model.Ty Model.TyDom Spec.Denot Proofs.TyEq Proofs.TySub Proofs.TyTotal Proofs.TyOrder.

Section Agree.
  Variable sub : nat -> nat -> bool.
  Variable hasm : nat -> nat -> bool.
  Variable chk : nat -> nat -> bool.
  Variable sub_fresh : nat -> bool.
  Hypothesis sub_refl : forall c, sub c c = true.
  Hypothesis sub_antisym : forall c d, sub c d = true -> sub d c = true -> c = d.

  Notation to := (typeorder sub hasm chk sub_fresh).
  Notation sc := (subclasscheck sub hasm chk sub_fresh).

  Lemma to_cls c d : to (Cls c) (Cls d) = Some (cls_order sub c d).
  Proof. unfold typeorder, fuel_for. cbn [tsize Nat.add Nat.mul]. apply tord_cls. Qed.

  Lemma sc_cls c d : sc (Cls c) (Cls d) = Some (sub c d).
  Proof. unfold subclasscheck, fuel_for. cbn [tsize Nat.add Nat.mul]. now apply subck_classes. Qed.

  Theorem typeorder_less_is_proper_subclass c d :
    to (Cls c) (Cls d) = Some LESS <-> (sc (Cls c) (Cls d) = Some true /\ c <> d).
  Proof.
    rewrite to_cls, sc_cls. split.
    - intros [= H]. apply (cls_order_less sub sub_antisym) in H. destruct H as [H1 H2]. now rewrite H1.
    - intros [[= H1] H2]. f_equal. apply (cls_order_less sub sub_antisym). now split.
  Qed.

  Theorem typeorder_not_less_when_not_subclass c d :
    sc (Cls c) (Cls d) = Some false -> to (Cls c) (Cls d) <> Some LESS.
  Proof.
    intros H Hl. apply typeorder_less_is_proper_subclass in Hl. destruct Hl as [Hl _]. congruence.
  Qed.
End Agree.
