(* BuildPar.v -- threads: warm lookups never write, hence any interleaving returns the sequential results. *)
From Coq Require Import List Bool Arith Lia.
Import ListNotations.
From OvldV Require Import Model.BuildM Proofs.BuildBase.

Section Par.
  Variable chain : list label -> key -> list rank.
  Variable meth : label -> minfo.
  Variable K : list key.
  Variable s : shared.
  Hypothesis W : warm K s = true.

  Notation step := (tstep chain meth).

  Lemma warm_entry : s_entry s = Generated.
  Proof. unfold warm in W. destruct (s_entry s); [discriminate|reflexivity]. Qed.
  Lemma warm_cn : s_cnmap s = s_map s.
  Proof. unfold warm in W. apply andb_true_iff in W as [W1 _]. apply andb_true_iff in W1 as [_ W1]. apply Nat.eqb_eq; exact W1. Qed.
  Lemma warm_hit : forall k : key, mem k K = true -> exists h, alookup ckey_eqb ((0, k) : ckey) (t_dict (tbl s (s_map s))) = Some h.
  Proof.
    intros k Hk. unfold warm in W. apply andb_true_iff in W as [_ W2].
    unfold mem in Hk. apply existsb_exists in Hk as [k' [Hin E]]. apply Nat.eqb_eq in E; subst k'.
    rewrite forallb_forall in W2. specialize (W2 k Hin). cbv beta in W2.
    match type of W2 with (match ?t with _ => _ end) = true => destruct t as [h|] eqn:E end; [exists h; first [exact E|reflexivity]|discriminate W2].
  Qed.

  (* positions of a thread that only reads *)
  Definition reader (l : local) : Prop :=
    match l_pc l with
    | PStart (OCall k) | PDispatch k | PRun _ _ k | PNext _ _ k => mem k K = true
    | PN1 t _ _ k | PN2 t _ _ k => t = s_map s /\ mem k K = true
    | PDone _ => True
    | _ => False
    end.

  Lemma reader_step : forall l, reader l -> fst (step s l) = s /\ reader (snd (step s l)).
  Proof.
    intros [p tr] R. unfold reader in R; cbn [l_pc] in R.
    destruct p as [[k|d|d]| |c a|k|t k cl|t k cl st ws|t k cl|h ob k|h ob k|t h ob k|t h ob k|r]; try contradiction;
      unfold tstep; cbn [l_pc l_trace].
    - rewrite warm_entry. cbn. split; auto.
    - destruct (warm_hit k R) as [h E]. rewrite E. cbn. split; auto.
    - destruct (m_body (meth h)); cbn; split; auto.
    - rewrite warm_cn. destruct (registered (tbl s (s_map s)) h ob); [|cbn; split; auto].
      destruct (alookup ckey_eqb (S h, k) (t_dict (tbl s (s_map s)))); cbn; split; auto.
    - destruct R as [-> R]. destruct (warm_hit k R) as [h0 E]. rewrite E. cbn. split; auto.
    - destruct R as [-> R]. destruct (warm_hit k R) as [h0 E]. rewrite E.
      destruct (alookup Nat.eqb k (t_all (tbl s (s_map s)))); cbn; [|split; [auto|exact I]].
      destruct (negb _); cbn; [split; auto|].
      destruct (alookup ckey_eqb (S h, k) (t_errs (tbl s (s_map s)))); cbn; [split; [auto|exact I]|].
      destruct (alookup ckey_eqb (S h, k) (t_dict (tbl s (s_map s)))); cbn; split; auto; exact I.
    - split; auto.
  Qed.

  Lemma reader_run : forall n l, reader l -> fst (run_alone chain meth n s l) = s /\ reader (snd (run_alone chain meth n s l)).
  Proof.
    induction n as [|n IH]; intros l R; cbn; [auto|].
    destruct (reader_step l R) as [E R']. destruct (step s l) as [s' l']. cbn in E, R'. subst s'. apply IH; exact R'.
  Qed.

  Lemma run_alone_S : forall n l, reader l -> run_alone chain meth (S n) s l = run_alone chain meth n s (snd (step s l)).
  Proof.
    intros n l R. cbn. destruct (reader_step l R) as [E _]. destruct (step s l) as [s' l']. cbn in *. subst; reflexivity.
  Qed.

  (* any schedule over a pool of readers: shared state untouched, every thread is where it would be alone *)
  Theorem readers_schedule : forall sch p, Forall reader p ->
    fst (run_schedule chain meth s p sch) = s /\
    forall i, nth_error (snd (run_schedule chain meth s p sch)) i =
              option_map (fun l => snd (run_alone chain meth (count_occ Nat.eq_dec sch i) s l)) (nth_error p i).
  Proof.
    induction sch as [|j sch IH]; intros p RP; cbn [run_schedule].
    - split; [reflexivity|]. intros i. cbn. destruct (nth_error p i); reflexivity.
    - unfold sched_step. destruct (nth_error p j) as [l|] eqn:EJ.
      + assert (R : reader l) by (rewrite Forall_forall in RP; apply RP; eapply nth_error_In; eauto).
        destruct (reader_step l R) as [E R']. destruct (step s l) as [s' l'] eqn:ES. cbn [fst snd] in E, R'. subst s'.
        assert (RP' : Forall reader (set_nth j l' p)).
        { clear - RP R'. revert j. induction p as [|x p IHp]; intros [|j]; cbn; auto; inversion RP; subst; constructor; auto. }
        destruct (IH _ RP') as [A B]. split; [exact A|]. intros i. rewrite B.
        cbn [count_occ]. destruct (Nat.eq_dec j i) as [->|N].
        * rewrite (nth_error_set_nth_eq _ _ _ _ EJ), EJ. cbn [option_map]. f_equal.
          rewrite run_alone_S by exact R. rewrite ES. reflexivity.
        * rewrite nth_error_set_nth_neq by exact N. reflexivity.
      + destruct (IH _ RP) as [A B]. split; [exact A|]. intros i. rewrite B.
        cbn [count_occ]. destruct (Nat.eq_dec j i) as [->|N]; [|reflexivity]. rewrite EJ. reflexivity.
  Qed.

  Lemma start_reader : forall o, call_in K o = true -> reader (start o).
  Proof. intros [k|d|d] H; cbn in *; try discriminate. exact H. Qed.

  (* C19_warm: calls for keys in K, any number of threads, any schedule *)
  Theorem warm_interleaving : forall ops sch, forallb (call_in K) ops = true ->
    let r := run_schedule chain meth s (map start ops) sch in
    fst r = s /\
    forall i o, nth_error ops i = Some o ->
      nth_error (snd r) i = Some (snd (run_alone chain meth (count_occ Nat.eq_dec sch i) s (start o))) /\
      fst (run_alone chain meth (count_occ Nat.eq_dec sch i) s (start o)) = s.
  Proof.
    intros ops sch H r.
    assert (RP : Forall reader (map start ops)).
    { apply Forall_forall. intros l Hl. apply in_map_iff in Hl as [o [<- Ho]]. apply start_reader.
      rewrite forallb_forall in H. apply H; exact Ho. }
    destruct (readers_schedule sch _ RP) as [A B]. split; [exact A|].
    intros i o Ho. split.
    - unfold r. rewrite B, nth_error_map, Ho. reflexivity.
    - apply reader_run. apply start_reader. rewrite forallb_forall in H. apply H. eapply nth_error_In; eauto.
  Qed.

  (* a finished thread returned what the same call returns alone, with any larger fuel, and left the state as it was *)
  Theorem warm_results : forall ops sch i o x, forallb (call_in K) ops = true -> nth_error ops i = Some o ->
    option_map result_of (nth_error (snd (run_schedule chain meth s (map start ops) sch)) i) = Some (Some x) ->
    forall fuel, count_occ Nat.eq_dec sch i <= fuel -> run_op chain meth fuel s o = (s, Some x).
  Proof.
    intros ops sch i o x H Ho Hx fuel F.
    destruct (warm_interleaving ops sch H) as [_ B]. destruct (B i o Ho) as [E _]. rewrite E in Hx. cbn in Hx.
    injection Hx as Hx. set (n := count_occ Nat.eq_dec sch i) in *.
    assert (R0 : reader (start o)).
    { apply start_reader. rewrite forallb_forall in H. apply H. eapply nth_error_In; eauto. }
    replace fuel with (n + (fuel - n)) by lia.
    assert (SPLIT : forall a b s0 l0, run_alone chain meth (a + b) s0 l0 =
                     run_alone chain meth b (fst (run_alone chain meth a s0 l0)) (snd (run_alone chain meth a s0 l0))).
    { induction a; intros; cbn; auto. destruct (step s0 l0). apply IHa. }
    unfold run_op. rewrite SPLIT. destruct (reader_run n _ R0) as [E1 _]. rewrite E1.
    destruct (snd (run_alone chain meth n s (start o))) as [p tr] eqn:EL. unfold result_of in Hx; cbn in Hx.
    destruct p; try discriminate. injection Hx as <-.
    clear. induction (fuel - n); cbn; auto.
  Qed.
End Par.
