(* C06 — resolution is deterministic and ignores irrelevant context.
   Theorems only.  In the model the iteration orders of the library's internal sets are explicit: registered types are
   visited in the order of first registration in the method list, candidates in the order of the method list, so
   "every iteration order / registration order" is "every permutation of the method list". *)
From Coq Require Import ZArith List Bool Arith Permutation.
Import ListNotations.
From OvldV Require Import Model.Order Model.Ty Model.Codec Model.Resolve Spec.Dispatch Proofs.ResolveStatic Proofs.ResolveChain Gen.Leaf Proofs.LeafOrder Proofs.LeafCand.

Definition Refl (sub : nat -> nat -> bool) := forall c, sub c c = true.
Definition Antisym (sub : nat -> nat -> bool) := forall c d, sub c d = true -> sub d c = true -> c = d.

(* second tie to the source: the order-sensitive leaf functions (Order.opposite / merge behind every type comparison,
   Candidate.dominates behind every rank) as regenerated from /repo's current text are the ones the model uses *)
Theorem C06_leaf_tied :
  (forall o, opposite_src o = opposite o) /\ (forall l, merge_src l = merge l) /\ (forall a b, dominates_src a b = dominates a b).
Proof. exact (conj opposite_agree (conj merge_agree dominates_agree)). Qed.
Print Assumptions C06_leaf_tied.

(* FULL STATEMENT (false of the faithful model: C06_..._refuted below): the outcome of a call is the same for every
   permutation of the method list and unchanged by adding methods that are not applicable to the call.
   PROVED on the static fragment for every call the documented rule decides (a winner, or no applicable method):
   every registration / iteration order returns that outcome, and non-applicable methods do not change it. *)
Theorem C06_order_free_when_decided : forall sub hasm chk fresh, Refl sub -> Antisym sub ->
  forall ms ms' k cs' i,
  NoDup (map m_id ms) -> static_ms ms = true -> static_key k = true ->
  Permutation ms ms' -> candidates sub hasm chk fresh ms' k = Ok cs' ->
  spec_outcome sub ms k = VRun i -> lookup sub hasm chk fresh ms' k = ORun i.
Proof. exact decided_order_free. Qed.
Print Assumptions C06_order_free_when_decided.

Theorem C06_nomethod_order_free : forall sub hasm chk fresh ms ms' k cs cs',
  static_ms ms = true -> static_key k = true -> Permutation ms ms' ->
  candidates sub hasm chk fresh ms k = Ok cs -> candidates sub hasm chk fresh ms' k = Ok cs' ->
  (lookup sub hasm chk fresh ms k = ONoMethod <-> lookup sub hasm chk fresh ms' k = ONoMethod).
Proof. exact nomethod_order_free. Qed.
Print Assumptions C06_nomethod_order_free.

Theorem C06_irrelevant_when_decided : forall sub hasm chk fresh, Refl sub -> Antisym sub ->
  forall ms extra k cs' i,
  NoDup (map m_id (ms ++ extra)) -> static_ms (ms ++ extra) = true -> static_key k = true ->
  (forall m, In m extra -> applicable sub m k = false) ->
  candidates sub hasm chk fresh (ms ++ extra) k = Ok cs' ->
  spec_outcome sub ms k = VRun i -> lookup sub hasm chk fresh (ms ++ extra) k = ORun i.
Proof. exact decided_irrelevant. Qed.
Print Assumptions C06_irrelevant_when_decided.

(* ... and for EVERY call -- decided or ambiguous -- whose classes fall under pairwise comparable registered types at each
   position (chain_applicable; every call under single inheritance): the verdict (which method / NoMethod / Ambiguous)
   is the same for every permutation of the method list, and unchanged by methods not applicable to the call.
   (verdict_of forgets only the order in which an Ambiguous error lists its candidates.) *)
Definition Trans (sub : nat -> nat -> bool) := forall a b c, sub a b = true -> sub b c = true -> sub a c = true.

Theorem C06_order_free_on_chains : forall sub hasm chk fresh, Refl sub -> Antisym sub -> Trans sub -> forall ms ms' k,
  NoDup (map m_id ms) -> static_ms ms = true -> static_key k = true ->
  chain_applicable sub ms k = true -> ties_wf ms = true -> Permutation ms ms' ->
  verdict_of (lookup sub hasm chk fresh ms' k) = verdict_of (lookup sub hasm chk fresh ms k).
Proof. exact chain_order_free. Qed.
Print Assumptions C06_order_free_on_chains.

Theorem C06_irrelevant_on_chains : forall sub hasm chk fresh, Refl sub -> Antisym sub -> Trans sub -> forall ms extra k,
  NoDup (map m_id (ms ++ extra)) -> static_ms (ms ++ extra) = true -> static_key k = true ->
  chain_applicable sub (ms ++ extra) k = true -> ties_wf ms = true -> ties_wf (ms ++ extra) = true ->
  (forall m, In m extra -> applicable sub m k = false) ->
  verdict_of (lookup sub hasm chk fresh (ms ++ extra) k) = verdict_of (lookup sub hasm chk fresh ms k).
Proof. exact chain_irrelevant. Qed.
Print Assumptions C06_irrelevant_on_chains.

(* ---- refutations of the full statement ---- *)
Definition wh : hier :=   (* 0 object, 1 A, 2 B, 3 C(A,B), 4 D *)
  {| h_supers := [[0]; [0; 1]; [0; 2]; [0; 1; 2; 3]; [0; 4]]; h_meths := []; h_preds := []; h_fresh := [0] |}.
Definition lk := lookup (hsub wh) (hhasm wh) (hchk wh) (hfresh wh).

(* KF-06 / KF-23: f(x: A | B), f(x: A | C), f(x: A | D) called with a C(A, B): overlapping unions compare asymmetrically
   (the left operand's hook answers first), so which method wins -- or whether graphlib reports a cycle -- depends on
   the order in which the registered types are visited *)
Definition g1 := mkMeth 0 [Uni [Cls 1; Cls 2]] [] 1 [] 0 0.
Definition g2 := mkMeth 1 [Uni [Cls 1; Cls 3]] [] 1 [] 0 0.
Definition g3 := mkMeth 2 [Uni [Cls 1; Cls 4]] [] 1 [] 0 0.
Theorem C06_order_refuted_union :
  exists ms ms' k, Permutation ms ms' /\ lk ms k = ORun 1 /\ lk ms' k = ORun 2.
Proof.
  exists [g1; g2; g3], [g3; g1; g2], (mkKey [Cls 3] []). split.
  - apply Permutation_sym. apply (Permutation_cons_app [g1; g2] [] g3). reflexivity.
  - vm_compute. split; reflexivity.
Qed.
Print Assumptions C06_order_refuted_union.

Theorem C06_order_refuted_cycle :
  exists ms ms' k, Permutation ms ms' /\ lk ms k = OCycle /\ lk ms' k = ORun 1.
Proof.
  exists [g1; g3; g2], [g1; g2; g3], (mkKey [Cls 3] []). split; [apply perm_skip; apply perm_swap|].
  vm_compute. split; reflexivity.
Qed.
Print Assumptions C06_order_refuted_cycle.

(* KF-01: a method that is not applicable to the call (it needs two arguments) changes the outcome of a 1-argument call *)
Definition wh2 : hier :=   (* 0 object, 1 A, 2 B, 3 B2(B), 4 D(A, B2), 5 int *)
  {| h_supers := [[0]; [0; 1]; [0; 2]; [0; 2; 3]; [0; 1; 2; 3; 4]; [0; 5]]; h_meths := []; h_preds := []; h_fresh := [0] |}.
Definition ma := mkMeth 0 [Cls 1] [] 1 [] 0 0.
Definition mb := mkMeth 1 [Cls 2] [] 1 [] 0 0.
Definition mx := mkMeth 2 [Cls 3; Cls 5] [] 2 [] 0 0.
Theorem C06_irrelevant_refuted :
  applicable (hsub wh2) mx (mkKey [Cls 4] []) = false /\
  lookup (hsub wh2) (hhasm wh2) (hchk wh2) (hfresh wh2) [ma; mb] (mkKey [Cls 4] []) = OAmbig [0; 1] /\
  lookup (hsub wh2) (hhasm wh2) (hchk wh2) (hfresh wh2) [ma; mb; mx] (mkKey [Cls 4] []) = ORun 0.
Proof. vm_compute. repeat split; reflexivity. Qed.
Print Assumptions C06_irrelevant_refuted.
