(* Sx.v — integer s-expressions: the only data format crossing the model boundary.
   Every case the harness sends to the model and every outcome it reads back is an [sx];
   all decoding/encoding is written in Gallina, so the same functions run extracted
   (OCaml driver) and inside Coq ([Eval vm_compute], the cross-check). *)
From Coq Require Import ZArith List Bool.
Import ListNotations.

Inductive sx : Type := A (z : Z) | L (l : list sx).

Definition sx_z (s : sx) : Z := match s with A z => z | L _ => 0%Z end.
Definition sx_nat (s : sx) : nat := Z.to_nat (sx_z s).
Definition sx_bool (s : sx) : bool := negb (Z.eqb (sx_z s) 0).
Definition sx_list (s : sx) : list sx := match s with A _ => [] | L l => l end.
Definition sx_nth (i : nat) (s : sx) : sx := nth i (sx_list s) (A 0%Z).
Definition sx_tag (s : sx) : Z := match s with L (A z :: _) => z | _ => (-1)%Z end.
Definition sx_args (s : sx) : list sx := match s with L (_ :: r) => r | _ => [] end.
Definition sx_arg (i : nat) (s : sx) : sx := nth i (sx_args s) (A 0%Z).

Definition of_nat (n : nat) : sx := A (Z.of_nat n).
Definition of_bool (b : bool) : sx := A (if b then 1 else 0)%Z.
Definition of_nats (l : list nat) : sx := L (map of_nat l).
