(* Run_Dep.v — executable entry points of the value-dependent dispatch model (C10, C11, C01, C14, C15). *)
(* OPCODE 20 run_dcalls *)
(* OPCODE 21 run_instance *)
(* OPCODE 22 run_artifact *)
From Coq Require Import ZArith List Bool Arith.
Import ListNotations.
From OvldV Require Import Model.Sx Model.Order Model.Ty Model.Codec Model.Resolve Model.Run_Resolve Model.Dep.

(* utab: ((fid v...)...) : values on which user predicate fid is true *)
Definition utab_of (s : sx) : nat -> val -> bool :=
  let tab := map (fun r => (sx_nat (sx_nth 0 r), map val_of (tl (sx_list r)))) (sx_list s) in
  fun f v => match find (fun p => Nat.eqb (fst p) f) tab with
             | Some p => val_in v (snd p)
             | None => false
             end.

Definition slot_of_sx (s : sx) : slot :=
  match sx_z (sx_nth 0 s) with 0%Z => SPos (sx_nat (sx_nth 1 s)) | _ => SKw (sx_nat (sx_nth 1 s)) end.

Definition args_of (s : sx) : list (slot * val) :=
  map (fun a => (slot_of_sx (sx_nth 0 a), val_of (sx_nth 1 a))) (sx_list s).

Definition of_dout (o : dout) : sx :=
  match o with
  | DRun m => L [A 0%Z; of_nat m]
  | DNoMethod => L [A 1%Z]
  | DAmbig l => L (A 2%Z :: map of_nat l)
  | DCycle => L [A 3%Z]
  | DExc => L [A 4%Z]
  | DFuel => L [A 9%Z]
  end.

(* (20 hier utab (methods...) (queries...)); query = (0 key args) | (1 caller key args) *)
Definition run_dcalls (s : sx) : sx :=
  let h := hier_of (sx_arg 0 s) in
  let ut := utab_of (sx_arg 1 s) in
  let ms := map meth_of (sx_list (sx_arg 2 s)) in
  L (map (fun q =>
            match sx_z (sx_nth 0 q) with
            | 0%Z => of_dout (dcall (hsub h) (hhasm h) (hchk h) (hfresh h) ut ms (key_of (sx_nth 1 q)) (args_of (sx_nth 2 q)))
            | _ => of_dout (dnext (hsub h) (hhasm h) (hchk h) (hfresh h) ut ms (sx_nat (sx_nth 1 q)) (key_of (sx_nth 2 q)) (args_of (sx_nth 3 q)))
            end) (sx_list (sx_arg 3 s))).

(* (21 hier utab (types...) (values...)) -> [isinstance matrix; emitted-check matrix]  (1 / 0 / 9 = raises) *)
Definition run_instance (s : sx) : sx :=
  let h := hier_of (sx_arg 0 s) in
  let ut := utab_of (sx_arg 1 s) in
  let ts := map ty_of (sx_list (sx_arg 2 s)) in
  let vs := map val_of (sx_list (sx_arg 3 s)) in
  L [ L (map (fun t => L (map (fun v => of_obool (instance (hsub h) (hhasm h) (hchk h) ut t v)) vs)) ts);
      L (map (fun t => L (map (fun v => of_obool (emit (hsub h) (hhasm h) (hchk h) ut t v)) vs)) ts) ].

(* (22 hier (methods...) (keys...)) -> per key: level_artifact *)
Definition run_artifact (s : sx) : sx :=
  let h := hier_of (sx_arg 0 s) in
  let ms := map meth_of (sx_list (sx_arg 1 s)) in
  L (map (fun k => of_bool (level_artifact (hsub h) (hhasm h) (hchk h) (hfresh h) ms (key_of k))) (sx_list (sx_arg 2 s))).
