"""Shared machinery of C16 / C17: the fixed probe classes, generated methods, running a history of graph operations on
the real library (replayed from scratch for every non-perturbing observation), the documented overlay rule as an
independent Python reading (spec bookkeeping), and reference functions built fresh from a table."""
import linecache, itertools
from .. import use_repo

use_repo()
import ovld  # noqa: E402
from ovld import Ovld, call_next, recurse  # noqa: E402

# ---- fixed class hierarchy: signature number i <-> parameter annotated Ki <-> probe argument Ki() ----
class K0: pass
class K1(K0): pass
class K2(K1): pass
class K3: pass
class K4(K3): pass
KS = [K0, K1, K2, K3, K4]
NSIG = len(KS)
SUPERS = {0: [0], 1: [1, 0], 2: [2, 1, 0], 3: [3], 4: [4, 3]}   # most specific first


def _tail(e):
    """error kinds, not messages"""
    s = str(e)
    if "No method" in s:
        return ("NM",)
    if "positional argument" in s:
        return ("ARGS",)       # a function without any method takes no argument at all
    if "Ambiguous" in s:
        return ("AMB",)
    return ("ERR:" + type(e).__name__,)


_GLOBALS = {"call_next": call_next, "recurse": recurse, "_tail": _tail, **{k.__name__: k for k in KS}}
_methods = {}


def label_sig(label):
    return label % 10


def method(label):
    """def m(x: K<sig>): returns (label,) + what the next method in the resolution order returns ('NM' at the end).
    One function object per label (function identity is what unregister compares)."""
    if label in _methods:
        return _methods[label]
    sig = label_sig(label)
    src = (f"def m{label}(x: K{sig}):\n"
           f"    try:\n"
           f"        r = call_next(x)\n"
           f"    except TypeError as e:\n"
           f"        r = _tail(e)\n"
           f"    return ({label},) + r\n")
    fname = f"<gsim:m{label}>"
    linecache.cache[fname] = (len(src), None, src.splitlines(True), fname)
    ns = dict(_GLOBALS)
    exec(compile(src, fname, "exec"), ns)
    fn = ns[f"m{label}"]
    _methods[label] = fn
    return fn


def probe(f):
    """call f on an instance of every probe class -> tuple of chains"""
    out = []
    for k in KS:
        try:
            out.append(tuple(f(k())))
        except TypeError as e:
            out.append(_tail(e))
        except RecursionError:
            out.append(("REC",))
        except Exception as e:  # noqa
            out.append(("EXC:" + type(e).__name__,))
    return tuple(out)


def is_locked(f):
    """non-perturbing: add_mixins() with no mixin runs the modification guard and changes nothing"""
    try:
        f.add_mixins()
        return 0
    except Exception as e:  # noqa
        return 1 if "locked" in str(e) else 2


# ---- running a history on the real library ----
def apply_op(objs, op):
    """perform one operation on the list of Ovld objects; -> 0 Done | 1 Locked | ['exc', kind]"""
    t = op[0]
    try:
        if t == 0:
            objs.append(Ovld(mixins=[objs[m] for m in op[2:]], linkback=bool(op[1])))
        elif t == 1:
            objs.append(objs[op[1]].copy(mixins=[objs[m] for m in op[3:]], linkback=bool(op[2])))
        elif t == 2:
            objs.append(objs[op[1]].variant(method(op[4]), mixins=[objs[m] for m in op[5:]], linkback=bool(op[2])))
        elif t == 3:
            objs[op[1]].add_mixins(*[objs[m] for m in op[2:]])
        elif t == 4:
            objs[op[1]].register(method(op[3]))
        elif t == 5:
            objs[op[1]].unregister(method(op[2]))
        elif t == 6:
            f = objs[op[1]]
            try:
                f(KS[0]())
            except TypeError:
                pass
        return 0
    except RecursionError:
        return ["exc", "RecursionError"]
    except Exception as e:  # noqa
        if "locked" in str(e):
            return 1
        return ["exc", type(e).__name__]


def replay_prefix(ops, k):
    """fresh objects, operations 0..k applied; -> (objs, outcomes)"""
    objs, outs = [], []
    for op in ops[:k + 1]:
        outs.append(apply_op(objs, op))
    return objs, outs


def observe(ops, k):
    """the state after step k, observed on a scratch replay: (outcome of step k, lock vector, probe vectors)"""
    objs, outs = replay_prefix(ops, k)
    locks = [is_locked(f) for f in objs]
    probes = [probe(f) for f in objs]
    return outs[-1], locks, probes


# ---- reference: a fresh function built from a table ----
_ref_cache = {}


def ref_probe(entries):
    """entries: iterable of (sig, tiebreak, label).  Probe vector of a fresh Ovld on which, per signature, the labels
    are registered from the lowest tiebreak to the highest (so that their relative order is the table's)."""
    key = tuple(sorted(entries))
    if key in _ref_cache:
        return _ref_cache[key]
    f = Ovld()
    for sig, tb, label in sorted(entries, key=lambda e: (e[0], e[1])):
        f.register(method(label))
    r = probe(f)
    _ref_cache[key] = r
    return r


# ---- the documented rule, read independently of the code: spec bookkeeping over a history ----
class Spec:
    """own method sets with the push-down rule, mixins, linkback, used flags; overlay = parents' effective tables in
    order, then own; later wins on an identical signature key."""

    def __init__(self):
        self.own, self.mixins, self.lb, self.used, self.edge_step = [], [], [], [], []
        self.step_no = 0
        self.used_at = {}

    def n(self):
        return len(self.own)

    def create(self, mixins, lb):
        self.own.append({})
        self.mixins.append(list(mixins))
        self.lb.append(bool(lb))
        self.used.append(False)
        self.edge_step.append({m: self.step_no for m in mixins})

    def register(self, n, label):
        d = self.own[n]
        sig = label_sig(label)

        def _set(tb, lab):
            if (sig, tb) in d:
                _set(tb - 1, d[(sig, tb)])
            d[(sig, tb)] = lab
        _set(0, label)

    def unregister(self, n, label):
        self.own[n] = {k: v for k, v in self.own[n].items() if v != label}

    def add_mixins(self, n, ms):
        for m in ms:
            if m != n:
                self.mixins[n].append(m)
                self.edge_step[n].setdefault(m, self.step_no)

    def apply(self, op, outcome):
        """advance by one performed-or-refused operation (outcome as observed on the implementation)"""
        t = op[0]
        if outcome == 0:
            if t == 0:
                self.create(op[2:], op[1])
            elif t == 1:
                self.create([op[1]] + list(op[3:]), op[2])
            elif t == 2:
                self.create([op[1]] + list(op[5:]), op[2])
                self.register(self.n() - 1, op[4])
            elif t == 3:
                self.add_mixins(op[1], op[2:])
            elif t == 4:
                self.register(op[1], op[3])
            elif t == 5:
                self.unregister(op[1], op[2])
            elif t == 6:
                if not self.used[op[1]]:
                    self.used[op[1]] = True
                    self.used_at[op[1]] = self.step_no
        self.step_no += 1

    def effective(self, n, seen=()):
        d = {}
        for m in self.mixins[n]:
            d.update(self.effective(m))
        d.update(self.own[n])
        return d

    def entries(self, n):
        return [(k[0], k[1], v) for k, v in self.effective(n).items()]

    def ancestors(self, n):
        out, todo = set(), [n]
        while todo:
            x = todo.pop()
            for m in self.mixins[x]:
                if m not in out:
                    out.add(m)
                    todo.append(m)
        return out

    def descendants(self, n):
        return {c for c in range(self.n()) if n in self.ancestors(c)}

    def lb_descendants(self, n):
        """nodes deriving from n through linkback derivations only"""
        out, todo = set(), [n]
        while todo:
            x = todo.pop()
            for c in range(self.n()):
                if self.lb[c] and x in self.mixins[c] and c not in out:
                    out.add(c)
                    todo.append(c)
        return out

    def nl_ancestors(self, n):
        """{ancestor: shortest number of non-linkback derivations from n up to it}"""
        dist, todo = {}, [(n, 0)]
        while todo:
            x, d = todo.pop(0)
            if self.lb[x]:
                continue
            for m in self.mixins[x]:
                if m not in dist:
                    dist[m] = d + 1
                    todo.append((m, d + 1))
        return dist

    def would_cycle(self, n, ms):
        return any(n in self.ancestors(m) for m in ms if m != n)
