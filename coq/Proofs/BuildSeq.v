(* BuildSeq.v -- sequential correctness of the Build machine: from a state that is either not yet built or
   built-and-consistent, every call returns the outcome over the complete table (spec_call), and the only
   points of a call at which the shared state is NOT such a state are (i) inside compile after the entry point
   was swapped and (ii) inside resolve's write loop between the first and the last write. *)
From Coq Require Import List Bool Arith Lia.
Import ListNotations.
From OvldV Require Import Model.BuildM Proofs.BuildBase.

Section Seq.
  Variable chain : list label -> key -> list rank.
  Variable meth : label -> minfo.
  Hypothesis Hnd : forall regs k, NoDup regs -> NoDup (handlers (chain regs k)).
  Hypothesis Hsub : forall regs k h, In h (handlers (chain regs k)) -> In h regs.
  Hypothesis Hrec : forall l, m_body (meth l) = BNext -> m_recoded (meth l) = true.
  Variable D : list label.
  Hypothesis D_nodup : NoDup D.
  Hypothesis D_ok : all_ok meth D = true.

  Definition Wk (k : key) (T : table) : list wr := writes_from k 0 (chain (t_regs T) k).

  Definition Sound (T : table) (k : key) : Prop :=
    (forall c h, dget T (c, k) = Some h -> In (WDict (c, k) h) (Wk k T)) /\
    (forall c e, eget T (c, k) = Some e -> In (WErr (c, k) e) (Wk k T)) /\
    (forall hs, aget T k = Some hs -> hs = handlers (chain (t_regs T) k)).

  Definition Complete (T : table) (k : key) : Prop :=
    aget T k = Some (handlers (chain (t_regs T) k)) /\ forall w, In w (Wk k T) -> present T w.

  (* [x] = the key whose resolution is being written (completeness suspended for it) *)
  Definition TInvX (x : option key) (T : table) : Prop :=
    forall k, Sound T k /\ (Some k <> x -> forall h, dget T (0, k) = Some h -> Complete T k).

  Definition cn_ok (s : shared) (R : list label) : Prop :=
    (exists x, In x R /\ m_recoded (meth x) = true) -> s_cnmap s = s_map s.

  Definition GoodX (x : option key) (s : shared) : Prop :=
    s_entry s = Generated /\ s_compiled s = true /\ s_defs s = D /\ s_map s < length (s_tables s) /\
    t_regs (tbl s (s_map s)) = D /\ TInvX x (tbl s (s_map s)) /\ cn_ok s D /\ map fst (t_obj (tbl s (s_map s))) = D.
  Definition Good := GoodX None.
  Definition Recov (s : shared) : Prop := s_entry s = Boot /\ s_compiled s = false /\ s_defs s = D.

  Lemma Good_GoodX : forall x s, Good s -> GoodX x s.
  Proof.
    intros x s (A & B & C & E & F & G & H). unfold GoodX. repeat (split; [assumption|]). split; [|exact H].
    intros k. destruct (G k) as [S1 C1]. split; [exact S1|]. intros _; apply C1; discriminate.
  Qed.

  Lemma keys_nodup : forall T k, t_regs T = D -> NoDup (map wkey (Wk k T)).
  Proof.
    intros T k HR. unfold Wk. apply writes_keys_nodup; [apply Hnd; rewrite HR; exact D_nodup|discriminate].
  Qed.

  (* the mro step: self.all[k] = candidate codes *)
  Definition mro_upd (T : table) (k : key) : table :=
    {| t_regs := t_regs T; t_dict := t_dict T; t_errs := t_errs T;
       t_all := aupd Nat.eqb k (handlers (chain (t_regs T) k)) (t_all T); t_obj := t_obj T |}.

  Lemma aget_mro_eq : forall T k, aget (mro_upd T k) k = Some (handlers (chain (t_regs T) k)).
  Proof. intros; unfold aget, mro_upd; cbn. apply alookup_aupd_eq. apply Nat.eqb_eq. Qed.
  Lemma aget_mro_neq : forall T k k', k' <> k -> aget (mro_upd T k) k' = aget T k'.
  Proof. intros; unfold aget, mro_upd; cbn. apply alookup_aupd_neq; auto. apply Nat.eqb_eq. Qed.

  Lemma TInvX_mro : forall x T k, TInvX x T -> TInvX x (mro_upd T k).
  Proof.
    intros x T k H k'. destruct (H k') as [(S1 & S2 & S3) C1]. split.
    - split; [|split]; [exact S1|exact S2|].
      intros hs. destruct (Nat.eq_dec k' k) as [->|N].
      + rewrite aget_mro_eq. intros E; injection E as <-; reflexivity.
      + rewrite aget_mro_neq; auto.
    - intros Hx h Hd. destruct (C1 Hx h Hd) as [CA CP]. split; [|exact CP].
      destruct (Nat.eq_dec k' k) as [->|N]; [exact (aget_mro_eq T k)|rewrite aget_mro_neq; auto].
  Qed.

  (* one write of the loop *)
  Lemma dget_apply_neq : forall T w c, c <> wkey w -> dget (apply_wr T w) c = dget T c.
  Proof.
    intros T [c0 h|c0 e] c N; unfold dget; cbn; auto. apply alookup_aupd_neq; auto. apply ckey_eqb_eq.
  Qed.
  Lemma eget_apply_neq : forall T w c, c <> wkey w -> eget (apply_wr T w) c = eget T c.
  Proof.
    intros T [c0 h|c0 e] c N; unfold eget; cbn; auto. apply alookup_aupd_neq; auto. apply ckey_eqb_eq.
  Qed.
  Lemma present_apply_self : forall T w, present (apply_wr T w) w.
  Proof. intros T [c h|c e]; cbn; [unfold dget|unfold eget]; cbn; apply alookup_aupd_eq; apply ckey_eqb_eq. Qed.
  Lemma present_apply_other : forall T w w0, wkey w0 <> wkey w -> present T w0 -> present (apply_wr T w) w0.
  Proof.
    intros T w [c h|c e] N P; cbn in *; [rewrite dget_apply_neq|rewrite eget_apply_neq]; auto.
  Qed.
  Lemma present_apply_key : forall T w w0, snd (wkey w0) <> snd (wkey w) -> present (apply_wr T w) w0 <-> present T w0.
  Proof.
    intros T w [c h|c e] N; cbn in *; [rewrite dget_apply_neq|rewrite eget_apply_neq]; try tauto; intros E; rewrite E in N; auto.
  Qed.

  Lemma dget_apply_cases : forall T w c h, dget (apply_wr T w) c = Some h -> w = WDict c h \/ dget T c = Some h.
  Proof.
    intros T [c0 h0|c0 e0] c h; unfold dget; cbn; auto.
    destruct (ckey_eqb c c0) eqn:E.
    - apply ckey_eqb_eq in E; subst c0. rewrite alookup_aupd_eq by apply ckey_eqb_eq. intros H; injection H as ->; auto.
    - rewrite alookup_aupd_neq; auto. apply ckey_eqb_eq. intros ->; rewrite ckey_eqb_refl in E; discriminate.
  Qed.
  Lemma eget_apply_cases : forall T w c e, eget (apply_wr T w) c = Some e -> w = WErr c e \/ eget T c = Some e.
  Proof.
    intros T [c0 h0|c0 e0] c e; unfold eget; cbn; auto.
    destruct (ckey_eqb c c0) eqn:E.
    - apply ckey_eqb_eq in E; subst c0. rewrite alookup_aupd_eq by apply ckey_eqb_eq. intros H; injection H as ->; auto.
    - rewrite alookup_aupd_neq; auto. apply ckey_eqb_eq. intros ->; rewrite ckey_eqb_refl in E; discriminate.
  Qed.

  Lemma TInvX_write : forall T k w, TInvX (Some k) T -> In w (Wk k T) -> TInvX (Some k) (apply_wr T w).
  Proof.
    intros T k w H Hw k'. destruct (H k') as [(S1 & S2 & S3) C1].
    assert (HR : t_regs (apply_wr T w) = t_regs T) by (destruct w; reflexivity).
    assert (HA : forall q, aget (apply_wr T w) q = aget T q) by (destruct w; reflexivity).
    unfold Sound, Complete, Wk. rewrite HR, HA. split; [split; [|split]|].
    - intros c h Hd. apply dget_apply_cases in Hd as [->|Hd]; [|apply S1; exact Hd].
      pose proof (writes_snd _ _ _ _ Hw) as E; cbn in E; subst k'. exact Hw.
    - intros c e Hd. apply eget_apply_cases in Hd as [->|Hd]; [|apply S2; exact Hd].
      pose proof (writes_snd _ _ _ _ Hw) as E; cbn in E; subst k'. exact Hw.
    - exact S3.
    - intros Hx h Hd.
      assert (N : k' <> k) by (intros ->; apply Hx; reflexivity).
      assert (Hd' : dget T (0, k') = Some h).
      { rewrite dget_apply_neq in Hd; auto. intros E. apply (f_equal snd) in E; cbn in E.
        rewrite (writes_snd _ _ _ _ Hw) in E; auto. }
      destruct (C1 Hx h Hd') as [CA CP]. split; [exact CA|].
      intros w0 H0. apply present_apply_key; [|apply CP; exact H0].
      rewrite (writes_snd _ _ _ _ H0), (writes_snd _ _ _ _ Hw); auto.
  Qed.

  Lemma TInvX_weaken : forall x T, TInvX None T -> TInvX x T.
  Proof. intros x T H k. destruct (H k) as [S1 C1]. split; [exact S1|]. intros _; apply C1; discriminate. Qed.

  (* one write of the (reversed) loop keeps the FULL invariant: the plain-key entry goes in last *)
  Lemma TInvX_write_full : forall T k w, t_regs T = D -> TInvX None T -> In w (Wk k T) ->
    aget T k = Some (handlers (chain (t_regs T) k)) ->
    (wkey w = (0, k) -> forall w', In w' (Wk k T) -> w' <> w -> present T w') ->
    TInvX None (apply_wr T w).
  Proof.
    intros T k w HR H Hw AG LAST k'.
    pose proof (TInvX_write T k w (TInvX_weaken (Some k) T H) Hw) as H'.
    destruct (H' k') as [S1 C1]. split; [exact S1|]. intros _ h Hd.
    destruct (Nat.eq_dec k' k) as [->|N]; [|apply (C1 ltac:(intros E; injection E as ->; auto) h Hd)].
    assert (HR' : t_regs (apply_wr T w) = t_regs T) by (destruct w; reflexivity).
    assert (HA : forall q, aget (apply_wr T w) q = aget T q) by (destruct w; reflexivity).
    unfold Complete, Wk. rewrite HR', HA. split; [exact AG|].
    intros w' Hw'. destruct (ckey_eqb (wkey w') (wkey w)) eqn:EK.
    - apply ckey_eqb_eq in EK.
      assert (w' = w) as -> by (eapply (nodup_map_inj wkey); [apply (keys_nodup T k HR)|exact Hw'|exact Hw|exact EK]).
      apply present_apply_self.
    - assert (NK : wkey w' <> wkey w) by (intros E; rewrite E, ckey_eqb_refl in EK; discriminate).
      apply present_apply_other; [exact NK|].
      destruct (ckey_eqb (wkey w) (0, k)) eqn:E0.
      + apply ckey_eqb_eq in E0. apply LAST; auto. intros ->; apply NK; reflexivity.
      + assert (N0 : (0, k) <> wkey w) by (intros E; rewrite <- E, ckey_eqb_refl in E0; discriminate).
        rewrite dget_apply_neq in Hd by exact N0.
        destruct (H k) as [_ C0]. destruct (C0 ltac:(discriminate) h Hd) as [_ CP]. apply CP; exact Hw'.
  Qed.

  Lemma TInvX_close : forall T k, TInvX (Some k) T -> Complete T k -> TInvX None T.
  Proof.
    intros T k H C k'. destruct (H k') as [S1 C1]. split; [exact S1|].
    intros _ h Hd. destruct (Nat.eq_dec k' k) as [->|N]; [exact C|].
    apply (C1 ltac:(intros E; injection E as ->; auto) h Hd).
  Qed.

  (* ---- shape of the write list ---- *)
  Lemma first_write : forall k rs h, In (WDict (0, k) h) (writes_from k 0 rs) -> exists post, rs = ROne h :: post.
  Proof.
    intros k [|[h0|hs] rest] h H; cbn in H; [contradiction| |].
    - destruct H as [E|H]; [injection E as ->; eauto|].
      apply wkeys_in in H as [H|[y [_ H]]]; cbn in H; discriminate.
    - destruct H as [E|[]]; discriminate.
  Qed.
  Lemma first_err : forall k rs e, In (WErr (0, k) e) (writes_from k 0 rs) -> e = EAmbig /\ exists hs post, rs = RAmb hs :: post.
  Proof.
    intros k [|[h0|hs] rest] e H; cbn in H; [contradiction| |].
    - destruct H as [E|H]; [discriminate|].
      apply wkeys_in in H as [H|[y [_ H]]]; cbn in H; discriminate.
    - destruct H as [E|[]]. injection E as <-. eauto.
  Qed.

  Lemma writes_head : forall k rs, rs <> [] -> exists w0 W', writes_from k 0 rs = w0 :: W' /\ wkey w0 = (0, k).
  Proof. intros k [|[h|hs] rest] N; [contradiction| |]; cbn; eauto. Qed.

  Lemma split_before_last : forall {X} (l : list X) a d w ws, l ++ [a] = d ++ w :: ws -> ws <> [] -> In w l.
  Proof.
    intros X l a d w ws E N. destruct (exists_last N) as (ws' & z & ->).
    change (d ++ w :: ws' ++ [z]) with (d ++ (w :: ws') ++ [z]) in E. rewrite app_assoc in E.
    apply app_inj_tail in E as [-> _]. apply in_or_app; right; left; reflexivity.
  Qed.

  Lemma walk_pre : forall pre rest tr, all_next meth pre -> walk meth (pre ++ rest) tr = walk meth rest (tr ++ handlers pre).
  Proof.
    induction pre as [|r pre IH]; intros rest tr H; cbn.
    - rewrite app_nil_r; reflexivity.
    - destruct (H r (or_introl eq_refl)) as [h [-> Hb]]. cbn. rewrite Hb.
      rewrite IH; [|intros r Hr; apply H; right; exact Hr]. rewrite <- app_assoc; reflexivity.
  Qed.

  Lemma all_next_one : forall pre, all_next meth pre -> forall r, In r pre -> exists h', r = ROne h'.
  Proof. intros pre H r Hr; destruct (H r Hr) as [h [-> _]]; eauto. Qed.

  Lemma all_next_snoc : forall pre h, all_next meth pre -> m_body (meth h) = BNext -> all_next meth (pre ++ [ROne h]).
  Proof.
    intros pre h H Hb r Hr. apply in_app_or in Hr as [Hr|[<-|[]]]; [apply H; exact Hr|eauto].
  Qed.

  Lemma not_bad_analysis : existsb (is_bad_analysis meth) D = false.
  Proof.
    clear - D_ok. induction D as [|d r IH]; cbn in *; auto. apply andb_true_iff in D_ok as [A B].
    rewrite (IH B), orb_false_r. unfold is_bad_analysis. destruct (m_kind (meth d)); auto; discriminate.
  Qed.
  Lemma not_bad_adapt : forall d, In d D -> is_bad_adapt meth d = false.
  Proof.
    clear - D_ok. induction D as [|d0 r IH]; cbn in *; intros d H; [contradiction|]. apply andb_true_iff in D_ok as [A B].
    destruct H as [->|H]; [|apply IH; auto]. unfold is_bad_adapt. destruct (m_kind (meth d)); auto; discriminate.
  Qed.

  (* ---- function objects ---- *)
  Lemma last_obj_notin : forall h l d, ~ In h (map fst l) -> last_obj h l d = d.
  Proof.
    intros h l; induction l as [|[h' o] r IH]; intros d N; cbn in *; auto.
    destruct (Nat.eqb h' h) eqn:E; [apply Nat.eqb_eq in E; subst; exfalso; apply N; auto|]. apply IH; tauto.
  Qed.
  Lemma last_obj_in : forall h l d, In h (map fst l) -> In (h, last_obj h l d) l.
  Proof.
    intros h l; induction l as [|[h' o] r IH]; intros d H; cbn in *; [contradiction|].
    destruct (in_dec Nat.eq_dec h (map fst r)) as [I|N]; [right; apply IH; exact I|].
    destruct H as [->|H]; [|contradiction]. rewrite Nat.eqb_refl, last_obj_notin by exact N. left; reflexivity.
  Qed.
  Lemma reg_oid : forall T h, In h (map fst (t_obj T)) -> registered T h (oid_of T h) = true.
  Proof.
    intros T h H. unfold registered, oid_of. apply existsb_exists. exists (h, last_obj h (t_obj T) 0).
    split; [apply last_obj_in; exact H|]. cbn. rewrite !Nat.eqb_refl; reflexivity.
  Qed.

  (* ---- the invariant of one operation running alone ---- *)
  Definition Fresh (s : shared) (R : list label) : Prop :=
    s_map s < length (s_tables s) /\ exists ob, map fst ob = R /\
    tbl s (s_map s) = {| t_regs := R; t_dict := []; t_errs := []; t_all := []; t_obj := ob |}.
  Definition comp_pre (s : shared) (a : after) : Prop :=
    match a with ADispatch _ => s_entry s = Boot /\ s_compiled s = false | ADone => s_compiled s = true end.
  Definition comp_post (s : shared) (a : after) : Prop :=
    s_entry s = Generated /\ match a with ADispatch _ => True | ADone => s_compiled s = true end.
  Definition after_ok (o : op) (a : after) : Prop :=
    match a with ADispatch k => o = OCall k | ADone => forall k, o <> OCall k end.

  Definition AtNext (s : shared) (l : local) (h : label) (ob : nat) (k : key) : Prop :=
    Good s /\ Complete (tbl s (s_map s)) k /\ registered (tbl s (s_map s)) h ob = true /\
    exists pre post, chain D k = pre ++ ROne h :: post /\ all_next meth pre /\ m_body (meth h) = BNext /\
                     l_trace l = handlers pre ++ [h].

  Definition LInv (o : op) (s : shared) (l : local) : Prop :=
    match l_pc l with
    | PStart o' => o' = o /\ l_trace l = [] /\
        match o with
        | OCall _ => Recov s \/ Good s
        | OReg d => s_compiled s = true /\ s_defs s ++ [d] = D
        | OUnreg d => s_compiled s = true /\ remove_label d (s_defs s) = D
        end
    | PUpdate => (forall k, o <> OCall k) /\ l_trace l = [] /\ s_compiled s = true /\ s_defs s = D
    | PComp c a => after_ok o a /\ l_trace l = [] /\ s_defs s = D /\
        match c with
        | CPrep | CNewMap => comp_pre s a
        | CAnalyze | CSwap => comp_pre s a /\ Fresh s []
        | CSnap => comp_post s a /\ Fresh s []
        | CAdapt d rest => comp_post s a /\ exists R, Fresh s R /\ R ++ d :: rest = D /\ cn_ok s R
        | CReg d _ rest => comp_post s a /\ exists R, Fresh s R /\ R ++ d :: rest = D /\ cn_ok s (R ++ [d])
        | CFlag => comp_post s a /\ Fresh s D /\ cn_ok s D
        end
    | PDispatch k => o = OCall k /\ l_trace l = [] /\ Good s
    | PMro t k cl => o = OCall k /\ l_trace l = [] /\ cl = None /\ t = s_map s /\ Good s
    | PWrite t k cl st ws => o = OCall k /\ l_trace l = [] /\ cl = None /\ t = s_map s /\ Good s /\
        chain D k <> [] /\ aget (tbl s t) k = Some (handlers (chain D k)) /\
        exists done, rev (Wk k (tbl s t)) = done ++ ws /\ forall w, In w done -> present (tbl s t) w
    | PAfter t k cl => o = OCall k /\ l_trace l = [] /\ cl = None /\ t = s_map s /\ Good s /\ chain D k <> [] /\
        Complete (tbl s t) k
    | PRun h ob k => o = OCall k /\ Good s /\ Complete (tbl s (s_map s)) k /\ registered (tbl s (s_map s)) h ob = true /\
        exists pre post, chain D k = pre ++ ROne h :: post /\ all_next meth pre /\ l_trace l = handlers pre
    | PNext h ob k => o = OCall k /\ AtNext s l h ob k
    | PN1 t h ob k => o = OCall k /\ t = s_map s /\ AtNext s l h ob k
    | PN2 t h ob k => o = OCall k /\ t = s_map s /\ AtNext s l h ob k
    | PDone r => Good s /\
        match o with
        | OCall k => (l_trace l, r) = spec_call chain meth D k
        | _ => l_trace l = [] /\ r = RRet
        end
    end.

  Lemma Fresh_TInv : forall s, Fresh s D -> TInvX None (tbl s (s_map s)).
  Proof.
    intros s [_ (ob & _ & E)] k. rewrite E. split; [split; [|split]|]; unfold dget, eget, aget; cbn; intros; discriminate.
  Qed.

  Lemma Good_setmap : forall x s T', GoodX x s -> t_regs T' = D -> t_obj T' = t_obj (tbl s (s_map s)) -> TInvX x T' ->
    GoodX x (set_tbl s (s_map s) T').
  Proof.
    intros x s T' (A & B & C & E & F & G & H & O) HR HO HT. unfold GoodX.
    assert (TB : tbl (set_tbl s (s_map s) T') (s_map s) = T') by (apply tbl_set_eq; exact E).
    cbn [s_entry s_compiled s_defs s_map set_tbl]. change (s_map (set_tbl s (s_map s) T')) with (s_map s).
    repeat (split; [assumption|]). split; [cbn; rewrite length_set_nth; exact E|].
    cbn [s_map] in *. rewrite TB. split; [exact HR|]. split; [exact HT|]. split; [exact H|]. rewrite HO; exact O.
  Qed.

  Notation step := (tstep chain meth).

  Lemma step_start : forall o s tr o', LInv o s {| l_pc := PStart o'; l_trace := tr |} ->
    LInv o (fst (step s {| l_pc := PStart o'; l_trace := tr |})) (snd (step s {| l_pc := PStart o'; l_trace := tr |})).
  Proof.
    intros o s tr o' H. unfold LInv in H; cbn in H. destruct H as (-> & -> & H).
    destruct o as [k|d|d]; cbn.
    - destruct H as [(A & B & C)|G].
      + rewrite A; cbn. unfold LInv; cbn. repeat split; auto.
      + pose proof G as (A & _). rewrite A; cbn. unfold LInv; cbn. auto.
    - destruct H as [A B]. unfold LInv; cbn. repeat split; auto; discriminate.
    - destruct H as [A B]. unfold LInv; cbn. repeat split; auto; discriminate.
  Qed.

  Lemma step_update : forall o s tr, LInv o s {| l_pc := PUpdate; l_trace := tr |} ->
    LInv o (fst (step s {| l_pc := PUpdate; l_trace := tr |})) (snd (step s {| l_pc := PUpdate; l_trace := tr |})).
  Proof.
    intros o s tr H. unfold LInv in H; cbn in H. destruct H as (A & -> & B & C).
    cbn. rewrite B. cbn. unfold LInv; cbn. repeat split; auto.
  Qed.

  Lemma step_comp : forall o s tr c a, LInv o s {| l_pc := PComp c a; l_trace := tr |} ->
    LInv o (fst (step s {| l_pc := PComp c a; l_trace := tr |})) (snd (step s {| l_pc := PComp c a; l_trace := tr |})).
  Proof.
    intros o s tr c a H. unfold LInv in H; cbn in H. destruct H as (AO & -> & HD & H).
    destruct c as [| | | | |d rest|d ob rest|]; cbn.
    - (* CPrep *) unfold LInv; cbn. auto.
    - (* CNewMap *) unfold LInv; cbn. split; [exact AO|]. split; [reflexivity|]. split; [exact HD|]. split; [exact H|].
      split; [cbn; rewrite app_length; cbn; lia|]. exists []. split; [reflexivity|].
      unfold tbl; cbn. rewrite app_nth2, Nat.sub_diag; auto.
    - (* CAnalyze *) rewrite HD, not_bad_analysis. cbn. unfold LInv; cbn. auto.
    - (* CSwap *) destruct H as [CP F]. unfold LInv; cbn. split; [exact AO|]. split; [reflexivity|]. split; [exact HD|].
      split; [|exact F]. split; [reflexivity|]. destruct a; cbn in *; auto.
    - (* CSnap *) destruct H as [CP F]. destruct (s_defs s) as [|d rest] eqn:ED; cbn; unfold LInv; cbn; rewrite ?ED.
      + repeat (split; [first [assumption|reflexivity]|]). rewrite <- HD. split; [exact F|]. intros [x [[] _]].
      + repeat (split; [first [assumption|reflexivity]|]). exists []. split; [exact F|]. split; [exact HD|]. intros [x [[] _]].
    - (* CAdapt *) destruct H as [CP (R & F & E & CN)].
      rewrite not_bad_adapt by (rewrite <- E; apply in_or_app; right; left; reflexivity).
      cbn. unfold LInv; cbn. split; [exact AO|]. split; [reflexivity|]. split; [exact HD|]. split; [exact CP|].
      exists R. split; [exact F|]. split; [exact E|].
      unfold cn_ok; cbn. destruct (m_recoded (meth d)) eqn:RC; [intros _; reflexivity|].
      intros [x [Hx Hr]]. apply CN. exists x; split; auto.
      apply in_app_or in Hx as [Hx|[<-|[]]]; auto. rewrite RC in Hr; discriminate.
    - (* CReg *) destruct H as [CP (R & [F1 (ob0 & FO & F2)] & E & CN)].
      set (T' := {| t_regs := t_regs (tbl s (s_map s)) ++ [d]; t_dict := []; t_errs := []; t_all := []; t_obj := t_obj (tbl s (s_map s)) ++ [(d, ob)] |}).
      assert (FR : Fresh (set_tbl s (s_map s) T') (R ++ [d])).
      { split; [cbn; rewrite length_set_nth; exact F1|]. change (s_map (set_tbl s (s_map s) T')) with (s_map s).
        rewrite tbl_set_eq by exact F1. unfold T'. rewrite F2. cbn. exists (ob0 ++ [(d, ob)]). split; [|reflexivity].
        rewrite map_app, FO. reflexivity. }
      destruct rest as [|d' rest']; cbn; unfold LInv; cbn.
      + split; [exact AO|]. split; [reflexivity|]. split; [exact HD|]. split; [exact CP|].
        rewrite <- E. split; [exact FR|exact CN].
      + split; [exact AO|]. split; [reflexivity|]. split; [exact HD|]. split; [exact CP|].
        exists (R ++ [d]). split; [exact FR|]. split; [rewrite <- app_assoc; exact E|exact CN].
    - (* CFlag *) destruct H as [CP (F & CN)].
      assert (G : Good {| s_entry := s_entry s; s_compiled := true; s_map := s_map s; s_cnmap := s_cnmap s; s_tables := s_tables s; s_defs := s_defs s; s_next := s_next s |}).
      { unfold Good, GoodX. split; [apply CP|]. split; [reflexivity|]. split; [exact HD|]. split; [apply F|].
        destruct F as [F1 (ob0 & FO & F2)].
        split; [change (t_regs (tbl s (s_map s)) = D); rewrite F2; reflexivity|].
        split; [exact (Fresh_TInv s (conj F1 (ex_intro _ ob0 (conj FO F2))))|]. split; [exact CN|].
        change (map fst (t_obj (tbl s (s_map s))) = D). rewrite F2; exact FO. }
      destruct a as [k|]; cbn in *; unfold LInv; cbn.
      + split; [exact AO|]. split; [reflexivity|exact G].
      + split; [exact G|]. destruct o; auto. exfalso; eapply AO; reflexivity.
  Qed.

  Lemma Good_regs : forall x s, GoodX x s -> t_regs (tbl s (s_map s)) = D.
  Proof. intros x s G; apply G. Qed.
  Lemma Good_objs : forall x s, GoodX x s -> map fst (t_obj (tbl s (s_map s))) = D.
  Proof. intros x s G; apply G. Qed.
  Lemma Good_sound : forall x s k, GoodX x s -> Sound (tbl s (s_map s)) k.
  Proof. intros x s k (_ & _ & _ & _ & _ & G & _); apply G. Qed.
  Lemma Good_complete : forall s k h, Good s -> dget (tbl s (s_map s)) (0, k) = Some h -> Complete (tbl s (s_map s)) k.
  Proof. intros s k h (_ & _ & _ & _ & _ & G & _) Hd. destruct (G k) as [_ C]. apply (C ltac:(discriminate) h Hd). Qed.

  Lemma GoodX_close : forall s k, GoodX (Some k) s -> Complete (tbl s (s_map s)) k -> Good s.
  Proof.
    intros s k (A & B & C & E & F & G & H) Cp. unfold Good, GoodX. repeat (split; [assumption|]).
    split; [|exact H]. eapply TInvX_close; eauto.
  Qed.

  Lemma chain_reg : forall s k h, Good s -> In h (handlers (chain D k)) -> registered (tbl s (s_map s)) h (oid_of (tbl s (s_map s)) h) = true.
  Proof. intros s k h G H. apply reg_oid. rewrite (Good_objs _ _ G). eapply Hsub; eauto. Qed.

  Lemma hit_run : forall s k h, Good s -> dget (tbl s (s_map s)) (0, k) = Some h -> Complete (tbl s (s_map s)) k ->
    LInv (OCall k) s {| l_pc := PRun h (oid_of (tbl s (s_map s)) h) k; l_trace := [] |}.
  Proof.
    intros s k h G Hd Cp. unfold LInv; cbn. split; [reflexivity|]. split; [exact G|]. split; [exact Cp|].
    destruct (Good_sound _ s k G) as (S1 & _ & _). apply S1 in Hd. unfold Wk in Hd. rewrite (Good_regs _ _ G) in Hd.
    apply first_write in Hd as [post E].
    split; [apply (chain_reg s k h G); rewrite E; left; reflexivity|].
    exists [], post. split; [exact E|]. split; [intros r []|reflexivity].
  Qed.

  Lemma step_dispatch : forall o s tr k, LInv o s {| l_pc := PDispatch k; l_trace := tr |} ->
    LInv o (fst (step s {| l_pc := PDispatch k; l_trace := tr |})) (snd (step s {| l_pc := PDispatch k; l_trace := tr |})).
  Proof.
    intros o s tr k H. unfold LInv in H; cbn in H. destruct H as (-> & -> & G). cbn.
    destruct (alookup ckey_eqb (0, k) (t_dict (tbl s (s_map s)))) as [h|] eqn:E; cbn.
    - apply hit_run; auto. eapply Good_complete; eauto.
    - unfold LInv; cbn. auto.
  Qed.

  Ltac lcbn := cbn [l_pc l_trace at_pc fst snd].

  Lemma step_mro : forall o s tr t k cl, LInv o s {| l_pc := PMro t k cl; l_trace := tr |} ->
    LInv o (fst (step s {| l_pc := PMro t k cl; l_trace := tr |})) (snd (step s {| l_pc := PMro t k cl; l_trace := tr |})).
  Proof.
    intros o s tr t k cl H. unfold LInv in H; cbn in H. destruct H as (-> & -> & -> & -> & G).
    unfold tstep; lcbn.
    set (T := tbl s (s_map s)).
    change {| t_regs := t_regs T; t_dict := t_dict T; t_errs := t_errs T;
              t_all := aupd Nat.eqb k (handlers (chain (t_regs T) k)) (t_all T); t_obj := t_obj T |} with (mro_upd T k).
    assert (G' : Good (set_tbl s (s_map s) (mro_upd T k))).
    { apply Good_setmap; auto. apply (Good_regs _ _ G). apply TInvX_mro. apply G. }
    pose proof (Good_regs _ _ G) as HR. fold T in HR.
    assert (TB : tbl (set_tbl s (s_map s) (mro_upd T k)) (s_map s) = mro_upd T k) by (apply tbl_set_eq; apply G).
    destruct (chain (t_regs T) k) as [|r rest] eqn:E; lcbn.
    - unfold LInv; lcbn. split; [exact G'|]. unfold spec_call. rewrite <- HR, E. reflexivity.
    - unfold LInv; lcbn. split; [reflexivity|]. split; [reflexivity|]. split; [reflexivity|]. split; [reflexivity|].
      split; [exact G'|].
      rewrite <- HR, E. split; [discriminate|]. rewrite TB. split.
      + rewrite <- E. apply aget_mro_eq.
      + exists []. split; [|intros w []]. unfold Wk. change (t_regs (mro_upd T k)) with (t_regs T). rewrite E. reflexivity.
  Qed.

  Lemma step_write : forall o s tr t k cl st ws, LInv o s {| l_pc := PWrite t k cl st ws; l_trace := tr |} ->
    LInv o (fst (step s {| l_pc := PWrite t k cl st ws; l_trace := tr |})) (snd (step s {| l_pc := PWrite t k cl st ws; l_trace := tr |})).
  Proof.
    intros o s tr t k cl st ws H. unfold LInv in H; cbn [l_pc l_trace] in H.
    destruct H as (-> & -> & -> & -> & G & NE & AG & done & EW & PR).
    unfold tstep; lcbn. set (T := tbl s (s_map s)) in *.
    pose proof (Good_regs _ _ G) as HR. fold T in HR.
    destruct ws as [|w ws]; lcbn.
    - (* loop finished *)
      rewrite app_nil_r in EW.
      assert (Cp : Complete T k).
      { split; [rewrite HR; exact AG|]. intros w Hw. apply PR. rewrite <- EW. apply in_rev in Hw; exact Hw. }
      unfold LInv; lcbn. repeat (split; [reflexivity|]). split; [exact G|]. split; [exact NE|exact Cp].
    - (* one write *)
      assert (Hw : In w (Wk k T)) by (apply in_rev; rewrite EW; apply in_or_app; right; left; reflexivity).
      assert (HR' : t_regs (apply_wr T w) = t_regs T) by (destruct w; reflexivity).
      assert (HO' : t_obj (apply_wr T w) = t_obj T) by (destruct w; reflexivity).
      assert (TB : tbl (set_tbl s (s_map s) (apply_wr T w)) (s_map s) = apply_wr T w) by (apply tbl_set_eq; apply G).
      assert (NDK : NoDup (map wkey (Wk k T))) by (apply keys_nodup; exact HR).
      assert (LAST : wkey w = (0, k) -> forall w', In w' (Wk k T) -> w' <> w -> present T w').
      { intros EK w' Hw' NW.
        destruct (writes_head k (chain (t_regs T) k)) as (w0 & W' & EW0 & K0); [rewrite HR; exact NE|].
        unfold Wk in *. rewrite EW0 in *. cbn [rev] in EW.
        assert (w = w0) as -> by (eapply (nodup_map_inj wkey); [exact NDK|exact Hw|left; reflexivity|rewrite EK, K0; reflexivity]).
        assert (ws = []) as ->.
        { destruct ws as [|z ws']; [reflexivity|exfalso].
          assert (I : In w0 (rev W')) by (eapply split_before_last; [exact EW|discriminate]).
          apply in_rev in I. cbn in NDK. inversion NDK as [|? ? NI _]; subst. apply NI. apply in_map; exact I. }
        apply app_inj_tail in EW as [ED _]. apply PR. rewrite <- ED. apply in_rev.
        destruct Hw' as [<-|Hw']; [contradiction|]. rewrite rev_involutive; exact Hw'. }
      assert (G' : Good (set_tbl s (s_map s) (apply_wr T w))).
      { apply Good_setmap; auto. rewrite HR'; exact HR.
        apply (TInvX_write_full T k w HR); auto. apply G. rewrite HR; exact AG. }
      unfold LInv; lcbn. repeat (split; [reflexivity|]). split; [exact G'|]. split; [exact NE|].
      rewrite TB. split; [destruct w; exact AG|].
      exists (done ++ [w]). split.
      + unfold Wk in *. rewrite HR'. rewrite EW, <- app_assoc. reflexivity.
      + intros w0 H0. apply in_app_or in H0 as [H0|[<-|[]]]; [|apply present_apply_self].
        apply present_apply_other; [|apply PR; exact H0].
        eapply nodup_keys_split; [|exact H0]. rewrite <- EW, map_rev. apply NoDup_rev. exact NDK.
  Qed.

  Lemma step_after : forall o s tr t k cl, LInv o s {| l_pc := PAfter t k cl; l_trace := tr |} ->
    LInv o (fst (step s {| l_pc := PAfter t k cl; l_trace := tr |})) (snd (step s {| l_pc := PAfter t k cl; l_trace := tr |})).
  Proof.
    intros o s tr t k cl H. unfold LInv in H; cbn [l_pc l_trace] in H.
    destruct H as (-> & -> & -> & -> & G & NE & Cp).
    unfold tstep; lcbn. set (T := tbl s (s_map s)) in *.
    pose proof (Good_regs _ _ G) as HR. fold T in HR.
    destruct (Good_sound _ s k G) as (S1 & S2 & S3). fold T in S1, S2, S3.
    destruct Cp as [CA CP].
    destruct (alookup ckey_eqb (0, k) (t_errs T)) as [e|] eqn:EE; lcbn.
    - apply S2 in EE. unfold Wk in EE. rewrite HR in EE. apply first_err in EE as (-> & hs & post & E).
      unfold LInv; lcbn. split; [exact G|]. unfold spec_call. rewrite E. reflexivity.
    - destruct (alookup ckey_eqb (0, k) (t_dict T)) as [h|] eqn:ED; lcbn.
      + apply hit_run; auto. split; auto.
      + exfalso. destruct (chain D k) as [|[h|hs] rest] eqn:E; [apply NE; reflexivity| |].
        * assert (P : present T (WDict (0, k) h)) by (apply CP; unfold Wk; rewrite HR, E; left; reflexivity).
          cbn in P. unfold dget in P. rewrite ED in P; discriminate.
        * assert (P : present T (WErr (0, k) EAmbig)) by (apply CP; unfold Wk; rewrite HR, E; left; reflexivity).
          cbn in P. unfold eget in P. rewrite EE in P; discriminate.
  Qed.

  Lemma mem_in : forall h hs, In h hs -> mem h hs = true.
  Proof. intros h hs H. unfold mem. apply existsb_exists. exists h; split; auto. apply Nat.eqb_refl. Qed.

  Lemma spec_at : forall k pre h post, chain D k = pre ++ ROne h :: post -> all_next meth pre ->
    spec_call chain meth D k = walk meth (ROne h :: post) (handlers pre).
  Proof. intros k pre h post E AN. unfold spec_call. rewrite E, walk_pre; auto. Qed.

  Lemma next_hit : forall s l h ob k h2, AtNext s l h ob k -> dget (tbl s (s_map s)) (S h, k) = Some h2 ->
    LInv (OCall k) s {| l_pc := PRun h2 (oid_of (tbl s (s_map s)) h2) k; l_trace := l_trace l |}.
  Proof.
    intros s l h ob k h2 (G & Cp & RG & pre & post & E & AN & HB & TR) Hd.
    destruct (Good_sound _ s k G) as (S1 & _ & _). apply S1 in Hd. unfold Wk in Hd. rewrite (Good_regs _ _ G), E in Hd.
    pose proof (Hnd D k D_nodup) as ND. rewrite E in ND.
    pose proof (writes_next k post pre 0 h _ ND (all_next_one _ AN) ltac:(discriminate) Hd eq_refl) as W.
    destruct post as [|[h2'|hs] p]; [contradiction| |discriminate]. injection W as ->.
    unfold LInv; lcbn. split; [reflexivity|]. split; [exact G|]. split; [exact Cp|].
    split; [apply (chain_reg s k h2' G); rewrite E, handlers_app; apply in_or_app; right; right; left; reflexivity|].
    exists (pre ++ [ROne h]), p. split; [rewrite <- app_assoc; exact E|]. split; [apply all_next_snoc; auto|].
    rewrite TR, handlers_app. reflexivity.
  Qed.

  Lemma step_run : forall o s tr h ob k, LInv o s {| l_pc := PRun h ob k; l_trace := tr |} ->
    LInv o (fst (step s {| l_pc := PRun h ob k; l_trace := tr |})) (snd (step s {| l_pc := PRun h ob k; l_trace := tr |})).
  Proof.
    intros o s tr h ob k H. unfold LInv in H; cbn [l_pc l_trace] in H.
    destruct H as (-> & G & Cp & RG & pre & post & E & AN & ->).
    unfold tstep; lcbn. destruct (m_body (meth h)) eqn:HB; lcbn; unfold LInv; lcbn.
    - split; [exact G|]. rewrite (spec_at k pre h post E AN). cbn. rewrite HB. reflexivity.
    - split; [reflexivity|]. split; [exact G|]. split; [exact Cp|]. split; [exact RG|]. exists pre, post. auto.
  Qed.

  Lemma step_next : forall o s tr h ob k, LInv o s {| l_pc := PNext h ob k; l_trace := tr |} ->
    LInv o (fst (step s {| l_pc := PNext h ob k; l_trace := tr |})) (snd (step s {| l_pc := PNext h ob k; l_trace := tr |})).
  Proof.
    intros o s tr h ob k H. unfold LInv in H; cbn [l_pc l_trace] in H. destruct H as (-> & AT).
    pose proof AT as (G & Cp & RG & pre & post & E & AN & HB & TR).
    assert (CN : s_cnmap s = s_map s).
    { destruct G as (_ & _ & _ & _ & _ & _ & CN & _). apply CN. exists h. split; [|apply Hrec; exact HB].
      apply (Hsub D k). rewrite E, handlers_app. apply in_or_app; right; left; reflexivity. }
    unfold tstep; lcbn. rewrite CN, RG.
    destruct (alookup ckey_eqb (S h, k) (t_dict (tbl s (s_map s)))) as [h2|] eqn:ED; lcbn.
    - apply (next_hit s {| l_pc := PNext h ob k; l_trace := tr |} h ob k h2 AT ED).
    - unfold LInv; lcbn. auto.
  Qed.

  Lemma step_n1 : forall o s tr t h ob k, LInv o s {| l_pc := PN1 t h ob k; l_trace := tr |} ->
    LInv o (fst (step s {| l_pc := PN1 t h ob k; l_trace := tr |})) (snd (step s {| l_pc := PN1 t h ob k; l_trace := tr |})).
  Proof.
    intros o s tr t h ob k H. unfold LInv in H; cbn [l_pc l_trace] in H. destruct H as (-> & -> & AT).
    pose proof AT as (G & Cp & RG & pre & post & E & AN & HB & TR).
    unfold tstep; lcbn.
    destruct (alookup ckey_eqb (0, k) (t_dict (tbl s (s_map s)))) as [h0|] eqn:ED; lcbn.
    - unfold LInv; lcbn. auto.
    - exfalso. destruct Cp as [_ CP]. pose proof (Good_regs _ _ G) as HR.
      assert (exists h0 rest, chain D k = ROne h0 :: rest) as (h0 & rest & E0).
      { destruct pre as [|r pre']; [eauto|]. destruct (AN r (or_introl eq_refl)) as (h0 & -> & _). rewrite E; cbn; eauto. }
      assert (P : present (tbl s (s_map s)) (WDict (0, k) h0)) by (apply CP; unfold Wk; rewrite HR, E0; left; reflexivity).
      cbn in P. unfold dget in P. rewrite ED in P; discriminate.
  Qed.

  Lemma step_n2 : forall o s tr t h ob k, LInv o s {| l_pc := PN2 t h ob k; l_trace := tr |} ->
    LInv o (fst (step s {| l_pc := PN2 t h ob k; l_trace := tr |})) (snd (step s {| l_pc := PN2 t h ob k; l_trace := tr |})).
  Proof.
    intros o s tr t h ob k H. unfold LInv in H; cbn [l_pc l_trace] in H. destruct H as (-> & -> & AT).
    pose proof AT as (G & Cp & RG & pre & post & E & AN & HB & TR). cbn [l_trace] in TR.
    unfold tstep; lcbn. set (T := tbl s (s_map s)) in *.
    pose proof (Good_regs _ _ G) as HR. fold T in HR.
    destruct (Good_sound _ s k G) as (S1 & S2 & S3). fold T in S1, S2, S3.
    destruct Cp as [CA CP]. unfold aget in CA. rewrite CA, HR, E, RG.
    rewrite mem_in by (rewrite handlers_app; apply in_or_app; right; left; reflexivity). cbn [negb andb].
    pose proof (Hnd D k D_nodup) as ND. rewrite E in ND.
    assert (SP : spec_call chain meth D k = walk meth post (tr)).
    { rewrite (spec_at k pre h post E AN). cbn. rewrite HB, TR. reflexivity. }
    destruct (alookup ckey_eqb (S h, k) (t_errs T)) as [e|] eqn:EE; lcbn.
    - apply S2 in EE. unfold Wk in EE. rewrite HR, E in EE.
      pose proof (writes_next k post pre 0 h _ ND (all_next_one _ AN) ltac:(discriminate) EE eq_refl) as W.
      destruct post as [|[h2'|hs] p]; [contradiction|discriminate|]. injection W as ->.
      unfold LInv; lcbn. split; [exact G|]. rewrite SP. reflexivity.
    - destruct (alookup ckey_eqb (S h, k) (t_dict T)) as [h2|] eqn:ED; lcbn.
      + apply (next_hit s {| l_pc := PN2 (s_map s) h ob k; l_trace := tr |} h ob k h2 AT ED).
      + assert (post = []) as ->.
        { destruct post as [|[h2|hs] p]; [reflexivity| |]; exfalso.
          - assert (P : present T (WDict (S h, k) h2)).
            { apply CP. unfold Wk. rewrite HR, E. apply (writes_suffix_incl k _ pre 0 h (all_next_one _ AN)). left; reflexivity. }
            cbn in P. unfold dget in P. rewrite ED in P; discriminate.
          - assert (P : present T (WErr (S h, k) EAmbig)).
            { apply CP. unfold Wk. rewrite HR, E. apply (writes_suffix_incl k _ pre 0 h (all_next_one _ AN)). left; reflexivity. }
            cbn in P. unfold eget in P. rewrite EE in P; discriminate. }
        unfold LInv; lcbn. split; [exact G|]. rewrite SP. reflexivity.
  Qed.

  Theorem step_inv : forall o s l, LInv o s l -> LInv o (fst (step s l)) (snd (step s l)).
  Proof.
    intros o s [p tr] H. destruct p.
    - apply step_start; exact H.
    - apply step_update; exact H.
    - apply step_comp; exact H.
    - apply step_dispatch; exact H.
    - apply step_mro; exact H.
    - apply step_write; exact H.
    - apply step_after; exact H.
    - apply step_run; exact H.
    - apply step_next; exact H.
    - apply step_n1; exact H.
    - apply step_n2; exact H.
    - exact H.
  Qed.

  Lemma run_alone_inv : forall n o s l, LInv o s l -> LInv o (fst (run_alone chain meth n s l)) (snd (run_alone chain meth n s l)).
  Proof.
    induction n as [|n IH]; intros o s l H; cbn; [exact H|].
    pose proof (step_inv o s l H) as H'. destruct (step s l) as [s' l']. apply IH; exact H'.
  Qed.

  Definition Ready (s : shared) : Prop := Recov s \/ Good s.

  (* a call from a not-yet-built or a consistent state returns the outcome over the complete table *)
  Theorem call_correct : forall fuel s k s' x, Ready s ->
    run_op chain meth fuel s (OCall k) = (s', Some x) -> x = spec_call chain meth D k /\ Good s'.
  Proof.
    intros fuel s k s' x R H. unfold run_op in H.
    assert (I : LInv (OCall k) s (start (OCall k))) by (unfold LInv; cbn; auto).
    apply (run_alone_inv fuel) in I. destruct (run_alone chain meth fuel s (start (OCall k))) as [s1 l1].
    cbn [fst snd] in I. injection H as <- H. unfold result_of in H. unfold LInv in I.
    destruct (l_pc l1); try discriminate. injection H as <-. destruct I as [G E]. auto.
  Qed.

  Theorem probes_correct : forall ks fuel s xs, Ready s ->
    probes chain meth fuel s ks = map Some xs -> xs = map (spec_call chain meth D) ks.
  Proof.
    unfold probes. induction ks as [|k ks IH]; intros fuel s xs R H; cbn in H.
    - destruct xs; [reflexivity|discriminate].
    - destruct (run_op chain meth fuel s (OCall k)) as [s1 x] eqn:E1.
      destruct (run_ops chain meth fuel s1 (map OCall ks)) as [s2 rest] eqn:E2. cbn in H.
      destruct xs as [|x0 xs]; [discriminate|]. cbn in H. injection H as -> H.
      destruct (call_correct _ _ _ _ _ R E1) as [-> G]. cbn. f_equal.
      apply (IH fuel s1 xs (or_intror G)). rewrite E2; exact H.
  Qed.

  Theorem safe_point_ready : forall n s k, Ready s ->
    let r := run_alone chain meth n s (start (OCall k)) in safe_point (snd r) = true -> Ready (fst r).
  Proof.
    intros n s k R r SP.
    assert (I : LInv (OCall k) s (start (OCall k))) by (unfold LInv; cbn; auto).
    apply (run_alone_inv n) in I. fold r in I. destruct r as [s1 l1]. cbn [fst snd] in *.
    unfold safe_point, before_swap, in_compile in SP. unfold LInv in I. unfold Ready.
    destruct (l_pc l1) as [o'|  |c a|k'|t k' cl|t k' cl st ws|t k' cl|h k'|h k'|t h k'|t h k'|r'].
    - destruct I as (_ & _ & I); exact I.
    - destruct I as (I & _). exfalso; eapply I; reflexivity.
    - destruct I as (AO & _ & HD & I). destruct a as [k2|]; [|exfalso; eapply AO; reflexivity].
      destruct c; cbn in SP; try discriminate; left; unfold Recov; cbn in I; tauto.
    - right; apply I.
    - right; apply I.
    - right; apply I.
    - right; apply I.
    - right; apply I.
    - right; apply I.
    - right; apply I.
    - right; apply I.
    - right; apply I.
  Qed.

  (* ---- threads on a built function: every step of a call keeps the shared state consistent, and a thread's own
     invariant is stable under the other threads' steps (entries are only ever added, with the values resolution
     determines) ---- *)
  Definition lookup_pc (l : local) : bool :=
    match l_pc l with
    | PStart (OCall _) | PDispatch _ | PMro _ _ _ | PWrite _ _ _ _ _ | PAfter _ _ _
    | PRun _ _ _ | PNext _ _ _ | PN1 _ _ _ _ | PN2 _ _ _ _ | PDone _ => true
    | _ => false
    end.

  Definition Ext (s s' : shared) : Prop :=
    s_map s' = s_map s /\ s_cnmap s' = s_cnmap s /\
    let T := tbl s (s_map s) in let T' := tbl s' (s_map s) in
    t_regs T' = t_regs T /\ t_obj T' = t_obj T /\
    (forall c h, dget T c = Some h -> dget T' c = Some h) /\
    (forall c e, eget T c = Some e -> eget T' c = Some e) /\
    (forall q hs, aget T q = Some hs -> aget T' q = Some hs).

  Lemma Ext_refl : forall s, Ext s s.
  Proof. intros s. unfold Ext. repeat split; auto. Qed.

  Lemma present_mono : forall s s' w, Ext s s' -> present (tbl s (s_map s)) w -> present (tbl s' (s_map s)) w.
  Proof. intros s s' [c h|c e] (_ & _ & _ & _ & MD & ME & _) P; cbn in *; auto. Qed.

  Lemma Complete_mono : forall s s' k, Ext s s' -> Complete (tbl s (s_map s)) k -> Complete (tbl s' (s_map s)) k.
  Proof.
    intros s s' k E [CA CP]. pose proof E as (_ & _ & HR & _ & _ & _ & MA). cbn zeta in *.
    unfold Complete, Wk. rewrite HR. split; [apply MA; exact CA|].
    intros w Hw. apply (present_mono s s' w E). apply CP. exact Hw.
  Qed.

  Lemma registered_mono : forall s s' h ob, Ext s s' -> registered (tbl s (s_map s)) h ob = true -> registered (tbl s' (s_map s)) h ob = true.
  Proof. intros s s' h ob (_ & _ & _ & HO & _) R. cbn zeta in HO. unfold registered in *. rewrite HO. exact R. Qed.

  Lemma AtNext_stable : forall s s' l h ob k, Ext s s' -> Good s' -> AtNext s l h ob k -> AtNext s' l h ob k.
  Proof.
    intros s s' l h ob k E G' (G & Cp & RG & R). pose proof E as (EM & _). unfold AtNext. rewrite EM.
    split; [exact G'|]. split; [apply (Complete_mono s s' k E Cp)|]. split; [apply (registered_mono s s' h ob E RG)|exact R].
  Qed.

  Lemma LInv_stable : forall o s s' l, lookup_pc l = true -> Ext s s' -> Good s' -> LInv o s l -> LInv o s' l.
  Proof.
    intros o s s' [p tr] LP E G' H. pose proof E as (EM & ECN & HR & HO & MD & ME & MA). cbn zeta in *.
    unfold lookup_pc in LP; cbn [l_pc] in LP. unfold LInv in *; cbn [l_pc l_trace] in *.
    destruct p as [[k|d|d]| |c a|k|t k cl|t k cl st ws|t k cl|h ob k|h ob k|t h ob k|t h ob k|r]; try discriminate.
    - destruct H as (<- & B & _). auto.
    - destruct H as (A & B & _). auto.
    - destruct H as (A & B & C & -> & _). rewrite EM. auto.
    - destruct H as (A & B & C & -> & G & NE & AG & done & EW & PR). rewrite EM.
      repeat (split; [first [assumption|reflexivity]|]). split; [apply MA; exact AG|].
      exists done. unfold Wk in *. rewrite HR. split; [exact EW|]. intros w Hw. apply (present_mono s s' w E). apply PR; exact Hw.
    - destruct H as (A & B & C & -> & G & NE & Cp). rewrite EM. repeat (split; [first [assumption|reflexivity]|]). apply (Complete_mono s s' k E Cp).
    - destruct H as (A & G & Cp & RG & R). rewrite EM. split; [exact A|]. split; [exact G'|].
      split; [apply (Complete_mono s s' k E Cp)|]. split; [apply (registered_mono s s' h ob E RG)|exact R].
    - destruct H as (A & AT). split; [exact A|]. eapply AtNext_stable; eauto.
    - destruct H as (A & -> & AT). rewrite EM. split; [exact A|]. split; [reflexivity|]. eapply AtNext_stable; eauto.
    - destruct H as (A & -> & AT). rewrite EM. split; [exact A|]. split; [reflexivity|]. eapply AtNext_stable; eauto.
    - destruct H as (G & R). auto.
  Qed.

  Lemma Ext_set : forall s T', s_map s < length (s_tables s) -> let T := tbl s (s_map s) in
    t_regs T' = t_regs T -> t_obj T' = t_obj T ->
    (forall c h, dget T c = Some h -> dget T' c = Some h) -> (forall c e, eget T c = Some e -> eget T' c = Some e) ->
    (forall q hs, aget T q = Some hs -> aget T' q = Some hs) -> Ext s (set_tbl s (s_map s) T').
  Proof.
    intros s T' L T HR HO MD ME MA. unfold Ext. cbn [s_map s_cnmap set_tbl]. split; [reflexivity|]. split; [reflexivity|].
    cbn zeta. rewrite tbl_set_eq by exact L. auto.
  Qed.

  (* what one step of a call does to the shared state *)
  Lemma step_ext : forall o s l, Good s -> lookup_pc l = true -> LInv o s l ->
    Ext s (fst (step s l)) /\ lookup_pc (snd (step s l)) = true.
  Proof.
    intros o s [p tr] G LP H. unfold lookup_pc in LP; cbn [l_pc] in LP.
    pose proof G as (GE & _ & _ & GL & GR & GT & _).
    destruct p as [[k|d|d]| |c a|k|t k cl|t k cl st ws|t k cl|h ob k|h ob k|t h ob k|t h ob k|r]; try discriminate;
      unfold tstep; lcbn.
    - rewrite GE. cbn. split; [apply Ext_refl|reflexivity].
    - destruct (alookup ckey_eqb (0, k) (t_dict (tbl s (s_map s)))); cbn; split; try apply Ext_refl; reflexivity.
    - unfold LInv in H; cbn [l_pc l_trace] in H. destruct H as (_ & _ & _ & -> & _).
      set (T := tbl s (s_map s)).
      assert (E : Ext s (set_tbl s (s_map s) {| t_regs := t_regs T; t_dict := t_dict T; t_errs := t_errs T;
                    t_all := aupd Nat.eqb k (handlers (chain (t_regs T) k)) (t_all T); t_obj := t_obj T |})).
      { apply Ext_set; auto. intros q hs Hq. fold T in Hq. change (aget (mro_upd T k) q = Some hs).
        destruct (Nat.eq_dec q k) as [->|N]; [|rewrite aget_mro_neq; auto].
        rewrite aget_mro_eq. destruct (GT k) as [(_ & _ & S3) _]. fold T in S3. rewrite (S3 hs Hq). reflexivity. }
      destruct (chain (t_regs T) k); cbn; split; auto.
    - unfold LInv in H; cbn [l_pc l_trace] in H. destruct H as (_ & _ & _ & -> & _ & NE & AG & done & EW & PR).
      destruct ws as [|w ws]; cbn; [split; [apply Ext_refl|reflexivity]|]. split; [|reflexivity].
      set (T := tbl s (s_map s)) in *.
      assert (Hw : In w (Wk k T)) by (apply in_rev; rewrite EW; apply in_or_app; right; left; reflexivity).
      assert (NDK : NoDup (map wkey (Wk k T))) by (apply keys_nodup; exact GR).
      destruct (GT k) as [(S1 & S2 & _) _]. fold T in S1, S2.
      apply Ext_set; auto; try (destruct w; reflexivity).
      + intros c h Hd. fold T in Hd. destruct w as [c0 h0|c0 e0]; [|exact Hd].
        destruct (ckey_eqb c c0) eqn:EC; [|unfold dget; cbn; rewrite alookup_aupd_neq; [exact Hd|apply ckey_eqb_eq|intros ->; rewrite ckey_eqb_refl in EC; discriminate]].
        apply ckey_eqb_eq in EC; subst c0. pose proof (writes_snd _ _ _ _ Hw) as SK; cbn in SK.
        destruct c as [c1 c2]; cbn in SK; subst c2. apply S1 in Hd.
        assert (WDict (c1, k) h = WDict (c1, k) h0) as EQ by (eapply (nodup_map_inj wkey); eauto).
        injection EQ as ->. unfold dget; cbn. apply alookup_aupd_eq. apply ckey_eqb_eq.
      + intros c e Hd. fold T in Hd. destruct w as [c0 h0|c0 e0]; [exact Hd|].
        destruct (ckey_eqb c c0) eqn:EC; [|unfold eget; cbn; rewrite alookup_aupd_neq; [exact Hd|apply ckey_eqb_eq|intros ->; rewrite ckey_eqb_refl in EC; discriminate]].
        apply ckey_eqb_eq in EC; subst c0. pose proof (writes_snd _ _ _ _ Hw) as SK; cbn in SK.
        destruct c as [c1 c2]; cbn in SK; subst c2. apply S2 in Hd.
        assert (WErr (c1, k) e = WErr (c1, k) e0) as EQ by (eapply (nodup_map_inj wkey); eauto).
        injection EQ as ->. unfold eget; cbn. apply alookup_aupd_eq. apply ckey_eqb_eq.
      + intros q hs Hq. destruct w; exact Hq.
    - destruct (alookup ckey_eqb (0, k) (t_errs (tbl s t))); cbn; [split; [apply Ext_refl|reflexivity]|].
      destruct (alookup ckey_eqb (0, k) (t_dict (tbl s t))); cbn; [|split; [apply Ext_refl|reflexivity]].
      destruct cl as [[c ob]|]; cbn; split; try apply Ext_refl; reflexivity.
    - destruct (m_body (meth h)); cbn; split; try apply Ext_refl; reflexivity.
    - destruct (registered _ h ob); [|cbn; split; [apply Ext_refl|reflexivity]].
      destruct (alookup ckey_eqb (S h, k) _); cbn; split; try apply Ext_refl; reflexivity.
    - destruct (alookup ckey_eqb (0, k) _); cbn; split; try apply Ext_refl; reflexivity.
    - destruct (alookup Nat.eqb k _); cbn; [|split; [apply Ext_refl|reflexivity]].
      destruct (negb _); cbn.
      + destruct (alookup ckey_eqb (0, k) _); cbn; split; try apply Ext_refl; reflexivity.
      + destruct (alookup ckey_eqb (S h, k) (t_errs _)); cbn; [split; [apply Ext_refl|reflexivity]|].
        destruct (alookup ckey_eqb (S h, k) (t_dict _)); cbn; split; try apply Ext_refl; reflexivity.
    - split; [apply Ext_refl|reflexivity].
  Qed.

  Lemma step_good : forall o s l, Good s -> lookup_pc l = true -> LInv o s l -> Good (fst (step s l)).
  Proof.
    intros o s l G LP H. pose proof (step_inv o s l H) as H'. destruct (step_ext o s l G LP H) as [_ LP'].
    destruct l as [p tr]. unfold lookup_pc in LP; cbn [l_pc] in LP.
    destruct p as [[k|d|d]| |c a|k|t k cl|t k cl st ws|t k cl|h ob k|h ob k|t h ob k|t h ob k|r]; try discriminate.
    - unfold tstep; lcbn. destruct (s_entry s); exact G.
    - unfold tstep; lcbn. destruct (alookup _ _ _); exact G.
    - revert H' LP'. unfold tstep; lcbn. destruct (chain _ k); lcbn; unfold LInv, lookup_pc; lcbn; intros H' _; apply H'.
    - revert H' LP'. unfold tstep; lcbn. destruct ws; lcbn; unfold LInv, lookup_pc; lcbn; intros H' _; apply H'.
    - unfold tstep; lcbn. destruct (alookup _ _ (t_errs _)); [exact G|]. destruct (alookup _ _ (t_dict _)); exact G.
    - unfold tstep; lcbn. destruct (m_body _); exact G.
    - unfold tstep; lcbn. destruct (registered _ _ _); [|exact G]. destruct (alookup _ _ _); exact G.
    - unfold tstep; lcbn. destruct (alookup _ _ _); exact G.
    - unfold tstep; lcbn. destruct (alookup Nat.eqb _ _); [|exact G]. destruct (negb _).
      + destruct (alookup _ _ _); exact G.
      + destruct (alookup _ _ (t_errs _)); [exact G|]. destruct (alookup _ _ (t_dict _)); exact G.
    - exact G.
  Qed.

  Definition PoolInv (s : shared) (ops : list op) (p : list local) : Prop :=
    Good s /\ Forall2 (fun o l => lookup_pc l = true /\ LInv o s l) ops p.

  Lemma Forall2_set_nth : forall {X Y} (R : X -> Y -> Prop) xs ys i x y, Forall2 R xs ys ->
    nth_error xs i = Some x -> R x y -> Forall2 R xs (set_nth i y ys).
  Proof.
    intros X Y R xs ys i x y F; revert i. induction F as [|x0 y0 xs ys R0 F IH]; intros [|i] Hx Hr; cbn in *; try discriminate.
    - injection Hx as ->. constructor; auto.
    - constructor; auto.
  Qed.
  Lemma Forall2_nth : forall {X Y} (R : X -> Y -> Prop) xs ys i y, Forall2 R xs ys -> nth_error ys i = Some y ->
    exists x, nth_error xs i = Some x /\ R x y.
  Proof.
    intros X Y R xs ys i y F; revert i. induction F as [|x0 y0 xs ys R0 F IH]; intros [|i] Hy; cbn in *; try discriminate.
    - injection Hy as ->. eauto.
    - apply IH; exact Hy.
  Qed.

  Lemma pool_step : forall s ops p i, PoolInv s ops p ->
    PoolInv (fst (sched_step chain meth s p i)) ops (snd (sched_step chain meth s p i)).
  Proof.
    intros s ops p i [G F]. unfold sched_step. destruct (nth_error p i) as [l|] eqn:EL; [|split; auto].
    destruct (Forall2_nth _ _ _ _ _ F EL) as (o & EO & LP & H).
    pose proof (step_inv o s l H) as H'. destruct (step_ext o s l G LP H) as [E LP']. pose proof (step_good o s l G LP H) as G'.
    destruct (step s l) as [s' l']. cbn [fst snd] in *. split; [exact G'|].
    apply (Forall2_set_nth _ _ _ _ o l'); [|exact EO|split; assumption].
    clear - F E G'. induction F as [|x0 y0 xs ys [LP0 R0] F IH]; constructor; auto.
    split; [exact LP0|]. eapply LInv_stable; eauto.
  Qed.

  Lemma pool_schedule : forall sch s ops p, PoolInv s ops p ->
    PoolInv (fst (run_schedule chain meth s p sch)) ops (snd (run_schedule chain meth s p sch)).
  Proof.
    induction sch as [|i sch IH]; intros s ops p H; cbn; [exact H|].
    pose proof (pool_step s ops p i H) as H'. destruct (sched_step chain meth s p i) as [s' p']. apply IH; exact H'.
  Qed.

  (* on a built, consistent function ANY interleaving of ANY calls returns the outcomes over the complete table *)
  Theorem built_interleaving : forall s ks sch, Good s ->
    let r := run_schedule chain meth s (map (fun k => start (OCall k)) ks) sch in
    Good (fst r) /\
    forall i k x, nth_error ks i = Some k -> option_map result_of (nth_error (snd r) i) = Some (Some x) ->
      x = spec_call chain meth D k.
  Proof.
    intros s ks sch G r.
    assert (P0 : PoolInv s (map OCall ks) (map (fun k => start (OCall k)) ks)).
    { split; [exact G|]. clear r. induction ks; cbn; constructor; auto. split; [reflexivity|]. unfold LInv; cbn. auto. }
    pose proof (pool_schedule sch _ _ _ P0) as [G' F]. fold r in G', F. split; [exact G'|].
    intros i k x Hk Hx. destruct (nth_error (snd r) i) as [l|] eqn:EL; [|discriminate]. cbn in Hx. injection Hx as Hx.
    destruct (Forall2_nth _ _ _ _ _ F EL) as (o & EO & _ & H).
    rewrite nth_error_map, Hk in EO. injection EO as <-.
    unfold result_of in Hx. unfold LInv in H. destruct (l_pc l); try discriminate. injection Hx as <-.
    destruct H as [_ H]. exact H.
  Qed.

  (* any change made while _compiled is set rebuilds everything, whatever the tables looked like *)
  Theorem rebuild_heals : forall fuel s o s' x, s_compiled s = true ->
    match o with OCall _ => False | OReg d => s_defs s ++ [d] = D | OUnreg d => remove_label d (s_defs s) = D end ->
    run_op chain meth fuel s o = (s', Some x) -> x = ([], RRet) /\ Good s'.
  Proof.
    intros fuel s o s' x C HD H. unfold run_op in H.
    assert (I : LInv o s (start o)) by (unfold LInv; cbn; destruct o; [contradiction| |]; auto).
    apply (run_alone_inv fuel) in I. destruct (run_alone chain meth fuel s (start o)) as [s1 l1].
    cbn [fst snd] in I. injection H as <- H. unfold result_of in H. unfold LInv in I.
    destruct (l_pc l1); try discriminate. injection H as <-. destruct I as [G E].
    destruct o; [contradiction| |]; destruct E as [-> ->]; auto.
  Qed.
End Seq.

(* ---- facts that need no validity of the definitions ---- *)
Section Any.
  Variable chain : list label -> key -> list rank.
  Variable meth : label -> minfo.

  Lemma tstep_compiled : forall s l, s_compiled s = true -> s_compiled (fst (tstep chain meth s l)) = true.
  Proof.
    intros s [p tr] H. destruct p as [[k|d|d]| |c a|k|t k cl|t k cl st ws|t k cl|h k|h k|t h k|t h k|r]; unfold tstep; cbn [l_pc l_trace]; try rewrite H;
      repeat match goal with |- context [match ?x with _ => _ end] => destruct x end; cbn; auto.
  Qed.

  Lemma run_alone_compiled : forall n s l, s_compiled s = true -> s_compiled (fst (run_alone chain meth n s l)) = true.
  Proof.
    induction n as [|n IH]; intros s l H; cbn; auto.
    pose proof (tstep_compiled s l H). destruct (tstep chain meth s l) as [s' l']. apply IH; auto.
  Qed.

  Lemma run_alone_done : forall n s tr r, run_alone chain meth n s {| l_pc := PDone r; l_trace := tr |} = (s, {| l_pc := PDone r; l_trace := tr |}).
  Proof. induction n; intros; cbn; auto. Qed.

  (* first build with a method that makes argument analysis fail: configuration error, nothing changed that matters *)
  Definition Unbuilt (s : shared) : Prop := s_entry s = Boot /\ s_compiled s = false.

  Lemma bad_analysis_call : forall fuel s k, Unbuilt s -> existsb (is_bad_analysis meth) (s_defs s) = true -> 4 <= fuel ->
    exists s', run_op chain meth fuel s (OCall k) = (s', Some ([], RErr EConfig)) /\ Unbuilt s' /\ s_defs s' = s_defs s.
  Proof.
    intros fuel s k [A B] E F. do 4 (destruct fuel as [|fuel]; [lia|]).
    unfold run_op. cbn [run_alone]. unfold tstep at 1. cbn. rewrite A. cbn. rewrite E. cbn. unfold at_pc, start; cbn [l_trace].
    rewrite run_alone_done. eexists; split; [reflexivity|]. cbn. unfold Unbuilt; cbn. auto.
  Qed.

  Lemma unbuilt_change : forall fuel s o, Unbuilt s -> 2 <= fuel -> (forall k, o <> OCall k) ->
    exists s', run_op chain meth fuel s o = (s', Some ([], RRet)) /\ Unbuilt s' /\
      s_defs s' = match o with OReg d => s_defs s ++ [d] | OUnreg d => remove_label d (s_defs s) | OCall _ => s_defs s end.
  Proof.
    intros fuel s o [A B] F N. do 2 (destruct fuel as [|fuel]; [lia|]).
    destruct o as [k|d|d]; [exfalso; eapply N; reflexivity| |];
      unfold run_op; cbn [run_alone]; unfold tstep at 1; cbn; rewrite B; cbn; unfold at_pc, start; cbn [l_trace]; rewrite run_alone_done;
      (eexists; split; [reflexivity|]); unfold Unbuilt; cbn; auto.
  Qed.
End Any.

Section Assembled.
  Variable chain : list label -> key -> list rank.
  Variable meth : label -> minfo.
  Hypothesis Hnd : forall regs k, NoDup regs -> NoDup (handlers (chain regs k)).
  Hypothesis Hsub : forall regs k h, In h (handlers (chain regs k)) -> In h regs.
  Hypothesis Hrec : forall l, m_body (meth l) = BNext -> m_recoded (meth l) = true.

  Lemma calls_ready : forall D, NoDup D -> all_ok meth D = true -> forall ks fuel s xs, Ready chain meth D s ->
    snd (run_ops chain meth fuel s (map OCall ks)) = map Some xs -> Ready chain meth D (fst (run_ops chain meth fuel s (map OCall ks))).
  Proof.
    intros D ND OK. induction ks as [|k ks IH]; intros fuel s xs R H; cbn in *; [exact R|].
    destruct (run_op chain meth fuel s (OCall k)) as [s1 x] eqn:E1.
    destruct (run_ops chain meth fuel s1 (map OCall ks)) as [s2 rest] eqn:E2. cbn in *.
    destruct xs as [|x0 xs]; [discriminate|]. cbn in H. injection H as -> H.
    destruct (call_correct chain meth Hnd Hsub Hrec D ND OK _ _ _ _ _ R E1) as [_ G].
    specialize (IH fuel s1 xs (or_intror G)). rewrite E2 in IH. apply IH; exact H.
  Qed.

  (* C18, proved part 1: first build and cache-miss resolution.  History = any completed calls; failure at any
     step boundary outside the two windows; all later probes return the outcome over the complete table. *)
  Theorem partial_call : forall D, NoDup D -> all_ok meth D = true ->
    forall ks0 fuel0 xs0, snd (run_ops chain meth fuel0 (init D) (map OCall ks0)) = map Some xs0 ->
    let s := fst (run_ops chain meth fuel0 (init D) (map OCall ks0)) in
    forall k0 n, safe_point (snd (run_alone chain meth n s (start (OCall k0)))) = true ->
    forall ks fuel xs, probes chain meth fuel (fail_after chain meth n s (OCall k0)) ks = map Some xs ->
      xs = map (spec_call chain meth D) ks.
  Proof.
    intros D ND OK ks0 fuel0 xs0 H0 s k0 n SP ks fuel xs HP.
    assert (R : Ready chain meth D s).
    { apply (calls_ready D ND OK ks0 fuel0 (init D) xs0); [left; unfold Recov, init; cbn; auto|exact H0]. }
    pose proof (safe_point_ready chain meth Hnd Hsub Hrec D ND OK n s k0 R SP) as R'.
    eapply (probes_correct chain meth Hnd Hsub Hrec D ND OK); [exact R'|exact HP].
  Qed.

  Lemma calls_from_good : forall D, NoDup D -> all_ok meth D = true -> forall ks fuel s xs, Good chain meth D s ->
    snd (run_ops chain meth fuel s (map OCall ks)) = map Some xs -> Good chain meth D (fst (run_ops chain meth fuel s (map OCall ks))).
  Proof.
    intros D ND OK. induction ks as [|k ks IH]; intros fuel s xs G H; cbn in *; [exact G|].
    destruct (run_op chain meth fuel s (OCall k)) as [s1 x] eqn:E1.
    destruct (run_ops chain meth fuel s1 (map OCall ks)) as [s2 rest] eqn:E2. cbn in *.
    destruct xs as [|x0 xs]; [discriminate|]. cbn in H. injection H as -> H.
    destruct (call_correct chain meth Hnd Hsub Hrec D ND OK _ _ _ _ _ (or_intror G) E1) as [_ G1].
    specialize (IH fuel s1 xs G1). rewrite E2 in IH. apply IH; exact H.
  Qed.

  (* C19, proved: once the function has been built by some completed call, ANY interleaving of ANY calls (resolved keys or
     not, any number of threads) returns the outcomes over the complete table, and so does every probe afterwards. *)
  Theorem built_threads : forall D, NoDup D -> all_ok meth D = true ->
    forall k0 ks0 fuel0 xs0, snd (run_ops chain meth fuel0 (init D) (map OCall (k0 :: ks0))) = map Some xs0 ->
    let s := fst (run_ops chain meth fuel0 (init D) (map OCall (k0 :: ks0))) in
    forall ks sch, let r := run_schedule chain meth s (map (fun k => start (OCall k)) ks) sch in
    (forall i k x, nth_error ks i = Some k -> option_map result_of (nth_error (snd r) i) = Some (Some x) ->
       x = spec_call chain meth D k) /\
    forall ps fuel xs, probes chain meth fuel (fst r) ps = map Some xs -> xs = map (spec_call chain meth D) ps.
  Proof.
    intros D ND OK k0 ks0 fuel0 xs0 H0 s ks sch r.
    assert (G : Good chain meth D s).
    { unfold s in *. cbn [map run_ops] in *.
      destruct (run_op chain meth fuel0 (init D) (OCall k0)) as [s1 x] eqn:E1.
      destruct (run_ops chain meth fuel0 s1 (map OCall ks0)) as [s2 rest] eqn:E2. cbn in *.
      destruct xs0 as [|x0 xs0]; [discriminate|]. cbn in H0. injection H0 as -> H0.
      assert (R0 : Ready chain meth D (init D)) by (left; unfold Recov, init; cbn; auto).
      destruct (call_correct chain meth Hnd Hsub Hrec D ND OK _ _ _ _ _ R0 E1) as [_ G1].
      pose proof (calls_from_good D ND OK ks0 fuel0 s1 xs0 G1) as G2. rewrite E2 in G2. apply G2; exact H0. }
    destruct (built_interleaving chain meth Hnd Hsub Hrec D ND OK s ks sch G) as [G' R]. fold r in G', R.
    split; [exact R|]. intros ps fuel xs HP.
    eapply (probes_correct chain meth Hnd Hsub Hrec D ND OK); [right; exact G'|exact HP].
  Qed.

  (* C18, proved part 2: rebuild.  From ANY state in which _compiled is set (whatever a failed operation left behind),
     after a failure at ANY point of ANY operation, unregistering a method such that the remaining definitions are valid
     rebuilds everything: all later probes return the outcome over the complete table. *)
  Theorem partial_removal_rebuild : forall s, s_compiled s = true ->
    forall trig n d fuel s2 x, let s1 := fail_after chain meth n s trig in
    NoDup (remove_label d (s_defs s1)) -> all_ok meth (remove_label d (s_defs s1)) = true ->
    run_op chain meth fuel s1 (OUnreg d) = (s2, Some x) ->
    forall ks fuel' xs, probes chain meth fuel' s2 ks = map Some xs ->
      xs = map (spec_call chain meth (remove_label d (s_defs s1))) ks.
  Proof.
    intros s C trig n d fuel s2 x s1 ND OK H ks fuel' xs HP.
    assert (C1 : s_compiled s1 = true) by (apply run_alone_compiled; exact C).
    destruct (rebuild_heals chain meth Hnd Hsub Hrec _ ND OK fuel s1 (OUnreg d) s2 x C1 eq_refl H) as [_ G].
    eapply (probes_correct chain meth Hnd Hsub Hrec _ ND OK); [right; exact G|exact HP].
  Qed.

  (* C18, proved part 3: first build with a method that makes argument analysis fail (conflicting argument names):
     every call raises the configuration error again; after unregistering so that the rest is valid, everything works. *)
  Lemma bad_analysis_probes : forall ks fuel s, Unbuilt s -> existsb (is_bad_analysis meth) (s_defs s) = true -> 4 <= fuel ->
    probes chain meth fuel s ks = map (fun _ => Some ([], RErr EConfig)) ks /\
    Unbuilt (fst (run_ops chain meth fuel s (map OCall ks))) /\ s_defs (fst (run_ops chain meth fuel s (map OCall ks))) = s_defs s.
  Proof.
    unfold probes. induction ks as [|k ks IH]; intros fuel s U B F; cbn; [auto|].
    destruct (bad_analysis_call chain meth fuel s k U B F) as (s1 & E & U1 & D1). rewrite E.
    assert (B1 : existsb (is_bad_analysis meth) (s_defs s1) = true) by (rewrite D1; exact B).
    destruct (IH fuel s1 U1 B1 F) as (P & U2 & D2).
    destruct (run_ops chain meth fuel s1 (map OCall ks)) as [s2 rest]. cbn in *. rewrite P, D2, D1. auto.
  Qed.

  Theorem partial_bad_analysis : forall defs ks fuel, existsb (is_bad_analysis meth) defs = true -> 4 <= fuel ->
    probes chain meth fuel (init defs) ks = map (fun _ => Some ([], RErr EConfig)) ks /\
    forall d, NoDup (remove_label d defs) -> all_ok meth (remove_label d defs) = true ->
      let s1 := fst (run_ops chain meth fuel (init defs) (map OCall ks)) in
      exists s2, run_op chain meth fuel s1 (OUnreg d) = (s2, Some ([], RRet)) /\
        forall ks' fuel' xs, probes chain meth fuel' s2 ks' = map Some xs -> xs = map (spec_call chain meth (remove_label d defs)) ks'.
  Proof.
    intros defs ks fuel B F.
    assert (U : Unbuilt (init defs)) by (unfold Unbuilt, init; cbn; auto).
    destruct (bad_analysis_probes ks fuel (init defs) U B F) as (P & U1 & D1). split; [exact P|].
    intros d ND OK s1.
    destruct (unbuilt_change chain meth fuel s1 (OUnreg d) U1 ltac:(lia) ltac:(discriminate)) as (s2 & E & U2 & D2).
    exists s2. split; [exact E|]. intros ks' fuel' xs HP.
    eapply (probes_correct chain meth Hnd Hsub Hrec _ ND OK); [|exact HP].
    left. destruct U2 as [A B2]. unfold Recov. rewrite D2. unfold s1. rewrite D1. cbn. auto.
  Qed.
End Assembled.
