"""C03 — the dispatcher passes arguments, defaults, results and errors through intact."""
import json, collections, itertools, time
from .. import model
from . import entry as E

CLAIM = dict(
    text="Coq theorems about an executable model of the generated entry point (Model/Entry.v: Signature.extract, ArgumentAnalyzer with its three error cases, generate_dispatch as a generator of a mini-AST, CPython's def/binding rules, an interpreter of the mini-AST, the arity/keyword filter and empty-tuple branch of MultiTypeMap), for unbounded signature sets and call shapes: for Python-valid signatures the analyzer accepts, the required positions form a prefix and the lists generate_dispatch walks are the positions in order (C03_required_prefix), so the generated def always compiles (C03_entry_compiles); for every bound call shape outside KF-31's class (a positional omitted together with a keyword that names a positional beyond the first omitted one; since the repair of KF-02 keyword-only arguments are kept by the early exits) the interpreted body forwards exactly the supplied positionals in order, exactly the supplied keywords, and looks up a key covering exactly the supplied arguments (C03_forward_partial); inside that class some supplied keyword is always dropped from the call and the key (C03_forward_outside: the class is exact); every shape a registered method accepts under the documented keyword rules is bound by the generated def (C03_bind_accepts) and, for every bound shape, its key passes the arity/keyword filter of that method (C03_admit). The full statement is refuted on the faithful model by the KF-31 and KF-03 witnesses (C03_refuted_hole, C03_refuted_zero); KF-02's witnesses are kept as must-pass replays. Tie to /repo on every run: (i) the generated source (linecache) is parsed into the mini-AST and compared with the model generator's output, and the public signature of the dispatcher with the model's reading of the def (translation validation); (ii) every call shape of every generated signature set (positional count x keyword subset, positionals passed by keyword, functions and OvldBase methods with self, uniform/differing names, positional-only markers) runs through the real function with identity-recording methods and per-method default sentinels, a proxy recording the lookup key and the forwarded call; compared with the model's prediction (key, forwarded call, selected method, what each parameter received, error kind) and with an independent oracle built on inspect.signature(...).bind, identity of results and of exceptions raised by bodies; CPython's binding rule as modelled is compared with inspect on every shape.",
    note="Trusted: Coq kernel, extraction, OCaml driver, the hand-written model (validated by translation validation + behaviour correspondence on every run), CPython's def/binding semantics as modelled (validated against inspect.signature.bind), type resolution abstracted to a table (distinct priorities make the selection unambiguous). Tail-call return/raise of the generated body is observed (identity of result and exception), not proved. Parameter names colliding with the generator's own identifiers are outside the model (KF-30, reproduced on the implementation only). Partial: the full statement is false of the code (KF-31, KF-03).",
    technique="Coq proof (invariants of the analyzer, normal form of the generated AST, structural lemmas on binding and interpretation) + translation validation of the generated source + differential behaviour correspondence with identity-recording methods",
    design="6 C03")

THEOREMS = ["C03_required_prefix", "C03_entry_compiles", "C03_forward_partial", "C03_forward_outside",
            "C03_bind_accepts", "C03_admit", "C03_refuted_hole", "C03_refuted_zero"]
ASSUMPTIONS = [
    "signatures are valid Python defs without *args/**kwargs (ovld rejects those at registration) -- sig_wf, evaluated on every generated set",
    "parameter names are drawn from a pool disjoint from the identifiers the generated entry point uses itself (method, type, subtler_type, KWARGS, TARGS, OVLD, MISSING, ARG<n>); collisions are a separate defect (KF-30), outside the model",
    "the caller never passes the MISSING placeholder object itself",
    "which method is selected is another component's job: every generated set carries pairwise distinct priorities and plain annotations (object, int, str, two user classes, type[A]); the per-slot type test enters the model as a table",
]

KF02, KF03, KF31 = "KF-02", "KF-03", "KF-31"

# ------------------------------------------------------------------ generation
POSNAMES = ["x", "y", "z", "w"]
ALTNAMES = ["u", "v", "method"]
KWNAMES = ["k", "j"]
VK_FOR_ANN = {0: [0, 1, 2, 3, 4, 5], 1: [0], 2: [1], 3: [2, 3], 4: [3], 5: [4, 5]}


def gen_method(rng, is_self, prio, style):
    npos = rng.choice([0, 1, 1, 2, 2, 2, 3])
    nreq = rng.randint(0, npos)
    npo = rng.choice([0, 0, 0, rng.randint(0, npos)])
    params = []
    names = list(POSNAMES)
    if style == "differing":
        for i in range(len(names)):
            if rng.random() < 0.3:
                names[i] = rng.choice(ALTNAMES + POSNAMES)
    elif style == "swapped" and npos >= 2 and rng.random() < 0.5:
        names[0], names[1] = names[1], names[0]
    used = set()
    for i in range(npos):
        n = names[i]
        while n in used:
            n = rng.choice(POSNAMES + ALTNAMES)
        used.add(n)
        ann = rng.choice([0, 1, 1, 1, 2, 2, 3, 3, 4, 5] if rng.random() < 0.3 else [0, 1, 1, 2, 3])
        params.append([0 if i < npo else 1, n, i < nreq, ann])
    pool = list(KWNAMES)
    if style == "swapped" and rng.random() < 0.3:
        pool.append("y")
    for n in pool:
        if n not in used and rng.random() < 0.4:
            used.add(n)
            params.append([2, n, rng.random() < 0.4, rng.choice([0, 1, 1, 2, 3, 5] if rng.random() < 0.2 else [0, 1, 2])])
    return {"self": is_self, "prio": prio, "params": params}


def gen_set(rng):
    n = rng.choice([1, 1, 2, 2, 2, 3, 3, 4])
    is_self = rng.random() < 0.35
    style = rng.choice(["uniform", "uniform", "uniform", "differing", "differing", "swapped"])
    prios = list(range(-1, n - 1))
    rng.shuffle(prios)
    ms = []
    for i in range(n):
        s = is_self if rng.random() > 0.03 else not is_self
        ms.append(gen_method(rng, s, prios[i], style))
    return ms, style


def all_names(ms):
    out = []
    for m in ms:
        for p in m["params"]:
            if p[1] not in out:
                out.append(p[1])
    return out


def shape_accepted(m, k, K):
    """does the method's own def accept k positionals + keywords K (plain Python rule; only used to steer sampling)"""
    pp = [p for p in m["params"] if p[0] != 2]
    if k > len(pp):
        return False
    got = set(range(k))
    byname = {p[1]: (i, p) for i, p in enumerate(m["params"])}
    for n in K:
        if n not in byname:
            return False
        i, p = byname[n]
        if p[0] == 0 or (p[0] == 1 and i < k):
            return False
        got.add(i)
    return all(i in got or not p[2] for i, p in enumerate(m["params"]))


def gen_calls(rng, ms, cap):
    npos = max(len([p for p in m["params"] if p[0] != 2]) for m in ms)
    names = all_names(ms)
    shapes = [(k, K) for k in range(npos + 2) for r in range(len(names) + 1) for K in itertools.combinations(names, r)]
    if len(shapes) > cap:
        # keep (up to 3/4 of the cap) the shapes some method accepts, fill up with a sample of the others
        good = [s for s in shapes if any(shape_accepted(m, *s) for m in ms)]
        bad = [s for s in shapes if not any(shape_accepted(m, *s) for m in ms)]
        if len(good) > (3 * cap) // 4:
            good = rng.sample(good, (3 * cap) // 4)
        shapes = good + rng.sample(bad, min(len(bad), cap - len(good)))
    calls = []
    for k, K in shapes:
        acc = [m for m in ms if shape_accepted(m, k, K)]
        t = rng.choice(acc or ms)
        tp = [p for p in t["params"] if p[0] != 2]
        byname = {p[1]: p for p in t["params"]}

        def vk(ann):
            if ann is None or rng.random() < 0.12:
                return rng.randrange(6)
            return rng.choice(VK_FOR_ANN[ann])
        pos = [vk(tp[i][3] if i < len(tp) else None) for i in range(k)]
        kw = [[n, vk(byname[n][3] if n in byname else None)] for n in K]
        calls.append({"pos": pos, "kw": kw, "raise": rng.random() < 0.2})
    return calls


def small_methods():
    """every method shape with <= 2 positionals and <= 2 keyword-only names, uniform names, annotation int"""
    out = []
    kws = []
    for sub in ([], ["k"], ["j"], ["k", "j"]):
        for reqs in itertools.product([True, False], repeat=len(sub)):
            kws.append([[2, n, r, 1] for n, r in zip(sub, reqs)])
    for npos in range(3):
        for nreq in range(npos + 1):
            for npo in range(npos + 1):
                pp = [[0 if i < npo else 1, POSNAMES[i], i < nreq, 1] for i in range(npos)]
                for kk in kws:
                    out.append(pp + kk)
    return out


# ------------------------------------------------------------------ checking one case
def canon_impl(b, case, ci, tr):
    """canonical outcome of a traced run, comparable with the model's dispatch result"""
    if tr["kind"] == "other":
        return ["other", tr["msg"]]
    if tr["kind"] == "typeerror":
        if tr.get("ambiguous"):
            return ["ambiguous"]
        if not tr["keys"]:
            return [2]
        if not tr["forwarded"]:
            return [4] if tr["no_method"] else ["typeerror-after-lookup", tr["msg"]]
        if not tr["ran"]:
            return [5, tr["forwarded"][0]]
    if len(tr["ran"]) != 1 or len(tr["forwarded"]) != 1 or len(tr["keys"]) != 1:
        return ["ran", len(tr["ran"]), len(tr["forwarded"]), len(tr["keys"])]
    mi, binding = tr["ran"][0]
    m = case["methods"][mi]
    order = (["self"] if m["self"] else []) + [p[1] for p in m["params"]]
    return [6, tr["forwarded"][0], mi, [binding[n] for n in order]]


def compare_call(b, case, ci, mres, tr):
    """None if the traced implementation run equals the model's prediction, else a description"""
    imp = canon_impl(b, case, ci, tr)
    pos, kw = tr["args"]
    tag = mres[0]
    if tag in (0, 1, 3):
        return f"model predicts build/body error {mres} but the function was built and called: {imp}"
    if tag == 2:
        return None if imp == [2] else f"model: entry point rejects the call; implementation: {imp}"
    mkey = mres[1]
    exp_key = E.key_expect(b, pos, kw, mkey)
    if imp[0] not in (4, 5, 6):
        return f"model: {mres}; implementation: {imp}"
    if len(tr["keys"]) != 1 or tr["keys"][0] != exp_key:
        return f"lookup key: model {mkey} = {exp_key}; implementation {tr['keys']}"
    if tag == 4:
        return None if imp == [4] else f"model: No method; implementation: {imp}"
    mfw = [mres[2], sorted(mres[3])]
    if imp[0] == 4:
        return f"model: method {mres[4]} selected; implementation: No method"
    if [imp[1][0], imp[1][1]] != mfw:
        return f"forwarded call: model {mfw}; implementation {imp[1]}"
    if tag == 5:
        return None if imp[0] == 5 else f"model: method rejects forwarded call; implementation: {imp}"
    if imp[0] != 6:
        return f"model: method {mres[4]} runs; implementation: {imp}"
    if imp[2] != mres[4]:
        return f"selected method: model {mres[4]}; implementation {imp[2]}"
    if imp[3] != mres[5]:
        return f"received arguments: model {mres[5]}; implementation {imp[3]}"
    return None


def oracle(b, case, call, out, strict):
    """The property itself, on the implementation's behaviour only.  None = holds, else what fails."""
    pos, kw = out["args"]
    if out["kind"] == "other":
        return f"unexpected exception {out['msg']}"
    if out["kind"] == "typeerror":
        if any(n in strict for n in kw):
            return None    # a strictly positional parameter given by keyword: may be rejected (docs/usage.md)
        for mi in range(len(case["methods"])):
            if E.py_applicable(b, case, mi, pos, kw):
                return f"call rejected ({out['msg'][:60]}) although method {mi} accepts it"
        return None
    if len(out["raw"]) != 1:
        return f"{len(out['raw'])} method bodies ran"
    mi, binding = out["raw"][0]
    ba = E.py_accepts(b, mi, pos, kw)
    if ba is None:
        return f"method {mi} ran on a call it does not accept: it received {out['ran'][0][1]}"
    fn = b.fns[mi]
    for n in binding:
        if n in ba.arguments:
            if binding[n] is not ba.arguments[n]:
                return f"parameter {n} of method {mi} received {out['ran'][0][1][n]} instead of the supplied object"
        else:
            d = inspect_default(fn, n)
            if binding[n] is not d:
                return f"omitted parameter {n} of method {mi} received {out['ran'][0][1][n]} instead of its own default"
    if out["kind"] == "returned" and not out["same_result"]:
        return "the return value is not the object the method returned"
    if out["kind"] == "raised" and not out["same_exc"]:
        return "the exception is not the object the method raised"
    if out["kind"] == "returned" and call.get("raise"):
        return "the exception raised by the method was swallowed"
    return None


def inspect_default(fn, n):
    import inspect
    return inspect.signature(fn).parameters[n].default


def one_call_case(case, ci):
    return {"methods": case["methods"], "calls": [case["calls"][ci]]}


class Stats:
    def __init__(self):
        self.evaluations = 0
        self.sets = 0
        self.tv_ok = 0
        self.build_errors = collections.Counter()
        self.outcomes = collections.Counter()
        self.by_k = collections.Counter()
        self.by_nkw = collections.Counter()
        self.features = collections.Counter()
        self.in_domain = 0
        self.kf_hits = collections.Counter()
        self.accepts_checked = 0
        self.traces = 0
        self.nontrivial = set()
        self.samples = []
        self.oracle_failures = 0
        self.in_repaired_kf02_class = 0


def check_case(ctx, case, mgen, mcalls, st, counter):
    """Translation validation + behaviour of one signature set with its calls.  Violations go to ctx."""
    st.sets += 1
    ms = case["methods"]
    b = E.build(case)
    st.features["self" if b.is_self else "function"] += 1
    st.features[f"methods={len(ms)}"] += 1
    if any(p[0] == 0 for m in ms for p in m["params"]):
        st.features["positional-only marker"] += 1
    if any(p[0] == 2 for m in ms for p in m["params"]):
        st.features["keyword-only"] += 1
    nm = collections.defaultdict(set)
    for m in ms:
        for i, p in enumerate([q for q in m["params"] if q[0] != 2]):
            nm[i].add(p[1])
    st.features["differing positional names" if any(len(v) > 1 for v in nm.values()) else "uniform positional names"] += 1
    # ---- (i) build-time errors and translation validation
    if b.error is not None or mgen[0] == 0:
        merr = mgen[1] if mgen[0] == 0 else None
        st.build_errors[str(b.error)] += 1
        st.evaluations += 1
        if b.error != merr:
            ctx.violation(f"analyzer: implementation error {b.error}, model {('error %s' % merr) if merr else 'accepts'}",
                          {"methods": ms, "calls": []}, kind="correspondence")
        return
    # a translation-validation failure is a broken tie, not yet a failing input: the behaviour part below (traced calls
    # against the model's outcomes, and the independent oracle) still runs, so that a concrete failing call is found if there is one
    tv_failed = False
    try:
        params, body = E.parse_entry(b)
    except E.Unparsed as e:
        ctx.violation(f"generated entry point is outside the mini-AST ({e}):\n{E.entry_source(b)}", {"methods": ms, "calls": []}, kind="correspondence")
        tv_failed = True
    st.evaluations += 1
    if not tv_failed and [params, body] != [mgen[2], mgen[3]]:
        ctx.violation(f"translation validation: generated entry point differs from the model generator's output\nimpl  {json.dumps([params, body])}\nmodel {json.dumps([mgen[2], mgen[3]])}\n{E.entry_source(b)}",
                      {"methods": ms, "calls": []}, kind="correspondence")
        tv_failed = True
    # the public signature of the dispatcher against the model's reading of the def statement
    import inspect
    pub = [[{inspect.Parameter.POSITIONAL_ONLY: 0, inspect.Parameter.POSITIONAL_OR_KEYWORD: 1, inspect.Parameter.KEYWORD_ONLY: 2}[p.kind],
            p.name, int(p.default is not inspect.Parameter.empty)] for p in inspect.signature(_raw(b)).parameters.values()]
    mod = [[k, E.dec_ident(x), d] for k, x, d in mgen[4][1:]] if mgen[4][0] == 1 else None
    if pub != mod:
        ctx.violation(f"parameter kinds of the generated def: CPython {pub}, model {mod}", {"methods": ms, "calls": []}, kind="correspondence")
        tv_failed = True
    st.tv_ok += int(not tv_failed)
    # ---- (ii) behaviour
    strict = E.documented_strict(case)
    for ci, call in enumerate(case["calls"]):
        mres, maccepts, dom_fwd, kf02, kf03, kwdoc, fwdok, wf, kf31 = mcalls[ci]
        st.evaluations += 1
        plain = E.run_call(b, call, counter, traced=False)
        tr = E.run_call(b, call, counter, traced=True)
        st.traces += 1
        pos, kw = plain["args"]
        # CPython's binding of the shape to each method vs the model's [accepts]
        for mi in range(len(ms)):
            st.accepts_checked += 1
            if bool(E.py_accepts(b, mi, pos, kw)) != bool(maccepts[mi]):
                ctx.violation(f"binding rule: inspect.signature.bind says {bool(E.py_accepts(b, mi, pos, kw))} for method {mi}, model {bool(maccepts[mi])}",
                              one_call_case(case, ci), kind="correspondence")
        if not wf:
            ctx.violation("generated signature set is not sig_wf", one_call_case(case, ci), kind="harness")
        diff = compare_call(b, case, ci, mres, tr)
        kind = {2: "entry rejects", 4: "no method", 5: "method rejects", 6: "method ran"}.get(mres[0], str(mres[0]))
        st.outcomes[kind] += 1
        st.by_k[len(call["pos"])] += 1
        st.by_nkw[len(call["kw"])] += 1
        in_dom = bool(dom_fwd) and not kf03
        st.in_domain += int(in_dom)
        if mres[0] in (4, 6) and (call["pos"] or call["kw"]):
            st.nontrivial.add(hash(json.dumps([ms, call["pos"], call["kw"]], sort_keys=True)))
        if diff is not None:
            ctx.violation("behaviour: " + diff, one_call_case(case, ci), kind="correspondence")
            # the model does not predict this call any more: ask the independent oracle alone (no attribution to a known
            # finding without the model's agreement)
            fail0 = oracle(b, case, call, plain, strict)
            if fail0 is not None and not (kf31 or kf03):
                ctx.violation("property: " + fail0, one_call_case(case, ci))
            continue
        # the plain run must behave like the traced one
        if [plain["kind"], plain["ran"]] != [tr["kind"], tr["ran"]]:
            ctx.violation(f"plain and traced runs differ: {plain['kind']} {plain['ran']} / {tr['kind']} {tr['ran']}", one_call_case(case, ci), kind="harness")
            continue
        # theorem-level expectations on the model's own outcome (C03_forward_partial / C03_forward_outside)
        if mres[0] in (4, 5, 6) and bool(fwdok) != bool(dom_fwd):
            ctx.violation(f"extracted spec: fwd_ok = {fwdok} but dom_fwd = {dom_fwd} (contradicts C03_forward_partial / C03_forward_outside)", one_call_case(case, ci), kind="correspondence")
        fail = oracle(b, case, call, plain, strict)
        if kf02 and not kf31:
            st.in_repaired_kf02_class += 1      # shapes that failed before the repair of KF-02: they must pass now
        if fail is not None:
            st.oracle_failures += 1
            if kf31:
                ctx.known_hit(KF31, one_call_case(case, ci)); st.kf_hits[KF31] += 1
            elif kf03:
                ctx.known_hit(KF03, one_call_case(case, ci)); st.kf_hits[KF03] += 1
            else:
                ctx.violation("property: " + fail, one_call_case(case, ci))
        if len(st.samples) < 4 and mres[0] == 6 and call["kw"] and st.sets % 7 == 1:
            st.samples.append({"methods": ms, "call": call, "model": mres, "implementation": canon_impl(b, case, ci, tr),
                               "in_domain": in_dom, "source": E.entry_source(b)})


def _raw(b):
    """the generated function (its code object carries the real parameter kinds; __signature__ is a LazySignature)"""
    import types
    d = b.ov.dispatch
    f = types.FunctionType(d.__code__, {}, "entry", d.__defaults__, d.__closure__)
    f.__kwdefaults__ = d.__kwdefaults__
    return f


def run_batch(ctx, cases, st, counter):
    mg = model.run_cases([E.model_case_gen(c) for c in cases])
    selfs = [bool(c["methods"][0]["self"]) for c in cases]
    mc = model.run_cases([E.model_case_calls(c, s) for c, s in zip(cases, selfs)], chunk=50)
    for c, g, r in zip(cases, mg, mc):
        check_case(ctx, c, g, r, st, counter)
        # keep exploring past broken ties until a few failing inputs (property oracle) are known
        if sum(1 for v in ctx.violations if v["kind"] == "property") > 5 or len(ctx.violations) > 400:
            return False
    return True



# ------------------------------------------------------------------ value-dependent ranks: the generated dispatcher between entry point and method
def check_dependent_forwarding(ctx, prog, st):
    """a rank holding value-dependent methods is served by a second generated function (recode.generate_dependent_dispatch:
    lookup table / if-chain / counting) that stands between the entry point and the method: the same obligations hold
    through it -- the method that runs receives the caller's objects under the same names, and a call an applicable
    method accepts is not rejected by a binding error of the generated code"""
    from . import dep_common as D
    from .. import progs
    from ..world import world_from, dec_val
    w = world_from(prog["spec"])
    b = progs.Built(w, prog["defs"], utab=prog.get("utab"))
    byid = {d["id"]: d for d in prog["defs"]}
    for call in prog["calls"]:
        vs = [dec_val(e, w) for e in call["vals"]]
        kws = {int(k): dec_val(e, w) for k, e in call.get("kwvals", {}).items()}
        out, entered = b.call(vs, {f"k{k}": v for k, v in kws.items()})
        recs = [dict(e[1]) for e in b.log]
        st["dep_calls"] += 1
        case = {"dep": True, "spec": prog["spec"], "defs": prog["defs"], "utab": prog.get("utab", {}), "calls": [call]}
        if out[0] == "exc" and out[1].startswith("TypeError:"):
            exp = D.py_spec_dep(w, b, prog["defs"], vs, kws)
            if exp is not None and exp[0] == "run":
                ctx.violation(f"method {exp[1]} accepts this call and is the one the documented rule selects, but the call is rejected: {out[1]}", case)
            else:
                ctx.violation(f"a binding error of the generated code reaches the caller: {out[1]}", case)
            continue
        for mid, rec in zip(entered, recs):
            d = byid[mid]
            for i in range(len(d["pos"])):
                if i >= len(vs) or rec.get(f"a{i}") is not vs[i]:
                    ctx.violation(f"method {mid} received {rec.get(f'a{i}')!r} at position {i}, the caller supplied {vs[i] if i < len(vs) else None!r}", case)
            for (k, t, req) in d.get("kw", []):
                got = rec.get(f"k{k}")
                if int(k) in kws:
                    if got is not kws[int(k)]:
                        ctx.violation(f"method {mid} received {got!r} under keyword k{k}, the caller supplied {kws[int(k)]!r}", case)
                elif got is not progs.DEFAULT:
                    ctx.violation(f"method {mid} received {got!r} for the omitted keyword k{k} instead of its own default", case)
            st["dep_entered"] += 1


def part_dependent(ctx):
    from . import dep_common as D
    st = collections.Counter()
    todo = D.directed_kw_programs(ctx.rng)
    st["dep_directed_programs"] = len(todo)
    todo += [D.gen_dep_program(ctx.rng, steer=ctx.rng.choice(["kwonly", "kwonly", None])) for _ in range(30 if ctx.quick() else 1500)]
    for prog in todo:
        check_dependent_forwarding(ctx, prog, st)
        st["dep_programs"] += 1
        if len(ctx.violations) > 20:
            break
    return dict(st)


# ------------------------------------------------------------------ histories before the call
_hist_ids = itertools.count()


def _mkfn(tag, params, kwonly=()):
    """params: [(name, annotation source, default source or None)]; returns a function that reports what it received"""
    import linecache
    ps = [f"{n}: {a}" + (f" = {d}" if d is not None else "") for (n, a, d) in params]
    if kwonly:
        ps.append("*")
        ps += [f"{n}: {a}" + (f" = {d}" if d is not None else "") for (n, a, d) in kwonly]
    names = [n for (n, _, _) in list(params) + list(kwonly)]
    src = f"def m_{tag}({', '.join(ps)}):\n    return ('ret', {tag!r}, {{{', '.join(repr(n) + ': ' + n for n in names)}}})\n"
    fname = f"<verif-c03-hist-{next(_hist_ids)}>"
    linecache.cache[fname] = (len(src), None, src.splitlines(True), fname)
    glb = {"__name__": "verif_c03_hist"}
    exec(compile(src, fname, "exec"), glb)
    return glb[f"m_{tag}"]


def _outcome(thunk):
    try:
        return ["ok", repr(thunk())]
    except TypeError as e:
        return ["TypeError"]
    except Exception as e:  # noqa
        return ["exc", type(e).__name__]


def history_case(rng, fixed=None):
    """-> dict(kind, steps (human-readable), build_history() -> callable, build_fresh() -> callable, calls [(args, kwargs)])"""
    import inspect, ovld
    if fixed is None:
        n1, n2 = rng.sample(["x", "y", "u", "v"], 2)
        fixed = {"kind": rng.choice(["rename_replace", "rename_replace", "variant_override", "inspect_then_new_shape", "call_then_new_shape", "copy_inspected_then_parent_grows"]),
                 "n1": n1, "n2": n2, "t": rng.choice(["int", "str", "object"]), "use_between": rng.random() < 0.5, "use_after": rng.random() < 0.5}
    kind, n1, n2, t, use_between, use_after = (fixed[k] for k in ("kind", "n1", "n2", "t", "use_between", "use_after"))
    val = {"int": 1, "str": "a", "object": 2.5}[t]
    if kind == "rename_replace":
        # two definitions of one signature that name their parameter differently; the older one is unregistered
        def hist():
            f = ovld.Ovld(name="f")
            v1, v2 = _mkfn("v1", [(n1, t, None)]), _mkfn("v2", [(n2, t, None)])
            f.register(v1)
            if use_between:
                _outcome(lambda: f(val))
            f.register(v2)
            if use_after:
                _outcome(lambda: f(val))
            f.unregister(v1)
            return f

        def fresh():
            f = ovld.Ovld(name="f")
            f.register(_mkfn("v2", [(n2, t, None)]))
            return f
        calls = [((val,), {}), ((), {n2: val}), ((), {n1: val})]
    elif kind == "variant_override":
        def hist():
            p = ovld.Ovld(name="p")
            p.register(_mkfn("v1", [(n1, t, None)]))
            p.register(_mkfn("w", [(n1, "list", None)]))
            if use_between:
                _outcome(lambda: p(val))
            g = p.copy()
            g.register(_mkfn("v2", [(n2, t, None)]))
            return g

        def fresh():
            f = ovld.Ovld(name="f")
            f.register(_mkfn("w", [(n1, "list", None)]))
            f.register(_mkfn("v2", [(n2, t, None)]))
            return f
        calls = [((val,), {}), (([1],), {})]
    elif kind in ("inspect_then_new_shape", "call_then_new_shape"):
        def hist():
            f = ovld.Ovld(name="f")
            f.register(_mkfn("a", [("x", "int", None)]))
            if kind == "inspect_then_new_shape":
                f.rename("f")
                str(inspect.signature(f.dispatch).parameters)
            else:
                _outcome(lambda: f(1))
            f.register(_mkfn("b", [("x", "int", None), ("z", "int", "5")]))
            f.register(_mkfn("c", [("x", "str", None)], [("k", "int", "0")]))
            return f

        def fresh():
            f = ovld.Ovld(name="f")
            f.register(_mkfn("a", [("x", "int", None)]))
            f.register(_mkfn("b", [("x", "int", None), ("z", "int", "5")]))
            f.register(_mkfn("c", [("x", "str", None)], [("k", "int", "0")]))
            return f
        calls = [((1,), {}), ((1, 2), {}), (("a",), {"k": 3}), (("a",), {}), ((), {"x": 1})]
    else:
        # a copy whose signature is looked at before its first use; its parent then gets its first type[...] method
        def hist():
            p = ovld.Ovld(name="p")
            p.register(_mkfn("o", [("a", "object", None), ("b", "int", None)]))
            g = p.copy()
            g.rename("g")
            str(inspect.signature(g.dispatch).parameters)
            p.register(_mkfn("t", [("a", "type[int]", None), ("b", "int", None)]))
            return g

        def fresh():
            f = ovld.Ovld(name="f")
            f.register(_mkfn("o", [("a", "object", None), ("b", "int", None)]))
            f.register(_mkfn("t", [("a", "type[int]", None), ("b", "int", None)]))
            return f
        calls = [((bool, 1), {}), ((int, 1), {}), ((str, 1), {}), ((3, 1), {})]
    return dict(fixed, hist=hist, fresh=fresh, calls=calls)


def part_histories(ctx):
    """the entry point serves the methods registered NOW, whatever was registered, unregistered, inspected or called
    before: every call on the function with the history = the same call on a function built from the final methods alone
    (property oracle; the implementation against itself)"""
    st = collections.Counter()
    for _ in range(60 if ctx.quick() else 1500):
        hc = history_case(ctx.rng)
        try:
            fh, ff = hc["hist"](), hc["fresh"]()
        except Exception as e:  # noqa
            ctx.violation(f"history {hc['kind']}: building raised {type(e).__name__}: {e}", {"history": {k: v for k, v in hc.items() if k not in ('hist', 'fresh', 'calls')}})
            continue
        st["histories:" + hc["kind"]] += 1
        for (a, k) in hc["calls"]:
            got, exp = _outcome(lambda: fh(*a, **k)), _outcome(lambda: ff(*a, **k))
            st["history_calls"] += 1
            if got != exp:
                ctx.violation(f"history {hc['kind']} (names {hc['n1']}/{hc['n2']}, type {hc['t']}, used in between: {hc['use_between']}): the call {a!r} {k!r} gives {got}, "
                              f"a function built from the final methods alone gives {exp}",
                              {"history": {kk: v for kk, v in hc.items() if kk not in ("hist", "fresh", "calls")}, "call": [repr(a), repr(k)]})
                break
        if len(ctx.violations) > 20:
            break
    return dict(st)


def run(ctx):
    st = Stats()
    counter = itertools.count()
    t0 = time.time()
    quick = ctx.quick()
    # corpus first: the witnesses of the known findings and a few hand-written sets
    corpus = [WIT_KF02, WIT_KF02_REQ, WIT_KF31, WIT_KF03, WIT_KF03_KW]
    run_batch(ctx, [{"methods": w["methods"], "calls": w["calls"]} for w in corpus], st, counter)
    n_sets = 300 if quick else 20000
    budget = 40 if quick else 600
    cap = 48 if quick else 160
    done = 0
    while done < n_sets and time.time() - t0 < budget and len(ctx.violations) <= 20:
        batch = []
        for _ in range(min(100, n_sets - done)):
            ms, style = gen_set(ctx.rng)
            batch.append({"methods": ms, "calls": gen_calls(ctx.rng, ms, cap)})
        done += len(batch)
        if not run_batch(ctx, batch, st, counter):
            break
    random_sets = done
    # small scope, exhaustively: every set of <= 2 methods over the small method shapes, every call shape
    exhaustive = {"one_method_sets": 0, "two_method_sets": 0, "complete": False}
    sm = small_methods()
    ex_budget = 15 if quick else 280
    t1 = time.time()
    singles = [{"methods": [{"self": False, "prio": 0, "params": p}]} for p in sm]
    pairs = [{"methods": [{"self": False, "prio": 0, "params": p}, {"self": False, "prio": 1, "params": [list(x) for x in q]}]}
             for p, q in itertools.combinations_with_replacement(sm, 2)]
    for q in pairs:   # second method dispatches on str in first position / first keyword so that both are reachable
        ps = q["methods"][1]["params"]
        if ps:
            ps[0][3] = 2
    if quick:
        ctx.rng.shuffle(pairs)
    todo = singles + pairs
    i = 0
    while i < len(todo) and time.time() - t1 < ex_budget and len(ctx.violations) <= 20:
        batch = todo[i:i + 100]
        for c in batch:
            c["calls"] = gen_calls(ctx.rng, c["methods"], 10 ** 6)
        if not run_batch(ctx, batch, st, counter):
            break
        i += len(batch)
    exhaustive["one_method_sets"] = min(i, len(singles))
    exhaustive["two_method_sets"] = max(0, i - len(singles))
    exhaustive["complete"] = i >= len(todo)
    exhaustive["of"] = [len(singles), len(pairs)]
    dep = part_dependent(ctx)
    hist = part_histories(ctx)
    cross = 0
    if not quick:
        sub = [{"methods": w["methods"], "calls": w["calls"]} for w in corpus]
        mcs = [E.model_case_gen(c) for c in sub] + [E.model_case_calls(c, bool(c["methods"][0]["self"])) for c in sub]
        if model.run_cases(mcs) != model.run_in_coq(mcs):
            ctx.violation("extracted model and vm_compute disagree", {"cases": mcs}, kind="extraction")
        cross = len(mcs)
    return {
        "evaluations": st.evaluations, "distinct_nontrivial": len(st.nontrivial),
        "rule": "random signature sets (1-4 methods; 0-3 positionals with positional-only markers, required prefix, uniform / differing / swapped names; optional and required keyword-only parameters; functions and OvldBase methods with self; distinct priorities; annotations object/int/str/A/B/type[A]) plus every set of <= 2 methods over the 126 small method shapes (<= 2 positionals, <= 2 keyword-only); per set every call shape (positional count 0..max+1 x every subset of all parameter names as keywords, capped per set in the random stream) with fresh argument objects; one evaluation = one translation-validated set or one call; a call is non-trivial when it supplies at least one argument and gets past Python's binding of the generated def (a method runs or the lookup fails); distinct by (signature set, shape, value kinds)",
        "samples": st.samples, "signature_sets": st.sets, "random_sets": random_sets, "small_scope": exhaustive,
        "exhaustive": False,
        "translation_validated_sets": st.tv_ok, "build_error_sets": dict(st.build_errors),
        "calls_in_proved_domain": st.in_domain, "oracle_failures_all_attributed": st.oracle_failures,
        "calls_in_repaired_KF02_class_all_passing": st.in_repaired_kf02_class,
        "known_finding_hits": dict(st.kf_hits), "binding_rule_checks_vs_inspect": st.accepts_checked,
        "outcome_histogram": dict(st.outcomes), "positional_count_histogram": {str(k): v for k, v in sorted(st.by_k.items())},
        "keyword_count_histogram": {str(k): v for k, v in sorted(st.by_nkw.items())}, "set_features": dict(st.features),
        "value_dependent_ranks": dep, "histories_before_the_call": hist, "vm_compute_crosscheck_cases": cross, "traces_validated_against_impl": st.traces,
    }


# ------------------------------------------------------------------ replay
class _Collect:
    def __init__(self, ctx):
        self.rng = ctx.rng
        self.violations = []
        self.known = {}

    def quick(self):
        return True

    def violation(self, what, case, kind="property"):
        self.violations.append({"what": what, "kind": kind})

    def known_hit(self, k, example=None):
        self.known[k] = self.known.get(k, 0) + 1


def replay(ctx, payload):
    case = payload["case"]
    if "cases" in case:
        return model.run_cases(case["cases"]) != model.run_in_coq(case["cases"])
    col = _Collect(ctx)
    if "history" in case:
        hc = history_case(ctx.rng, fixed=case["history"])
        fh, ff = hc["hist"](), hc["fresh"]()
        bad = False
        for (a, k) in hc["calls"]:
            got, exp = _outcome(lambda: fh(*a, **k)), _outcome(lambda: ff(*a, **k))
            print(json.dumps({"call": [repr(a), repr(k)], "with_history": got, "fresh": exp}))
            bad = bad or got != exp
        return bad
    if case.get("dep"):
        check_dependent_forwarding(col, case, collections.Counter())
        for v in col.violations:
            print(v["kind"], v["what"])
        return bool(col.violations)
    case = {"methods": case["methods"], "calls": case.get("calls", [])}
    run_batch(col, [case], Stats(), itertools.count())
    for v in col.violations:
        print(v["kind"], v["what"])
    if col.known:
        print("known findings hit:", col.known)
    return bool(col.violations)


def replay_finding(ctx, e):
    """True = the witness still reproduces on the real code (the method does not receive what the caller supplied /
    the accepted call is rejected), as recorded in the finding."""
    wit = e["witness"]
    if "source" in wit:
        return _replay_source(wit) and ("second" not in wit or _replay_source(wit["second"]))
    case = {"methods": wit["methods"], "calls": wit["calls"]}
    b = E.build(case)
    if b.error is not None:
        return False
    out = E.run_call(b, case["calls"][0], itertools.count(), traced=False)
    got = [out["kind"], out.get("no_method"), out["ran"]]
    fail = oracle(b, case, case["calls"][0], out, E.documented_strict(case))
    return fail is not None and json.loads(json.dumps(got)) == wit["expect_impl"]


def _replay_source(wit):
    """witness given as Python source (parameter names outside the harness's pool): the plain function accepts the call,
    the ovld built from it does not behave like it"""
    from .. import use_repo
    use_repo()
    from ovld import Ovld
    ns = {}
    exec(wit["source"], ns)
    plain = ns["f"]
    want = eval(wit["call"], {"f": plain})
    ov = Ovld()
    ov.register(plain)
    try:
        got = ["returned", repr(eval(wit["call"], {"f": ov.dispatch}))]
        failed = got[1] != repr(want)
    except Exception as ex:
        got = [type(ex).__name__, str(ex)]
        failed = True
    return failed and got == wit["expect_impl"]


# ------------------------------------------------------------------ witnesses (also the corpus)
def _w(methods, call):
    return {"methods": [{"self": False, "prio": i, "params": p} for i, p in enumerate(methods)], "calls": [call]}


# KF-02 (repaired): f(x: int, y: int = 7, *, k: int = 9); f(1, k=2) -> used to receive its own default for k
WIT_KF02 = _w([[[1, "x", True, 1], [1, "y", False, 1], [2, "k", False, 1]]], {"pos": [0], "kw": [["k", 0]], "raise": False})
# ... with k required: "No method"
WIT_KF02_REQ = _w([[[1, "x", True, 1], [1, "y", False, 1], [2, "k", True, 1]]], {"pos": [0], "kw": [["k", 0]], "raise": False})
# ... f(x: int, a: int = 1, /, y: int = 2); f(1, y=3): y is dropped
WIT_KF31 = _w([[[0, "x", True, 1], [0, "u", False, 1], [1, "y", False, 1]]], {"pos": [0], "kw": [["y", 0]], "raise": False})
# KF-03: f(x: int = 5); f() -> "No method"
WIT_KF03 = _w([[[1, "x", False, 1]]], {"pos": [], "kw": [], "raise": False})
# ... f(*, k: int = 3); f()
WIT_KF03_KW = _w([[[2, "k", False, 1]]], {"pos": [], "kw": [], "raise": False})
