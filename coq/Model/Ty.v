(* Ty.v — the type lattice of ovld: mro.py (typeorder, subclasscheck), types.py (MetaMC classes:
   Union, Intersection, Exactly, StrictSubclass, HasMethod, class_check), dependent.py (DependentType
   and its subclasses).  Definitions only; proofs live in Proofs/.

   Faithful model: it computes what the code computes, including the asymmetries recorded as known
   findings (the left operand's hook answers first in both directions).

   Recursion in the Python is not structural (t2's hook is called with t1, hooks call back into
   typeorder/subclasscheck on components) so both functions take fuel; [None] = out of fuel.
   Proofs/TyTotal.v shows fuel >= size t1 + size t2 + 1 always suffices. *)
From Coq Require Import ZArith List Bool Arith.
Import ListNotations.
From OvldV Require Import Model.Order.

(* ---------- values (only what the built-in value-dependent types inspect) ---------- *)
Inductive val : Type :=
| VInt (z : Z)
| VStr (s : list Z)
| VBool (b : bool)
| VNone
| VTup (l : list val)
| VLst (l : list val)
| VDict (l : list (val * val))
| VObj (c : nat) (i : Z).          (* instance #i of class c; identity equality *)

Fixpoint list_eqb {X} (e : X -> X -> bool) (l1 l2 : list X) : bool :=
  match l1, l2 with
  | [], [] => true
  | x :: xs, y :: ys => e x y && list_eqb e xs ys
  | _, _ => false
  end.

Fixpoint val_eqb (a b : val) {struct a} : bool :=
  let fix leq (l1 l2 : list val) {struct l1} : bool :=
    match l1, l2 with
    | [], [] => true
    | x :: xs, y :: ys => val_eqb x y && leq xs ys
    | _, _ => false
    end in
  let fix deq (l1 l2 : list (val * val)) {struct l1} : bool :=
    match l1, l2 with
    | [], [] => true
    | (k1, v1) :: xs, (k2, v2) :: ys => val_eqb k1 k2 && val_eqb v1 v2 && deq xs ys
    | _, _ => false
    end in
  match a, b with
  | VInt x, VInt y => Z.eqb x y
  | VStr x, VStr y => list_eqb Z.eqb x y
  | VBool x, VBool y => Bool.eqb x y
  | VNone, VNone => true
  | VTup x, VTup y => leq x y
  | VLst x, VLst y => leq x y
  | VDict x, VDict y => deq x y
  | VObj c i, VObj d j => Nat.eqb c d && Z.eqb i j
  | _, _ => false
  end.

(* Python's == on values: as val_eqb, plus True == 1 and False == 0 (bool is a subclass of int); this is what
   `in`, dict lookup and Literal's checks use.  val_eqb stays the structural identity used for type equality. *)
Fixpoint val_pyeq (a b : val) {struct a} : bool :=
  let fix leq (l1 l2 : list val) {struct l1} : bool :=
    match l1, l2 with
    | [], [] => true
    | x :: xs, y :: ys => val_pyeq x y && leq xs ys
    | _, _ => false
    end in
  let fix deq (l1 l2 : list (val * val)) {struct l1} : bool :=
    match l1, l2 with
    | [], [] => true
    | (k1, v1) :: xs, (k2, v2) :: ys => val_pyeq k1 k2 && val_pyeq v1 v2 && deq xs ys
    | _, _ => false
    end in
  match a, b with
  | VInt x, VInt y => Z.eqb x y
  | VInt x, VBool y => Z.eqb x (if y then 1 else 0)%Z
  | VBool x, VInt y => Z.eqb (if x then 1 else 0)%Z y
  | VStr x, VStr y => list_eqb Z.eqb x y
  | VBool x, VBool y => Bool.eqb x y
  | VNone, VNone => true
  | VTup x, VTup y => leq x y
  | VLst x, VLst y => leq x y
  | VDict x, VDict y => deq x y
  | VObj c i, VObj d j => Nat.eqb c d && Z.eqb i j
  | _, _ => false
  end.

Definition oval_eqb (a b : option val) : bool :=
  match a, b with
  | None, None => true
  | Some x, Some y => val_eqb x y
  | _, _ => false
  end.

(* ---------- types ---------- *)
(* Class ids are naturals; the hierarchy is a parameter (Section below).
   [i] in Exa/Strict/HasM/Chk is the identity of the Python object: SingleFunctionHandler has identity
   equality, so two spellings of Exactly[A] are different types (known finding KF-07).
   [f] in Fn/TFn identifies the FuncDependentType subclass (StartsWith, HasKey, a user predicate, ...). *)
Inductive ty : Type :=
| Cls (c : nat)
| Gen (o : nat) (args : list ty)            (* generic alias: list[int], type[A], dict[str, int] *)
| Uni (ts : list ty)                        (* ovld.types.Union[...] (what A | B normalises to) *)
| Int (ts : list ty)                        (* Intersection[...] *)
| Exa (i : nat) (c : nat)                   (* Exactly[c] *)
| Strict (i : nat) (c : nat)                (* StrictSubclass[c] *)
| HasM (i : nat) (m : nat)                  (* HasMethod[name m] *)
| Chk (i : nat) (p : nat)                   (* class_check(predicate p) *)
| Lit (vs : list val) (b : ty)              (* Equals / Literal[v1..vn] with bound b *)
| Fn (f : nat) (ps : list (option val)) (b : ty)   (* FuncDependentType, value parameters; None = typing.Any *)
| TFn (f : nat) (ts : list ty) (b : ty)     (* FuncDependentType with type parameters (Sequence/Collection/Mapping fast checks) *)
| Prod (ts : list ty) (b : ty).             (* ProductType: tuple[t1, ..., tn] *)

Fixpoint ty_eqb (a b : ty) {struct a} : bool :=
  let fix leq (l1 l2 : list ty) {struct l1} : bool :=
    match l1, l2 with
    | [], [] => true
    | x :: xs, y :: ys => ty_eqb x y && leq xs ys
    | _, _ => false
    end in
  match a, b with
  | Cls c, Cls d => Nat.eqb c d
  | Gen o x, Gen p y => Nat.eqb o p && leq x y
  | Uni x, Uni y => leq x y
  | Int x, Int y => leq x y
  | Exa i c, Exa j d => Nat.eqb i j && Nat.eqb c d
  | Strict i c, Strict j d => Nat.eqb i j && Nat.eqb c d
  | HasM i m, HasM j k => Nat.eqb i j && Nat.eqb m k
  | Chk i p, Chk j q => Nat.eqb i j && Nat.eqb p q
  | Lit v b1, Lit w b2 => list_eqb val_eqb v w && ty_eqb b1 b2
  | Fn f p b1, Fn g q b2 => Nat.eqb f g && list_eqb oval_eqb p q && ty_eqb b1 b2
  | TFn f x b1, TFn g y b2 => Nat.eqb f g && leq x y && ty_eqb b1 b2
  | Prod x b1, Prod y b2 => leq x y && ty_eqb b1 b2
  | _, _ => false
  end.

Fixpoint tsize (t : ty) : nat :=
  let fix lsz (l : list ty) : nat := match l with [] => 0 | x :: xs => tsize x + lsz xs end in
  match t with
  | Cls _ | Strict _ _ | HasM _ _ | Chk _ _ => 1
  | Exa _ _ => 2
  | Gen _ a => S (S (lsz a))
  | Uni a | Int a => S (lsz a)
  | Lit _ b | Fn _ _ b => S (tsize b)
  | TFn _ a b | Prod a b => S (lsz a + tsize b)
  end.

Definition is_dep (t : ty) : bool :=
  match t with Lit _ _ | Fn _ _ _ | TFn _ _ _ | Prod _ _ => true | _ => false end.

Definition dep_bound (t : ty) : ty :=
  match t with Lit _ b | Fn _ _ b | TFn _ _ b | Prod _ b => b | _ => Cls 0 end.

Definition is_gen (t : ty) : bool := match t with Gen _ _ => true | _ => false end.

(* parameters that are typing.Any (only FuncDependentType.__lt__ looks at them) *)
Definition any_flags (t : ty) : list bool :=
  match t with
  | Fn _ ps _ => map (fun p => match p with None => true | Some _ => false end) ps
  | TFn _ ts _ => map (fun _ => false) ts
  | Prod ts _ => map (fun _ => false) ts
  | Lit vs _ => map (fun _ => false) vs
  | _ => []
  end.

Fixpoint count2 (f : bool -> bool -> bool) (l1 l2 : list bool) : nat :=
  match l1, l2 with
  | x :: xs, y :: ys => (if f x y then 1 else 0) + count2 f xs ys
  | _, _ => 0
  end.

(* self < other : DependentType.__lt__ is False; FuncDependentType.__lt__ compares Any wildcards *)
Definition dep_lt (a b : ty) : bool :=
  match a with
  | Fn _ _ _ | TFn _ _ _ =>
      let fa := any_flags a in
      let fb := any_flags b in
      if Nat.eqb (length fa) (length fb) then
        let p1g := count2 (fun x y => x && negb y) fa fb in
        let p2g := count2 (fun x y => y && negb x) fa fb in
        negb (Nat.eqb p2g 0) && Nat.eqb p1g 0
      else false
  | _ => false
  end.

(* DependentType.__type_order__ as a decision over the answers of the calls it makes: odep = isinstance(other, DependentType),
   bo = typeorder(self.bound, other.bound), lt = self < other, gt = other < self, s1 = subclasscheck(other, self.bound),
   s2 = subclasscheck(self.bound, other).  [dep_order] below is this decision with the calls (and their fuel) put back in
   (Proofs/LeafDep.v dep_order_decides). *)
Definition dep_decide (odep : bool) (bo : order) (lt gt s1 s2 : bool) : order :=
  if odep then
    match bo with
    | SAME => if lt then LESS else if gt then MORE else NONE
    | r => r
    end
  else if s1 || s2 then LESS else NONE.

(* subclasscheck's branch for generic aliases as a decision over the answers of the calls it makes: osub = issubclass(o1, o2),
   plain = (o2 is t2: the right-hand side is a bare class), n1 / n2 = numbers of type arguments, args_ok = all the
   argument-wise tests.  [subck_body] below is this decision with the calls put back in (Proofs/LeafDep.v gen_branch_decides). *)
Definition gen_sub_decide (osub plain : bool) (n1 n2 : nat) (args_ok : bool) : bool :=
  if osub then (if plain then true else if Nat.eqb n1 n2 then args_ok else false) else false.

(* typeorder's block for a generic alias on the left as a decision over the answers of the calls it makes: o2p = the right-hand
   side is a generic alias too, ot2 = typeorder(o1, t2), oo = typeorder(o1, o2), e1 / e2 = the argument lists are non-empty,
   n1 / n2 = their lengths, merged = Order.merge of the argument-wise comparisons ([tord_body]: Proofs/LeafDep.v) *)
Definition gen_order_decide (o2p : bool) (ot2 oo : order) (e1 e2 : bool) (n1 n2 : nat) (merged : order) : order :=
  if negb o2p then (match ot2 with SAME => LESS | r => r end)
  else match oo with
       | SAME => if e1 && negb e2 then LESS else if e2 && negb e1 then MORE else if Nat.eqb n1 n2 then merged else NONE
       | r => r
       end.

(* ---------- option helpers (None = out of fuel) ---------- *)
Definition obind {X Y} (o : option X) (f : X -> option Y) : option Y :=
  match o with None => None | Some x => f x end.
Definition omap {X Y} (f : X -> Y) (o : option X) : option Y :=
  match o with None => None | Some x => Some (f x) end.

Fixpoint omapM {X Y} (f : X -> option Y) (l : list X) : option (list Y) :=
  match l with
  | [] => Some []
  | x :: xs => match f x with None => None | Some y => omap (cons y) (omapM f xs) end
  end.

Fixpoint omapM2 {X Y} (f : X -> X -> option Y) (l1 l2 : list X) : option (list Y) :=
  match l1, l2 with
  | x :: xs, y :: ys => match f x y with None => None | Some r => omap (cons r) (omapM2 f xs ys) end
  | _, _ => Some []
  end.

(* any(...) / all(...) over a generator: left to right, short-circuit *)
Fixpoint oexists {X} (f : X -> option bool) (l : list X) : option bool :=
  match l with
  | [] => Some false
  | x :: xs => match f x with None => None | Some true => Some true | Some false => oexists f xs end
  end.

Fixpoint oforall {X} (f : X -> option bool) (l : list X) : option bool :=
  match l with
  | [] => Some true
  | x :: xs => match f x with None => None | Some false => Some false | Some true => oforall f xs end
  end.

Fixpoint oforall2 {X} (f : X -> X -> option bool) (l1 l2 : list X) : option bool :=
  match l1, l2 with
  | x :: xs, y :: ys => match f x y with None => None | Some false => Some false | Some true => oforall2 f xs ys end
  | _, _ => Some true
  end.

Section Hier.
  (* The class hierarchy and class-level predicates are data supplied by the harness (read off the
     implementation's own issubclass/hasattr): *)
  Variable sub : nat -> nat -> bool.        (* issubclass(c, d) on plain classes / ABCs / protocols *)
  Variable hasm : nat -> nat -> bool.       (* hasattr(c, method m) *)
  Variable chk : nat -> nat -> bool.        (* user class predicate p on class c *)
  Variable sub_fresh : nat -> bool.         (* issubclass(K, d) for a constructed class K (bases = ()); true for object *)

  (* issubclass(a, Cls d) where a is a class (never a generic alias) *)
  Definition issub_cls (a : ty) (d : nat) : option bool :=
    match a with
    | Cls c => Some (sub c d)
    | Gen _ _ => None              (* issubclass(alias, cls) would raise TypeError; unreachable from tord/subck *)
    | _ => Some (sub_fresh d)
    end.

  (* t.__is_supertype__(a): Some None = no such hook *)
  Definition supck (subck : ty -> ty -> option bool) (t a : ty) : option (option bool) :=
    match t with
    | Uni ts => omap Some (oexists (fun x => subck a x) ts)
    | Int ts => omap Some (oforall (fun x => subck a x) ts)
    | Exa _ c => Some (Some (ty_eqb a (Cls c)))
    | Strict _ c =>
        Some (Some (match a with
                    | Cls x => sub x c && negb (Nat.eqb x c)
                    | Gen _ _ => false                      (* not isinstance(alias, type) *)
                    | _ => sub_fresh c                      (* a constructed class is a proper "subclass" of object *)
                    end))
    | HasM _ m =>
        Some (Some (match a with
                    | Cls x => hasm x m
                    | Gen o _ => hasm o m                   (* generic aliases forward attribute access *)
                    | _ => false
                    end))
    | Chk _ p => Some (Some (match a with Cls x => chk p x | _ => false end))
    | Lit _ b | Fn _ _ b | TFn _ _ b | Prod _ b =>
        if is_dep a then Some (Some false) else omap Some (subck a b)
    | Cls _ | Gen _ _ => Some None
    end.

  (* issubclass(a, b) as reached from typeorder's fallback: a, b are classes, not aliases *)
  Definition issub (subck : ty -> ty -> option bool) (a b : ty) : option bool :=
    match b with
    | Cls d => issub_cls a d
    | Gen _ _ => None
    | Uni _ | Int _ | Exa _ _ | Strict _ _ | HasM _ _ | Chk _ _ =>
        match supck subck b a with Some (Some r) => Some r | _ => None end   (* MetaMC.__subclasscheck__ *)
    | Lit _ _ | Fn _ _ _ | TFn _ _ _ | Prod _ _ => Some false               (* type.__subclasscheck__: not in a's MRO *)
    end.

  (* DependentType.__type_order__ *)
  Definition dep_order (tord : ty -> ty -> option order) (subck : ty -> ty -> option bool)
             (t o : ty) : option (option order) :=
    let b := dep_bound t in
    if is_dep o then
      match tord b (dep_bound o) with
      | None => None
      | Some SAME => Some (Some (if dep_lt t o then LESS else if dep_lt o t then MORE else NONE))
      | Some r => Some (Some r)
      end
    else
      match subck o b with
      | None => None
      | Some true => Some (Some LESS)
      | Some false =>
          match subck b o with
          | None => None
          | Some true => Some (Some LESS)
          | Some false => Some (Some NONE)
          end
      end.

  (* t.__type_order__(o): Some None = no hook or NotImplemented *)
  Definition hook_order (tord : ty -> ty -> option order) (subck : ty -> ty -> option bool)
             (t o : ty) : option (option order) :=
    match t with
    | Uni ts =>
        match omapM (fun x => tord x o) ts with
        | None => None
        | Some rs =>
            let cmp := filter (fun r => negb (order_eqb r NONE)) rs in
            Some (Some (match cmp with
                        | [] => NONE
                        | _ => if existsb ge_same cmp then MORE else LESS
                        end))
        end
    | Int ts =>
        match omapM (fun x => tord x o) ts with
        | None => None
        | Some rs =>
            let cmp := filter (fun r => negb (order_eqb r NONE)) rs in
            Some (Some (match cmp with
                        | [] => NONE
                        | _ => if existsb le_same cmp then LESS else MORE
                        end))
        end
    | Exa _ c => if ty_eqb o (Cls c) then Some (Some LESS) else omap Some (tord (Cls c) o)
    | Strict _ _ | HasM _ _ | Chk _ _ => Some None
    | Prod ps _ =>
        match o with
        | Prod qs _ =>
            if Nat.eqb (length ps) (length qs)
            then omap (fun rs => Some (merge rs)) (omapM2 tord ps qs)
            else Some (Some NONE)
        | _ => dep_order tord subck t o        (* super().__type_order__(other): since the repair of KF-24 *)
        end
    | Lit _ _ | Fn _ _ _ | TFn _ _ _ => dep_order tord subck t o
    | Cls _ | Gen _ _ => Some None
    end.

  (* one unfolding of subclasscheck, recursive calls through [rec] *)
  Definition subck_body (rec : ty -> ty -> option bool) (t1 t2 : ty) : option bool :=
    if ty_eqb t1 t2 then Some true else
    match supck rec t2 t1 with
    | None => None
    | Some (Some r) => Some r
    | Some None =>
        (* t1.__is_subtype__(t2) is NotImplemented for every type of the modelled closure *)
        let o1' := match t1 with Gen o _ => Cls o | _ => t1 end in
        match t2 with
        | Cls d => issub_cls o1' d
        | Gen o2 a2 =>
            match issub_cls o1' o2 with
            | None => None
            | Some false => Some false
            | Some true =>
                let a1 := match t1 with Gen _ a => a | _ => [] end in
                if Nat.eqb (length a1) (length a2) then oforall2 rec a1 a2 else Some false
            end
        | _ => None
        end
    end.

  Fixpoint subck (n : nat) : ty -> ty -> option bool :=
    match n with
    | O => fun _ _ => None
    | S n => subck_body (subck n)
    end.

  (* one unfolding of typeorder *)
  Definition tord_body (rec : ty -> ty -> option order) (srec : ty -> ty -> option bool)
             (t1 t2 : ty) : option order :=
    if ty_eqb t1 t2 then Some SAME else
    match hook_order rec srec t1 t2 with
    | None => None
    | Some (Some r) => Some r
    | Some None =>
        match hook_order rec srec t2 t1 with
        | None => None
        | Some (Some r) => Some (opposite r)
        | Some None =>
            match t1, t2 with
            | Gen o1 a1, Gen o2 a2 =>
                match rec (Cls o1) (Cls o2) with
                | None => None
                | Some SAME =>
                    match a1, a2 with
                    | _ :: _, [] => Some LESS
                    | [], _ :: _ => Some MORE
                    | _, _ =>
                        if Nat.eqb (length a1) (length a2)
                        then omap merge (omapM2 rec a1 a2)
                        else Some NONE
                    end
                | Some r => Some r
                end
            | Gen o1 _, _ =>
                match rec (Cls o1) t2 with
                | Some SAME => Some LESS
                | r => r
                end
            | _, Gen _ _ => omap opposite (rec t2 t1)
            | _, _ =>
                match issub srec t1 t2, issub srec t2 t1 with
                | Some sx, Some sy =>
                    Some (if sx && sy then SAME else if sx then LESS else if sy then MORE else NONE)
                | _, _ => None
                end
            end
        end
    end.

  Fixpoint tord (n : nat) : ty -> ty -> option order :=
    match n with
    | O => fun _ _ => None
    | S n => tord_body (tord n) (subck n)
    end.

  (* fuel that always suffices (Proofs/TyTotal.v) *)
  Definition fuel_for (t1 t2 : ty) : nat := 2 * (tsize t1 + tsize t2) + 2.
  Definition typeorder (t1 t2 : ty) : option order := tord (fuel_for t1 t2) t1 t2.
  Definition subclasscheck (t1 t2 : ty) : option bool := subck (fuel_for t1 t2) t1 t2.
End Hier.
