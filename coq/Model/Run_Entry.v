(* Run_Entry.v — executable entry points for the component Entry (property C03).
   A case is (opcode payload...).  The harness (vlib/props/c03.py) sends the same cases to the implementation. *)
(* OPCODE 30 run_entry_gen *)
(* OPCODE 31 run_entry_calls *)
From Coq Require Import ZArith List Bool Arith.
Import ListNotations.
From OvldV Require Import Model.Sx Model.Entry Spec.EntrySpec.

(* ---------- decoding ----------
   param: (kind name req ann cx)   kind 0 = positional-only, 1 = positional-or-keyword, 2 = keyword-only
   sig:   (self prio (param...))
   sigs:  (sig...) *)
Definition kind_of (s : sx) : pkind :=
  match sx_nat s with 0 => PosOnly | 1 => PosKw | _ => KwOnly end.
Definition param_of (s : sx) : param :=
  mkParam (kind_of (sx_nth 0 s)) (sx_nat (sx_nth 1 s)) (sx_bool (sx_nth 2 s)) (sx_nat (sx_nth 3 s)) (sx_bool (sx_nth 4 s)).
Definition sig_of (s : sx) : msig :=
  mkSig (sx_bool (sx_nth 0 s)) (map param_of (sx_list (sx_nth 2 s))) (sx_z (sx_nth 1 s)).
Definition sigs_of (s : sx) : list msig := map sig_of (sx_list s).

(* ---------- encoding ----------
   ident: (0 n) user name n | (1 n) ARG<n> | (2) self
   lk: 0 = type, 1 = subtler_type
   pitem: (0 ident dflt) | (1) "/" | (2) "*"
   kitem: (0 lk ident) | (1 n lk ident) | (2) *TARGS
   aitem: (0 ident) | (1 n ident) | (2) **KWARGS
   call: ((kitem...) (aitem...))
   stmt: (0) KWARGS = {} | (1) TARGS = [] | (2 t kn v tn lk ta) | (3 ident call) | (4 call)
   src: (0) self | (1 i) positional i | (2 n) keyword n | (3) MISSING | (4) unbound | (5) the method's own default *)
Definition of_ident (x : ident) : sx :=
  match x with IUser n => L [A 0%Z; of_nat n] | IArg n => L [A 1%Z; of_nat n] | ISelf => L [A 2%Z] end.
Definition of_lk (f : lk) : sx := match f with LType => A 0%Z | LSubtler => A 1%Z end.
Definition of_pitem (p : pitem) : sx :=
  match p with
  | PArg x d => L [A 0%Z; of_ident x; of_bool d]
  | PSlash => L [A 1%Z]
  | PStar => L [A 2%Z]
  end.
Definition of_kitem (k : kitem) : sx :=
  match k with
  | KPosI f x => L [A 0%Z; of_lk f; of_ident x]
  | KNamedI n f x => L [A 1%Z; of_nat n; of_lk f; of_ident x]
  | KTargs => L [A 2%Z]
  end.
Definition of_aitem (a : aitem) : sx :=
  match a with
  | APosI x => L [A 0%Z; of_ident x]
  | AKwI n x => L [A 1%Z; of_nat n; of_ident x]
  | AKwargs => L [A 2%Z]
  end.
Definition of_call (c : call) : sx := L [L (map of_kitem (c_key c)); L (map of_aitem (c_args c))].
Definition of_stmt (s : stmt) : sx :=
  match s with
  | SInitK => L [A 0%Z]
  | SInitT => L [A 1%Z]
  | SKwOpt t kn v tn f ta => L [A 2%Z; of_ident t; of_nat kn; of_ident v; of_nat tn; of_lk f; of_ident ta]
  | SExit x c => L [A 3%Z; of_ident x; of_call c]
  | SCall c => L [A 4%Z; of_call c]
  end.
Definition of_error (e : an_error) : sx :=
  match e with ErrSelfMix => A 3%Z | ErrDiffPos => A 1%Z | ErrPosKw => A 2%Z end.
Definition of_src (s : src) : sx :=
  match s with
  | SSelf => L [A 0%Z]
  | SPos i => L [A 1%Z; of_nat i]
  | SKw n => L [A 2%Z; of_nat n]
  | SMissing => L [A 3%Z]
  | SUnbound => L [A 4%Z]
  end.
Definition of_keyent (k : keyent) : sx :=
  L [match ke_name k with Some n => of_nat n | None => A (-1)%Z end; of_lk (ke_lk k); of_src (ke_src k)].
Definition of_eparam (p : eparam) : sx :=
  L [match ep_kind p with PosOnly => A 0%Z | PosKw => A 1%Z | KwOnly => A 2%Z end; of_ident (ep_id p); of_bool (ep_dflt p)].

(* opcode 30: (30 sigs) ->
     (0 err)                                               the analyzer raises
   | (1 (is_method spr spo pr po kr ko) (params) (body) resolved)
       where resolved = (0) if the generated def is a SyntaxError, else (1 (kind ident dflt)...) *)
Definition run_entry_gen (s : sx) : sx :=
  let sigs := sigs_of (sx_arg 0 s) in
  match analyze sigs with
  | inl e => L [A 0%Z; of_error e]
  | inr a =>
      let g := gen_entry a in
      L [A 1%Z;
         L [of_bool (an_self a); L (map of_ident (an_spr a)); L (map of_ident (an_spo a));
            L (map of_ident (an_pr a)); L (map of_ident (an_po a)); of_nats (an_kr a); of_nats (an_ko a)];
         L (map of_pitem (e_params g));
         L (map of_stmt (e_body g));
         match resolve_params (e_params g) with
         | None => L [A 0%Z]
         | Some ps => L (A 1%Z :: map of_eparam ps)
         end]
  end.

(* opcode 31: (31 sigs self table vk_missing (call...)) with
     call  = (k (vkind of positional 0 ...) ((name vkind)...))
     table = ((row per value kind: (ann-bit...)) for type) ((...) for subtler_type)
   -> per call: (result accepts-per-signature dom_fwd kf02 kf03 kw_documented fwd_ok sigs_wf kf31)
      result = (0 err) | (1) SyntaxError | (2) entry rejects | (3) body error | (4 key) No method
             | (5 key fpos fkw m) method rejects the forwarded call | (6 key fpos fkw m got) *)
Definition tbl_get (t : sx) (f : lk) (vk ann : nat) : bool :=
  sx_bool (sx_nth ann (sx_nth vk (sx_nth (match f with LType => 0 | LSubtler => 1 end) t))).

Definition vkind_of (vk_missing : nat) (pos : list nat) (kws : list (nat * nat)) (s : src) : nat :=
  match s with
  | SPos i => nth i pos vk_missing
  | SKw n => match kw_find n kws with Some v => v | None => vk_missing end
  | _ => vk_missing
  end.

Definition of_kws (l : list (nat * src)) : sx := L (map (fun ns => L [of_nat (fst ns); of_src (snd ns)]) l).

Definition of_dispatch (r : dispatch_result) : sx :=
  match r with
  | DAnalysisError e => L [A 0%Z; of_error e]
  | DSyntaxError => L [A 1%Z]
  | DBindError => L [A 2%Z]
  | DBodyError => L [A 3%Z]
  | DNoMethod key => L [A 4%Z; L (map of_keyent key)]
  | DRejected key fpos fkw m => L [A 5%Z; L (map of_keyent key); L (map of_src fpos); of_kws fkw; of_nat m]
  | DRan key fpos fkw m got =>
      L [A 6%Z; L (map of_keyent key); L (map of_src fpos); of_kws fkw; of_nat m;
         L (map (fun o => match o with Some x => of_src x | None => L [A 5%Z] end) got)]
  end.

Definition run_entry_calls (s : sx) : sx :=
  let sigs := sigs_of (sx_arg 0 s) in
  let self := sx_bool (sx_arg 1 s) in
  let tbl := sx_arg 2 s in
  let vkm := sx_nat (sx_arg 3 s) in
  L (map (fun c =>
            let k := sx_nat (sx_nth 0 c) in
            let posk := map sx_nat (sx_list (sx_nth 1 c)) in
            let kwk := map (fun p => (sx_nat (sx_nth 0 p), sx_nat (sx_nth 1 p))) (sx_list (sx_nth 2 c)) in
            let K := map fst kwk in
            let compat := fun f x ann => tbl_get tbl f (vkind_of vkm posk kwk x) ann in
            let r := dispatch compat sigs self k K in
            L [of_dispatch r;
               L (map (fun sg => of_bool (accepts sg k K)) sigs);
               of_bool (dom_fwd sigs k K); of_bool (kf02_class sigs k K); of_bool (kf03_class sigs k K);
               of_bool (match analyze sigs with inr a => kw_documented a K | inl _ => false end);
               of_bool (match run_entry sigs self k K with
                        | ROut (OCall key fpos fkw) => fwd_ok sigs self k K key fpos fkw
                        | _ => false
                        end);
               of_bool (forallb sig_wf sigs);
               of_bool (kf31_class sigs k K)])
          (sx_list (sx_arg 4 s))).
