(* C18 -- a failed build never leaves a half-built function in service.
   Theorems only; every proof is [exact <lemma>]; Print Assumptions under each.
   Model: Model/BuildM.v (compile / rebuild / resolve as sequences of atomic steps; a failure after n steps of an operation
   = [fail_after n]: the exception aborts the rest, the state keeps the writes made so far).
   Statements: Spec/BuildSpec.v.  [chain] (what mro computes over the registered handlers) and [meth] are parameters.

   FULL STATEMENT  C18_safe_after_failure (Spec/BuildSpec.v):
     for every definition list, every sequential history, every operation (first call = first build, register/unregister =
     rebuild, call = cache-miss resolution), EVERY failure point n, every later probe:
       outcome = configuration error  \/  outcome = outcome over the complete set of definitions;
   and C18_works_after_removal: once the offending method is unregistered every probe equals the fresh function.
   Both are FALSE of the faithful model (C18_safe_after_failure_refuted, C18_works_after_removal_refuted; witnesses below).
   PROVED (C18_partial...): the same conclusion on the decidable domain [safe_point] -- every step boundary of a call
   except (KF-19) inside compile after the entry-point swap; since the repair of KF-20 (/repo 7cfed94: the first-rank entry
   is written last) every point of resolve's write loop is inside the domain -- and for rebuilds: any change made while
   _compiled is set repairs everything. *)
From Coq Require Import List Bool Arith.
Import ListNotations.
From OvldV Require Import Model.BuildM Spec.BuildSpec Proofs.BuildBase Proofs.BuildSeq Proofs.BuildWit.

Definition ChainOk (chain : list label -> key -> list rank) : Prop :=
  (forall regs k, NoDup regs -> NoDup (handlers (chain regs k))) /\
  (forall regs k h, In h (handlers (chain regs k)) -> In h regs).
Definition MethOk (meth : label -> minfo) : Prop := forall l, m_body (meth l) = BNext -> m_recoded (meth l) = true.

(* the full statements are false *)
Theorem C18_safe_after_failure_refuted : exists chain meth, ~ C18_safe_after_failure chain meth.
Proof. exact (ex_intro _ wchain (ex_intro _ wmeth full_c18_false)). Qed.
Print Assumptions C18_safe_after_failure_refuted.

Theorem C18_works_after_removal_refuted : exists chain meth, ~ C18_works_after_removal chain meth.
Proof. exact (ex_intro _ wchain (ex_intro _ wmeth full_c18_removal_false)). Qed.
Print Assumptions C18_works_after_removal_refuted.

(* KF-19 (natural witness): definitions a, b, <bare call_next>, c.  The first call raises the configuration error; the
   function then dispatches over the prefix {a, b}: a str argument runs b although c is registered. *)
Theorem C18_refuted_fill :
  snd (run_op wchain wmeth 100 (init [0; 1; 3; 2]) (OCall 0)) = Some ([], RErr EConfig) /\
  probes wchain wmeth 100 s_fill [0; 1; 2] = [Some ([0; 1], RRet); Some ([1], RRet); Some ([1], RRet)] /\
  all_allowed wchain wmeth 100 s_fill [0; 1; 2] = false.
Proof. exact wit_fill. Qed.
Print Assumptions C18_refuted_fill.

(* KF-19: ... and unregistering the offending method does not repair it (_compiled was never set: nothing rebuilds) *)
Theorem C18_refuted_fill_removal :
  let s2 := fst (run_op wchain wmeth 100 s_fill (OUnreg 3)) in
  s_defs s2 = [0; 1; 2] /\ all_ok wmeth (s_defs s2) = true /\
  probes wchain wmeth 100 s2 [1] = [Some ([1], RRet)] /\ fresh_outcome wchain wmeth (s_defs s2) 1 = ([2], RRet) /\
  all_allowed wchain wmeth 100 s2 [1] = false.
Proof. exact wit_fill_removal. Qed.
Print Assumptions C18_refuted_fill_removal.

(* KF-19, rebuild: registering a method with conflicting argument names after first use: the table in service is replaced
   by an empty one BEFORE analysis fails; every later call reports "no method" *)
Theorem C18_refuted_rebuild :
  snd (run_op wchain wmeth 100 s_built (OReg 4)) = Some ([], RErr EConfig) /\
  probes wchain wmeth 100 (fail_after wchain wmeth 100 s_built (OReg 4)) [0; 1; 2] =
    [Some ([], RErr ENoMethod); Some ([], RErr ENoMethod); Some ([], RErr ENoMethod)] /\
  all_allowed wchain wmeth 100 (fail_after wchain wmeth 100 s_built (OReg 4)) [0; 1; 2] = false.
Proof. exact wit_rebuild. Qed.
Print Assumptions C18_refuted_rebuild.

(* KF-20 is repaired: an interrupt anywhere in resolve's write loop (step 4 below: after the first write, which is now the
   continuation entry) is harmless.  The general statement is C18_partial (the window lies inside [safe_point]); this is the
   former witness, now a positive instance: all 12 failure points of the call, every probe allowed. *)
Theorem C18_resolve_window_safe :
  in_write_window (snd (run_alone wchain wmeth 4 s_built1 (start (OCall 0)))) = true /\
  l_pc (snd (run_alone wchain wmeth 4 s_built1 (start (OCall 0)))) = PWrite 0 0 None true [WDict (0, 0) 0] /\
  probes wchain wmeth 100 (fail_after wchain wmeth 4 s_built1 (OCall 0)) [0; 0] = [Some ([0; 1], RRet); Some ([0; 1], RRet)] /\
  forallb (fun n => all_allowed wchain wmeth 100 (fail_after wchain wmeth n s_built1 (OCall 0)) [0; 1; 2; 0]) (seq 0 12) = true.
Proof. exact wit_resolve_fixed. Qed.
Print Assumptions C18_resolve_window_safe.

(* KF-45: interrupt between recording a new method and the rebuild: registered, never dispatched to *)
Theorem C18_refuted_stale :
  s_defs (fail_after wchain wmeth 1 s_builtb (OReg 0)) = [1; 0] /\
  probes wchain wmeth 100 (fail_after wchain wmeth 1 s_builtb (OReg 0)) [0] = [Some ([1], RRet)] /\
  fresh_outcome wchain wmeth [1; 0] 0 = ([0; 1], RRet) /\
  all_allowed wchain wmeth 100 (fail_after wchain wmeth 1 s_builtb (OReg 0)) [0] = false.
Proof. exact wit_stale. Qed.
Print Assumptions C18_refuted_stale.

(* PROVED, first build and cache-miss resolution: valid definitions D (any number), any history of completed calls
   (none = the failure strikes the first build), a failure after ANY number n of steps of a call such that the point
   reached is a [safe_point]: every later probe sequence returns the outcomes over the complete table. *)
Theorem C18_partial : forall chain meth, ChainOk chain -> MethOk meth ->
  forall D, NoDup D -> all_ok meth D = true ->
  forall ks0 fuel0 xs0, snd (run_ops chain meth fuel0 (init D) (map OCall ks0)) = map Some xs0 ->
  let s := fst (run_ops chain meth fuel0 (init D) (map OCall ks0)) in
  forall k0 n, safe_point (snd (run_alone chain meth n s (start (OCall k0)))) = true ->
  forall ks fuel xs, probes chain meth fuel (fail_after chain meth n s (OCall k0)) ks = map Some xs ->
    xs = map (spec_call chain meth D) ks.
Proof. exact (fun chain meth HC HM => partial_call chain meth (proj1 HC) (proj2 HC) HM). Qed.
Print Assumptions C18_partial.

(* PROVED, rebuild: from ANY state in which _compiled is set, after a failure at ANY point of ANY operation,
   unregistering a method so that the remaining definitions are valid rebuilds everything. *)
Theorem C18_partial_removal_rebuild : forall chain meth, ChainOk chain -> MethOk meth ->
  forall s, s_compiled s = true ->
  forall trig n d fuel s2 x, let s1 := fail_after chain meth n s trig in
  NoDup (remove_label d (s_defs s1)) -> all_ok meth (remove_label d (s_defs s1)) = true ->
  run_op chain meth fuel s1 (OUnreg d) = (s2, Some x) ->
  forall ks fuel' xs, probes chain meth fuel' s2 ks = map Some xs ->
    xs = map (spec_call chain meth (remove_label d (s_defs s1))) ks.
Proof. exact (fun chain meth HC HM => partial_removal_rebuild chain meth (proj1 HC) (proj2 HC) HM). Qed.
Print Assumptions C18_partial_removal_rebuild.

(* PROVED, natural failure before the swap (conflicting argument names in the first build): every call raises the
   configuration error again, and after unregistering so that the rest is valid every probe is the complete-table outcome. *)
Theorem C18_partial_bad_analysis : forall chain meth, ChainOk chain -> MethOk meth ->
  forall defs ks fuel, existsb (is_bad_analysis meth) defs = true -> 4 <= fuel ->
  probes chain meth fuel (init defs) ks = map (fun _ => Some ([], RErr EConfig)) ks /\
  forall d, NoDup (remove_label d defs) -> all_ok meth (remove_label d defs) = true ->
    let s1 := fst (run_ops chain meth fuel (init defs) (map OCall ks)) in
    exists s2, run_op chain meth fuel s1 (OUnreg d) = (s2, Some ([], RRet)) /\
      forall ks' fuel' xs, probes chain meth fuel' s2 ks' = map Some xs -> xs = map (spec_call chain meth (remove_label d defs)) ks'.
Proof. exact (fun chain meth HC HM => partial_bad_analysis chain meth (proj1 HC) (proj2 HC) HM). Qed.
Print Assumptions C18_partial_bad_analysis.

(* the hypotheses are met by the executable chain, and the domain contains non-trivial points *)
Theorem C18_hypotheses_inhabited : forall rk, ChainOk (chain_rk rk).
Proof. exact (fun rk => conj (chain_rk_nodup rk) (chain_rk_sub rk)). Qed.
Print Assumptions C18_hypotheses_inhabited.

Theorem C18_meth_inhabited : MethOk wmeth.
Proof. exact wmeth_rec. Qed.
Print Assumptions C18_meth_inhabited.

(* the proved domain is the complement of the classifier of the one open finding that concerns calls, KF-19 (in_fill_window) *)
Theorem C18_domain_complement : forall l, safe_point l = negb (in_fill_window l).
Proof. exact safe_point_complement. Qed.
Print Assumptions C18_domain_complement.

Example C18_partial_inhabited :
  safe_point (snd (run_alone wchain wmeth 4 (init [0; 1; 2]) (start (OCall 0)))) = true /\
  probes wchain wmeth 100 (fail_after wchain wmeth 4 (init [0; 1; 2]) (OCall 0)) [0; 1; 2] = map Some (map (spec_call wchain wmeth [0; 1; 2]) [0; 1; 2]) /\
  safe_point (snd (run_alone wchain wmeth 3 s_built1 (start (OCall 0)))) = true /\
  safe_point (snd (run_alone wchain wmeth 4 s_built1 (start (OCall 0)))) = true /\
  safe_point (snd (run_alone wchain wmeth 8 (init [0; 1; 2]) (start (OCall 0)))) = false /\
  safe_point (snd (run_alone wchain wmeth 5 s_built1 (start (OCall 0)))) = true /\
  spec_call wchain wmeth [0; 1; 2] 0 = ([0; 1], RRet).
Proof. exact partial_call_inhabited. Qed.
