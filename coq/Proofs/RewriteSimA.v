(* RewriteSimA.v — the relations of Spec/RewriteRel.v are preserved by every elementary step of the semantics
   (lookups, assignments, frames, logging, calls of primitives and of user code). *)
From Coq Require Import ZArith List Bool Arith Lia.
Import ListNotations.
From OvldV Require Import Model.Rewrite Spec.RewriteRel Proofs.RewriteSyn Proofs.RewriteFoot.

Section SimA.
  Variable W : Type.
  Variable p : rwp.
  Variable typeof : bool -> sval -> nat.
  Variable tbl : nat -> list kpart -> option sval.
  Variable callv : sval -> list sval -> list (nat * sval) -> W -> outcome sval * W * list event.
  Variable ugl : nat -> option sval.
  Variable mself : sval.

  Notation state := (state W).
  Notation frames := (s_frames W).
  Notation gvars := (s_gvars W).
  Notation vrel := (vrel p).
  Notation srel := (srel W p).
  Notation orel := (orel p).
  Notation LC := (lookup_chain W p ugl mself).
  Notation GENV := (genv p ugl mself).

  (* ---- values *)
  Lemma vrel_shape : forall v v', vrel v v' -> shape v = shape v'.
  Proof.
    fix IH 3. intros v v' H. destruct H; simpl; try reflexivity.
    f_equal. induction H; simpl; [reflexivity|]. f_equal; [apply IH; assumption | assumption].
  Qed.

  Lemma vrel_inj : forall s, vrel (inj s) (inj s).
  Proof.
    fix IH 1. intros s. destruct s; simpl; try constructor.
    induction l; simpl; constructor; [apply IH | assumption].
  Qed.

  Lemma shapes_rel : forall l l', Forall2 vrel l l' -> map shape l = map shape l'.
  Proof. induction 1; simpl; [reflexivity|]. f_equal; [apply vrel_shape; assumption | assumption]. Qed.

  Lemma shape_inj : forall s, shape (inj s) = s.
  Proof.
    fix IH 1. intros s. destruct s; simpl; try reflexivity.
    f_equal. induction l; simpl; [reflexivity|]. f_equal; [apply IH | assumption].
  Qed.

  Lemma shape_kw_rel : forall a b, kw_rel p a b -> shape_kw a = shape_kw b.
  Proof.
    induction 1; simpl; [reflexivity|]. destruct H as [H1 H2].
    rewrite H1, (vrel_shape _ _ H2), IHForall2. reflexivity.
  Qed.

  Lemma orel_lift : forall o, out_rel vrel (lift o) (lift o).
  Proof. destruct o; simpl; [apply vrel_inj | reflexivity]. Qed.

  (* ---- lookups *)
  Lemma special_not_tmp : forall x, special p x = true -> is_tmp x = false.
  Proof. destruct x; simpl; auto; try discriminate. Qed.

  Lemma genv_rel : forall x, is_alias p x = false -> orel (GENV false x) (GENV true x).
  Proof.
    intros x Ha. destruct x; simpl; try constructor.
    - destruct (is_sym (p_cs p) i); [constructor|]. destruct (is_sym (p_rs p) i); [constructor|].
      simpl in Ha. rewrite Ha. destruct (ugl i); simpl; [apply vrel_inj | exact I].
    - destruct (a_method (an p)); simpl; [apply vrel_inj | exact I].
  Qed.

  Lemma frame_lookup_rel : forall s s' f x, srel s s' -> is_tmp x = false ->
    orel (frame_lookup W s f x) (frame_lookup W s' f x).
  Proof.
    intros s s' f x (HF & _) Hx. unfold frame_lookup.
    revert f. induction HF; intros f; destruct f; simpl; try exact I.
    - destruct H as (_ & Hv & _). apply Hv. assumption.
    - apply IHHF.
  Qed.

  Lemma lookup_chain_rel : forall s s' rho x, srel s s' -> is_tmp x = false -> is_alias p x = false ->
    orel (LC false s rho x) (LC true s' rho x).
  Proof.
    intros s s' rho x Hs Hx Ha. induction rho as [|f r IH]; simpl.
    - destruct Hs as (_ & Hg & _). specialize (Hg x Hx). unfold RewriteRel.orel in Hg.
      destruct (lookup x (gvars s)), (lookup x (gvars s')); try contradiction; [exact Hg|].
      apply genv_rel. assumption.
    - pose proof (frame_lookup_rel s s' f x Hs Hx) as Hf. unfold RewriteRel.orel in Hf.
      destruct (frame_lookup W s f x), (frame_lookup W s' f x); try contradiction; [exact Hf | exact IH].
  Qed.

  Lemma frame_lookup_special : forall s s' f x, srel s s' -> special p x = true ->
    frame_lookup W s f x = None /\ frame_lookup W s' f x = None.
  Proof.
    intros s s' f x (HF & _) Hx. unfold frame_lookup.
    revert f. induction HF; intros f; destruct f; simpl; auto.
    destruct H as (_ & _ & Hc & Hc' & _). split; [apply Hc | apply Hc']; assumption.
  Qed.

  Lemma lookup_special : forall s s' rho x, srel s s' -> special p x = true ->
    (forall reg, LC reg s rho x = GENV reg x) /\ (forall reg, LC reg s' rho x = GENV reg x).
  Proof.
    intros s s' rho x Hs Hx. induction rho as [|f r IH]; simpl.
    - destruct Hs as (_ & _ & Hc & Hc' & _). rewrite (Hc x Hx), (Hc' x Hx). auto.
    - destruct (frame_lookup_special s s' f x Hs Hx) as [-> ->]. exact IH.
  Qed.

  Lemma frames_len : forall s s', srel s s' -> length (frames s) = length (frames s').
  Proof. intros s s' (HF & _). induction HF; simpl; auto. Qed.

  Lemma frames_nth : forall s s' i, srel s s' ->
    match nth_error (frames s) i, nth_error (frames s') i with
    | Some f, Some f' => frame_rel p f f'
    | None, None => True
    | _, _ => False
    end.
  Proof.
    intros s s' i (HF & _). revert i. induction HF; intros i; destruct i; simpl; auto. apply IHHF.
  Qed.

  Lemma target_rel : forall s s' rho, srel s s' -> target W s rho = target W s' rho.
  Proof.
    intros s s' rho Hs. induction rho as [|f r IH]; simpl; auto.
    pose proof (frames_nth s s' f Hs) as Hn.
    destruct (nth_error (frames s) f), (nth_error (frames s') f); try contradiction; auto.
    destruct Hn as (-> & _). rewrite IH. reflexivity.
  Qed.

  (* ---- state updates *)
  Lemma lookup_cons : forall x y (v : val) l, lookup x ((y, v) :: l) = if name_eqb x y then Some v else lookup x l.
  Proof. reflexivity. Qed.

  Lemma vars_rel_cons : forall l l' x v v', vars_rel p l l' -> vrel v v' -> vars_rel p ((x, v) :: l) ((x, v') :: l').
  Proof.
    intros l l' x v v' H Hv y Hy. rewrite !lookup_cons. destruct (name_eqb y x); [exact Hv | apply H; assumption].
  Qed.
  Lemma vars_rel_cons_tmp : forall l l' n k v', vars_rel p l l' -> vars_rel p l ((NTmp n k, v') :: l').
  Proof.
    intros l l' n k v' H y Hy. rewrite lookup_cons. destruct (name_eqb y (NTmp n k)) eqn:E; [|apply H; assumption].
    apply name_eqb_eq in E. subst. discriminate.
  Qed.
  Lemma vars_clean_cons : forall l x v, vars_clean p l -> special p x = false -> vars_clean p ((x, v) :: l).
  Proof.
    intros l x v H Hx y Hy. rewrite lookup_cons. destruct (name_eqb y x) eqn:E; [|apply H; assumption].
    apply name_eqb_eq in E. subst. congruence.
  Qed.
  Lemma no_tmps_cons : forall l x v, no_tmps l -> is_tmp x = false -> no_tmps ((x, v) :: l).
  Proof.
    intros l x v H Hx n k. rewrite lookup_cons. destruct (name_eqb (NTmp n k) x) eqn:E; [|apply H].
    apply name_eqb_eq in E. subst. discriminate.
  Qed.

  Lemma Forall2_set_nth : forall A B (R : A -> B -> Prop) l l' i a b,
    Forall2 R l l' -> R a b -> Forall2 R (set_nth i a l) (set_nth i b l').
  Proof.
    intros A B R l l' i a b H. revert i. induction H; intros i Hab; [rewrite !set_nth_nil; constructor|].
    destruct i; simpl; constructor; auto.
  Qed.

  Lemma bind_in_rel_gen : forall s s' f x v v' (keep_left : bool),
    srel s s' ->
    (forall fr fr', nth_error (frames s') f = Some fr' -> frame_rel p fr fr' ->
        frame_rel p (if keep_left then fr else {| f_comp := f_comp fr; f_vars := (x, v) :: f_vars fr |})
                    {| f_comp := f_comp fr'; f_vars := (x, v') :: f_vars fr' |}) ->
    srel (if keep_left then s else bind_in W s f x v) (bind_in W s' f x v').
  Proof.
    intros s s' f x v v' kl Hs Hfr.
    pose proof (frames_nth s s' f Hs) as Hn. unfold bind_in.
    destruct (nth_error (frames s) f) as [fr|] eqn:E, (nth_error (frames s') f) as [fr'|] eqn:E'; try contradiction.
    - destruct Hs as (HF & Hg & Hc & Hc' & Ht & Hw).
      destruct kl; (split; [|simpl; auto]); simpl.
      + replace (frames s) with (set_nth f fr (frames s)).
        * apply Forall2_set_nth; [assumption | apply (Hfr _ _ eq_refl Hn)].
        * clear -E. revert f E. induction (frames s); intros f E; destruct f; simpl in *; try discriminate.
          -- injection E as ->. reflexivity.
          -- f_equal. apply IHl. assumption.
      + apply Forall2_set_nth; [assumption | apply (Hfr _ _ eq_refl Hn)].
    - destruct kl; assumption.
  Qed.

  Lemma bind_in_rel : forall s s' f x v v', srel s s' -> vrel v v' -> is_tmp x = false -> special p x = false ->
    srel (bind_in W s f x v) (bind_in W s' f x v').
  Proof.
    intros. apply (bind_in_rel_gen s s' f x v v' false); auto.
    intros fr fr' _ (Hc & Hv & Hl & Hl' & Hn). repeat split; simpl; auto.
    - apply vars_rel_cons; auto.
    - apply vars_clean_cons; auto.
    - apply vars_clean_cons; auto.
    - intros Hcomp. apply no_tmps_cons; auto.
  Qed.

  Lemma bind_in_tmp_rel : forall s s' f n k v' fr', srel s s' -> nth_error (frames s') f = Some fr' -> f_comp fr' = false ->
    srel s (bind_in W s' f (NTmp n k) v').
  Proof.
    intros s s' f n k v' fr0 Hs E C. apply (bind_in_rel_gen s s' f (NTmp n k) v' v' true); auto.
    intros fr fr' E' (Hc & Hv & Hl & Hl' & Hn). repeat split; simpl; auto.
    - apply vars_rel_cons_tmp; auto.
    - apply vars_clean_cons; auto.
    - intros Hcomp. congruence.
  Qed.

  Lemma gvars_rel_cons : forall s s' x v v', srel s s' -> vrel v v' -> is_tmp x = false -> special p x = false ->
    srel {| s_frames := frames s; s_gvars := (x, v) :: gvars s; s_trace := s_trace W s; s_world := s_world W s |}
         {| s_frames := frames s'; s_gvars := (x, v') :: gvars s'; s_trace := s_trace W s'; s_world := s_world W s' |}.
  Proof.
    intros s s' x v v' (HF & Hg & Hc & Hc' & Ht & Hw) Hv Hx Hsp. repeat split; simpl; auto.
    - apply vars_rel_cons; auto.
    - apply vars_clean_cons; auto.
    - apply vars_clean_cons; auto.
  Qed.

  Lemma assign_rel : forall s s' rho x v v', srel s s' -> vrel v v' -> is_tmp x = false -> special p x = false ->
    srel (assign W s rho x v) (assign W s' rho x v').
  Proof.
    intros. unfold assign. rewrite (target_rel s s' rho H). destruct (target W s' rho).
    - apply bind_in_rel; auto.
    - apply gvars_rel_cons; auto.
  Qed.

  Lemma assign_tmp_rel : forall s s' rho n k v', srel s s' -> srel s (assign W s' rho (NTmp n k) v').
  Proof.
    intros s s' rho n k v' Hs. unfold assign. destruct (target W s' rho) as [f|] eqn:E.
    - destruct (target_frame W s' rho f E) as (fr & E1 & C1). eapply bind_in_tmp_rel; eauto.
    - destruct Hs as (HF & Hg & Hc & Hc' & Ht & Hw). repeat split; simpl; auto.
      + apply vars_rel_cons_tmp; auto.
      + apply vars_clean_cons; auto.
  Qed.

  Lemma Forall2_app1 : forall A B (R : A -> B -> Prop) l l' a b, Forall2 R l l' -> R a b -> Forall2 R (l ++ [a]) (l' ++ [b]).
  Proof. induction 1; simpl; intros; constructor; auto. Qed.

  Lemma push_rel : forall s s' fr fr', srel s s' -> frame_rel p fr fr' -> srel (push W s fr) (push W s' fr').
  Proof.
    intros s s' fr fr' (HF & Hg & Hc & Hc' & Ht & Hw) Hf. repeat split; simpl; auto. apply Forall2_app1; auto.
  Qed.

  Lemma log_rel : forall s s' evs w, srel s s' -> srel (log W s evs w) (log W s' evs w).
  Proof.
    intros s s' evs w (HF & Hg & Hc & Hc' & Ht & Hw). repeat split; simpl; auto. congruence.
  Qed.

  (* ---- where the temporaries are found *)
  Lemma tget_lookup : forall reg s s' rho n k v, srel s s' -> tgt_fixed W s' rho ->
    tget W s' rho (NTmp n k) = Some v -> LC reg s' rho (NTmp n k) = Some v.
  Proof.
    intros reg s s' rho n k v Hs. unfold tget. induction rho as [|f r IH]; simpl; intros Ht Hg.
    - rewrite Hg. reflexivity.
    - pose proof (frames_nth s s' f Hs) as Hn. unfold frame_lookup at 1.
      destruct (nth_error (frames s') f) as [fr'|] eqn:E; [|contradiction].
      destruct (nth_error (frames s) f) as [fr|]; [|contradiction].
      destruct Hn as (_ & _ & _ & _ & Hnt).
      destruct (f_comp fr') eqn:C.
      + rewrite (Hnt eq_refl n k). apply IH; auto.
      + unfold frame_lookup in Hg. rewrite E in Hg. rewrite Hg. reflexivity.
  Qed.

  Lemma tget_assign : forall s rho x v, tgt_fixed W s rho -> tget W (assign W s rho x v) rho x = Some v.
  Proof.
    intros s rho x v Ht. unfold tget.
    destruct (ext_target W _ _ rho (proj1 (FP_assign W 0 rho s x v Ht)) Ht) as [-> _].
    unfold assign. destruct (target W s rho) as [f|] eqn:E.
    - destruct (target_frame W s rho f E) as (fr & E1 & C1).
      unfold frame_lookup. rewrite frames_bind_in, Nat.eqb_refl, E1. simpl. rewrite name_eqb_refl. reflexivity.
    - simpl. rewrite name_eqb_refl. reflexivity.
  Qed.

  (* ---- calls *)
  Lemma call_user_rel : forall c ar ar' kw kw' s s', Forall2 vrel ar ar' -> kw_rel p kw kw' -> srel s s' ->
    out_rel vrel (fst (call_user W callv c ar kw s)) (fst (call_user W callv c ar' kw' s')) /\
    srel (snd (call_user W callv c ar kw s)) (snd (call_user W callv c ar' kw' s')).
  Proof.
    intros c ar ar' kw kw' s s' Ha Hk Hs. unfold call_user.
    rewrite (shapes_rel _ _ Ha), (shape_kw_rel _ _ Hk).
    assert (Hw : s_world W s = s_world W s') by apply Hs. rewrite Hw.
    destruct (callv c (map shape ar') (shape_kw kw') (s_world W s')) as [[o w] evs]. simpl.
    split; [apply orel_lift | apply log_rel; assumption].
  Qed.

  Lemma take_kw_rel : forall k kw kw', kw_rel p kw kw' ->
    match take_kw k kw, take_kw k kw' with
    | Some (v, r), Some (v', r') => vrel v v' /\ kw_rel p r r'
    | None, None => True
    | _, _ => False
    end.
  Proof.
    intros k kw kw' H. induction H; simpl; auto.
    destruct x as [j v], y as [j' v']. destruct H as [Hj Hv]. simpl in Hj, Hv. subst j'.
    destruct (Nat.eqb j k); [split; assumption|].
    destruct (take_kw k l) as [[w r]|], (take_kw k l') as [[w' r']|]; try contradiction; auto.
    destruct IHForall2. split; auto. constructor; auto.
  Qed.

  Lemma Forall2_snoc : forall A B (R : A -> B -> Prop) l l' a b, Forall2 R l l' -> R a b -> Forall2 R (l ++ [a]) (l' ++ [b]).
  Proof. intros. apply Forall2_app1; auto. Qed.

  Lemma bind_more_rel : forall names ar ar' kw kw', Forall2 vrel ar ar' -> kw_rel p kw kw' ->
    Forall2 vrel (fst (bind_more names ar kw)) (fst (bind_more names ar' kw')) /\
    kw_rel p (snd (bind_more names ar kw)) (snd (bind_more names ar' kw')).
  Proof.
    induction names as [|[k|] names IH]; intros ar ar' kw kw' Ha Hk; simpl; auto.
    pose proof (take_kw_rel k kw kw' Hk) as Ht.
    destruct (take_kw k kw) as [[v r]|], (take_kw k kw') as [[v' r']|]; try contradiction; simpl; auto.
    destruct Ht. apply IH; auto. apply Forall2_snoc; auto.
  Qed.

  Lemma kw_rel_fsts : forall kw kw', kw_rel p kw kw' -> map fst kw = map fst kw'.
  Proof. induction 1; simpl; auto. destruct H. congruence. Qed.

  Lemma entry_bind_rel : forall ar ar' kw kw', Forall2 vrel ar ar' -> kw_rel p kw kw' ->
    match entry_bind p ar kw, entry_bind p ar' kw' with
    | Some (a, k), Some (a', k') => Forall2 vrel a a' /\ kw_rel p k k'
    | None, None => True
    | _, _ => False
    end.
  Proof.
    intros ar ar' kw kw' Ha Hk. unfold entry_bind.
    assert (Hl : length ar = length ar') by (clear -Ha; induction Ha; simpl; auto). rewrite Hl.
    pose proof (bind_more_rel (skipn (length ar') (a_posnames (an p))) ar ar' kw kw' Ha Hk) as [H1 H2].
    destruct (bind_more _ ar kw) as [a k], (bind_more _ ar' kw') as [a' k']. simpl in H1, H2.
    assert (He : existsb (fun kv => mem_okey (Some (fst kv)) (a_posnames (an p))) k =
                 existsb (fun kv => mem_okey (Some (fst kv)) (a_posnames (an p))) k').
    { clear -H2. induction H2; simpl; auto. destruct H as [-> _]. rewrite IHForall2. reflexivity. }
    rewrite He. destruct (existsb _ k'); auto.
  Qed.

  Lemma pos_key_rel : forall ar ar' i, Forall2 vrel ar ar' -> pos_key p typeof i ar = pos_key p typeof i ar'.
  Proof.
    intros ar ar' i H. revert i. induction H; intros i; simpl; auto.
    rewrite (vrel_shape _ _ H), IHForall2. reflexivity.
  Qed.
  Lemma kw_key_rel : forall kw kw', kw_rel p kw kw' -> kw_key p typeof kw = kw_key p typeof kw'.
  Proof.
    induction 1; simpl; auto. destruct H as [H1 H2]. unfold kw_key in *. simpl.
    rewrite H1, (vrel_shape _ _ H2), IHForall2. reflexivity.
  Qed.

  Lemma dispatch_rel : forall nid pre slf slf' ar ar' kw kw' s s', Forall2 vrel slf slf' -> Forall2 vrel ar ar' -> kw_rel p kw kw' -> srel s s' ->
    out_rel vrel (fst (dispatch W p typeof tbl callv nid pre slf ar kw s)) (fst (dispatch W p typeof tbl callv nid pre slf' ar' kw' s')) /\
    srel (snd (dispatch W p typeof tbl callv nid pre slf ar kw s)) (snd (dispatch W p typeof tbl callv nid pre slf' ar' kw' s')).
  Proof.
    intros nid pre slf slf' ar ar' kw kw' s s' Hsl Ha Hk Hs. unfold dispatch.
    pose proof (entry_bind_rel ar ar' kw kw' Ha Hk) as He.
    destruct (entry_bind p ar kw) as [[a k]|], (entry_bind p ar' kw') as [[a' k']|]; try contradiction.
    - destruct He as [He1 He2]. rewrite (pos_key_rel _ _ 0 He1), (kw_key_rel _ _ He2).
      destruct (tbl _); [|simpl; auto].
      apply call_user_rel; auto. apply Forall2_app; auto.
    - simpl. auto.
  Qed.

  Lemma self_list_rel : Forall2 vrel (self_list p mself) (self_list p mself).
  Proof. unfold self_list. destruct (a_method (an p)); constructor; [apply vrel_inj | constructor]. Qed.

  Lemma call_prim_rel : forall q ar ar' kw kw' s s', Forall2 vrel ar ar' -> kw_rel p kw kw' -> srel s s' ->
    out_rel vrel (fst (call_prim W p typeof tbl callv mself q ar kw s)) (fst (call_prim W p typeof tbl callv mself q ar' kw' s')) /\
    srel (snd (call_prim W p typeof tbl callv mself q ar kw s)) (snd (call_prim W p typeof tbl callv mself q ar' kw' s')).
  Proof.
    intros q ar ar' kw kw' s s' Ha Hk Hs.
    destruct q; simpl; auto using dispatch_rel, self_list_rel.
    - destruct Ha as [|v v' l l' Hv Hl]; [simpl; auto|]. destruct Hl; [|simpl; auto].
      destruct Hk; simpl; auto. rewrite (vrel_shape _ _ Hv). split; [constructor | assumption].
    - destruct Ha as [|v v' l l' Hv Hl]; [simpl; auto|]. destruct Hl; [|simpl; auto].
      destruct Hk; simpl; auto. rewrite (vrel_shape _ _ Hv). split; [constructor | assumption].
    - destruct (a_method (an p)).
      + destruct Ha; [simpl; auto|]. apply dispatch_rel; auto.
      + apply dispatch_rel; auto.
  Qed.

  (* the bare name recurse of a plain function denotes the function itself *)
  Lemma call_rec_ovld : a_method (p_anal p) = false -> forall ar kw s,
    call_prim W p typeof tbl callv mself PRecurse ar kw s = call_prim W p typeof tbl callv mself (POvld (p_id p)) ar kw s.
  Proof. intros H ar kw s. simpl. unfold self_list, an. rewrite H. reflexivity. Qed.
End SimA.
