"""Run the extracted model (OCaml driver) and, for cross-checking, the same cases inside Coq (vm_compute)."""
import os, subprocess, tempfile, shutil
from . import VERIF, sexp

DRIVER = os.path.join(VERIF, "build", "ocaml", "driver")


def run_cases(cases, chunk=None, jobs=8):
    """cases: list of nested lists -> list of nested lists (same order)."""
    if not cases:
        return []
    lines = [sexp.dumps(c) for c in cases]
    if chunk is None or len(lines) <= chunk:
        out = subprocess.run([DRIVER], input="\n".join(lines) + "\n", capture_output=True, text=True)
        if out.returncode != 0:
            raise RuntimeError("model driver failed: " + out.stderr[-2000:])
        res = [sexp.loads(l) for l in out.stdout.splitlines() if l.strip()]
        if len(res) != len(cases):
            raise RuntimeError(f"model driver returned {len(res)} results for {len(cases)} cases: {out.stderr[-500:]}")
        return res
    from concurrent.futures import ThreadPoolExecutor
    parts = [cases[i:i + chunk] for i in range(0, len(cases), chunk)]
    with ThreadPoolExecutor(jobs) as ex:
        rs = list(ex.map(run_cases, parts))
    return [r for part in rs for r in part]


def run_in_coq(cases, timeout=600):
    """Evaluate [run] on the cases inside Coq with vm_compute; returns list of results (nested lists)."""
    d = tempfile.mkdtemp(prefix="coqcases_", dir=os.path.join(VERIF, "build"))
    try:
        out = []
        for i in range(0, len(cases), 200):
            part = cases[i:i + 200]
            src = ["From Coq Require Import ZArith List. Import ListNotations.",
                   "From OvldV Require Import Model.Sx Gen.RunAll.",
                   "Definition cases : list sx := ["]
            src.append(";\n".join(sexp.to_coq(c) for c in part))
            src.append("].")
            src.append("Fixpoint show (s : sx) : list Z := match s with A z => [z] | L l => ((-1000000)%Z :: flat_map show l) ++ [(-1000001)%Z] end.")
            src.append("Eval vm_compute in (map (fun c => show (run c)) cases).")
            f = os.path.join(d, f"cases{i}.v")
            open(f, "w").write("\n".join(src))
            r = subprocess.run(["coqc", "-Q", os.path.join(VERIF, "coq"), "OvldV", f], capture_output=True, text=True, timeout=timeout)
            if r.returncode != 0:
                raise RuntimeError("coqc on cases failed: " + r.stderr[-2000:])
            txt = r.stdout
            txt = txt[txt.index("=") + 1: txt.rindex(":")]
            txt = txt.replace("%Z", "").replace("\n", " ")
            # list of lists of ints
            import re
            rows = re.findall(r"\[([^\[\]]*)\]", txt)
            for row in rows:
                toks = [int(t.strip().strip("()")) for t in row.split(";") if t.strip()]
                out.append(_unshow(toks))
        return out
    finally:
        shutil.rmtree(d, ignore_errors=True)


def _unshow(toks):
    pos = 0

    def item():
        nonlocal pos
        t = toks[pos]
        if t == -1000000:
            pos += 1
            acc = []
            while toks[pos] != -1000001:
                acc.append(item())
            pos += 1
            return acc
        pos += 1
        return t

    return item()
