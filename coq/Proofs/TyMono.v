(* TyMono.v — fuel monotonicity: once tord/subck answer, more fuel gives the same answer. *)
From Coq Require Import ZArith List Bool Arith Lia.
Import ListNotations.
From OvldV Require Import Model.Order Model.Ty.

Definition ext1 {X Y} (f g : X -> option Y) : Prop := forall x r, f x = Some r -> g x = Some r.
Definition ext2 {X Y} (f g : X -> X -> option Y) : Prop := forall x y r, f x y = Some r -> g x y = Some r.

Lemma oexists_ext {X} (f g : X -> option bool) l r :
  ext1 f g -> oexists f l = Some r -> oexists g l = Some r.
Proof.
  intros H. induction l as [|x xs IH]; simpl; [auto|].
  destruct (f x) as [[|]|] eqn:E; try discriminate; rewrite (H _ _ E); auto.
Qed.

Lemma oforall_ext {X} (f g : X -> option bool) l r :
  ext1 f g -> oforall f l = Some r -> oforall g l = Some r.
Proof.
  intros H. induction l as [|x xs IH]; simpl; [auto|].
  destruct (f x) as [[|]|] eqn:E; try discriminate; rewrite (H _ _ E); auto.
Qed.

Lemma oforall2_ext {X} (f g : X -> X -> option bool) l1 l2 r :
  ext2 f g -> oforall2 f l1 l2 = Some r -> oforall2 g l1 l2 = Some r.
Proof.
  intros H. revert l2. induction l1 as [|x xs IH]; intros [|y ys]; simpl; auto.
  destruct (f x y) as [[|]|] eqn:E; try discriminate; rewrite (H _ _ _ E); auto.
Qed.

Lemma omapM_ext {X Y} (f g : X -> option Y) l r :
  ext1 f g -> omapM f l = Some r -> omapM g l = Some r.
Proof.
  intros H. revert r. induction l as [|x xs IH]; simpl; intros r; [auto|].
  destruct (f x) as [y|] eqn:E; try discriminate. rewrite (H _ _ E).
  destruct (omapM f xs) as [ys|] eqn:E2; simpl; try discriminate. rewrite (IH _ eq_refl). auto.
Qed.

Lemma omapM2_ext {X Y} (f g : X -> X -> option Y) l1 l2 r :
  ext2 f g -> omapM2 f l1 l2 = Some r -> omapM2 g l1 l2 = Some r.
Proof.
  intros H. revert l2 r. induction l1 as [|x xs IH]; intros [|y ys] r; simpl; auto.
  destruct (f x y) as [z|] eqn:E; try discriminate. rewrite (H _ _ _ E).
  destruct (omapM2 f xs ys) as [zs|] eqn:E2; simpl; try discriminate. rewrite (IH _ _ E2). auto.
Qed.

Section Hier.
  Variable sub : nat -> nat -> bool.
  Variable hasm : nat -> nat -> bool.
  Variable chk : nat -> nat -> bool.
  Variable sub_fresh : nat -> bool.

  Notation supck := (supck sub hasm chk sub_fresh).
  Notation issub := (issub sub hasm chk sub_fresh).
  Notation hook_order := (hook_order).
  Notation tord := (tord sub hasm chk sub_fresh).
  Notation subck := (subck sub hasm chk sub_fresh).

  Lemma supck_ext (s s' : ty -> ty -> option bool) t a r :
    ext2 s s' -> supck s t a = Some r -> supck s' t a = Some r.
  Proof.
    intros H. destruct t; simpl; auto.
    - destruct (oexists _ ts) eqn:E; simpl; try discriminate.
      erewrite oexists_ext; eauto. unfold ext1; intros x q; apply H.
    - destruct (oforall _ ts) eqn:E; simpl; try discriminate.
      erewrite oforall_ext; eauto. unfold ext1; intros x q; apply H.
    - destruct (is_dep a); auto. destruct (s a t) eqn:E; simpl; try discriminate. now rewrite (H _ _ _ E).
    - destruct (is_dep a); auto. destruct (s a t) eqn:E; simpl; try discriminate. now rewrite (H _ _ _ E).
    - destruct (is_dep a); auto. destruct (s a t) eqn:E; simpl; try discriminate. now rewrite (H _ _ _ E).
    - destruct (is_dep a); auto. destruct (s a t) eqn:E; simpl; try discriminate. now rewrite (H _ _ _ E).
  Qed.

  Lemma issub_ext (s s' : ty -> ty -> option bool) a b r :
    ext2 s s' -> issub s a b = Some r -> issub s' a b = Some r.
  Proof.
    intros H. destruct b; simpl; auto.
    - destruct (oexists (fun x => s a x) ts) eqn:E; simpl; try discriminate.
      rewrite (oexists_ext _ (fun x => s' a x) _ _ (fun x q => H a x q) E). auto.
    - destruct (oforall (fun x => s a x) ts) eqn:E; simpl; try discriminate.
      rewrite (oforall_ext _ (fun x => s' a x) _ _ (fun x q => H a x q) E). auto.
  Qed.

  Lemma subck_body_ext (s s' : ty -> ty -> option bool) :
    ext2 s s' -> ext2 (subck_body sub hasm chk sub_fresh s) (subck_body sub hasm chk sub_fresh s').
  Proof.
    intros Hext t1 t2 r H. unfold subck_body in *.
    destruct (ty_eqb t1 t2); [exact H|].
    destruct (supck s t2 t1) as [[q|]|] eqn:E; try discriminate.
    - rewrite (supck_ext _ _ _ _ _ Hext E). exact H.
    - rewrite (supck_ext _ _ _ _ _ Hext E).
      destruct t2; try exact H.
      destruct (issub_cls sub sub_fresh _ o) as [[|]|]; try exact H.
      destruct (Nat.eqb _ _); [|exact H].
      eapply oforall2_ext; eauto.
  Qed.

  Lemma subck_mono : forall n t1 t2 r, subck n t1 t2 = Some r -> subck (S n) t1 t2 = Some r.
  Proof.
    induction n as [|n IH]; intros t1 t2 r; [discriminate|].
    change (subck (S (S n))) with (subck_body sub hasm chk sub_fresh (subck (S n))).
    change (subck (S n)) with (subck_body sub hasm chk sub_fresh (subck n)) at 1.
    apply subck_body_ext. exact IH.
  Qed.

  Lemma subck_mono_le : forall n m t1 t2 r, n <= m -> subck n t1 t2 = Some r -> subck m t1 t2 = Some r.
  Proof. induction 1; auto using subck_mono. Qed.

  Lemma dep_order_ext (to to' : ty -> ty -> option order) (s s' : ty -> ty -> option bool) t o r :
    ext2 to to' -> ext2 s s' -> dep_order to s t o = Some r -> dep_order to' s' t o = Some r.
  Proof.
    intros Ht Hs. unfold dep_order. destruct (is_dep o).
    - destruct (to (dep_bound t) (dep_bound o)) eqn:E; try discriminate. now rewrite (Ht _ _ _ E).
    - destruct (s o (dep_bound t)) as [[|]|] eqn:E; try discriminate; rewrite (Hs _ _ _ E); auto.
      destruct (s (dep_bound t) o) as [[|]|] eqn:E2; try discriminate; rewrite (Hs _ _ _ E2); auto.
  Qed.

  Lemma hook_order_ext (to to' : ty -> ty -> option order) (s s' : ty -> ty -> option bool) t o r :
    ext2 to to' -> ext2 s s' -> hook_order to s t o = Some r -> hook_order to' s' t o = Some r.
  Proof.
    intros Ht Hs. destruct t; cbn [hook_order]; auto; try (apply dep_order_ext; assumption).
    - destruct (omapM _ ts) eqn:E; try discriminate. erewrite omapM_ext; eauto. unfold ext1; intros x q; apply Ht.
    - destruct (omapM _ ts) eqn:E; try discriminate. erewrite omapM_ext; eauto. unfold ext1; intros x q; apply Ht.
    - destruct (ty_eqb o (Cls c)); auto. destruct (to (Cls c) o) eqn:E; simpl; try discriminate. now rewrite (Ht _ _ _ E).
    - destruct o; try (apply dep_order_ext; assumption). destruct (Nat.eqb _ _); auto.
      destruct (omapM2 to ts ts0) eqn:E; simpl; try discriminate. erewrite omapM2_ext; eauto. simpl; auto.
  Qed.

  Lemma tord_body_ext (to to' : ty -> ty -> option order) (s s' : ty -> ty -> option bool) :
    ext2 to to' -> ext2 s s' ->
    ext2 (tord_body sub hasm chk sub_fresh to s) (tord_body sub hasm chk sub_fresh to' s').
  Proof.
    intros Ht Hs t1 t2 r H. unfold tord_body in *.
    destruct (ty_eqb t1 t2); [exact H|].
    destruct (hook_order to s t1 t2) as [[q|]|] eqn:E1; try discriminate;
      rewrite (hook_order_ext _ _ _ _ _ _ _ Ht Hs E1); [exact H|].
    destruct (hook_order to s t2 t1) as [[q|]|] eqn:E2; try discriminate;
      rewrite (hook_order_ext _ _ _ _ _ _ _ Ht Hs E2); [exact H|].
    assert (Hfb : forall a b, match issub s a b, issub s b a with
             | Some sx, Some sy => Some (if sx && sy then SAME else if sx then LESS else if sy then MORE else NONE)
             | _, _ => None end = Some r ->
           match issub s' a b, issub s' b a with
             | Some sx, Some sy => Some (if sx && sy then SAME else if sx then LESS else if sy then MORE else NONE)
             | _, _ => None end = Some r).
    { intros a b. destruct (issub s a b) eqn:Ea; try discriminate.
      destruct (issub s b a) eqn:Eb; try discriminate.
      rewrite (issub_ext _ _ _ _ _ Hs Ea), (issub_ext _ _ _ _ _ Hs Eb). auto. }
    assert (Hg : forall o, match to (Cls o) t2 with Some SAME => Some LESS | x => x end = Some r ->
                 match to' (Cls o) t2 with Some SAME => Some LESS | x => x end = Some r).
    { intros o. destruct (to (Cls o) t2) eqn:E; try discriminate. rewrite (Ht _ _ _ E). auto. }
    assert (Hsw : omap opposite (to t2 t1) = Some r -> omap opposite (to' t2 t1) = Some r).
    { destruct (to t2 t1) eqn:E; try discriminate. rewrite (Ht _ _ _ E). auto. }
    destruct t1; destruct t2; try (apply Hfb; exact H); try (apply Hg; exact H); try (apply Hsw; exact H).
    (* Gen, Gen *)
    destruct (to (Cls o) (Cls o0)) as [q|] eqn:E; try discriminate. rewrite (Ht _ _ _ E).
    destruct q; try exact H.
    destruct args; destruct args0; try exact H.
    destruct (Nat.eqb _ _); [|exact H].
    destruct (omapM2 to (t :: args) (t0 :: args0)) eqn:E3; try discriminate.
    erewrite omapM2_ext; eauto.
  Qed.

  Lemma tord_mono : forall n t1 t2 r, tord n t1 t2 = Some r -> tord (S n) t1 t2 = Some r.
  Proof.
    induction n as [|n IH]; intros t1 t2 r; [discriminate|].
    change (tord (S (S n))) with (tord_body sub hasm chk sub_fresh (tord (S n)) (subck (S n))).
    change (tord (S n)) with (tord_body sub hasm chk sub_fresh (tord n) (subck n)) at 1.
    apply tord_body_ext; [exact IH | exact (subck_mono n)].
  Qed.

  Lemma tord_mono_le : forall n m t1 t2 r, n <= m -> tord n t1 t2 = Some r -> tord m t1 t2 = Some r.
  Proof. induction 1; auto using tord_mono. Qed.

  Lemma tord_det : forall n m t1 t2 r1 r2, tord n t1 t2 = Some r1 -> tord m t1 t2 = Some r2 -> r1 = r2.
  Proof.
    intros n m t1 t2 r1 r2 H1 H2. destruct (Nat.le_ge_cases n m) as [L|L].
    - rewrite (tord_mono_le _ _ _ _ _ L H1) in H2. congruence.
    - rewrite (tord_mono_le _ _ _ _ _ L H2) in H1. congruence.
  Qed.

  Lemma subck_det : forall n m t1 t2 r1 r2, subck n t1 t2 = Some r1 -> subck m t1 t2 = Some r2 -> r1 = r2.
  Proof.
    intros n m t1 t2 r1 r2 H1 H2. destruct (Nat.le_ge_cases n m) as [L|L].
    - rewrite (subck_mono_le _ _ _ _ _ L H1) in H2. congruence.
    - rewrite (subck_mono_le _ _ _ _ _ L H2) in H1. congruence.
  Qed.
End Hier.
