(* EntryAcc.v — C03: a call shape that a registered method accepts (CPython's binding to the method's own def)
   is bound by the generated def, under the documented keyword rules; and its lookup key passes that method's
   arity / keyword filter. *)
From Coq Require Import ZArith List Bool Arith Lia.
Import ListNotations.
From OvldV Require Import Model.Entry Spec.EntrySpec Proofs.EntryLists Proofs.EntryAn Proofs.EntryNf Proofs.EntryBind
  Proofs.EntryRun Proofs.EntryFwd.

(* ---------- generic, pointwise facts about bind_vals / pos_index_of ---------- *)
Definition pcount (ps : list eparam) (i : nat) : nat := length (filter ep_positional (firstn i ps)).

Definition kw_lookup (p : eparam) (kws : list (nat * src)) : option src :=
  match ep_id p with IUser n => kw_find n kws | _ => None end.

Lemma bind_vals_nth : forall ps pos kws i p, nth_error ps i = Some p ->
  nth_error (bind_vals ps pos kws) i =
  Some (if ep_positional p
        then match nth_error pos (pcount ps i) with
             | Some v => Some v
             | None => if ep_by_kw p then kw_lookup p kws else None
             end
        else kw_lookup p kws).
Proof.
  induction ps as [|q ps IH]; intros pos kws i p H.
  - destruct i; discriminate.
  - destruct i as [|i].
    + simpl in H. injection H as ->. unfold pcount. simpl. unfold kw_lookup.
      destruct (ep_positional p); [|reflexivity]. destruct pos as [|v pos]; simpl; [|reflexivity].
      destruct (ep_id p); destruct (ep_by_kw p); reflexivity.
    + simpl in H. cbn [bind_vals]. unfold pcount. cbn [firstn filter].
      destruct (ep_positional q) eqn:Eq.
      * destruct pos as [|v pos]; cbn [nth_error length].
        -- rewrite (IH [] kws i p H).
           assert (E1 : nth_error (@nil src) (pcount ps i) = None) by (destruct (pcount ps i); reflexivity).
           rewrite E1. reflexivity.
        -- rewrite (IH pos kws i p H). reflexivity.
      * cbn [nth_error]. rewrite (IH pos kws i p H). reflexivity.
Qed.

Lemma bind_vals_length : forall ps pos kws, length (bind_vals ps pos (kws : list (nat * src))) = length ps.
Proof.
  induction ps as [|q ps IH]; intros pos kws; simpl; auto.
  destruct (ep_positional q); [destruct pos|]; simpl; rewrite IH; reflexivity.
Qed.

Lemma forallb_combine_nth : forall {X Y} (g : X * Y -> bool) (l1 : list X) (l2 : list Y) i x y,
  forallb g (combine l1 l2) = true -> nth_error l1 i = Some x -> nth_error l2 i = Some y -> g (x, y) = true.
Proof.
  intros X Y g. induction l1 as [|a l1 IH]; intros l2 i x y H H1 H2.
  - destruct i; discriminate.
  - destruct l2 as [|b l2]; [destruct i; discriminate|]. simpl in H. apply andb_true_iff in H. destruct H as [Ha Hr].
    destruct i as [|i]; simpl in H1, H2.
    + injection H1 as <-. injection H2 as <-. exact Ha.
    + eapply IH; eauto.
Qed.

Definition kw_match (m : nat) (p : eparam) : bool := ep_by_kw p && ident_eqb (ep_id p) (IUser m).

Lemma pos_index_nth : forall ps m i0 i p,
  nth_error ps i = Some p -> ep_positional p = true -> kw_match m p = true ->
  (forall j q, j < i -> nth_error ps j = Some q -> kw_match m q = false) ->
  pos_index_of m i0 ps = Some (i0 + pcount ps i).
Proof.
  induction ps as [|q ps IH]; intros m i0 i p H Hp Hm Hbefore.
  - destruct i; discriminate.
  - destruct i as [|i].
    + simpl in H. injection H as ->. unfold pcount. simpl. rewrite Hp. unfold kw_match in Hm. rewrite Hm. f_equal. lia.
    + simpl in H. cbn [pos_index_of]. unfold pcount. cbn [firstn filter].
      assert (Hq : kw_match m q = false) by (apply (Hbefore 0 q); [lia|reflexivity]).
      unfold kw_match in Hq. destruct (ep_positional q) eqn:Eq.
      * rewrite Hq. rewrite (IH m (S i0) i p H Hp Hm).
        -- cbn [length]. f_equal. unfold pcount. lia.
        -- intros j q' Hj Hq'. apply (Hbefore (S j) q'); [lia|exact Hq'].
      * rewrite (IH m i0 i p H Hp Hm).
        -- reflexivity.
        -- intros j q' Hj Hq'. apply (Hbefore (S j) q'); [lia|exact Hq'].
Qed.

Lemma nth_error_firstn_lt : forall {X} (l : list X) j i, i < j -> nth_error (firstn j l) i = nth_error l i.
Proof.
  intros X. induction l as [|x l IH]; intros j i H.
  - rewrite firstn_nil. reflexivity.
  - destruct j as [|j]; [lia|]. destruct i as [|i]; simpl; auto. apply IH. lia.
Qed.

(* ---------- a well-formed method's own parameter list ---------- *)
Definition conv (p : param) : eparam := mkEP (p_kind p) (IUser (p_name p)) (negb (p_req p)).
Definition selfl (s : msig) : list eparam := if m_self s then [mkEP PosKw ISelf false] else [].
Definition soff (s : msig) : nat := if m_self s then 1 else 0.

Lemma sig_eparams_eq : forall s, sig_eparams s = selfl s ++ map conv (m_params s).
Proof. reflexivity. Qed.

Lemma sig_nth : forall s j q, nth_error (m_params s) j = Some q -> nth_error (sig_eparams s) (soff s + j) = Some (conv q).
Proof.
  intros s j q H. rewrite sig_eparams_eq. unfold selfl, soff. destruct (m_self s); simpl; apply map_nth_error; exact H.
Qed.

Lemma conv_positional : forall q, ep_positional (conv q) = is_positional q.
Proof. intro q. reflexivity. Qed.

Lemma sorted_all_before : forall ps st j q, kinds_sorted st ps = true -> nth_error ps j = Some q -> is_positional q = true ->
  forall i x, i < j -> nth_error ps i = Some x -> is_positional x = true.
Proof.
  intros ps st. induction j as [|j IHj]; intros q Hs Hj Hq i x Hij Hi; [lia|].
  destruct (sorted_pos_before ps st j q Hs Hj Hq) as [q' [Hq' Hp']].
  destruct (Nat.eq_dec i j) as [->|Hne].
  - congruence.
  - apply (IHj q' Hs Hq' Hp' i x); [lia|exact Hi].
Qed.

Lemma firstn_sorted_pos : forall ps st j q, kinds_sorted st ps = true -> nth_error ps j = Some q -> is_positional q = true ->
  filter is_positional (firstn j ps) = firstn j ps.
Proof.
  intros ps st j q Hs Hj Hq. apply filter_all. intros x Hx.
  destruct (In_nth_error _ _ Hx) as [i Hi].
  assert (Hij : i < j).
  { assert (i < length (firstn j ps)) by (apply nth_error_Some; congruence). rewrite firstn_length in H. lia. }
  rewrite nth_error_firstn_lt in Hi by exact Hij.
  exact (sorted_all_before ps st j q Hs Hj Hq i x Hij Hi).
Qed.

Lemma selfl_positional : forall s, filter ep_positional (selfl s) = selfl s.
Proof. intro s. unfold selfl. destruct (m_self s); reflexivity. Qed.

Lemma selfl_length : forall s, length (selfl s) = soff s.
Proof. intro s. unfold selfl, soff. destruct (m_self s); reflexivity. Qed.

Lemma filter_map_conv : forall l, filter ep_positional (map conv l) = map conv (filter is_positional l).
Proof. induction l as [|q l IH]; simpl; auto. rewrite conv_positional. destruct (is_positional q); simpl; rewrite IH; reflexivity. Qed.

Lemma sig_npp : forall s, length (filter ep_positional (sig_eparams s)) = soff s + sig_max_pos s.
Proof.
  intro s. rewrite sig_eparams_eq, filter_app, app_length, selfl_positional, selfl_length, filter_map_conv, map_length. reflexivity.
Qed.

Lemma sig_pcount : forall s j q, sig_wf s = true -> nth_error (m_params s) j = Some q -> is_positional q = true ->
  pcount (sig_eparams s) (soff s + j) = soff s + j.
Proof.
  intros s j q Hwf Hj Hq. destruct (wf_parts s Hwf) as [Hk _]. unfold pcount. rewrite sig_eparams_eq.
  rewrite firstn_app, selfl_length. replace (soff s + j - soff s) with j by lia.
  rewrite firstn_all2 by (rewrite selfl_length; lia).
  rewrite filter_app, app_length, selfl_positional, selfl_length. f_equal.
  rewrite firstn_map, filter_map_conv, map_length, (firstn_sorted_pos _ _ _ _ Hk Hj Hq).
  rewrite firstn_length. apply Nat.min_l. apply Nat.lt_le_incl. apply nth_error_Some. congruence.
Qed.

Lemma caller_pos_nth : forall self k j,
  nth_error (caller_pos self k) ((if self then 1 else 0) + j) = if j <? k then Some (SPos j) else None.
Proof.
  intros self k j. unfold caller_pos.
  assert (E : nth_error (map SPos (seq 0 k)) j = if j <? k then Some (SPos j) else None).
  { destruct (j <? k) eqn:Ej.
    - apply Nat.ltb_lt in Ej. rewrite (map_nth_error SPos j (seq 0 k) (d := j)); auto.
      rewrite nth_error_nth' with (d := 0) by (rewrite seq_length; lia). rewrite seq_nth by lia. reflexivity.
    - apply Nat.ltb_ge in Ej. apply nth_error_None. rewrite map_length, seq_length. lia. }
  destruct self; simpl; exact E.
Qed.

Section Accepts.
  Variable s : msig.
  Variables (k : nat) (K : list nat).
  Hypothesis Hwf : sig_wf s = true.
  Hypothesis Hacc : accepts s k K = true.

  Let ps := sig_eparams s.
  Let pos := caller_pos (m_self s) k.
  Let kws := caller_kws K.

  Lemma acc_spec : bind_c1 ps pos = true /\ NoDup K /\ bind_c3 ps kws = true /\ bind_c4 ps pos kws = true
                   /\ bind_c5 ps (bind_vals ps pos kws) = true.
  Proof.
    unfold accepts in Hacc. fold ps pos kws in Hacc. destruct (bind ps pos kws) as [vals|] eqn:E; [|discriminate].
    apply bind_spec in E. destruct E as [H1 [H2 [H3 [H4 [H5 _]]]]].
    unfold kws in H2. rewrite caller_kws_fst in H2. apply (nodupb_NoDup Nat.eqb Nat.eqb_eq) in H2. auto.
  Qed.

  Lemma acc_k : k <= sig_max_pos s.
  Proof.
    destruct acc_spec as [H1 _]. unfold bind_c1, ps, pos in H1. rewrite sig_npp, caller_pos_length in H1.
    apply Nat.leb_le in H1. unfold soff in H1. lia.
  Qed.

  Lemma acc_nd : NoDup K.
  Proof. destruct acc_spec as [_ [H _]]. exact H. Qed.

  Lemma acc_kw : forall m, In m K -> exists j q, nth_error (m_params s) j = Some q /\ p_kind q <> PosOnly /\ p_name q = m.
  Proof.
    intros m Hm. destruct acc_spec as [_ [_ [H3 _]]]. unfold bind_c3 in H3. rewrite forallb_forall in H3.
    specialize (H3 (m, SKw m)). unfold kws, caller_kws in H3. rewrite in_map_iff in H3.
    specialize (H3 (ex_intro _ m (conj eq_refl Hm))). simpl in H3. unfold kw_param, ps in H3.
    rewrite sig_eparams_eq, existsb_app in H3. apply orb_true_iff in H3. destruct H3 as [H3|H3].
    - unfold selfl in H3. destruct (m_self s); simpl in H3; [|discriminate]. discriminate.
    - apply existsb_exists in H3. destruct H3 as [e [He Hmatch]]. apply in_map_iff in He. destruct He as [q [<- Hq]].
      apply In_nth_error in Hq. destruct Hq as [j Hj]. exists j, q. split; auto.
      apply andb_true_iff in Hmatch. destruct Hmatch as [Hb Hi]. simpl in Hi. apply Nat.eqb_eq in Hi.
      split; auto. unfold ep_by_kw, conv in Hb. simpl in Hb. intro E. rewrite E in Hb. discriminate.
  Qed.

  Lemma names_distinct : forall i j q1 q2, nth_error (m_params s) i = Some q1 -> nth_error (m_params s) j = Some q2 ->
    p_name q1 = p_name q2 -> i = j.
  Proof.
    intros i j q1 q2 H1 H2 E. destruct (wf_parts s Hwf) as [_ [_ Hnd]].
    assert (A : nth_error (map p_name (m_params s)) i = Some (p_name q1)) by (apply map_nth_error; auto).
    assert (B : nth_error (map p_name (m_params s)) j = Some (p_name q1)) by (rewrite E; apply map_nth_error; auto).
    apply (proj1 (NoDup_nth_error _) Hnd); [apply nth_error_Some; congruence|congruence].
  Qed.

  Lemma acc_ge : forall m j q, In m K -> nth_error (m_params s) j = Some q -> p_kind q = PosKw -> p_name q = m -> k <= j.
  Proof.
    intros m j q Hm Hj Hk Hn. destruct acc_spec as [_ [_ [_ [H4 _]]]]. unfold bind_c4 in H4. apply negb_true_iff in H4.
    destruct (Nat.le_gt_cases k j) as [|Hlt]; auto. exfalso.
    assert (Hq : is_positional q = true) by (unfold is_positional; rewrite Hk; reflexivity).
    assert (Hidx : pos_index_of m 0 ps = Some (0 + pcount ps (soff s + j))).
    { apply (pos_index_nth ps m 0 (soff s + j) (conv q)).
      - apply sig_nth. exact Hj.
      - rewrite conv_positional. exact Hq.
      - unfold kw_match, conv, ep_by_kw. simpl. rewrite Hk, Hn. simpl. apply Nat.eqb_refl.
      - intros i e Hi He. unfold ps in He. rewrite sig_eparams_eq in He.
        destruct (Nat.lt_ge_cases i (soff s)) as [A|A].
        + rewrite nth_error_app1 in He by (rewrite selfl_length; exact A).
          unfold selfl in He. destruct (m_self s); [|destruct i; discriminate].
          destruct i as [|i]; [|destruct i; discriminate]. injection He as <-. reflexivity.
        + rewrite nth_error_app2 in He by (rewrite selfl_length; exact A). rewrite selfl_length in He.
          destruct (nth_error (m_params s) (i - soff s)) as [q'|] eqn:Eq'.
          * rewrite (map_nth_error conv _ _ Eq') in He. injection He as <-.
            unfold kw_match, conv. simpl. destruct (Nat.eqb (p_name q') m) eqn:En; [|apply andb_false_r].
            apply Nat.eqb_eq in En. exfalso.
            assert (i - soff s = j) by (apply (names_distinct _ _ q' q); auto; congruence). lia.
          * apply nth_error_None in Eq'. assert (nth_error (map conv (m_params s)) (i - soff s) = None) by (apply nth_error_None; rewrite map_length; exact Eq').
            congruence. }
    unfold ps in Hidx. rewrite (sig_pcount s j q Hwf Hj Hq) in Hidx.
    assert (Hex : existsb (fun nv : nat * src => match pos_index_of (fst nv) 0 ps with Some i => i <? length pos | None => false end) kws = true).
    { apply existsb_exists. exists (m, SKw m). split.
      - unfold kws, caller_kws. apply in_map_iff. exists m. auto.
      - simpl. unfold ps. rewrite Hidx. unfold pos. rewrite caller_pos_length. apply Nat.ltb_lt. unfold soff. lia. }
    congruence.
  Qed.

  Lemma acc_val : forall j q, nth_error (m_params s) j = Some q ->
    nth_error (bind_vals ps pos kws) (soff s + j) =
    Some (if is_positional q
          then if j <? k then Some (SPos j)
               else if ep_by_kw (conv q) then kw_find (p_name q) kws else None
          else kw_find (p_name q) kws).
  Proof.
    intros j q Hj. unfold ps. rewrite (bind_vals_nth _ pos kws _ (conv q) (sig_nth s j q Hj)).
    rewrite conv_positional. f_equal. destruct (is_positional q) eqn:Eq; [|reflexivity].
    rewrite (sig_pcount s j q Hwf Hj Eq). unfold pos, soff. rewrite caller_pos_nth.
    destruct (j <? k); reflexivity.
  Qed.

  Lemma acc_req : forall j q, nth_error (m_params s) j = Some q -> p_req q = true ->
    (is_positional q = true /\ (j < k \/ (p_kind q = PosKw /\ In (p_name q) K)))
    \/ (is_positional q = false /\ In (p_name q) K).
  Proof.
    intros j q Hj Hr. destruct acc_spec as [_ [_ [_ [_ H5]]]]. unfold bind_c5 in H5.
    pose proof (forallb_combine_nth _ _ _ _ _ _ H5 (sig_nth s j q Hj) (acc_val j q Hj)) as G.
    simpl in G. rewrite Hr in G. simpl in G.
    assert (Hfind : forall n, (match kw_find n kws with Some _ => true | None => false end) = true -> In n K).
    { intros n Hn. unfold kws in Hn. rewrite kw_find_caller in Hn.
      destruct (memb Nat.eqb n K) eqn:E; [|discriminate]. apply (memb_In Nat.eqb Nat.eqb_eq). exact E. }
    destruct (is_positional q) eqn:Eq.
    - left. split; auto. destruct (j <? k) eqn:Ejk; [left; apply Nat.ltb_lt; exact Ejk|]. right.
      destruct (ep_by_kw (conv q)) eqn:Eb; [|discriminate].
      split; [|apply Hfind; exact G].
      unfold ep_by_kw, conv in Eb. simpl in Eb. unfold is_positional in Eq. destruct (p_kind q); simpl in *; try discriminate. reflexivity.
    - right. split; auto.
  Qed.
End Accepts.

(* ---------- C03_bind_accepts ---------- *)
Lemma documented_kwpos : forall f K m, nf_ok f -> kw_documented (nf_analysis f) K = true -> In m K ->
  In m (nf_kr f ++ nf_ko f) \/ exists p, nf_kwpos f m p.
Proof.
  intros f K m Hok Hd Hm. unfold kw_documented in Hd. rewrite forallb_forall in Hd. specialize (Hd m Hm).
  pose proof (ok_r f Hok) as Hr. pose proof (ok_sl f Hok) as Hsl.
  apply orb_true_iff in Hd. destruct Hd as [Hd|Hd].
  - left. apply (memb_In ident_eqb ident_eqb_eq) in Hd. cbn [nf_analysis an_kr an_ko] in Hd.
    apply in_map_iff in Hd. destruct Hd as [m' [E Hm']]. injection E as ->. exact Hm'.
  - right. apply andb_true_iff in Hd. destruct Hd as [Hlen Hin].
    cbn [nf_analysis an_pr an_po] in Hlen, Hin. rewrite map_length, seq_length in Hlen.
    apply (memb_In ident_eqb ident_eqb_eq) in Hin. rewrite <- map_app in Hin. apply in_map_iff in Hin.
    destruct Hin as [p [Ep Hp]]. apply in_app_iff in Hp. rewrite !in_seq in Hp.
    assert (Hrange : nf_sl f <= p < nf_n f) by lia.
    exists p. unfold nf_kwpos. split; auto. split.
    + unfold nf_slash2, nf_npo. apply Nat.ltb_ge. apply Nat.leb_le in Hlen. exact Hlen.
    + rewrite pid_named in Ep by lia. injection Ep. auto.
Qed.

Theorem bind_accepts : forall sigs self k K s a, all_wf sigs -> all_self sigs self -> In s sigs ->
  analyze sigs = inr a -> accepts s k K = true -> kw_documented a K = true ->
  exists ps vals, entry_params a = Some ps /\ bind ps (caller_pos self k) (caller_kws K) = Some vals.
Proof.
  intros sigs self k K s a Hwf Hs Hin Ha Hacc Hdoc.
  destruct (entry_setup sigs a Hwf Ha) as [r [Hok [Ean [Ep [_ [Hpos [Hkw Hf]]]]]]].
  set (f := nf_of sigs a r) in *.
  destruct (analyze_inv sigs a Ha) as [_ [Hne Ea']].
  assert (Hkr : an_kr a = filter (fun n => req_all sigs (CName n)) (keywords sigs)) by (rewrite Ea'; reflexivity).
  assert (Hsne : sigs <> []) by (intro E; rewrite E in Hin; contradiction).
  assert (Hself : nf_self f = self) by (apply (an_self_eq sigs a self); auto).
  assert (Hswf : sig_wf s = true) by (eapply all_wf_in; eauto).
  rewrite Ean in Hdoc.
  assert (Hcanon : forall m p j q, nf_kwpos f m p -> nth_error (m_params s) j = Some q -> p_kind q <> PosOnly -> p_name q = m ->
                     p_kind q = PosKw /\ j = p).
  { intros m p j q [[A B] [_ E]] Hj Hk Hn.
    destruct (name_at_declared sigs p A B) as [s' [q' [Hs' [Hj' [Hk' Hn']]]]].
    pose proof (poskw_canon sigs s' p q' _ Hs' Hj' Hk' Hn') as C1. change (name_at sigs p) with (nf_nm f p) in C1. rewrite E in C1.
    destruct (p_kind q) eqn:Ekq; [contradiction| |].
    - pose proof (poskw_canon sigs s j q m Hin Hj Ekq Hn) as C2.
      pose proof (canon_unique sigs _ _ _ Hne C1 C2) as Eq. injection Eq as ->. auto.
    - pose proof (kwonly_canon sigs s j q m Hin Hj Ekq Hn) as C2.
      pose proof (canon_unique sigs _ _ _ Hne C1 C2). discriminate. }
  assert (Hb : bound f k K).
  { constructor.
    - pose proof (acc_k s k K Hacc). assert (sig_max_pos s <= npos sigs).
      { unfold npos. apply list_max_ge. apply in_map. exact Hin. }
      simpl. lia.
    - apply (acc_nd s k K Hacc).
    - intros m Hm. destruct (documented_kwpos f K m Hok Hdoc Hm); auto.
    - intros m p Hm Hkp. destruct (acc_kw s k K Hacc m Hm) as [j [q [Hj [Hk Hn]]]].
      destruct (Hcanon m p j q Hkp Hj Hk Hn) as [Hk' ->]. apply (acc_ge s k K Hswf Hacc m p q); auto.
    - intros p Hp. pose proof (ok_r f Hok) as Hr. simpl in Hr.
      assert (Hreq : req_all sigs (CPos p) = true).
      { rewrite Hf by (simpl in Hp; lia). apply Nat.ltb_lt. exact Hp. }
      rewrite req_all_pos in Hreq. specialize (Hreq s Hin). unfold sig_req_at in Hreq.
      destruct (nth_error (m_params s) p) as [q|] eqn:Ej; [|discriminate].
      apply andb_true_iff in Hreq. destruct Hreq as [Hq Hrq].
      rewrite posval_cases.
      destruct (acc_req s k K Hswf Hacc p q Ej Hrq) as [[_ [Hlt|[Hk HK]]]|[Hq' _]]; [| |congruence].
      + replace (p <? k) with true by (symmetry; apply Nat.ltb_lt; exact Hlt). discriminate.
      + destruct (p <? k); [discriminate|].
        destruct (documented_kwpos f K _ Hok Hdoc HK) as [Hkwn|[p' Hkp]].
        * exfalso. pose proof (Hkw _ Hkwn) as Hnp.
          assert (is_pos_name sigs (p_name q) = true) by (apply is_pos_name_iff; exists s, p, q; auto). congruence.
        * assert (Hk' : p_kind q <> PosOnly) by (rewrite Hk; discriminate).
          destruct (Hcanon _ p' p q Hkp Ej Hk' eq_refl) as [_ <-].
          destruct Hkp as [[A B] [C D]]. rewrite C. replace (p <? nf_sl f) with false by (symmetry; apply Nat.ltb_ge; lia).
          rewrite D. replace (memb Nat.eqb (p_name q) K) with true by (symmetry; apply (memb_In Nat.eqb Nat.eqb_eq); exact HK).
          discriminate.
    - intros m Hm. change (nf_kr f) with (an_kr a) in Hm. rewrite Hkr in Hm. apply filter_In in Hm. destruct Hm as [_ Hm].
      destruct (req_all_name sigs m Hwf Hm s Hin) as [q [Hq [Hk [Hn Hrq]]]].
      apply In_nth_error in Hq. destruct Hq as [j Hj].
      destruct (acc_req s k K Hswf Hacc j q Hj Hrq) as [[Hp _]|[_ HK]].
      + unfold is_positional in Hp. rewrite Hk in Hp. discriminate.
      + rewrite Hn in HK. exact HK. }
  exists (nf_eparams f), (nf_vals f k K). split; [exact Ep|].
  rewrite <- Hself. apply (bind_nf_iff f k K _ Hok). split; auto.
Qed.
