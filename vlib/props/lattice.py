"""Shared machinery of C12 / C13: sweep of typeorder / subclasscheck over all ordered pairs of a generated
type corpus, implementation vs extracted model, plus the property oracles evaluated on the implementation."""
import json
from .. import model, sexp
from ..world import (World, TypeFactory, Decoder, random_spec, world_from, typeorder, subclasscheck, Order, METHOD_NAMES)

OM = {Order.LESS: -1, Order.MORE: 1, Order.SAME: 0, Order.NONE: 2}
OPP = {-1: 1, 1: -1, 0: 0, 2: 2}


def impl_ord(a, b):
    try:
        return OM[typeorder(a, b)]
    except Exception as e:  # noqa
        return ["exc", type(e).__name__]


def impl_sub(a, b):
    try:
        return int(bool(subclasscheck(a, b)))
    except Exception as e:  # noqa
        return ["exc", type(e).__name__]


def components(enc):
    """(relation, component encoding) pairs used by the oracles: members of unions/intersections, origin of an
    alias, bound of a dependent type"""
    t = enc[0]
    out = []
    if t == 1:
        out.append(("origin", [0, enc[1]]))
    elif t == 2:
        out += [("umember", m) for m in enc[1:]]
    elif t == 3:
        out += [("imember", m) for m in enc[1:]]
    elif t == 8:
        out.append(("bound", enc[1]))
    elif t in (9, 10):
        out.append(("bound", enc[2]))
    elif t == 11:
        out.append(("bound", enc[1]))
    return out


def gen_world_case(rng, n_types=28, max_depth=3):
    spec = random_spec(rng)
    w = World(spec)
    for _ in range(2):
        w.add_pred(rng.sample(range(w.n), min(3, w.n)))
    tf = TypeFactory(w, rng)
    ts = [tf.rand(rng.choice([0, 1, 1, 2, 2, max_depth])) for _ in range(n_types)]
    # a few deliberately related types: re-spellings with fresh identity, permuted unions
    extra = []
    for (o, e) in ts[:6]:
        if e[0] == 4:
            extra.append(tf.exa(e[2]))
        if e[0] in (2, 3) and len(e) > 2:
            extra.append((None, [e[0]] + list(reversed(e[1:]))))     # the same union / intersection with its members reversed
    # parametrised generics of one origin with different numbers of arguments sharing a covariant prefix
    for (o, e) in list(ts):
        if e[0] == 1 and e[1] == 6 and len(e) >= 3:
            extra.append((None, [1, 6] + e[2:] + [[0, rng.choice([0, 2, 3])]]))     # one more argument
            if len(e) >= 4:
                extra.append((None, [1, 6] + e[2:-1]))                                # one fewer
            extra.append((None, [1, 1, e]))
            extra.append((None, [1, 1, [1, 6] + e[2:] + [[0, 0]]]))
    # dependent_check types whose Any wildcards cross in unequal numbers (neither is more specific), and in nested position
    import typing as _t
    cids = [0, 2, 3] + w.user_ids()
    if len(cids) >= 2:
        x, y = rng.sample(cids, 2)
        for kind in (2, 3):
            extra += [(None, [kind, [0, x], [0, y]]), (None, [kind, [0, y], [0, x]])]
    if rng.random() < 0.5:
        a = tf.fn("HasKey", [_t.Any, _t.Any, "c"])
        b = tf.fn("HasKey", ["a", "b", _t.Any])
        c = tf.fn("HasKey", ["a", _t.Any, _t.Any])
        extra += [a, b, c]
        # ... and types sharing a wildcard slot while differing elsewhere (unordered, from both sides)
        extra += [tf.fn("HasKey", [_t.Any, "k"]), tf.fn("HasKey", [_t.Any, "j"]), tf.fn("HasKey", ["k", _t.Any]), tf.fn("HasKey", [_t.Any, _t.Any])]
    encs = []
    seen = set()

    def add(e):
        k = json.dumps(e)
        if k not in seen:
            seen.add(k)
            encs.append(e)

    for (_, e) in ts + extra:
        add(e)
    k = 0
    while k < len(encs):
        for _, c in components(encs[k]):
            add(c)
        k += 1
    return {"spec": spec, "preds": [list(p) for p in w.pred_sets], "types": encs}


def build(case):
    w = world_from(case["spec"], case["preds"])
    d = Decoder(w)
    objs = [d.ty(e) for e in case["types"]]
    return w, objs


def eval_impl(case):
    w, objs = build(case)
    n = len(objs)
    ords = [[impl_ord(objs[i], objs[j]) for j in range(n)] for i in range(n)]
    subs = [[impl_sub(objs[i], objs[j]) for j in range(n)] for i in range(n)]
    return w, objs, ords, subs


def model_case(w, case):
    return [2, w.encode(), [model.canon_ty(t) for t in case["types"]], w.n]


def pair_case(case, i, j):
    return {"spec": case["spec"], "preds": case["preds"], "types": [case["types"][i], case["types"][j]]}


def triple_case(case, i, j, k):
    return {"spec": case["spec"], "preds": case["preds"], "types": [case["types"][i], case["types"][j], case["types"][k]]}


def late_registration(case, rng, objs, w):
    """After the first sweep over a world: register one more virtual subclass on one of its ABCs (abc.ABCMeta.register
    on the very class objects the types were built from) and sweep again.  -> None when the world offers no such step,
    else (ords2, subs2, (abc index, class index)).  The relation the library must follow is the current one."""
    spec = case["spec"]
    cands = []
    for i, sp in enumerate(spec):
        if sp["kind"] != "abc":
            continue
        for r, sr in enumerate(spec):
            if r == i or sr["kind"] == "proto":
                continue
            try:
                if issubclass(w.user[r], w.user[i]) or issubclass(w.user[i], w.user[r]):
                    continue
            except TypeError:
                continue
            cands.append((i, r))
    if not cands:
        return None
    i, r = rng.choice(cands)
    try:
        w.user[i].register(w.user[r])
    except Exception:  # noqa  (would create a cycle)
        return None
    n = len(objs)
    ords2 = [[impl_ord(objs[a], objs[b]) for b in range(n)] for a in range(n)]
    subs2 = [[impl_sub(objs[a], objs[b]) for b in range(n)] for a in range(n)]
    return ords2, subs2, (i, r)
