"""C14 — types passed as arguments dispatch on type[...] by subtype."""
import json, collections, typing
from .. import model, progs
from ..world import World, random_spec, world_from
from . import resolve_common as R

TYPE, LIST, TUPLE, DICT = 1, 5, 6, 7

CLAIM = dict(
    text="Coq theorems on the lattice model (Model/Ty.v) for keys of the form type[X] = Gen TYPE [X]: type[X] is under type[T] exactly when X is a subtype of T, at any nesting depth (C14_applicable, with C13_generic_covariant for parametrised generics: same-or-subclass origin, argument-wise); a passed type falls under a plain class annotation d exactly when `type` is a subclass of d, hence always under object (C14_under_class); type[T1] compares to type[T2] as T1 to T2 (C14_prefer) and every type[...] annotation is more specific than object (C14_below_object). Resolution among the applicable methods then follows C02. Tie to /repo: generated method sets mixing type[...] annotations over a class hierarchy and generics (list, dict, nested, bare) with ordinary positions; passed classes, parametrised and nested generics, typing.List[...], typing.Any and ordinary values; outcomes compared with the model (keys built by the harness's reading of subtler_type) and with a Python reference subtype rule (property oracle).",
    note="Trusted: as C02. The harness's key construction mirrors utils.subtler_type and the per-position choice (some method annotates the position with type[...]); that choice as generated code is C03's subject. typing.Type[...] is not among the supported forms.",
    technique="Coq proof (corollaries of the generic-alias branch of subclasscheck/typeorder) + differential correspondence", design="6 C14")

THEOREMS = ["C14_applicable", "C14_under_class", "C14_prefer", "C14_below_object"]
ASSUMPTIONS = []


def gen_tyarg(rng, w, depth=1):
    """a type expression that can be passed / put inside type[...]: class, bare generic, parametrised generic"""
    cls_ids = [0, 2, 3] + w.user_ids()
    r = rng.random()
    if depth <= 0 or r < 0.5:
        return [0, rng.choice(cls_ids + [LIST, DICT])]
    if r < 0.7:
        return [1, LIST, gen_tyarg(rng, w, depth - 1)]
    if r < 0.85:
        # tuple[...] with 1-3 arguments: different arities of one origin, often sharing a prefix
        base = [[0, c] for c in rng.sample(cls_ids, min(3, len(cls_ids)))]
        return [1, TUPLE] + base[: rng.randint(1, 3)]
    return [1, DICT, gen_tyarg(rng, w, depth - 1), gen_tyarg(rng, w, depth - 1)]


def ref_subtype(w, x, t):
    C = w.classes
    if t[0] == 0:
        return issubclass(C[x[1]], C[t[1]])
    if x[0] == 0:
        return False
    return issubclass(C[x[1]], C[t[1]]) and len(x) == len(t) and all(ref_subtype(w, a, b) for a, b in zip(x[2:], t[2:]))


def py_obj(w, e, flavour=False):
    if e[0] == 0:
        return w.classes[e[1]]
    args = tuple(py_obj(w, a) for a in e[2:])
    if e[1] == TUPLE:
        return typing.Tuple[args] if flavour else tuple[args]
    if e[1] == LIST:
        return typing.List[args[0]] if flavour else list[args[0]]
    return typing.Dict[args[0], args[1]] if flavour else dict[args[0], args[1]]


def gen_prog(rng):
    spec = random_spec(rng, n_user=rng.randint(2, 4), kinds=("plain", "plain", "abc"))
    w = World(spec)
    mode = rng.choice(["plain"] * 6 + ["opt3", "opt3", "kwtype", "kwtype"])
    if mode == "kwtype":
        return gen_kwtype(rng, spec, w)
    npos = rng.choice([1, 1, 2])
    tpos = rng.randrange(npos)
    vary_names = rng.random() < 0.4
    if vary_names and npos == 2:
        tpos = 1
    if mode == "opt3":
        # three positions, the type position last; the first two are named differently by different methods (strictly
        # positional in the entry point) and the middle one is optional in some methods; every call passes all three
        npos, tpos, vary_names = 3, 2, True
    defs = []
    cls_ids = [0, 2, 3] + w.user_ids()
    for i in range(rng.randint(2, 6)):
        pos = []
        for p in range(npos):
            if p == tpos:
                r = rng.random()
                if r < 0.7:
                    pos.append([1, TYPE, gen_tyarg(rng, w, rng.choice([0, 1, 1, 2]))])
                elif r < 0.8:
                    pos.append([1, TYPE, [0, 0]])           # bare `type` / type[object]
                else:
                    pos.append([0, 0])
            else:
                pos.append([0, rng.choice(cls_ids)])
        d = {"id": i, "pos": pos, "npos_req": npos, "kw": [], "prio": rng.choice([0, 0, 0, 1])}
        if vary_names and npos == 2:
            # position 0 is named differently by different methods: it becomes strictly positional in the entry point
            d["names"] = [rng.choice(["a0", "b0"]), "a1"]
        if mode == "opt3":
            d["names"] = [rng.choice(["a0", "b0"]), rng.choice(["a1", "b1"]), "a2"]
            d["npos_req"] = rng.choice([1, 2, 3, 3])
        defs.append(d)
    if not any(d["pos"][tpos][0] == 1 for d in defs):
        defs[0]["pos"][tpos] = [1, TYPE, [0, rng.choice(cls_ids)]]
    inst = [c for c in cls_ids if w.instantiable(c)]
    calls = []
    for _ in range(14):
        args = []
        for p in range(npos):
            if p == tpos:
                r = rng.random()
                if r < 0.75:
                    args.append(["T", gen_tyarg(rng, w, rng.choice([0, 1, 1, 2])), rng.random() < 0.25])
                elif r < 0.85:
                    args.append(["ANY"])
                else:
                    args.append(["V", rng.choice(inst)])
            else:
                args.append(["V", rng.choice(inst)])
        calls.append({"args": args})
    return {"spec": spec, "defs": defs, "calls": calls, "tpos": tpos, "prehistory": rng.choice([False, False, False, False, False, False, True, True, 2, 2])}


def gen_kwtype(rng, spec, w):
    """the type-valued parameter is keyword-only (k0), next to one ordinary position"""
    cls_ids = [0, 2, 3] + w.user_ids()
    defs = []
    for i in range(rng.randint(2, 5)):
        r = rng.random()
        t = [1, TYPE, gen_tyarg(rng, w, rng.choice([0, 1, 1, 2]))] if r < 0.75 else [1, TYPE, [0, 0]] if r < 0.85 else [0, 0]
        defs.append({"id": i, "pos": [[0, rng.choice(cls_ids)]], "npos_req": 1, "kw": [[0, t, True]], "prio": rng.choice([0, 0, 0, 1])})
    if not any(d["kw"][0][1][0] == 1 for d in defs):
        defs[0]["kw"][0][1] = [1, TYPE, [0, rng.choice(cls_ids)]]
    inst = [c for c in cls_ids if w.instantiable(c)]
    calls = []
    for _ in range(14):
        r = rng.random()
        ka = ["T", gen_tyarg(rng, w, rng.choice([0, 1, 1, 2])), rng.random() < 0.25] if r < 0.75 else ["ANY"] if r < 0.85 else ["V", rng.choice(inst)]
        calls.append({"args": [["V", rng.choice(inst)]], "kwarg": ka})
    return {"spec": spec, "defs": defs, "calls": calls, "tpos": 0, "prehistory": False}


def slots(d):
    return list(d["pos"]) + [t for (k, t, req) in d.get("kw", [])]


def check(ctx, prog, stats, samples):
    w = world_from(prog["spec"])
    defs = prog["defs"]
    target = None
    if prog.get("prehistory") == 2:
        # a copy whose signature is looked at before its first use; the function it was copied from then receives its
        # type[...] methods; the calls go through the copy, which is assembled from its parent's methods at first use
        import inspect
        first = [d for d in defs if not any(t[0] == 1 for t in slots(d))]
        rest = [d for d in defs if any(t[0] == 1 for t in slots(d))]
        if first and rest:
            defs = first + rest
            b = progs.Built(w, first)
            target = b.ov.copy()
            target.rename("g")
            str(inspect.signature(target.dispatch).parameters)
            for d in rest:
                b.register(d)
            stats["prehistories"] = stats.get("prehistories", 0) + 1
        else:
            b = progs.Built(w, defs)
    elif prog.get("prehistory"):
        # before the first call: as many plain methods as the program has, the signature looked at, all of them
        # unregistered again, then the program's own methods (the first to say type[...]) -- nothing of that may show
        import inspect
        b = progs.Built(w, [])
        dummies = [{"id": 900 + j, "pos": [[0, 0] if p != 0 else [0, [2, 3][j % 2]] for p in range(len(defs[0]["pos"]))], "npos_req": len(defs[0]["pos"]),
                    "kw": [], "prio": j} for j in range(len(defs))]
        for d in dummies:
            b.register(d)
        if not hasattr(b.ov, "dispatch"):
            b.ov.rename("f")                 # what @ovld does for a decorated def: the public function object exists before the first call
        str(inspect.signature(b.ov.dispatch).parameters)
        for d in dummies:
            b.unregister(d["id"])
        for d in defs:
            b.register(d)
        stats["prehistories"] = stats.get("prehistories", 0) + 1
    else:
        b = progs.Built(w, defs)
    mms = R.model_defs(defs)
    tpos = prog["tpos"]
    keys, pyargs, pykw = [], [], []

    def one(a, ww):
        if a[0] == "V":
            return ww.instance(a[1]), [0, a[1]]
        if a[0] == "ANY":
            return typing.Any, [1, TYPE, [0, 0]]
        return py_obj(ww, a[1], a[2]), [1, TYPE, a[1]]
    for call in prog["calls"]:
        kpos, vals = [], []
        for p, a in enumerate(call["args"]):
            v, k = one(a, w)
            vals.append(v)
            kpos.append(k)
        kw, kkw = {}, []
        if "kwarg" in call:
            v, k = one(call["kwarg"], w)
            kw, kkw = {"k0": v}, [[0, k]]
        keys.append([kpos, kkw])
        pyargs.append(vals)
        pykw.append(kw)
    mres = model.run_cases([[10, w.encode(), mms, [[0, k] for k in keys]], [22, w.encode(), mms, keys]])
    for call, vals, kwv, mo, art in zip(prog["calls"], pyargs, pykw, mres[0], mres[1]):
        out, entered = b.call(vals, kwv, target)
        stats["evaluations"] += 1
        case = dict(prog, calls=[call])
        m = progs.dec_outcome(mo)
        stats["hist"][out[0]] += 1
        stats["distinct"].add(hash(json.dumps([prog["defs"], call])))
        broken = out != m
        if broken:
            ctx.violation(f"implementation {out} != model {m}", case, kind="correspondence")
        # reference rule
        def applicable(d):
            for p, (a, t) in enumerate(zip(call["args"] + ([call["kwarg"]] if "kwarg" in call else []), slots(d))):
                if a[0] == "V":
                    if t[0] == 1:
                        return False
                    if not issubclass(w.classes[a[1]], w.classes[t[1]]):
                        return False
                else:
                    x = [0, 0] if a[0] == "ANY" else a[1]
                    if t[0] == 0:
                        if not issubclass(type, w.classes[t[1]]):
                            return False
                    elif not ref_subtype(w, x, t[2]):
                        return False
            return True

        def le(ta, tb):      # annotation ta at least as specific as tb
            if ta[0] == 1 and tb[0] == 1:
                return ref_subtype(w, ta[2], tb[2])
            if ta[0] == 1 and tb[0] == 0:
                return issubclass(type, w.classes[tb[1]])
            if ta[0] == 0 and tb[0] == 0:
                return issubclass(w.classes[ta[1]], w.classes[tb[1]])
            return False
        app = [d for d in defs if applicable(d)]
        order = {d["id"]: i for i, d in enumerate(defs)}

        def beats(x, y):
            if x["prio"] != y["prio"]:
                return x["prio"] > y["prio"]
            if slots(x) == slots(y) and x["npos_req"] == y["npos_req"]:
                return order[x["id"]] > order[y["id"]]      # the very same signature: the later definition replaces the earlier
            return all(le(a, c) for a, c in zip(slots(x), slots(y)))
        win = [x for x in app if all(beats(x, y) for y in app if y is not x)]
        exp = ["nomethod"] if not app else ["run", win[0]["id"]] if len(win) == 1 else ["ambig"]
        if exp != out:
            if broken:
                # the tie is broken for this call: KF-01's class is where the model of the unchanged code leaves the rule
                if m == exp or not (exp == ["ambig"] and R.kf01_shape_generic([dict(d, pos=slots(d)) for d in app], out, le)):
                    ctx.violation(f"implementation {out} deviates from the reference subtype rule {exp}", case)
            elif art or (exp == ["ambig"] and R.kf01_shape_generic([dict(d, pos=slots(d)) for d in app], out, le)):
                ctx.known_hit("KF-01", case)
                stats["kf01"] += 1
            else:
                ctx.violation(f"implementation {out} deviates from the reference subtype rule {exp}", case)
    # delegation through type[...] annotations: the walk made with f.next(...) must be the walk made with call_next(...)
    # (Ovld.next builds the continuation key itself, from the run-time types of its arguments)
    dn = [dict(d, body="next") for d in defs]
    df = [dict(d, body="fnext") for d in defs]
    bn, bf = progs.Built(world_from(prog["spec"]), dn), progs.Built(world_from(prog["spec"]), df)
    for call, vals in zip(prog["calls"], pyargs):
        if any(d.get("kw") for d in defs):
            break              # Ovld.next takes positional arguments only: no f.next spelling of a walk with keywords
        vn = [one(a, bn.w)[0] for a in call["args"]]
        vf = [one(a, bf.w)[0] for a in call["args"]]
        kn = {"k0": one(call["kwarg"], bn.w)[0]} if "kwarg" in call else {}
        kf = {"k0": one(call["kwarg"], bf.w)[0]} if "kwarg" in call else {}
        rn, rf = bn.call(vn, kn), bf.call(vf, kf)
        stats["evaluations"] += 1
        stats["next_walks"] += 1
        if rn != rf:
            ctx.violation(f"the walk through f.next {rf} differs from the walk through call_next {rn}", dict(prog, calls=[call], fnext=True))
            return
        if len(set(rf[1])) != len(rf[1]):
            ctx.violation(f"a method was visited twice in one f.next walk: {rf[1]}", dict(prog, calls=[call], fnext=True))
            return
    if len(samples) < 2:
        samples.append({"defs": defs, "call": prog["calls"][0]})


def directed_subclass_origins(ctx, stats):
    """parametrised generics whose origin is a CONCRETE proper subclass of the annotation's origin (user subclasses of
    list / dict, collections.OrderedDict / defaultdict under dict) -- outside the generated worlds, whose generic origins
    are unrelated builtins.  Property oracle only (no model): the documented rule -- same-or-subclass origin,
    argument-wise subtyping, most specific type[...] first, object last -- read directly on Python classes."""
    import collections as C
    from ovld import Ovld as _Ovld

    class MyList(list):
        pass

    class MyList2(MyList):
        pass

    class MyDict(dict):
        pass

    def ref(x, t):
        ox, ax = getattr(x, "__origin__", x), getattr(x, "__args__", ())
        ot, at = getattr(t, "__origin__", t), getattr(t, "__args__", ())
        if not at:
            return issubclass(ox, ot)
        return issubclass(ox, ot) and len(ax) == len(at) and all(ref(a, b) for a, b in zip(ax, at))

    families = [
        ([list[int], list[object], list, object], [list, MyList, MyList2], [(int,), (bool,), (str,), (object,)]),
        ([dict[str, int], dict[str, object], dict[object, object], dict, object], [dict, MyDict, C.OrderedDict, C.defaultdict],
         [(str, int), (str, bool), (str, str), (int, int), (object, object)]),
    ]
    for anns, origins, argss in families:
        for k in range(1, len(anns) + 1):
            for skip in range(len(anns)):
                use = [a for i, a in enumerate(anns) if i != skip][:k] if k < len(anns) else anns
                if object not in use:
                    use = use + [object]

                def mk(i, a):
                    def g(t):
                        return i
                    g.__annotations__ = {"t": type[a]}
                    return g
                f = _Ovld()          # a fresh function per method set (the @ovld decorator would extend the previous `f`)
                for i, a in enumerate(use):
                    f.register(mk(i, a))
                for o in origins:
                    for args in argss:
                        x = o[args if len(args) > 1 else args[0]]
                        app = [i for i, a in enumerate(use) if ref(x, a)]
                        best = [i for i in app if all(ref(use[i], use[j]) for j in app)]
                        try:
                            got = f(x)
                        except Exception as e:      # noqa: BLE001
                            got = type(e).__name__
                        stats["evaluations"] += 1
                        stats["directed_subclass_origin_calls"] = stats.get("directed_subclass_origin_calls", 0) + 1
                        if len(best) == 1 and got != best[0]:
                            ctx.violation(f"passing {x!r} to methods on type[{use!r}]: ran {got!r}, documented rule selects method {best[0]} (type[{use[best[0]]!r}])",
                                          {"directed": "subclass_origin", "passed": repr(x), "annotations": [repr(a) for a in use]})
                            return


def run(ctx):
    stats = {"evaluations": 0, "hist": collections.Counter(), "distinct": set(), "kf01": 0, "programs": 0, "next_walks": 0}
    samples = []
    n = 80 if ctx.quick() else 4000
    directed_subclass_origins(ctx, stats)
    for _ in range(n):
        prog = gen_prog(ctx.rng)
        check(ctx, prog, stats, samples)
        stats["programs"] += 1
        if len(ctx.violations) > 5:
            break
    return {"evaluations": stats["evaluations"], "distinct_nontrivial": len(stats["distinct"]),
            "rule": "random hierarchies; 2-6 methods over 1-2 positions (a fifth of the programs: three positions with differently named, partly optional leading ones; a fifth: the type-valued parameter keyword-only), one position annotated with type[...] over classes, bare and parametrised generics (list, dict, nested to depth 2), bare type or object, the others with classes; 14 calls passing classes, bare / parametrised / nested generics (25% in typing.List / typing.Dict spelling), typing.Any and ordinary values; every case involves a type-valued position: all non-trivial; distinct by content",
            "samples": samples, "programs": stats["programs"], "outcome_histogram": dict(stats["hist"]),
            "deviations_attributed_to_KF-01": stats["kf01"], "walks_f_next_vs_call_next": stats["next_walks"], "directed_calls_generic_with_concrete_subclass_origin": stats.get("directed_subclass_origin_calls", 0), "programs_built_after_a_same_count_swap_with_the_signature_inspected": stats.get("prehistories", 0), "traces_validated_against_impl": stats["evaluations"]}


def replay(ctx, payload):
    """re-run the recorded program through the same comparisons; reproduced iff it raises a violation again"""
    stats = {"evaluations": 0, "hist": collections.Counter(), "distinct": set(), "kf01": 0, "programs": 0, "next_walks": 0}
    before = len(ctx.violations)
    if payload["case"].get("directed") == "subclass_origin":
        directed_subclass_origins(ctx, stats)
    else:
        check(ctx, payload["case"], stats, [])
    return len(ctx.violations) > before


def replay_finding(ctx, e):
    """KF-01's C14 witness: the implementation still runs the method recorded there although the reference rule says Ambiguous"""
    wit = e.get("witness_C14")
    if wit is None:
        return e["status"] == "open"
    w = world_from(wit["spec"])
    b = progs.Built(w, wit["defs"])
    vals = []
    for a in wit["calls"][0]["args"]:
        vals.append(w.instance(a[1]) if a[0] == "V" else typing.Any if a[0] == "ANY" else py_obj(w, a[1], a[2]))
    out, _ = b.call(vals)
    return out == wit["expect_impl"]
