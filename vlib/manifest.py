"""Regenerate MANIFEST.json from the per-property registry below (kept valid at all times)."""
import json, os
from . import VERIF

CLAIMS = {
 "C12": dict(
   text="Coq theorems about the executable model of typeorder (Model/Ty.v): reflexivity, coincidence with subclassing and transitivity on classes, generic aliases below their origin and argument-wise, unions above / intersections below each member, Literal/Dependent below their bound -- all for unbounded nesting; mirror symmetry proved on the decidable domain msym (no hook-vs-hook comparison), refuted outside it by vm_compute witnesses (KF-06, KF-07) and for tuple[...] vs its bound (KF-24). The model is tied to /repo on every run by running implementation and extracted model on all ordered pairs of a generated type corpus; every asymmetric pair must fall in a known-finding class and behave as the model predicts.",
   note="Trusted: Coq kernel, extraction (ExtrOcamlBasic), OCaml driver, the hand-written model (validated by the correspondence), CPython's issubclass/hasattr (tables). No axioms (all theorems closed under the global context). Partial: full mirror symmetry is false of the code (known findings).",
   technique="Coq proof (induction on fuel over a nested inductive of types) + differential correspondence impl vs extracted model", design="6 C12"),
 "C13": dict(
   text="Coq theorems about the model of subclasscheck: for every type of any depth, subclasscheck(class, T) equals T's documented meaning (Spec/Denot.v: some arm / all arms / exactly / proper subclass / has method / predicate; bound for value types); reflexive; equals issubclass on classes; argument-wise covariant on generics; transitive on the fragment class <= class <= down-closed type, refuted beyond it (KF-22, KF-25). Correspondence: implementation vs extracted model on all ordered pairs; every (class, type) pair also against an independent Python reading of the documentation and, on a sample, through a real @ovld dispatch; all chained triples for transitivity.",
   note="Same trusted base as C12. Hypotheses on the class table (partial order, hasattr inherited) are checked per generated world. Partial: transitivity is false of the code outside the proved fragment (known findings).",
   technique="Coq proof (induction on fuel; spec function denot) + differential correspondence", design="6 C13"),
}


def main():
    props = [json.loads(l) for l in open(os.path.join(VERIF, "properties.jsonl"))]
    checks = []
    for p in props:
        pid = p["id"]
        if pid in CLAIMS:
            c = CLAIMS[pid]
            checks.append({
                "property_id": pid,
                "quick_cmd": f"./check {pid} --tier quick",
                "thorough_cmd": f"./check {pid} --tier thorough",
                "evidence_file": f"/verif/evidence/{pid}.json",
                "replay_cmd_template": f"./check {pid} --replay {{path}}",
                "engine": "coq-model",
                "level_claimed": {"category": "proof", "text": c["text"], "design_ref": "DESIGN.md section " + c["design"]},
                "level_note": c["note"],
                "technique": c["technique"],
            })
    na = [{"property_id": p["id"], "reason": "not claimed yet: machinery under construction in this round (see DESIGN.md section 10)"}
          for p in props if p["id"] not in CLAIMS]
    m = {
        "version": 1,
        "setup_cmd": "./setup.sh",
        "hooks": {"guard": "OVLD_VERIF", "enable": "OVLD_VERIF=1 in the environment of the implementation process (set by ./check)",
                  "baseline_off_cmd": "cd /repo && env -u OVLD_VERIF /venv/bin/python -m pytest -ra -q -p no:cacheprovider --timeout=900 --continue-on-collection-errors",
                  "source_commits": [], "add_only": True},
        "engines": [{"name": "coq-model", "path": "/verif/coq", "serves_properties": sorted(CLAIMS),
                     "kind_free_text": "Coq 8.16 development: executable Gallina model (Model/), specs (Spec/), proofs (Proofs/), property theorems (Props/), extracted to OCaml (ocaml/driver.ml) and driven by the Python harness vlib/ against /repo/src"}],
        "checks": checks,
        "notes": "Every check: regenerate Gen/*.v from /repo, make, compile Props/<id>.v (Print Assumptions), correspondence implementation vs extracted model, property oracles on the implementation, known-finding witnesses (known_findings.json).",
        "not_applicable": na,
    }
    json.dump(m, open(os.path.join(VERIF, "MANIFEST.json"), "w"), indent=1)
    print("MANIFEST: claimed", sorted(CLAIMS), "unclaimed", len(na))


if __name__ == "__main__":
    main()
