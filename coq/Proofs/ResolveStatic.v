(* ResolveStatic.v — C02 on the static fragment (declared types and key types are plain classes):
   the implementation's outcome against the documented priority-then-specificity rule. *)
From Coq Require Import ZArith List Bool Arith Lia Permutation.
Import ListNotations.
From OvldV Require Import Model.Order Model.Ty Model.Resolve Spec.Dispatch
  Proofs.TyEq Proofs.TySub Proofs.ResolveKahn Proofs.ResolveLevels Proofs.ResolveSort Proofs.ResolveCands.

Lemma all_ge_refl l : all_ge l l = true.
Proof. induction l; simpl; [reflexivity|]. now rewrite Nat.leb_refl. Qed.

Lemma list_eqb_nat_eq l1 l2 : list_eqb Nat.eqb l1 l2 = true <-> l1 = l2.
Proof. apply list_eqb_spec'. intros; apply Nat.eqb_eq. Qed.

Lemma forallb_ext_in {X} (p q : X -> bool) l : (forall x, In x l -> p x = q x) -> forallb p l = forallb q l.
Proof. induction l as [|a r IH]; simpl; intros H; [reflexivity|]. rewrite (H a (or_introl eq_refl)), IH; auto. Qed.

Section Static.
  Variable sub : nat -> nat -> bool.
  Variable hasm : nat -> nat -> bool.
  Variable chk : nat -> nat -> bool.
  Variable sub_fresh : nat -> bool.
  Hypothesis sub_refl : forall c, sub c c = true.
  Hypothesis sub_antisym : forall c d, sub c d = true -> sub d c = true -> c = d.

  Notation subclasscheck := (subclasscheck sub hasm chk sub_fresh).
  Notation levels := (levels sub hasm chk sub_fresh).
  Notation candidates := (candidates sub hasm chk sub_fresh).
  Notation lookup := (lookup sub hasm chk sub_fresh).
  Notation applicable_ty := (applicable_ty sub hasm chk sub_fresh).
  Notation tables_for := (tables_for sub hasm chk sub_fresh).
  Notation applicable := (applicable sub).
  Notation beats := (beats sub).

  Lemma subclasscheck_cls c d : subclasscheck (Cls c) (Cls d) = Some (sub c d).
  Proof. unfold Ty.subclasscheck, fuel_for. simpl tsize. now apply subck_classes. Qed.

  Definition static_meth (m : meth) : Prop :=
    forall s t, slot_ty m s = Some t -> exists d, t = Cls d.

  Lemma static_ms_meth ms m : static_ms ms = true -> In m ms -> static_meth m.
  Proof.
    unfold static_ms. rewrite forallb_forall. intros H Hm s t Hs. specialize (H m Hm).
    rewrite forallb_forall in H.
    assert (Hin : In t (m_pos m ++ map snd (m_kw m))).
    { destruct s as [i|k]; simpl in Hs; apply in_app_iff.
      - left. eapply nth_error_In; eauto.
      - right. clear -Hs. induction (m_kw m) as [|[a x] r IH]; simpl in *; [discriminate|].
        destruct (Nat.eqb a k); [injection Hs as ->; now left|right; auto]. }
    specialize (H t Hin). destruct t; try discriminate. eauto.
  Qed.

  Lemma applicable_static m k :
    static_meth m -> static_key k = true -> applicable_ty m k = applicable m k.
  Proof.
    intros Hm Hk. unfold ResolveCands.applicable_ty, Dispatch.applicable. f_equal.
    unfold static_key in Hk. rewrite forallb_forall in Hk.
    apply forallb_ext_in. intros [s kt] Hin. specialize (Hk _ Hin). simpl in *.
    destruct kt; try discriminate. unfold decl.
    destruct (slot_ty m s) as [t|] eqn:Es; [|reflexivity].
    destruct (Hm _ _ Es) as [d ->]. rewrite subclasscheck_cls. simpl. destruct (sub c d); reflexivity.
  Qed.

  (* ---- per-slot comparison of levels ---- *)
  Definition ple (a b : meth) (st : slot * ty) : bool :=
    match decl a (fst st), decl b (fst st) with Some x, Some y => sub x y | _, _ => false end.
  Definition same (a b : meth) (st : slot * ty) : bool :=
    match decl a (fst st), decl b (fst st) with Some x, Some y => Nat.eqb x y | _, _ => false end.

  Lemma spec_compare ms a b : static_meth a -> static_meth b ->
    forall sts lv, Forall2 (fun (st : slot * ty) (e : slot * list (ty * nat)) =>
               fst e = fst st /\ levels (slot_types ms (fst st)) (snd st) = Ok (snd e)) sts lv ->
    forall sa sb, spec_of lv a = Some sa -> spec_of lv b = Some sb -> forallb (ple a b) sts = true ->
      all_ge sa sb = true /\ sumn sb <= sumn sa /\
      (forallb (same a b) sts = true -> sa = sb) /\ (forallb (same a b) sts = false -> sumn sb < sumn sa /\ sa <> sb).
  Proof.
    intros Ha Hb sts lv Ht. induction Ht as [|[s kt] [s' tab] sts lv' [Hs Hl] Hr IH]; intros sa sb Hsa Hsb Hple.
    - simpl in *. injection Hsa as <-. injection Hsb as <-. simpl. repeat split; auto; discriminate.
    - simpl in Hs, Hl. subst s'. simpl in Hsa, Hsb. fold (spec_of lv' a) in Hsa. fold (spec_of lv' b) in Hsb.
      destruct (slot_ty a s) as [ta|] eqn:Ea; [|discriminate]. destruct (slot_ty b s) as [tb|] eqn:Eb; [|discriminate].
      destruct (assoc_ty ta tab) as [la|] eqn:Ela; [|discriminate]. destruct (assoc_ty tb tab) as [lb|] eqn:Elb; [|discriminate].
      destruct (spec_of lv' a) as [sa'|] eqn:Esa; [|discriminate]. destruct (spec_of lv' b) as [sb'|] eqn:Esb; [|discriminate].
      injection Hsa as <-. injection Hsb as <-.
      simpl in Hple. apply andb_true_iff in Hple. destruct Hple as [Hp Hple].
      destruct (IH _ _ eq_refl eq_refl Hple) as (Hge & Hsum & Heq & Hlt).
      destruct (Ha _ _ Ea) as [x ->]. destruct (Hb _ _ Eb) as [y ->].
      unfold ple, same, decl in *. simpl in *. rewrite Ea, Eb in *.
      destruct (Nat.eqb x y) eqn:Exy.
      + apply Nat.eqb_eq in Exy. subst y. rewrite Ela in Elb. injection Elb as <-.
        rewrite Nat.leb_refl. simpl. split; [exact Hge|]. split; [lia|]. split.
        * intros Hq. f_equal. auto.
        * intros Hq. destruct (Hlt Hq) as [H1 H2]. split; [lia|congruence].
      + apply Nat.eqb_neq in Exy.
        pose proof (levels_strict _ _ _ _ sub_antisym _ _ _ _ _ _ _ Hl Ela Elb Hp Exy) as Hst.
        assert (Hle : Nat.leb lb la = true) by (apply Nat.leb_le; lia).
        rewrite Hle. simpl. split; [exact Hge|]. split; [lia|]. split.
        * discriminate.
        * intros _. split; [lia | intros E; injection E as E1 _; lia].
  Qed.

  Lemma sig_eqb_slot a b s : sig_eqb a b = true -> slot_ty a s = slot_ty b s.
  Proof.
    unfold sig_eqb. rewrite !andb_true_iff. intros [[[[H1 H2] _] _] _].
    apply (list_eqb_spec' ty_eqb ty_eqb_eq) in H1.
    assert (H2' : m_kw a = m_kw b).
    { apply (list_eqb_spec' (fun p q : nat * ty => Nat.eqb (fst p) (fst q) && ty_eqb (snd p) (snd q))); [|exact H2].
      intros [n1 t1] [n2 t2]. simpl. rewrite andb_true_iff, Nat.eqb_eq, ty_eqb_eq. split; [intros [-> ->]; reflexivity|intros E; injection E; auto]. }
    destruct s; simpl; congruence.
  Qed.

  Lemma sig_eqb_spec_of a b lv : sig_eqb a b = true -> spec_of lv a = spec_of lv b.
  Proof.
    intros H. induction lv as [|[s tab] r IH]; simpl; [reflexivity|].
    rewrite (sig_eqb_slot _ _ s H). fold (spec_of r a). fold (spec_of r b). rewrite IH. reflexivity.
  Qed.

  Lemma sig_eqb_prio a b : sig_eqb a b = true -> m_prio a = m_prio b.
  Proof. unfold sig_eqb. rewrite !andb_true_iff. intros [_ H]. now apply Z.eqb_eq. Qed.

  (* Lemma B: beating (documented rule) implies dominating and a strictly larger sort key (implementation) *)
  Lemma beats_dominates ms k lv a b sa sb :
    static_meth a -> static_meth b -> tables_for ms k lv ->
    spec_of lv a = Some sa -> spec_of lv b = Some sb ->
    beats a b k = true ->
    key_gt (mkCand a sa) (mkCand b sb) = true /\ dominates (mkCand a sa) (mkCand b sb) = true.
  Proof.
    intros Ha Hb Ht Hsa Hsb Hbeat. unfold Dispatch.beats in Hbeat.
    rewrite key_gt_spec. unfold dominates, c_prio, c_tie. simpl.
    apply orb_true_iff in Hbeat. destruct Hbeat as [Hbeat|Hsig].
    - apply orb_true_iff in Hbeat. destruct Hbeat as [Hp|Hspec].
      + rewrite Hp. apply Z.ltb_lt in Hp. auto.
      + apply andb_true_iff in Hspec. destruct Hspec as [Hspec Hns]. apply andb_true_iff in Hspec. destruct Hspec as [Hpe Hple].
        apply Z.eqb_eq in Hpe. apply negb_true_iff in Hns.
        destruct (spec_compare ms a b Ha Hb _ _ Ht _ _ Hsa Hsb Hple) as (Hge & _ & _ & Hlt).
        destruct (Hlt Hns) as [Hsum Hne].
        split; [right; split; [exact Hpe|left; exact Hsum]|].
        replace (Z.ltb (m_prio b) (m_prio a)) with false by (symmetry; apply Z.ltb_ge; lia).
        replace (list_eqb Nat.eqb sa sb) with false; [exact Hge|].
        symmetry. apply not_true_iff_false. rewrite list_eqb_nat_eq. exact Hne.
    - apply andb_true_iff in Hsig. destruct Hsig as [Hsig Htie].
      pose proof (sig_eqb_spec_of _ _ lv Hsig) as Hs. rewrite Hsa, Hsb in Hs. injection Hs as <-.
      pose proof (sig_eqb_prio _ _ Hsig) as Hp. apply Z.ltb_lt in Htie.
      split; [right; split; [exact Hp|right; split; [reflexivity|exact Htie]]|].
      replace (Z.ltb (m_prio b) (m_prio a)) with false by (symmetry; apply Z.ltb_ge; lia).
      replace (list_eqb Nat.eqb sa sa) with true by (symmetry; now apply list_eqb_nat_eq).
      simpl. now apply Z.ltb_lt.
  Qed.

  (* ---- the candidate list has one entry per applicable method ---- *)
  Lemma NoDup_map_inv {X Y} (f : X -> Y) l : NoDup (map f l) -> NoDup l.
  Proof.
    induction l as [|a r IH]; simpl; intros H; [constructor|]. inversion H; subst.
    constructor; [intros Hin; apply H2; now apply in_map|auto].
  Qed.

  Lemma NoDup_map_eq {X Y} (f : X -> Y) l x y : NoDup (map f l) -> In x l -> In y l -> f x = f y -> x = y.
  Proof.
    induction l as [|a r IH]; simpl; intros H Hx Hy E; [destruct Hx|]. inversion H; subst.
    destruct Hx as [<-|Hx], Hy as [<-|Hy]; auto.
    - exfalso. apply H2. rewrite E. now apply in_map.
    - exfalso. apply H2. rewrite <- E. now apply in_map.
  Qed.

  Lemma omap_filter_NoDup {X Y} (f : X -> option Y) (g : Y -> X) l :
    (forall x y, f x = Some y -> g y = x) -> NoDup l -> NoDup (omap_filter f l).
  Proof.
    intros Hg. induction 1 as [|a r Hn Hd IH]; simpl; [constructor|].
    destruct (f a) as [b|] eqn:E; [|exact IH]. constructor; [|exact IH].
    intros Hin. apply omap_filter_In in Hin. destruct Hin as (x & Hx & Hfx).
    apply Hg in E. apply Hg in Hfx. congruence.
  Qed.

  Lemma cands_NoDup ms k cs : NoDup (map m_id ms) -> candidates ms k = Ok cs -> NoDup cs.
  Proof.
    intros Hnd H. destruct (candidates_inv _ _ _ _ _ _ _ H) as (lv & _ & ->).
    apply (omap_filter_NoDup _ c_m); [|eapply NoDup_map_inv; eauto].
    intros m c Hc. unfold cand_of in Hc. destruct (arity_ok _ _ _); [|discriminate].
    destruct (spec_of lv m); [|discriminate]. injection Hc as <-. reflexivity.
  Qed.

  Lemma tables_for_unique ms k lv lv' : tables_for ms k lv -> tables_for ms k lv' -> lv' = lv.
  Proof.
    unfold ResolveCands.tables_for. intros Ht. revert lv'.
    induction Ht as [|st e sts l [H1 H2] Hr IH]; intros lv' Ht'; inversion Ht' as [|? e' ? l' [H1' H2'] Hr']; subst; [reflexivity|].
    f_equal; [|auto]. destruct e, e'. simpl in *. congruence.
  Qed.

  (* ---- T4: a method that beats every other applicable method is the one that runs ---- *)
  Theorem winner_runs ms k cs m :
    NoDup (map m_id ms) -> static_ms ms = true -> static_key k = true ->
    candidates ms k = Ok cs ->
    In m ms -> applicable m k = true ->
    (forall m', In m' ms -> applicable m' k = true -> m_id m' <> m_id m -> beats m m' k = true) ->
    lookup ms k = ORun (m_id m).
  Proof.
    intros Hnd Hst Hk Hc Hm Happ Hbeats.
    pose proof (static_ms_meth _ _ Hst Hm) as Hsm.
    rewrite <- (applicable_static _ _ Hsm Hk) in Happ.
    apply (cand_applicable _ _ _ _ _ _ _ _ Hc Hm) in Happ. destruct Happ as (c & Hcin & Hcm).
    pose proof (proj1 (cand_In _ _ _ _ _ _ _ _ Hc) Hcin) as (lv & Ht & _ & _ & Hsp).
    assert (Hall : forall x, In x cs -> x = c \/ (key_gt c x = true /\ dominates c x = true)).
    { intros x Hx. pose proof (proj1 (cand_In _ _ _ _ _ _ _ _ Hc) Hx) as (lv' & Ht' & Hxm & Hxa & Hxs).
      rewrite (tables_for_unique _ _ _ _ Ht Ht') in Hxs.
      destruct (Nat.eq_dec (m_id (c_m x)) (m_id m)) as [E|E].
      - left. assert (c_m x = m) by (eapply NoDup_map_eq; eauto). destruct x as [xm xs], c as [cm csp]. simpl in *. subst. congruence.
      - right. pose proof (static_ms_meth _ _ Hst Hxm) as Hsx.
        assert (Hax : applicable (c_m x) k = true).
        { rewrite <- (applicable_static _ _ Hsx Hk). apply (cand_applicable _ _ _ _ _ _ _ _ Hc Hxm). eauto. }
        specialize (Hbeats _ Hxm Hax E).
        destruct x as [xm xs], c as [cm csp]. simpl in *. subst cm.
        exact (beats_dominates _ _ _ _ _ _ _ Hsm Hsx Ht Hsp Hxs Hbeats). }
    destruct (sort_desc_top cs c Hcin) as [t Hsort]; [intros x Hx; destruct (Hall x Hx) as [->|[H1 _]]; auto|].
    rewrite (lookup_unfold _ _ _ _ _ _ _ Hc), Hsort.
    assert (Hnd' : NoDup (c :: t)).
    { eapply Permutation_NoDup; [|eapply cands_NoDup; eauto]. rewrite <- Hsort. apply sort_desc_perm. }
    inversion Hnd' as [|? ? Hnotin _]; subst.
    replace (grp [c] t) with (@nil cand); [reflexivity|]. symmetry. apply grp_single_nil_iff.
    apply filter_all_false.
    intros x Hx. assert (Hxc : In x cs) by (apply sort_desc_In; rewrite Hsort; now right).
    destruct (Hall x Hxc) as [->|[_ Hd]]; [contradiction|now rewrite Hd].
  Qed.

  (* ---- T3: the method that runs is applicable and no applicable method beats it ---- *)
  Theorem run_is_unbeaten ms k cs i :
    NoDup (map m_id ms) -> static_ms ms = true -> static_key k = true ->
    candidates ms k = Ok cs -> lookup ms k = ORun i ->
    exists m, In m ms /\ m_id m = i /\ applicable m k = true /\
      forall m', In m' ms -> applicable m' k = true -> m_id m' <> i -> beats m' m k = false.
  Proof.
    intros Hnd Hst Hk Hc Hrun.
    rewrite (lookup_unfold _ _ _ _ _ _ _ Hc) in Hrun.
    destruct (sort_desc cs) as [|c1 rest] eqn:Hsort; [discriminate|].
    unfold rank_outcome in Hrun. destruct (grp _ rest) eqn:Hf; [|discriminate]. injection Hrun as <-.
    assert (Hc1 : In c1 cs) by (apply sort_desc_In; rewrite Hsort; now left).
    pose proof (proj1 (cand_In _ _ _ _ _ _ _ _ Hc) Hc1) as (lv & Ht & Hm & _ & Hsp).
    pose proof (static_ms_meth _ _ Hst Hm) as Hsm.
    exists (c_m c1). repeat split; [exact Hm| |].
    - rewrite <- (applicable_static _ _ Hsm Hk). apply (cand_applicable _ _ _ _ _ _ _ _ Hc Hm). eauto.
    - intros m' Hm' Happ' Hne. destruct (beats m' (c_m c1) k) eqn:Hb; [|reflexivity]. exfalso.
      pose proof (static_ms_meth _ _ Hst Hm') as Hsm'.
      rewrite <- (applicable_static _ _ Hsm' Hk) in Happ'.
      apply (cand_applicable _ _ _ _ _ _ _ _ Hc Hm') in Happ'. destruct Happ' as (c' & Hc' & Hcm').
      pose proof (proj1 (cand_In _ _ _ _ _ _ _ _ Hc) Hc') as (lv' & Ht' & _ & _ & Hsp').
      rewrite (tables_for_unique _ _ _ _ Ht Ht') in Hsp'.
      destruct c' as [xm xs], c1 as [cm csp]. simpl in *. subst xm.
      destruct (beats_dominates _ _ _ _ _ _ _ Hsm' Hsm Ht Hsp' Hsp Hb) as [Hk' _].
      pose proof (sort_desc_head _ _ _ Hsort _ Hc') as Hh. congruence.
  Qed.

  Lemma spec_run_winner ms k i :
    spec_outcome sub ms k = VRun i ->
    exists m, In m ms /\ m_id m = i /\ applicable m k = true /\
      forall m', In m' ms -> applicable m' k = true -> m_id m' <> m_id m -> beats m m' k = true.
  Proof.
    unfold spec_outcome. set (app := filter (fun m => applicable m k) ms).
    destruct app as [|a0 ar] eqn:Eapp; [discriminate|]. rewrite <- Eapp.
    destruct (filter _ app) as [|m [|m2 r]] eqn:Ef; try discriminate.
    intros H. injection H as <-.
    assert (Hin : In m (filter (fun m0 => forallb (fun m' => Nat.eqb (m_id m') (m_id m0) || beats m0 m' k) app) app))
      by (rewrite Ef; now left).
    apply filter_In in Hin. destruct Hin as [Hmapp Hall]. unfold app in Hmapp. apply filter_In in Hmapp.
    destruct Hmapp as [Hm Ha]. exists m. repeat split; auto.
    intros m' Hm' Ha' Hne. rewrite forallb_forall in Hall.
    assert (Hin' : In m' app) by (unfold app; apply filter_In; auto).
    specialize (Hall _ Hin'). apply orb_true_iff in Hall. destruct Hall as [E|E]; [apply Nat.eqb_eq in E; contradiction|exact E].
  Qed.

  (* C02_winner_complete in terms of the executable specification *)
  Theorem spec_run_complete ms k cs i :
    NoDup (map m_id ms) -> static_ms ms = true -> static_key k = true ->
    candidates ms k = Ok cs -> spec_outcome sub ms k = VRun i -> lookup ms k = ORun i.
  Proof.
    intros Hnd Hst Hk Hc Hs. destruct (spec_run_winner _ _ _ Hs) as (m & Hm & <- & Ha & Hb).
    eapply winner_runs; eauto.
  Qed.

  Theorem spec_nomethod_iff ms k cs :
    static_ms ms = true -> static_key k = true -> candidates ms k = Ok cs ->
    (lookup ms k = ONoMethod <-> spec_outcome sub ms k = VNoMethod).
  Proof.
    intros Hst Hk Hc. rewrite (lookup_nomethod_iff _ _ _ _ _ _ _ Hc). unfold spec_outcome.
    split.
    - intros Hno. replace (filter (fun m => applicable m k) ms) with (@nil meth); [reflexivity|].
      symmetry. apply filter_all_false. intros m Hm. rewrite <- (applicable_static _ _ (static_ms_meth _ _ Hst Hm) Hk). auto.
    - intros Hs m Hm. rewrite (applicable_static _ _ (static_ms_meth _ _ Hst Hm) Hk).
      destruct (applicable m k) eqn:Ea; [|reflexivity]. exfalso.
      assert (Hin : In m (filter (fun m0 => applicable m0 k) ms)) by (apply filter_In; auto).
      destruct (filter (fun m0 => applicable m0 k) ms) as [|a r]; [destruct Hin|].
      destruct (filter _ (a :: r)) as [|x [|y t]]; discriminate.
  Qed.
End Static.

(* ---- C06: what the theorems above give for registration order and irrelevant methods ---- *)
Section OrderFree.
  Variable sub : nat -> nat -> bool.
  Variable hasm : nat -> nat -> bool.
  Variable chk : nat -> nat -> bool.
  Variable sub_fresh : nat -> bool.
  Hypothesis sub_refl : forall c, sub c c = true.
  Hypothesis sub_antisym : forall c d, sub c d = true -> sub d c = true -> c = d.

  Notation candidates := (candidates sub hasm chk sub_fresh).
  Notation lookup := (lookup sub hasm chk sub_fresh).

  Lemma static_ms_perm ms ms' : Permutation ms ms' -> static_ms ms = true -> static_ms ms' = true.
  Proof.
    unfold static_ms. intros Hp H. rewrite forallb_forall in *. intros m Hm. apply H.
    eapply Permutation_in; [symmetry; exact Hp|exact Hm].
  Qed.

  (* whenever the documented rule names a winner, every registration order of the same methods returns it *)
  Theorem decided_order_free ms ms' k cs' i :
    NoDup (map m_id ms) -> static_ms ms = true -> static_key k = true ->
    Permutation ms ms' -> candidates ms' k = Ok cs' ->
    spec_outcome sub ms k = VRun i -> lookup ms' k = ORun i.
  Proof.
    intros Hnd Hst Hk Hp Hc Hs.
    destruct (spec_run_winner _ _ _ _ Hs) as (m & Hm & <- & Ha & Hb).
    eapply (winner_runs sub hasm chk sub_fresh sub_refl sub_antisym ms' k cs' m); auto.
    - eapply Permutation_NoDup; [apply Permutation_map; exact Hp|exact Hnd].
    - eapply static_ms_perm; eauto.
    - eapply Permutation_in; eauto.
    - intros m' Hm' Ha' Hne. apply Hb; auto. eapply Permutation_in; [symmetry; exact Hp|exact Hm'].
  Qed.

  (* ... and methods that are not applicable to the call do not change it *)
  Theorem decided_irrelevant ms extra k cs' i :
    NoDup (map m_id (ms ++ extra)) -> static_ms (ms ++ extra) = true -> static_key k = true ->
    (forall m, In m extra -> applicable sub m k = false) ->
    candidates (ms ++ extra) k = Ok cs' ->
    spec_outcome sub ms k = VRun i -> lookup (ms ++ extra) k = ORun i.
  Proof.
    intros Hnd Hst Hk Hex Hc Hs.
    destruct (spec_run_winner _ _ _ _ Hs) as (m & Hm & <- & Ha & Hb).
    eapply (winner_runs sub hasm chk sub_fresh sub_refl sub_antisym (ms ++ extra) k cs' m); auto.
    - apply in_app_iff. now left.
    - intros m' Hm' Ha' Hne. apply in_app_iff in Hm'. destruct Hm' as [Hm'|Hm'].
      + apply Hb; auto.
      + rewrite (Hex _ Hm') in Ha'. discriminate.
  Qed.

  Theorem nomethod_order_free ms ms' k cs cs' :
    static_ms ms = true -> static_key k = true -> Permutation ms ms' ->
    candidates ms k = Ok cs -> candidates ms' k = Ok cs' ->
    (lookup ms k = ONoMethod <-> lookup ms' k = ONoMethod).
  Proof.
    intros Hst Hk Hp Hc Hc'.
    rewrite (lookup_nomethod_iff _ _ _ _ _ _ _ Hc), (lookup_nomethod_iff _ _ _ _ _ _ _ Hc').
    split; intros H m Hm; apply H; [eapply Permutation_in; [symmetry; exact Hp|exact Hm] | eapply Permutation_in; [exact Hp|exact Hm]].
  Qed.
End OrderFree.
