(* LeafTactics.v -- tactics shared by the agreement proofs of the regenerated leaf functions. *)
From Coq Require Import ZArith List Bool Arith Lia.
Import ListNotations.

Ltac split_ifs :=
  repeat match goal with
         | |- context [if ?c then _ else _] => let E := fresh "E" in destruct c eqn:E
         end.

Ltac to_prop :=
  repeat match goal with
         | H : Z.ltb _ _ = true |- _ => apply Z.ltb_lt in H
         | H : Z.ltb _ _ = false |- _ => apply Z.ltb_ge in H
         | H : Z.leb _ _ = true |- _ => apply Z.leb_le in H
         | H : Z.leb _ _ = false |- _ => apply Z.leb_gt in H
         | H : Z.eqb _ _ = true |- _ => apply Z.eqb_eq in H
         | H : Z.eqb _ _ = false |- _ => apply Z.eqb_neq in H
         | H : Nat.ltb _ _ = true |- _ => apply Nat.ltb_lt in H
         | H : Nat.ltb _ _ = false |- _ => apply Nat.ltb_ge in H
         | H : Nat.leb _ _ = true |- _ => apply Nat.leb_le in H
         | H : Nat.leb _ _ = false |- _ => apply Nat.leb_gt in H
         | H : Nat.eqb _ _ = true |- _ => apply Nat.eqb_eq in H
         | H : Nat.eqb _ _ = false |- _ => apply Nat.eqb_neq in H
         | H : negb _ = true |- _ => apply negb_true_iff in H
         | H : negb _ = false |- _ => apply negb_false_iff in H
         end.

