(* Dispatch.v — the documented resolution rule (C02), written from the property text and docs/usage.md only.
   Static fragment: declared types and key types are plain classes (Cls). *)
From Coq Require Import ZArith List Bool Arith.
Import ListNotations.
From OvldV Require Import Model.Order Model.Ty Model.Resolve.

Section Hier.
  Variable sub : nat -> nat -> bool.

  Definition cls_of (t : ty) : option nat := match t with Cls c => Some c | _ => None end.

  (* declared class of method m at slot s *)
  Definition decl (m : meth) (s : slot) : option nat :=
    match slot_ty m s with Some (Cls d) => Some d | _ => None end.

  (* m accepts the call shape and every supplied argument's class is a subclass of the declared class *)
  Definition applicable (m : meth) (k : key) : bool :=
    arity_ok m (length (k_pos k)) (map fst (k_kw k))
    && forallb (fun st : slot * ty =>
                  match cls_of (snd st), decl m (fst st) with
                  | Some c, Some d => sub c d
                  | _, _ => false
                  end) (key_slots k).

  (* a is at least as specific as b at every supplied slot *)
  Definition pointwise_le (a b : meth) (k : key) : bool :=
    forallb (fun st : slot * ty =>
               match decl a (fst st), decl b (fst st) with
               | Some x, Some y => sub x y
               | _, _ => false
               end) (key_slots k).

  Definition same_at (a b : meth) (k : key) : bool :=
    forallb (fun st : slot * ty =>
               match decl a (fst st), decl b (fst st) with
               | Some x, Some y => Nat.eqb x y
               | _, _ => false
               end) (key_slots k).

  (* a beats b for this call: higher priority; or equal priority, pointwise same-or-subclass and not the same types;
     or identical registered signature and registered later (= larger tiebreak, see defs_register) *)
  Definition beats (a b : meth) (k : key) : bool :=
    Z.ltb (m_prio b) (m_prio a)
    || (Z.eqb (m_prio a) (m_prio b) && pointwise_le a b k && negb (same_at a b k))
    || (sig_eqb a b && Z.ltb (m_tie b) (m_tie a)).

  Inductive verdict : Type := VRun (m : nat) | VNoMethod | VAmbiguous.

  Definition spec_outcome (ms : list meth) (k : key) : verdict :=
    let app := filter (fun m => applicable m k) ms in
    match app with
    | [] => VNoMethod
    | _ =>
        match filter (fun m => forallb (fun m' => Nat.eqb (m_id m') (m_id m) || beats m m' k) app) app with
        | [m] => VRun (m_id m)
        | _ => VAmbiguous
        end
    end.

  (* the call's class falls under pairwise comparable registered types at every supplied slot (always true under
     single inheritance).  Outside this domain the layer-index levels can order unrelated classes: KF-01. *)
  Definition chain_at (ms : list meth) (s : slot) (c : nat) : bool :=
    let av := filter (fun t => match t with Cls d => sub c d | _ => false end) (slot_types ms s) in
    forallb (fun t1 => forallb (fun t2 =>
      match t1, t2 with Cls a, Cls b => sub a b || sub b a | _, _ => false end) av) av.

  Definition chain_applicable (ms : list meth) (k : key) : bool :=
    forallb (fun st : slot * ty => match snd st with Cls c => chain_at ms (fst st) c | _ => false end) (key_slots k).

  Definition static_ms (ms : list meth) : bool :=
    forallb (fun m => forallb (fun t => match t with Cls _ => true | _ => false end)
                              (m_pos m ++ map snd (m_kw m))) ms.
  Definition static_key (k : key) : bool :=
    forallb (fun st : slot * ty => match snd st with Cls _ => true | _ => false end) (key_slots k).
End Hier.
