(* C02 — static resolution follows the documented priority-then-specificity rule.
   Theorems only.  Model: Model/Resolve.v ([lookup] = MultiTypeMap[key] on an empty cache: level tables by Kahn
   layering, arity filter, stable sort, _pull).  Spec: Spec/Dispatch.v (applicable, beats, spec_outcome),
   written from the property text.  Static fragment: declared and key types are classes (any DAG). *)
From Coq Require Import ZArith List Bool Arith.
Import ListNotations.
From OvldV Require Import Model.Order Model.Ty Model.Codec Model.Resolve Spec.Dispatch
  Proofs.ResolveCands Proofs.ResolveStatic Proofs.ResolveTotal Proofs.ResolveChain Proofs.RegIds Gen.Leaf Proofs.LeafCand.

Definition Refl (sub : nat -> nat -> bool) := forall c, sub c c = true.
Definition Antisym (sub : nat -> nat -> bool) := forall c d, sub c d = true -> sub d c = true -> c = d.

(* second tie to the source: Candidate.dominates, Candidate.sort_key and the arity / required-keyword filter as
   regenerated from /repo's current text (Gen/Leaf.v) are the functions the model -- and every theorem below -- uses *)
Theorem C02_leaf_dominates : forall a b, dominates_src a b = dominates a b.
Proof. exact dominates_agree. Qed.
Print Assumptions C02_leaf_dominates.

Theorem C02_leaf_sort_key : forall a b, key_gt a b = true <-> lex_gt (sort_key_src a) (sort_key_src b).
Proof. exact sort_key_agree. Qed.
Print Assumptions C02_leaf_sort_key.

Theorem C02_leaf_group : forall rest kept, grp_src kept rest = grp kept rest.
Proof. exact grp_agree. Qed.
Print Assumptions C02_leaf_group.

(* the direction of the edge one comparison adds to sort_types' dependency graph, and the level TypeMap.__missing__ gives
   to a round (counted from the most general end of the rounds, i.e. from the last one yielded) *)
Theorem C02_leaf_edge : forall o, edge_src o = edge_dir o.
Proof. exact edge_agree. Qed.
Print Assumptions C02_leaf_edge.

Theorem C02_leaf_level : forall nr r, level_index_src nr r = level_index nr r.
Proof. exact level_agree. Qed.
Print Assumptions C02_leaf_level.

Theorem C02_leaf_arity : forall m nargs names, arity_ok_src m nargs names = arity_ok m nargs names.
Proof. exact arity_agree. Qed.
Print Assumptions C02_leaf_arity.

(* the 'No method' outcome arises exactly when no registered method is applicable *)
Theorem C02_no_method : forall sub hasm chk fresh, Refl sub -> forall ms k cs,
  static_ms ms = true -> static_key k = true -> candidates sub hasm chk fresh ms k = Ok cs ->
  (lookup sub hasm chk fresh ms k = ONoMethod <-> spec_outcome sub ms k = VNoMethod).
Proof. exact spec_nomethod_iff. Qed.
Print Assumptions C02_no_method.

(* if the documented rule names a winner, that method is the one the implementation returns *)
Theorem C02_winner_complete : forall sub hasm chk fresh, Refl sub -> Antisym sub -> forall ms k cs i,
  NoDup (map m_id ms) -> static_ms ms = true -> static_key k = true ->
  candidates sub hasm chk fresh ms k = Ok cs ->
  spec_outcome sub ms k = VRun i -> lookup sub hasm chk fresh ms k = ORun i.
Proof. exact spec_run_complete. Qed.
Print Assumptions C02_winner_complete.

(* the method the implementation returns is applicable and is beaten by no applicable method *)
Theorem C02_winner_maximal : forall sub hasm chk fresh, Refl sub -> Antisym sub -> forall ms k cs i,
  NoDup (map m_id ms) -> static_ms ms = true -> static_key k = true ->
  candidates sub hasm chk fresh ms k = Ok cs -> lookup sub hasm chk fresh ms k = ORun i ->
  exists m, In m ms /\ m_id m = i /\ applicable sub m k = true /\
    forall m', In m' ms -> applicable sub m' k = true -> m_id m' <> i -> beats sub m' m k = false.
Proof. exact run_is_unbeaten. Qed.
Print Assumptions C02_winner_maximal.

(* ... and the side condition "candidates = Ok" (the level computation did not fail) is automatic on the static fragment:
   typeorder / subclasscheck are total and Kahn's loop never gets stuck when issubclass is a partial order.
   The three theorems above therefore hold for EVERY class DAG, method list and key, unconditionally: *)
Definition Trans (sub : nat -> nat -> bool) := forall a b c, sub a b = true -> sub b c = true -> sub a c = true.

Theorem C02_static_total : forall sub hasm chk fresh, Antisym sub -> Trans sub -> forall ms k,
  static_ms ms = true -> static_key k = true -> exists cs, candidates sub hasm chk fresh ms k = Ok cs.
Proof. exact candidates_static_ok. Qed.
Print Assumptions C02_static_total.

Theorem C02_no_internal_error : forall sub hasm chk fresh, Antisym sub -> Trans sub -> forall ms k,
  static_ms ms = true -> static_key k = true ->
  lookup sub hasm chk fresh ms k <> OCycle /\ lookup sub hasm chk fresh ms k <> OFuel.
Proof. exact static_no_internal_error. Qed.
Print Assumptions C02_no_internal_error.

Theorem C02_winner_complete_unconditional : forall sub hasm chk fresh, Refl sub -> Antisym sub -> Trans sub ->
  forall ms k i, NoDup (map m_id ms) -> static_ms ms = true -> static_key k = true ->
  spec_outcome sub ms k = VRun i -> lookup sub hasm chk fresh ms k = ORun i.
Proof. exact static_winner_complete. Qed.
Print Assumptions C02_winner_complete_unconditional.

Theorem C02_winner_maximal_unconditional : forall sub hasm chk fresh, Refl sub -> Antisym sub -> Trans sub ->
  forall ms k i, NoDup (map m_id ms) -> static_ms ms = true -> static_key k = true ->
  lookup sub hasm chk fresh ms k = ORun i ->
  exists m, In m ms /\ m_id m = i /\ applicable sub m k = true /\
    forall m', In m' ms -> applicable sub m' k = true -> m_id m' <> i -> beats sub m' m k = false.
Proof. exact static_winner_maximal. Qed.
Print Assumptions C02_winner_maximal_unconditional.

Theorem C02_no_method_unconditional : forall sub hasm chk fresh, Refl sub -> Antisym sub -> Trans sub -> forall ms k,
  static_ms ms = true -> static_key k = true ->
  (lookup sub hasm chk fresh ms k = ONoMethod <-> spec_outcome sub ms k = VNoMethod).
Proof. exact static_nomethod_iff. Qed.
Print Assumptions C02_no_method_unconditional.

(* EXACTNESS where the classes of the call fall under pairwise comparable registered types at every supplied
   position (chain_applicable -- every call under single inheritance, C02_single_inheritance_exact): the
   implementation's outcome IS the documented verdict -- the method the rule names, Ambiguous exactly when the rule
   says Ambiguous, NoMethod exactly when nothing is applicable.  [ties_wf]: tiebreaks as registration leaves them
   (C02_ties_registered); Ovld.unregister can leave others -- that is C05's subject (KF-05). *)
Theorem C02_exact_on_chains : forall sub hasm chk fresh, Refl sub -> Antisym sub -> Trans sub -> forall ms k,
  NoDup (map m_id ms) -> static_ms ms = true -> static_key k = true ->
  chain_applicable sub ms k = true -> ties_wf ms = true ->
  verdict_of (lookup sub hasm chk fresh ms k) = Some (spec_outcome sub ms k).
Proof. exact chain_exact_unconditional. Qed.
Print Assumptions C02_exact_on_chains.

Theorem C02_single_inheritance_exact : forall sub hasm chk fresh, Refl sub -> Antisym sub -> Trans sub -> forall ms k,
  Forest sub -> NoDup (map m_id ms) -> static_ms ms = true -> static_key k = true -> ties_wf ms = true ->
  verdict_of (lookup sub hasm chk fresh ms k) = Some (spec_outcome sub ms k).
Proof. exact single_inheritance_exact. Qed.
Print Assumptions C02_single_inheritance_exact.

Theorem C02_ties_registered : forall ds, ties_wf (fold_left defs_register ds []) = true.
Proof. intros ds. now apply registered_ties_wf. Qed.
Print Assumptions C02_ties_registered.

(* ... and both side conditions on the method list are facts about registration: for ANY sequence of definitions
   with distinct identifiers (re-registrations of a signature included) the definitions dictionary keeps unique
   (signature, tiebreak) keys and exactly the registered identifiers (C05_registrations_keep_all), so on
   chain-applicable calls the outcome is the documented verdict with no hypothesis on tiebreaks or identifiers: *)
Theorem C02_exact_registered : forall sub hasm chk fresh, Refl sub -> Antisym sub -> Trans sub -> forall ds k,
  NoDup (map m_id ds) -> static_ms ds = true -> static_key k = true ->
  chain_applicable sub (fold_left defs_register ds []) k = true ->
  verdict_of (lookup sub hasm chk fresh (fold_left defs_register ds []) k)
  = Some (spec_outcome sub (fold_left defs_register ds []) k).
Proof. exact exact_registered. Qed.
Print Assumptions C02_exact_registered.

(* FULL STATEMENT (false of the faithful model, C02_exact_refuted): lookup = spec_outcome for every class DAG.
   Outside chain_applicable the theorems above leave exactly one way to differ: the rule says Ambiguous (no applicable method beats all
   others) while the implementation returns an unbeaten method.  That happens when the layer-index "levels" order
   classes that are unrelated (KF-01); the harness classifies such calls with [chain_applicable]. *)
Definition wh : hier :=   (* 0 object, 1 A, 2 B, 3 B2(B), 4 D(A, B2), 5 int *)
  {| h_supers := [[0]; [0; 1]; [0; 2]; [0; 2; 3]; [0; 1; 2; 3; 4]; [0; 5]]; h_meths := []; h_preds := []; h_fresh := [0] |}.
Definition wms : list meth :=
  [ mkMeth 0 [Cls 1] [] 1 [] 0 0; mkMeth 1 [Cls 2] [] 1 [] 0 0; mkMeth 2 [Cls 3; Cls 5] [] 2 [] 0 0 ].

Theorem C02_exact_refuted :
  exists ms k, static_ms ms = true /\ static_key k = true /\
    spec_outcome (hsub wh) ms k = VAmbiguous /\
    lookup (hsub wh) (hhasm wh) (hchk wh) (hfresh wh) ms k = ORun 0 /\
    chain_applicable (hsub wh) ms k = false.
Proof. exists wms, (mkKey [Cls 4] []). vm_compute. repeat split; reflexivity. Qed.
Print Assumptions C02_exact_refuted.

(* non-vacuity: a call where the rule names a winner through specificity, inside the hypotheses *)
Example C02_nonvacuous :
  spec_outcome (hsub wh) wms (mkKey [Cls 3; Cls 5] []) = VRun 2 /\
  lookup (hsub wh) (hhasm wh) (hchk wh) (hfresh wh) wms (mkKey [Cls 3; Cls 5] []) = ORun 2 /\
  chain_applicable (hsub wh) wms (mkKey [Cls 3; Cls 5] []) = true /\
  spec_outcome (hsub wh) wms (mkKey [Cls 3] []) = VRun 1.
Proof. vm_compute. repeat split; reflexivity. Qed.
