(* NormRespell.v — C15: the documented respellings as an inductive relation on annotations, closed under reflexivity,
   symmetry, transitivity and under every compound form; normalisation maps related annotations to the same type, so a
   method list respelt anywhere is the same list of normalised methods.  Reorderings (members of a union / intersection,
   values of a Literal, at any depth): the class-level meaning (which classes fall under the type) and the value-level
   membership of a Literal are unchanged. *)
From Coq Require Import ZArith List Bool Arith Lia Permutation.
Import ListNotations.
From OvldV Require Import Model.Order Model.Ty Model.TyDom Model.Dep Model.Norm Model.Resolve Spec.Denot
     Proofs.TyEq Proofs.TyTotal Proofs.TySub.

(* ---------- respellings that normalise to the very same type ---------- *)
Inductive respell : ann -> ann -> Prop :=
| rs_refl a : respell a a
| rs_sym a b : respell a b -> respell b a
| rs_trans a b c : respell a b -> respell b c -> respell a c
| rs_union_tuple l : respell (AUnion l) (ATuple l)                        (* Union[A, B] / A | B  ~  (A, B) *)
| rs_optional a : respell (AOptional a) (AUnion [a; ATy (Cls C_NONE)])    (* Optional[A]  ~  A | None *)
| rs_any_missing : respell AAny AMissing                                  (* typing.Any  ~  no annotation *)
| rs_missing_object : respell AMissing (ATy (Cls C_OBJECT))               (* no annotation  ~  object *)
| rs_annotated a : respell (AAnnotated a) a                               (* Annotated[A, ...]  ~  A *)
| rs_string a : respell (AStr a) a                                        (* "A"  ~  A *)
| rs_list a s s' : respell (AList a s) (AList a s')                       (* list[A]  ~  typing.List[A] *)
| rs_bare_type : respell ABareType (ATypeOf (Cls C_OBJECT))               (* type  ~  type[object] *)
(* inside compound annotations *)
| rs_union_nil : respell (AUnion []) (AUnion [])
| rs_union_cons a b l l' : respell a b -> respell (AUnion l) (AUnion l') -> respell (AUnion (a :: l)) (AUnion (b :: l'))
| rs_tuple_cons a b l l' : respell a b -> respell (ATuple l) (ATuple l') -> respell (ATuple (a :: l)) (ATuple (b :: l'))
| rs_tupleof_cons a b l l' : respell a b -> respell (ATupleOf l) (ATupleOf l') -> respell (ATupleOf (a :: l)) (ATupleOf (b :: l'))
| rs_optional_cong a b : respell a b -> respell (AOptional a) (AOptional b)
| rs_annotated_cong a b : respell a b -> respell (AAnnotated a) (AAnnotated b)
| rs_string_cong a b : respell a b -> respell (AStr a) (AStr b)
| rs_list_cong a b s : respell a b -> respell (AList a s) (AList b s).

Lemma uni_inj_map l l' : Uni l = Uni l' -> l = l'. Proof. now inversion 1. Qed.
Lemma prod_inj_map l l' b : Prod l b = Prod l' b -> l = l'. Proof. now inversion 1. Qed.

Theorem respell_norm : forall a b, respell a b -> norm a = norm b.
Proof.
  induction 1; try reflexivity; simpl in *; congruence.
Qed.

(* a method as written: annotations instead of types *)
Record ameth : Type := mkAMeth {
  am_id : nat; am_pos : list ann; am_kw : list (nat * ann); am_req : nat; am_reqkw : list nat; am_prio : Z; am_tie : Z }.

Definition nmeth (m : ameth) : meth :=
  mkMeth (am_id m) (map norm (am_pos m)) (map (fun p => (fst p, norm (snd p))) (am_kw m)) (am_req m) (am_reqkw m) (am_prio m) (am_tie m).

(* the same method with some annotations respelt *)
Definition respell_meth (m m' : ameth) : Prop :=
  am_id m = am_id m' /\ Forall2 respell (am_pos m) (am_pos m') /\
  Forall2 (fun p q => fst p = fst q /\ respell (snd p) (snd q)) (am_kw m) (am_kw m') /\
  am_req m = am_req m' /\ am_reqkw m = am_reqkw m' /\ am_prio m = am_prio m' /\ am_tie m = am_tie m'.

Lemma respell_meth_norm m m' : respell_meth m m' -> nmeth m = nmeth m'.
Proof.
  destruct m, m'; unfold respell_meth, nmeth; simpl. intros (-> & Hp & Hk & -> & -> & -> & ->).
  f_equal.
  - induction Hp as [|a b l l' Hab _ IH]; simpl; [reflexivity|]. now rewrite (respell_norm _ _ Hab), IH.
  - induction Hk as [|[k a] [k' b] l l' [Hk' Hab] _ IH]; simpl in *; [reflexivity|]. subst. now rewrite (respell_norm _ _ Hab), IH.
Qed.

Theorem respell_methods : forall ms ms', Forall2 respell_meth ms ms' -> map nmeth ms = map nmeth ms'.
Proof. induction 1 as [|m m' l l' H _ IH]; simpl; [reflexivity|]. now rewrite (respell_meth_norm _ _ H), IH. Qed.

(* every observable of dispatch is a function of the normalised method list *)
Corollary respell_dispatch : forall (X : Type) (observe : list meth -> X) ms ms',
  Forall2 respell_meth ms ms' -> observe (map nmeth ms) = observe (map nmeth ms').
Proof. intros X observe ms ms' H. now rewrite (respell_methods _ _ H). Qed.

(* ---------- reorderings ---------- *)
Inductive reord : ty -> ty -> Prop :=
| ro_refl t : reord t t
| ro_trans a b c : reord a b -> reord b c -> reord a c
| ro_uni_perm l l' : Permutation l l' -> reord (Uni l) (Uni l')
| ro_int_perm l l' : Permutation l l' -> reord (Int l) (Int l')
| ro_lit_perm vs vs' b : Permutation vs vs' -> reord (Lit vs b) (Lit vs' b)
| ro_uni_cons a b l l' : reord a b -> reord (Uni l) (Uni l') -> reord (Uni (a :: l)) (Uni (b :: l'))
| ro_int_cons a b l l' : reord a b -> reord (Int l) (Int l') -> reord (Int (a :: l)) (Int (b :: l'))
| ro_lit_bound vs b b' : reord b b' -> reord (Lit vs b) (Lit vs b')
| ro_fn_bound f ps b b' : reord b b' -> reord (Fn f ps b) (Fn f ps b')
| ro_tfn_bound f ts b b' : reord b b' -> reord (TFn f ts b) (TFn f ts b')
| ro_prod_bound ts b b' : reord b b' -> reord (Prod ts b) (Prod ts b').

Lemma existsb_perm {X} (f : X -> bool) l l' : Permutation l l' -> existsb f l = existsb f l'.
Proof.
  induction 1 as [|x l l' _ IH|x y l|l l' l'' _ IH1 _ IH2]; simpl; try congruence.
  destruct (f x), (f y); reflexivity.
Qed.
Lemma forallb_perm {X} (f : X -> bool) l l' : Permutation l l' -> forallb f l = forallb f l'.
Proof.
  induction 1 as [|x l l' _ IH|x y l|l l' l'' _ IH1 _ IH2]; simpl; try congruence.
  destruct (f x), (f y); reflexivity.
Qed.

Section Hier.
  Variable sub : nat -> nat -> bool.
  Variable hasm : nat -> nat -> bool.
  Variable chk : nat -> nat -> bool.
  Variable sub_fresh : nat -> bool.
  Variable utab : nat -> val -> bool.

  Lemma reord_denot : forall T T', reord T T' -> forall c, denot sub hasm chk T c = denot sub hasm chk T' c.
  Proof.
    induction 1; intro c0; simpl in *; try congruence.
    - apply existsb_perm; assumption.
    - apply forallb_perm; assumption.
    - now rewrite IHreord1, (IHreord2 c0).
    - now rewrite IHreord1, (IHreord2 c0).
  Qed.

  (* which classes fall under the type: unchanged by reordering, at any depth *)
  Theorem reord_subclasscheck : (forall c, sub c c = true) -> forall T T' c, reord T T' ->
    subclasscheck sub hasm chk sub_fresh (Cls c) T = subclasscheck sub hasm chk sub_fresh (Cls c) T'.
  Proof.
    intros R T T' c H.
    destruct (subclasscheck sub hasm chk sub_fresh (Cls c) T) as [b|] eqn:E1;
      [|exfalso; revert E1; apply subclasscheck_total].
    destruct (subclasscheck sub hasm chk sub_fresh (Cls c) T') as [b'|] eqn:E2;
      [|exfalso; revert E2; apply subclasscheck_total].
    unfold subclasscheck in *.
    apply (subck_denot sub hasm chk sub_fresh R) in E1. apply (subck_denot sub hasm chk sub_fresh R) in E2.
    subst. f_equal. now apply reord_denot.
  Qed.

  (* Literal values in any order: same bound, same members *)
  Lemma literal_bound_perm : forall vs vs', Permutation vs vs' -> literal_bound vs = literal_bound vs'.
  Proof.
    assert (A : forall vs, literal_bound vs =
              match vs with [] => Cls C_OBJECT | v :: _ =>
                if forallb (fun x => Nat.eqb (class_of x) (class_of v)) vs then Cls (class_of v) else Cls C_OBJECT end).
    { intros [|v r]; simpl; [reflexivity|]. now rewrite Nat.eqb_refl. }
    intros vs vs' P. rewrite !A.
    destruct vs as [|v r].
    - apply Permutation_nil in P. now subst.
    - destruct vs' as [|v' r']; [apply Permutation_sym, Permutation_nil in P; discriminate|].
      destruct (forallb (fun x => Nat.eqb (class_of x) (class_of v)) (v :: r)) eqn:E.
      + assert (Hv' : class_of v' = class_of v).
        { rewrite forallb_forall in E. apply Nat.eqb_eq, E. apply (Permutation_in _ (Permutation_sym P)). now left. }
        rewrite Hv'. now rewrite <- (forallb_perm _ _ _ P), E.
      + destruct (forallb (fun x => Nat.eqb (class_of x) (class_of v')) (v' :: r')) eqn:E'; [|reflexivity].
        exfalso. rewrite <- (forallb_perm _ _ _ P) in E'.
        assert (Hv : class_of v = class_of v') by (rewrite forallb_forall in E'; apply Nat.eqb_eq, E'; now left).
        rewrite Hv in E. congruence.
  Qed.

  Theorem literal_order : forall vs vs', Permutation vs vs' ->
    literal_bound vs = literal_bound vs' /\
    forall v, instance sub hasm chk utab (norm (ALiteral vs)) v = instance sub hasm chk utab (norm (ALiteral vs')) v.
  Proof.
    intros vs vs' P. split; [now apply literal_bound_perm|].
    intro v. simpl. rewrite (literal_bound_perm _ _ P).
    unfold val_in. now rewrite (existsb_perm _ _ _ P).
  Qed.
End Hier.

(* the premises are satisfiable by non-trivial instances *)
Example respell_nontrivial :
  respell (AOptional (AStr (AUnion [AAnnotated (ATy (Cls 7)); AAny])))
          (AUnion [ATuple [ATy (Cls 7); AMissing]; ATy (Cls C_NONE)]).
Proof.
  eapply rs_trans; [apply rs_optional|].
  apply rs_union_cons; [|apply rs_refl].
  eapply rs_trans; [apply rs_string|].
  eapply rs_trans; [|apply rs_union_tuple].
  apply rs_union_cons; [apply rs_annotated|].
  apply rs_union_cons; [apply rs_any_missing|apply rs_union_nil].
Qed.

Example reord_nontrivial :
  reord (Uni [Cls 1; Int [Cls 2; Lit [VInt 1; VInt 2] (Cls 3)]]) (Uni [Int [Lit [VInt 2; VInt 1] (Cls 3); Cls 2]; Cls 1]).
Proof.
  eapply ro_trans; [|apply ro_uni_perm, perm_swap].
  apply ro_uni_cons; [apply ro_refl|].
  apply ro_uni_cons; [|apply ro_refl].
  eapply ro_trans; [apply ro_int_perm, perm_swap|].
  apply ro_int_cons; [|apply ro_refl].
  apply ro_lit_perm, perm_swap.
Qed.
