(* C01 — a method only ever runs on arguments its declared signature accepts.
   Type-level part, for ALL declared types of the modelled closure (static, generic, union, intersection, dependent):
   whatever lookup returns is a registered method whose arity and keywords fit the call and whose declared type at
   every supplied slot passes subclasscheck for the argument's run-time type.
   The value-level part (conditions of dependent types hold) is Props/C10.v / C11.v. *)
From Coq Require Import ZArith List Bool Arith.
Import ListNotations.
From OvldV Require Import Model.Order Model.Ty Model.Resolve Proofs.ResolveCands.

Theorem C01_run_is_applicable : forall sub hasm chk fresh ms k i,
  lookup sub hasm chk fresh ms k = ORun i ->
  exists m, In m ms /\ m_id m = i /\ applicable_ty sub hasm chk fresh m k = true.
Proof. exact lookup_run_applicable. Qed.
Print Assumptions C01_run_is_applicable.

Theorem C01_no_applicable_no_run : forall sub hasm chk fresh ms k cs,
  candidates sub hasm chk fresh ms k = Ok cs ->
  (lookup sub hasm chk fresh ms k = ONoMethod <-> forall m, In m ms -> applicable_ty sub hasm chk fresh m k = false).
Proof. exact lookup_nomethod_iff. Qed.
Print Assumptions C01_no_applicable_no_run.

(* the same through call_next / f.next: whatever the continuation lookup returns is registered and applicable to the
   arguments it is about to receive *)
From OvldV Require Import Proofs.ResolveNext.
Theorem C01_next_is_applicable : forall sub hasm chk fresh ms k caller i,
  lookup_next sub hasm chk fresh ms caller k = ORun i ->
  exists m, In m ms /\ m_id m = i /\ applicable_ty sub hasm chk fresh m k = true.
Proof. exact next_run_applicable. Qed.
Print Assumptions C01_next_is_applicable.

(* joined with C13: every argument whose run-time type is a plain class lies in the DOCUMENTED MEANING (Spec/Denot.v:
   some union arm / all intersection arms / exactly / proper subclass / has method / predicate / bound of a value type)
   of the type the selected method declares at that position or name -- for the direct call and the continuation *)
From OvldV Require Import Spec.Denot Proofs.ResolveMeaning.
Theorem C01_run_args_in_meaning : forall sub hasm chk fresh, (forall c, sub c c = true) -> forall ms k i,
  lookup sub hasm chk fresh ms k = ORun i ->
  exists m, In m ms /\ m_id m = i /\
    forall s c, In (s, Cls c) (key_slots k) -> exists t, slot_ty m s = Some t /\ denot sub hasm chk t c = true.
Proof. exact run_args_in_meaning. Qed.
Print Assumptions C01_run_args_in_meaning.

Theorem C01_next_args_in_meaning : forall sub hasm chk fresh, (forall c, sub c c = true) -> forall ms k caller i,
  lookup_next sub hasm chk fresh ms caller k = ORun i ->
  exists m, In m ms /\ m_id m = i /\
    forall s c, In (s, Cls c) (key_slots k) -> exists t, slot_ty m s = Some t /\ denot sub hasm chk t c = true.
Proof. exact next_args_in_meaning. Qed.
Print Assumptions C01_next_args_in_meaning.

(* classes: 0 object, 1 A, 2 A' (subclass of A), 3 B.  f(x: A | B), f(x: object): A' runs the union method *)
From OvldV Require Import Model.TyDom Model.Codec.
Example C01_meaning_nonvacuous :
  let wh := {| h_supers := [[0]; [0; 1]; [0; 1; 2]; [0; 3]]; h_meths := []; h_preds := []; h_fresh := [0] |} in
  lookup (hsub wh) (hhasm wh) (hchk wh) (hfresh wh)
    [mkMeth 0 [Uni [Cls 1; Cls 3]] [] 1 [] 0 0; mkMeth 1 [Cls 0] [] 1 [] 0 0] (mkKey [Cls 2] []) = ORun 0.
Proof. vm_compute. reflexivity. Qed.

(* value level: a handler selected by a value-dependent rank has all its generated checks true, and a generated check is
   isinstance (Props/C10.v: C10_chain_sound, C10_count_sound, C10_emit_is_instance) *)
From OvldV Require Import Model.Dep Proofs.DepFacts.
Theorem C01_value_checks_are_isinstance : forall sub hasm chk utab, (forall c, sub c C_OBJECT = true) ->
  forall t v, prod_tuple t = true -> plain_val sub v = true -> emit_ok sub hasm chk utab t v.
Proof. exact emit_is_instance. Qed.
Print Assumptions C01_value_checks_are_isinstance.
