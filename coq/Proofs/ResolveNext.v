(* ResolveNext.v — C07: what MultiTypeMap[(caller_code, *types)] returns, in terms of the candidate list. *)
From Coq Require Import ZArith List Bool Arith Lia Permutation.
Import ListNotations.
From OvldV Require Import Model.Order Model.Ty Model.Resolve Proofs.TyEq Proofs.ResolveSort Proofs.ResolveCands.

(* resolution of an explicit candidate list (specificity tuples given): first rank of sort + _pull *)
Definition lookup_cs (cs : list cand) : outcome :=
  match sort_desc cs with
  | [] => ONoMethod
  | c1 :: rest => rank_outcome (c1 :: grp [c1] rest)
  end.

(* ---- sortedness and commutation of the stable sort with filtering ---- *)
Inductive sorted : list cand -> Prop :=
| sorted_nil : sorted []
| sorted_cons x r : (forall y, In y r -> key_gt y x = false) -> sorted r -> sorted (x :: r).

Lemma insert_desc_sorted c l : sorted l -> sorted (insert_desc c l).
Proof.
  induction 1 as [|x r Hx Hs IH]; simpl.
  - constructor; [intros y []|constructor].
  - destruct (key_gt x c) eqn:E.
    + constructor; [|exact IH]. intros y Hy.
      apply (Permutation_in _ (Permutation_sym (insert_desc_perm c r))) in Hy. destruct Hy as [<-|Hy]; [now apply key_gt_asym|auto].
    + constructor; [|constructor; auto]. intros y [<-|Hy]; [exact E|].
      destruct (key_gt y c) eqn:E2; [|reflexivity].
      destruct (key_gt_negtrans y x c E2) as [H|H]; [rewrite (Hx y Hy) in H; discriminate|congruence].
Qed.

Lemma sort_desc_sorted l : sorted (sort_desc l).
Proof. induction l as [|x r IH]; simpl; [constructor|now apply insert_desc_sorted]. Qed.

Lemma filter_insert p c l : sorted l ->
  filter p (insert_desc c l) = if p c then insert_desc c (filter p l) else filter p l.
Proof.
  induction 1 as [|x r Hx Hs IH]; simpl.
  - destruct (p c); reflexivity.
  - destruct (key_gt x c) eqn:E; simpl.
    + rewrite IH. destruct (p x), (p c); simpl; try rewrite E; reflexivity.
    + destruct (p c) eqn:Pc; destruct (p x) eqn:Px; simpl; rewrite ?Pc, ?Px, ?E; try reflexivity.
      (* p c, not p x: c goes in front of filter p r, whose head is not strictly greater *)
      destruct (filter p r) as [|y t] eqn:Ef; simpl; [reflexivity|].
      assert (Hy : In y r) by (assert (In y (filter p r)) by (rewrite Ef; now left); apply filter_In in H; tauto).
      destruct (key_gt y c) eqn:E2; [|reflexivity].
      destruct (key_gt_negtrans y x c E2) as [H|H]; [rewrite (Hx y Hy) in H; discriminate|congruence].
Qed.

Lemma filter_sort p l : filter p (sort_desc l) = sort_desc (filter p l).
Proof.
  induction l as [|x r IH]; simpl; [reflexivity|].
  rewrite filter_insert by apply sort_desc_sorted. rewrite IH. destruct (p x); reflexivity.
Qed.

(* ---- the chain written by resolve, read back by chain_next ---- *)
Definition cid (c : cand) : nat := m_id (c_m c).

(* walking down singleton ranks of the sorted candidate list until the caller is met: what remains below it *)
Fixpoint below (sorted_cs : list cand) (caller : nat) : option (list cand) :=
  match sorted_cs with
  | [] => None
  | c1 :: rest =>
      match filter (fun c2 => negb (dominates c1 c2)) rest with
      | [] => if Nat.eqb (cid c1) caller then Some rest else below rest caller
      | _ => None
      end
  end.

Lemma pull_chain_next : forall n scs caller rest,
  length scs <= n -> below scs caller = Some rest ->
  chain_next (pull n scs []) caller =
    match rest with
    | [] => None
    | c2 :: r2 => Some (rank_outcome (c2 :: grp [c2] r2))
    end.
Proof.
  induction n as [|n IH]; intros scs caller rest Hlen Hb.
  - destruct scs; [discriminate|simpl in Hlen; lia].
  - destruct scs as [|c1 r1]; [discriminate|]. simpl in Hlen. rewrite pull_first.
    simpl in Hb. destruct (filter (fun c2 => negb (dominates c1 c2)) r1) eqn:Ef; [|discriminate].
    rewrite (proj2 (grp_single_nil_iff c1 r1) Ef).
    cbn [map chain_next]. fold (cid c1).
    destruct (Nat.eqb (cid c1) caller) eqn:Ec.
    + injection Hb as <-. destruct r1 as [|c2 r2]; [now rewrite pull_nil|].
      destruct n; [simpl in Hlen; lia|]. rewrite pull_first. reflexivity.
    + apply IH; [lia|exact Hb].
Qed.

Definition lookup_sorted (rest : list cand) : outcome :=
  match rest with
  | [] => ONoMethod
  | c2 :: r2 => rank_outcome (c2 :: grp [c2] r2)
  end.

Lemma lookup_cs_sorted cs : lookup_cs cs = lookup_sorted (sort_desc cs).
Proof. reflexivity. Qed.

Lemma below_split : forall scs caller rest,
  below scs caller = Some rest -> exists pre, scs = pre ++ rest /\ In caller (map cid pre).
Proof.
  induction scs as [|c1 r1 IH]; intros caller rest H; [discriminate|].
  simpl in H. destruct (filter _ r1); [|discriminate].
  destruct (Nat.eqb (cid c1) caller) eqn:E.
  - injection H as <-. exists [c1]. split; [reflexivity|]. left. now apply Nat.eqb_eq.
  - destruct (IH _ _ H) as (pre & -> & Hin). exists (c1 :: pre). split; [reflexivity|now right].
Qed.

Lemma below_in_pull : forall n scs caller rest,
  length scs <= n -> below scs caller = Some rest ->
  existsb (fun gr => existsb (fun c => Nat.eqb (cid c) caller) gr) (pull n scs []) = true.
Proof.
  induction n as [|n IH]; intros scs caller rest Hlen Hb.
  - destruct scs; [discriminate|simpl in Hlen; lia].
  - destruct scs as [|c1 r1]; [discriminate|]. simpl in Hlen. rewrite pull_first.
    simpl in Hb. destruct (filter (fun c2 => negb (dominates c1 c2)) r1) eqn:Ef; [|discriminate].
    rewrite (proj2 (grp_single_nil_iff c1 r1) Ef).
    cbn [existsb map]. destruct (Nat.eqb (cid c1) caller) eqn:Ec; [reflexivity|].
    simpl. eapply IH; [lia|exact Hb].
Qed.

Section Hier.
  Variable sub : nat -> nat -> bool.
  Variable hasm : nat -> nat -> bool.
  Variable chk : nat -> nat -> bool.
  Variable sub_fresh : nat -> bool.
  Notation candidates := (candidates sub hasm chk sub_fresh).
  Notation lookup := (lookup sub hasm chk sub_fresh).
  Notation lookup_next := (lookup_next sub hasm chk sub_fresh).

  (* call_next from a caller met while walking down singleton ranks: the outcome is the first rank of what lies below *)
  Theorem next_is_below ms k cs caller rest :
    candidates ms k = Ok cs -> below (sort_desc cs) caller = Some rest ->
    lookup_next ms caller k = lookup_sorted rest.
  Proof.
    intros Hc Hb. unfold Resolve.lookup_next, Resolve.mro. rewrite Hc. cbn [rbind].
    pose proof (pull_chain_next (S (length (sort_desc cs))) _ _ _ (Nat.le_succ_diag_r _) Hb) as Hch.
    pose proof (below_in_pull (S (length (sort_desc cs))) _ _ _ (Nat.le_succ_diag_r _) Hb) as Hin.
    destruct (sort_desc cs) as [|c1 r1] eqn:Es; [discriminate|].
    rewrite pull_first in *.
    assert (Hf : filter (fun c2 => negb (dominates c1 c2)) r1 = []) by (simpl in Hb; destruct (filter _ r1); [reflexivity|discriminate]).
    apply grp_single_nil_iff in Hf.
    rewrite Hf in *. cbn [rank_outcome map] in *. unfold cid in *.
    rewrite Hin. cbn [negb]. rewrite Hch. destruct rest; reflexivity.
  Qed.

  (* ... which is the resolution of the candidate list with the caller and everything ranked above it removed *)
  Theorem next_is_lookup_without_above ms k cs caller rest :
    candidates ms k = Ok cs -> NoDup (map cid cs) -> below (sort_desc cs) caller = Some rest ->
    exists above, In caller above /\
      lookup_next ms caller k = lookup_cs (filter (fun c => negb (memb (cid c) above)) cs).
  Proof.
    intros Hc Hnd Hb. destruct (below_split _ _ _ Hb) as (pre & Hs & Hin).
    exists (map cid pre). split; [exact Hin|].
    rewrite (next_is_below _ _ _ _ _ Hc Hb), lookup_cs_sorted, <- filter_sort, Hs. f_equal.
    assert (Hnd' : NoDup (map cid (pre ++ rest))).
    { rewrite <- Hs. eapply Permutation_NoDup; [apply Permutation_map; apply sort_desc_perm|exact Hnd]. }
    rewrite map_app in Hnd'. rewrite filter_app.
    rewrite (filter_all_false _ pre), (filter_all_true _ rest); [reflexivity| |].
    - intros x Hx. apply negb_true_iff. destruct (memb (cid x) (map cid pre)) eqn:E; [|reflexivity].
      apply ResolveKahn.memb_In in E. exfalso.
      apply (proj2 (proj2 (ResolveKahn.NoDup_app_inv _ _ Hnd')) (cid x)); [exact E|now apply in_map].
    - intros x Hx. apply negb_false_iff. apply ResolveKahn.memb_In. now apply in_map.
  Qed.

  (* a caller that is not a candidate for the key gets a fresh lookup *)
  Theorem next_foreign_caller ms k cs caller :
    candidates ms k = Ok cs -> (forall c, In c cs -> cid c <> caller) ->
    lookup_next ms caller k = lookup ms k.
  Proof.
    intros Hc Hno. unfold Resolve.lookup_next, Resolve.lookup, Resolve.mro. rewrite Hc. cbn [rbind].
    destruct (pull (S (length (sort_desc cs))) (sort_desc cs) []) as [|g rest] eqn:Ep; [reflexivity|].
    assert (Hfalse : existsb (fun gr => existsb (fun c => Nat.eqb (m_id (c_m c)) caller) gr) (g :: rest) = false);
      [|rewrite Hfalse; destruct (rank_outcome g); reflexivity].
    apply not_true_iff_false. intros H. apply existsb_exists in H. destruct H as (gr & Hgr & H).
    apply existsb_exists in H. destruct H as (c & Hcin & E). apply Nat.eqb_eq in E.
    apply (Hno c); [|exact E]. apply sort_desc_In.
    assert (Hsub : forall n scs proc x grp, In grp (pull n scs proc) -> In x grp -> In x scs).
    { clear. induction n as [|n IH]; intros scs proc x grp Hg Hx; [destruct Hg|].
      simpl in Hg. destruct (filter _ scs) as [|c1 r1] eqn:Ef; [destruct Hg|].
      assert (Hsubf : forall y, In y (c1 :: r1) -> In y scs) by (intros y Hy; rewrite <- Ef in Hy; apply filter_In in Hy; tauto).
      destruct Hg as [<-|Hg].
      - destruct Hx as [<-|Hx]; [apply Hsubf; now left|]. apply grp_sub in Hx. apply Hsubf. now right.
      - apply Hsubf. right. eapply IH; eauto. }
    rewrite <- Ep in Hgr. eapply Hsub; eauto.
  Qed.
End Hier.

(* ---- C01 for call_next: whatever lookup_next returns is a registered, type-level applicable method ---- *)
Lemma pull_subset : forall n scs proc x grp, In grp (pull n scs proc) -> In x grp -> In x scs.
Proof.
  induction n as [|n IH]; intros scs proc x grp Hg Hx; [destruct Hg|].
  simpl in Hg. destruct (filter _ scs) as [|c1 r1] eqn:Ef; [destruct Hg|].
  assert (Hsubf : forall y, In y (c1 :: r1) -> In y scs) by (intros y Hy; rewrite <- Ef in Hy; apply filter_In in Hy; tauto).
  destruct Hg as [<-|Hg].
  - destruct Hx as [<-|Hx]; [apply Hsubf; now left|]. apply grp_sub in Hx. apply Hsubf. now right.
  - apply Hsubf. right. eapply IH; eauto.
Qed.

Lemma rank_outcome_run g i : rank_outcome g = ORun i -> exists c, g = [c] /\ cid c = i.
Proof. destruct g as [|c [|c2 t]]; simpl; try discriminate. intros H; injection H as <-. eauto. Qed.

Lemma chain_next_run ranks caller i :
  chain_next ranks caller = Some (ORun i) -> exists g c, In g ranks /\ In c g /\ cid c = i.
Proof.
  induction ranks as [|g rest IH]; simpl; [discriminate|].
  destruct g as [|c [|c2 t]]; try discriminate.
  destruct (Nat.eqb (m_id (c_m c)) caller).
  - destruct rest as [|g2 r2]; [discriminate|]. intros H; injection H as H.
    destruct (rank_outcome_run _ _ H) as (c' & -> & Hc). exists [c'], c'. split; [right; now left|]. split; [now left|exact Hc].
  - intros H. destruct (IH H) as (g' & c' & Hg & Hc & Hi). exists g', c'. split; [now right|]. split; assumption.
Qed.

Section NextSound.
  Variable sub : nat -> nat -> bool.
  Variable hasm : nat -> nat -> bool.
  Variable chk : nat -> nat -> bool.
  Variable sub_fresh : nat -> bool.
  Notation candidates := (candidates sub hasm chk sub_fresh).
  Notation lookup_next := (lookup_next sub hasm chk sub_fresh).

  Theorem next_run_applicable ms k caller i :
    lookup_next ms caller k = ORun i ->
    exists m, In m ms /\ m_id m = i /\ applicable_ty sub hasm chk sub_fresh m k = true.
  Proof.
    intros H. unfold Resolve.lookup_next, Resolve.mro in H.
    destruct (candidates ms k) as [cs|e] eqn:Hc; cbn [rbind] in H; [|destruct e; discriminate].
    set (ranks := pull (S (length (sort_desc cs))) (sort_desc cs) []) in *.
    assert (Hcand : forall g c, In g ranks -> In c g -> exists m, In m ms /\ m_id m = cid c /\ applicable_ty sub hasm chk sub_fresh m k = true).
    { intros g c Hg Hcg. assert (Hin : In c cs) by (apply sort_desc_In; eapply pull_subset; eauto).
      pose proof (proj1 (cand_In _ _ _ _ _ _ _ _ Hc) Hin) as (lv & _ & Hm & _).
      exists (c_m c). repeat split; auto. apply (cand_applicable _ _ _ _ _ _ _ _ Hc Hm). eauto. }
    destruct ranks as [|g rest] eqn:Er; [discriminate|].
    assert (Hchain : forall o, chain_next (g :: rest) caller = Some o -> o = ORun i ->
              exists m, In m ms /\ m_id m = i /\ applicable_ty sub hasm chk sub_fresh m k = true).
    { intros o Ech ->. destruct (chain_next_run _ _ _ Ech) as (g' & c' & Hg' & Hc' & <-). eapply Hcand; eauto. }
    destruct (rank_outcome g) eqn:Ero; try discriminate H;
      (destruct (negb _);
       [ try discriminate H
       | destruct (chain_next (g :: rest) caller) as [o|] eqn:Ech; [|discriminate H]; eapply Hchain; eauto ]).
    injection H as <-. destruct (rank_outcome_run _ _ Ero) as (c & -> & Hci). rewrite <- Hci.
    apply (Hcand [c] c); now left.
  Qed.
End NextSound.
