(* ClassDictMerge.v — same-named definitions merge into one table; extend_super overlays the bases' tables *)
From Coq Require Import ZArith List Bool Arith Lia.
Import ListNotations.
From OvldV Require Import Model.Graph Model.ClassDict Spec.Overlay Proofs.GraphTab Proofs.GraphBase Proofs.GraphUpd
  Proofs.GraphInv Proofs.GraphProps Proofs.GraphLock Proofs.GraphStack Proofs.ClassDictBase Proofs.ClassDictProps.

(* ---------- totality of the operations on a private node ---------- *)
Lemma cd_register_total : forall g n own ms s l, IsFn g n own ms ->
  exists own', t_register s l own = Some own' /\ cd_register g n s l = COk (g_mod g n (set_own own')) tt.
Proof.
  intros g n own ms s l (x & E & <- & Hm & (Pl & Pc & Pch & Plb)).
  destruct (t_register s l (n_own x)) as [own'|] eqn:R; [|exfalso; eapply t_register_total; eauto].
  exists own'. split; auto. unfold cd_register, do_register, do_modify. rewrite E, Pl, R.
  assert (length g = S (pred (length g))) as Lg by (apply g_get_lt in E; lia).
  rewrite Lg. erewrite upd_private; [reflexivity | apply g_get_mod_same; exact E | cbn; auto | cbn; auto].
Qed.

Lemma cd_add_self_total : forall g n own ms, Inv g -> IsFn g n own ms -> cd_add_mixins g n [n] = COk g tt.
Proof.
  intros g n own ms I (x & E & Ho & Hm & (Pl & Pc & Pch & Plb)).
  unfold cd_add_mixins, do_add_mixins. rewrite E.
  assert (valid_ids g [n] = true) as V.
  { unfold valid_ids. cbn. rewrite andb_true_r. apply Nat.ltb_lt. eapply g_get_lt; eauto. }
  rewrite V. cbn [negb]. rewrite Pl. cbn [filter]. rewrite Nat.eqb_refl. cbn [negb]. reflexivity.
Qed.

Lemma IsFn_set_own : forall g n own ms own', IsFn g n own ms -> IsFn (g_mod g n (set_own own')) n own' ms.
Proof.
  intros g n own ms own' (x & E & Ho & Hm & Hp). exists (set_own own' x). split; [apply g_get_mod_same; auto|].
  cbn. auto.
Qed.

(* ---------- the rest of a body (no extend_super mark) registers on the current function, in order ---------- *)
Lemma body_loop : forall bases r g n f own ms own_f, Inv g -> IsFn g n own ms ->
  forallb (fun d => negb (is_ext d)) r = true -> reg_all (regs_of r) own = Some own_f ->
  exists g', cd_body g bases (AOvld n f) r = COk g' (AOvld n f) /\ Inv g' /\ IsFn g' n own_f ms /\
             length g' = length g /\ (forall k, k <> n -> g_get g' k = g_get g k).
Proof.
  intros bases. induction r as [|d r IH]; intros g n f own ms own_f I F NE R; cbn [cd_body regs_of map reg_all] in *.
  - injection R as <-. exists g. auto.
  - apply andb_true_iff in NE. destruct NE as [NE1 NE2].
    destruct (t_register (d_sig d) (d_label d) own) as [own1|] eqn:R1; [|discriminate].
    destruct (cd_register_total g n own ms (d_sig d) (d_label d) F) as (own1' & R1' & C1).
    rewrite R1 in R1'. injection R1' as <-.
    set (g1 := g_mod g n (set_own own1)) in *.
    assert (Inv g1) as I1 by (eapply Inv_cd_register; eauto).
    assert (IsFn g1 n own1 ms) as F1 by (apply IsFn_set_own with (own := own); auto).
    assert (cd_setitem g bases (AOvld n f) d = COk g1 (AOvld n f)) as S1.
    { unfold cd_setitem. unfold is_ext in NE1. destruct (d_kind d); [| |discriminate].
      - rewrite C1. reflexivity.
      - rewrite C1. cbn [cbind]. rewrite (cd_add_self_total g1 n own1 ms I1 F1). reflexivity. }
    rewrite S1. cbn [cbind].
    destruct (IH g1 n f own1 ms own_f I1 F1 NE2 R) as (g' & B & I' & F' & L' & O').
    exists g'. split; auto. split; auto. split; auto. split.
    + rewrite L'. apply length_g_mod.
    + intros k Ne. rewrite O' by auto. apply g_get_mod_other. auto.
Qed.

Lemma prepare_none : forall g bases, prepared_b bases = false -> cd_prepare g bases = COk g ANone.
Proof.
  intros g bases H. unfold prepared_b in H. unfold cd_prepare.
  destruct (filter is_ov bases) as [|[|s l|n0 f] rest]; auto.
  destruct (marked_nodes rest); auto. discriminate.
Qed.

Lemma cd_fresh_total : forall g s l, exists g', cd_fresh g s l = COk g' (length g) /\ IsFn g' (length g) [((s, 0%Z), l)] [] /\
  length g' = S (length g) /\ (forall k, k < length g -> g_get g' k = g_get g k).
Proof.
  intros. unfold cd_fresh.
  assert (cd_create g [] = COk (g ++ [add_mix [] (new_node false)]) (length g)) as C by reflexivity.
  rewrite C. cbn [cbind].
  set (g1 := g ++ [add_mix [] (new_node false)]).
  assert (IsFn g1 (length g) [] []) as F1.
  { eexists. split; [apply g_get_app_new|]. unfold private_node. cbn. repeat split. }
  destruct (cd_register_total g1 (length g) [] [] s l F1) as (own' & R & C1). rewrite t_register_empty in R. injection R as <-.
  rewrite C1. cbn [cbind]. eexists. split; [reflexivity|]. split; [|split].
  - eapply IsFn_set_own; eauto.
  - rewrite length_g_mod. unfold g1. rewrite app_length. cbn. lia.
  - intros k Lk. rewrite g_get_mod_other by lia. unfold g1. apply g_get_app_l. auto.
Qed.

(* the observable of a never-used private function *)
Lemma obs_private : forall g n own ms, IsFn g n own ms -> obs g n = defns (length g) g n.
Proof. intros g n own ms (x & E & _ & _ & (_ & Pc & _)). unfold obs. rewrite E, Pc. reflexivity. Qed.

Lemma defns_leaf : forall g n own, IsFn g n own [] -> defns (length g) g n = Some (t_update [] own).
Proof.
  intros g n own (x & E & <- & Hm & _). assert (length g = S (pred (length g))) as Lg by (apply g_get_lt in E; lia).
  rewrite Lg, defns_S, E. unfold defns_body. rewrite Hm. reflexivity.
Qed.

Lemma t_get_update_nil : forall k t, NoDup (keys t) -> t_get k (t_update [] t) = t_get k t.
Proof. intros. rewrite t_get_update by auto. destruct (t_get k t); reflexivity. Qed.

(* ================= merge ================= *)
Lemma merge : forall g bases body, Inv g -> prepared_b bases = false -> merge_dom body = true ->
  exists g' n t, cd_name g bases body = COk g' (AOvld n false) /\ length g <= n /\
                 obs g' n = Some t /\ forall k, t_get k t = stack_get k (regs_of body).
Proof.
  intros g bases body I NP D. unfold cd_name. rewrite (prepare_none g bases NP). cbn [cbind].
  destruct body as [|d1 [|d2 r]]; try discriminate. cbn [merge_dom] in D.
  apply andb_true_iff in D. destruct D as [NE K]. cbn [forallb] in NE.
  apply andb_true_iff in NE. destruct NE as [NE1 NE]. apply andb_true_iff in NE. destruct NE as [NE2 NEr].
  destruct (pushdown_stack (regs_of (d1 :: d2 :: r))) as (own_f & R & S').
  (* after the first definition(s) the namespace holds a fresh function n with table own1, the rest goes through body_loop *)
  assert (exists g1 n rest own1, Inv g1 /\ IsFn g1 n own1 [] /\ length g <= n /\
            forallb (fun d => negb (is_ext d)) rest = true /\ reg_all (regs_of rest) own1 = Some own_f /\
            forall g' a, cd_body g1 bases (AOvld n false) rest = COk g' a ->
                         cd_body g bases ANone (d1 :: d2 :: r) = COk g' a) as (g1 & n & rest & own1 & I1 & F1 & Ln & NEx & R1 & Hb).
  { apply orb_true_iff in K. destruct K as [K|K].
    - (* @ovld first *)
      destruct (cd_fresh_total g (d_sig d1) (d_label d1)) as (g1 & C1 & F1 & L1 & O1).
      exists g1, (length g), (d2 :: r), [((d_sig d1, 0%Z), d_label d1)].
      split; [eapply Inv_cd_fresh; eauto|]. split; auto. split; auto. split; [cbn; rewrite NE2; auto|].
      split.
      + cbn [regs_of map reg_all] in R. rewrite t_register_empty in R. exact R.
      + intros g' a Hb. cbn [cd_body]. unfold cd_setitem at 1. unfold is_dovld in K. destruct (d_kind d1); try discriminate.
        rewrite C1. cbn [cbind]. exact Hb.
    - (* two plain definitions *)
      apply andb_true_iff in K. destruct K as [K1 K2].
      destruct (cd_fresh_total g (d_sig d1) (d_label d1)) as (g1 & C1 & F1 & L1 & O1).
      destruct (cd_register_total g1 (length g) _ _ (d_sig d2) (d_label d2) F1) as (own2 & R2 & C2).
      exists (g_mod g1 (length g) (set_own own2)), (length g), r, own2.
      split; [eapply Inv_cd_register; [|exact C2]; eapply Inv_cd_fresh; eauto|].
      split; [eapply IsFn_set_own; eauto|]. split; auto. split; auto. split.
      + cbn [regs_of map reg_all] in R. rewrite t_register_empty in R. rewrite R2 in R. exact R.
      + intros g' a Hb. cbn [cd_body]. unfold cd_setitem at 1. unfold is_dplain in K1, K2. destruct (d_kind d1); try discriminate.
        cbn [cbind]. unfold cd_setitem at 1. destruct (d_kind d2); try discriminate.
        rewrite C1. cbn [cbind]. rewrite C2. cbn [cbind]. exact Hb. }
  destruct (body_loop bases rest g1 n false own1 [] own_f I1 F1 NEx R1) as (g' & B & I' & F' & L' & O').
  exists g', n, (t_update [] own_f). split; [apply Hb; exact B|]. split; auto. split.
  - rewrite (obs_private _ _ _ _ F'). apply defns_leaf. auto.
  - intros k. rewrite t_get_update_nil; auto. eapply reg_all_nodup; [exact R | constructor].
Qed.

(* ================= extend ================= *)
(* what a base contributes: a plain function is a one-method table, an overloaded function its current effective table *)
Definition base_table (g : graph) (a : attr) (pt : table) : Prop :=
  match a with
  | APlain s l => pt = [((s, 0%Z), l)]
  | AOvld m _ => defns (length g) g m = Some pt
  | ANone => False
  end.

(* the mixin node found for a base *)
Definition base_node (g : graph) (a : attr) (m : nat) : Prop :=
  match a with
  | APlain s l => IsFn g m [((s, 0%Z), l)] []
  | AOvld m' _ => m = m'
  | ANone => False
  end.

Lemma base_mixins_spec : forall bases g g' ms, Inv g -> attrs_valid g bases = true -> cd_base_mixins g bases = COk g' ms ->
  Forall2 (base_node g') (filter present bases) ms /\ Inv g' /\ length g <= length g' /\
  (forall k, k < length g -> g_get g' k = g_get g k) /\ (forall m, In m ms -> m < length g').
Proof.
  induction bases as [|a r IH]; intros g g' ms I V H; cbn [cd_base_mixins] in H.
  - injection H as <- <-. cbn. repeat (split; auto). intros m [].
  - cbn [attrs_valid forallb] in V. apply andb_true_iff in V. destruct V as [Va Vr]. fold (attrs_valid g r) in Vr.
    destruct a as [|s l|m f]; cbn [filter present].
    + apply IH; auto.
    + cb H g1 q E1. destruct (P_fresh g g s l g1 q (Pre_refl g) E1) as (_ & -> & L1 & F1 & O1).
      pose proof (Inv_cd_fresh _ _ _ _ _ I E1) as I1.
      cb H g2 ms2 E2. injection H as <- <-.
      assert (attrs_valid g1 r = true) as Vr1.
      { unfold attrs_valid in *. rewrite forallb_forall in *. intros a Ia. specialize (Vr a Ia).
        destruct a; cbn in *; auto. apply Nat.ltb_lt. apply Nat.ltb_lt in Vr. lia. }
      destruct (IH _ _ _ I1 Vr1 E2) as (F2 & I2 & L2 & O2 & M2).
      split; [|split; [auto|split; [lia|split]]].
      * constructor; auto. cbn. eapply IsFn_frame; [exact F1 | apply O2; lia].
      * intros k Lk. rewrite O2 by lia. auto.
      * intros m [<-|Im]; [lia | auto].
    + cb H g2 ms2 E2. injection H as <- <-.
      destruct (IH _ _ _ I Vr E2) as (F2 & I2 & L2 & O2 & M2).
      split; [|split; [auto|split; [auto|split; auto]]].
      * constructor; auto. cbn. reflexivity.
      * intros m' [<-|Im]; [cbn in Va; apply Nat.ltb_lt in Va; lia | auto].
Qed.

Lemma filter_all : forall (f : nat -> bool) l, (forall x, In x l -> f x = true) -> filter f l = l.
Proof. induction l; cbn; intros; auto. rewrite H by auto. f_equal. apply IHl. auto. Qed.

Lemma defns_private_leaf : forall g m s l, IsFn g m [((s, 0%Z), l)] [] -> defns (length g) g m = Some [((s, 0%Z), l)].
Proof. intros. rewrite (defns_leaf _ _ _ H). reflexivity. Qed.

Lemma extend : forall g bases d1 rest g' a, Inv g -> attrs_valid g bases = true -> prepared_b bases = false ->
  extend_dom (d1 :: rest) = true -> cd_name g bases (d1 :: rest) = COk g' a ->
  (filter present bases = [] ->
     exists n t, a = AOvld n true /\ obs g' n = Some t /\ forall k, t_get k t = stack_get k (regs_of (d1 :: rest))) /\
  (filter present bases <> [] ->
     exists p t pts own, a = AOvld p false /\ obs g' p = Some t /\
       Forall2 (base_table g') (filter present bases) pts /\
       (forall k, t_get k own = stack_get k (regs_of rest)) /\
       forall k, t_get k t = overlay_get k (pts ++ [[((d_sig d1, 0%Z), d_label d1)]]) own).
Proof.
  intros g bases d1 rest g' a I V NP D H.
  unfold cd_name in H. rewrite (prepare_none g bases NP) in H. cbn [cbind cd_body] in H.
  cbn [extend_dom] in D. apply andb_true_iff in D. destruct D as [D1 Dr].
  unfold cd_setitem at 1 in H. unfold is_ext in D1. destruct (d_kind d1) eqn:K1; try discriminate. clear D1.
  destruct (cd_fresh_total g (d_sig d1) (d_label d1)) as (g1 & C1 & F1 & L1 & O1).
  rewrite C1 in H. cbn [cbind] in H.
  pose proof (Inv_cd_fresh _ _ _ _ _ I C1) as I1.
  assert (attrs_valid g1 bases = true) as V1.
  { unfold attrs_valid in *. rewrite forallb_forall in *. intros x Ix. specialize (V x Ix).
    destruct x; cbn in *; auto. apply Nat.ltb_lt. apply Nat.ltb_lt in V. lia. }
  destruct (cd_base_mixins g1 bases) as [g2 ms|] eqn:E2; cbn [cbind] in H; [|discriminate].
  destruct (base_mixins_spec _ _ _ _ I1 V1 E2) as (FB & I2 & L2 & O2 & M2).
  assert (IsFn g2 (length g) [((d_sig d1, 0%Z), d_label d1)] []) as FN by (eapply IsFn_frame; [exact F1 | apply O2; lia]).
  destruct ms as [|m0 others].
  - (* no base has the name: the marked function itself stays in the namespace *)
    cbn [cbind] in H. split.
    + intros _.
      destruct (pushdown_stack (regs_of (d1 :: rest))) as (own_f & R & S').
      cbn [regs_of map reg_all] in R. rewrite t_register_empty in R.
      destruct (body_loop bases rest g2 (length g) true _ [] own_f I2 FN Dr R) as (g'' & B & I' & F' & L' & O').
      rewrite B in H. injection H as <- <-.
      exists (length g), (t_update [] own_f). split; auto. split.
      * rewrite (obs_private _ _ _ _ F'). apply defns_leaf. auto.
      * intros k. rewrite t_get_update_nil; auto. eapply reg_all_nodup; [exact R|]. repeat constructor. intros [].
    + intros NE. inversion FB as [E0 | ]. congruence.
  - split; [intros E0; rewrite E0 in FB; inversion FB|]. intros _.
    cb H g6 cur6 ES.
    cb ES g3 p E3. destruct (P_create g2 g2 _ _ _ (Pre_refl g2) E3) as (P3 & -> & L3 & F3 & O3).
    pose proof (Inv_cd_create _ _ _ _ I2 E3) as I3.
    cb ES g4 u4 E4. destruct (add_each_P g2 _ _ _ _ _ _ _ P3 I3 (Nat.le_refl _) F3 E4) as (P4 & I4 & L4 & F4 & O4).
    cb ES g5 u5 E5. injection ES as <- <-.
    destruct (P_add_mixins g2 _ _ _ _ _ _ _ P4 (Nat.le_refl _) F4 E5) as (P5 & L5 & F5 & O5).
    pose proof (Inv_cd_add_mixins _ _ _ _ _ I4 E5) as I5.
    (* the mixins of the new function: the bases' nodes in order, then the marked definition's node *)
    assert (([m0] ++ filter (fun m => negb (Nat.eqb m (length g2))) others) ++
            filter (fun m => negb (Nat.eqb m (length g2))) [length g] = (m0 :: others) ++ [length g]) as EM.
    { rewrite (filter_all _ others).
      - rewrite (filter_all _ [length g]); [reflexivity|]. intros x [<-|[]]. apply negb_true_iff. apply Nat.eqb_neq. lia.
      - intros x Ix. apply negb_true_iff. apply Nat.eqb_neq. assert (x < length g2) by (apply M2; right; auto). lia. }
    rewrite EM in F5. clear EM.
    destruct (pushdown_stack (regs_of rest)) as (own & R & S').
    destruct (body_loop bases rest g5 (length g2) false [] _ own I5 F5 Dr R) as (g'' & B & I' & F' & L' & O').
    rewrite B in H. injection H as <- <-.
    assert (forall k, k < length g2 -> g_get g'' k = g_get g2 k) as OO.
    { intros k Lk. rewrite O', O5, O4, O3 by lia. reflexivity. }
    assert (length g2 < length g'') as Lp by lia.
    destruct (inv_defns g'' (length g2) I' Lp) as [t D].
    destruct F' as (x & Ex & Hown & Hmix & Hpriv).
    destruct (overlay_defns g'' (length g2) x t I' Ex D) as (pts' & F2' & Hk).
    rewrite Hmix in F2'. apply Forall2_app_inv_l in F2'. destruct F2' as (pts1 & ptsN & FA & FN' & ->).
    inversion FN' as [|? ptN ? ? DN FN'' ]; subst. inversion FN''; subst.
    assert (IsFn g'' (length g) [((d_sig d1, 0%Z), d_label d1)] []) as FNf by (eapply IsFn_frame; [exact FN | apply OO; lia]).
    rewrite (defns_private_leaf _ _ _ _ FNf) in DN. injection DN as <-.
    exists (length g2), t, pts1, (n_own x). split; auto. split.
    + unfold obs. rewrite Ex. destruct Hpriv as (_ & Pc & _). rewrite Pc. exact D.
    + split; [|split; [exact S'|]].
      * clear -FB FA M2 OO. revert pts1 FA M2. induction FB as [|a m la lm Ham FB IH]; intros pts1 FA M2.
        -- inversion FA. constructor.
        -- inversion FA as [|? pt ? pts Dm FA']; subst. constructor.
           ++ destruct a as [|s l|m' f]; cbn in *; [contradiction | |].
              ** assert (IsFn g'' m [((s, 0%Z), l)] []) as Fm by (eapply IsFn_frame; [exact Ham | apply OO; apply M2; left; auto]).
                 rewrite (defns_private_leaf _ _ _ _ Fm) in Dm. injection Dm as <-. reflexivity.
              ** subst. exact Dm.
           ++ apply IH; auto. intros x Ix. apply M2. right. auto.
      * intros k. rewrite Hk. reflexivity.
Qed.

(* a mark-free body with at least two definitions either merges or is refused with the explicit @ovld error *)
Lemma merge_or_error : forall g bases d1 d2 r, prepared_b bases = false ->
  forallb (fun d => negb (is_ext d)) (d1 :: d2 :: r) = true ->
  merge_dom (d1 :: d2 :: r) = true \/ cd_name g bases (d1 :: d2 :: r) = CFail ENotOvld.
Proof.
  intros g bases d1 d2 r NP NE. cbn [merge_dom]. rewrite NE. cbn [andb].
  destruct (is_dovld d1) eqn:K1; [left; reflexivity|].
  destruct (is_dplain d1) eqn:K2.
  - destruct (is_dplain d2) eqn:K3; [left; reflexivity|]. right.
    unfold cd_name. rewrite (prepare_none g bases NP). cbn [cbind cd_body].
    cbn [forallb] in NE. apply andb_true_iff in NE. destruct NE as [_ NE]. apply andb_true_iff in NE. destruct NE as [NE2 _].
    unfold cd_setitem at 1. unfold is_dplain, is_dovld, is_ext in *. destruct (d_kind d1); try discriminate. cbn [cbind].
    unfold cd_setitem at 1. destruct (d_kind d2); try discriminate. reflexivity.
  - unfold is_dplain, is_dovld, is_ext in *. cbn [forallb] in NE. destruct (d_kind d1); discriminate.
Qed.

Lemma Inv_cd_name : forall g bases body g' a, Inv g -> cd_name g bases body = COk g' a -> Inv g'.
Proof. intros. apply (name_CS _ _ _ _ _ H H0). Qed.

(* ================= a plain definition followed by an extend_super one (crashed before the repair of KF-41) ================= *)
Lemma mterm_avoid : forall g g' p,
  (forall j y, g_get g j = Some y -> ~ In p (n_mixins y)) ->
  (forall j y, j <> p -> g_get g j = Some y -> exists y', g_get g' j = Some y' /\ n_mixins y' = n_mixins y) ->
  forall f k, k <> p -> mterm f g k = true -> mterm f g' k = true.
Proof.
  intros g g' p Hp Hag. induction f; intros k Ne T; [discriminate|].
  rewrite mterm_S in *. destruct (g_get g k) eqn:E; [|discriminate].
  destruct (Hag _ _ Ne E) as [y' [Ey' M]]. rewrite Ey', M. rewrite forallb_forall in *. intros m Im.
  apply IHf; auto. intros ->. eapply Hp; eauto.
Qed.

Lemma add_leaf_total : forall g p own N ownN, Inv g -> IsFn g p own [] -> IsFn g N ownN [] -> N <> p ->
  (forall j y, g_get g j = Some y -> ~ In p (n_mixins y)) ->
  cd_add_mixins g p [N] = COk (g_mod g p (add_mix [N])) tt.
Proof.
  intros g p own N ownN I (x & E & Ho & Hm & (Pl & Pc & Pch & Plb)) (xn & En & _ & Hmn & _) Ne Hp.
  unfold cd_add_mixins, do_add_mixins. rewrite E.
  assert (N < length g) as LN by (eapply g_get_lt; eauto).
  assert (p < length g) as Lp by (eapply g_get_lt; eauto).
  assert (valid_ids g [N] = true) as V by (unfold valid_ids; cbn; rewrite andb_true_r; apply Nat.ltb_lt; auto).
  rewrite V. cbn [negb]. rewrite Pl. cbn [filter].
  apply Nat.eqb_neq in Ne. rewrite Ne. cbn [negb]. apply Nat.eqb_neq in Ne. rewrite Plb.
  set (g2 := g_mod g p (add_mix [N])).
  assert (length g2 = length g) as L2 by apply length_g_mod.
  assert (wf_b g2 = true) as W.
  { apply wf_b_spec. rewrite L2. intros k Lk. split.
    - destruct (Nat.eq_dec k p) as [->|Nk].
      + destruct (length g) as [|[|f]] eqn:Lg; try lia.
        rewrite mterm_S. unfold g2. rewrite (g_get_mod_same _ _ _ _ E). cbn. rewrite Hm. cbn. rewrite andb_true_r.
        rewrite g_get_mod_other by auto. rewrite En, Hmn. reflexivity.
      + eapply mterm_avoid with (g := g) (p := p); eauto.
        * intros j y Nj Ej. exists y. split; auto. unfold g2. rewrite g_get_mod_other; auto.
        * apply inv_mterm; auto.
    - eapply cterm_mono_gen with (g := g); [| apply Nat.le_refl | apply inv_cterm; auto].
      intros j y Ej. unfold g2. rewrite g_get_mod. destruct (Nat.eqb j p) eqn:Ejp.
      + apply Nat.eqb_eq in Ejp. subst. rewrite E in Ej. injection Ej as <-. rewrite E. cbn. eauto.
      + eauto. }
  rewrite W.
  assert (length g = S (pred (length g))) as Lg by lia.
  rewrite Lg. erewrite upd_private; [reflexivity | apply g_get_mod_same; exact E | cbn; auto | cbn; auto].
Qed.

Lemma plain_then_mark : forall g bases d1 d2, Inv g -> prepared_b bases = false ->
  d_kind d1 = DPlain -> d_kind d2 = DExt ->
  exists g' p t, cd_name g bases [d1; d2] = COk g' (AOvld p false) /\ length g <= p /\ obs g' p = Some t /\
    forall k, t_get k t = overlay_get k [[((d_sig d2, 0%Z), d_label d2)]] [((d_sig d1, 0%Z), d_label d1)].
Proof.
  intros g bases d1 d2 I NP K1 K2. unfold cd_name. rewrite (prepare_none g bases NP). cbn [cbind cd_body].
  unfold cd_setitem at 1. rewrite K1. cbn [cbind]. unfold cd_setitem at 1. rewrite K2.
  destruct (cd_fresh_total g (d_sig d2) (d_label d2)) as (g1 & C1 & F1 & L1 & O1). rewrite C1. cbn [cbind].
  pose proof (Inv_cd_fresh _ _ _ _ _ I C1) as I1.
  destruct (cd_fresh_total g1 (d_sig d1) (d_label d1)) as (g2 & C2 & F2 & L2 & O2). rewrite C2. cbn [cbind].
  pose proof (Inv_cd_fresh _ _ _ _ _ I1 C2) as I2.
  assert (IsFn g2 (length g) [((d_sig d2, 0%Z), d_label d2)] []) as FN by (eapply IsFn_frame; [exact F1 | apply O2; lia]).
  assert (forall j y, g_get g2 j = Some y -> ~ In (length g1) (n_mixins y)) as Hp.
  { intros j y Ej Ij. destruct (Nat.lt_ge_cases j (length g1)) as [Lj|Lj].
    - rewrite O2 in Ej by auto. pose proof (inv_mixin_lt _ _ _ _ I1 Ej Ij). lia.
    - assert (j = length g1) as -> by (apply g_get_lt in Ej; lia).
      destruct F2 as (x & Ex & _ & Hm & _). rewrite Ex in Ej. injection Ej as <-. rewrite Hm in Ij. contradiction. }
  rewrite (add_leaf_total g2 (length g1) _ (length g) _ I2 F2 FN) by (auto; lia). cbn [cbind].
  set (g3 := g_mod g2 (length g1) (add_mix [length g])).
  assert (Inv g3) as I3.
  { eapply Inv_cd_add_mixins with (g := g2) (n := length g1) (ms := [length g]); eauto.
    apply (add_leaf_total g2 (length g1) _ (length g) _ I2 F2 FN); auto; lia. }
  assert (IsFn g3 (length g1) [((d_sig d1, 0%Z), d_label d1)] [length g]) as F3.
  { destruct F2 as (x & Ex & Ho & Hm & Hp2). eexists. split; [apply g_get_mod_same; eauto|]. cbn. rewrite Hm. auto. }
  assert (IsFn g3 (length g) [((d_sig d2, 0%Z), d_label d2)] []) as FN3
    by (eapply IsFn_frame; [exact FN | apply g_get_mod_other; lia]).
  assert (length g1 < length g3) as Lp by (unfold g3; rewrite length_g_mod; lia).
  destruct (inv_defns g3 (length g1) I3 Lp) as [t D].
  destruct F3 as (x3 & Ex3 & Ho3 & Hm3 & Hp3).
  destruct (overlay_defns g3 (length g1) x3 t I3 Ex3 D) as (pts & FA & Hk).
  rewrite Hm3 in FA. inversion FA as [|? ptN ? ? DN FA']; subst. inversion FA'; subst.
  rewrite (defns_private_leaf _ _ _ _ FN3) in DN. injection DN as <-.
  exists g3, (length g1), t. split; auto. split; [lia|]. split.
  - unfold obs. rewrite Ex3. destruct Hp3 as (_ & Pc & _). rewrite Pc. exact D.
  - intros k. rewrite Hk, Ho3. reflexivity.
Qed.
