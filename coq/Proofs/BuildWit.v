(* BuildWit.v -- the concrete scenario used by the refutation witnesses and the non-vacuity examples, and the facts
   that make the executable chain [chain_rk] an instance of the hypotheses of the sequential theorems. *)
From Coq Require Import List Bool Arith Lia Permutation.
Import ListNotations.
From OvldV Require Import Model.BuildM Spec.BuildSpec Proofs.BuildBase.

(* methods: 0 = a(x: int) -> call_next ; 1 = b(x: object) ; 2 = c(x: str) ; 3 = bare call_next (x: float) ;
            4 = conflicting argument names ; keys: 0 = int, 1 = str, 2 = float *)
Definition wmeth (l : label) : minfo :=
  match l with
  | 0 => {| m_kind := DOk; m_recoded := true; m_body := BNext |}
  | 3 => {| m_kind := DBadAdapt; m_recoded := false; m_body := BRet |}
  | 4 => {| m_kind := DBadAnalysis; m_recoded := false; m_body := BRet |}
  | _ => {| m_kind := DOk; m_recoded := false; m_body := BRet |}
  end.
Definition wrk (l : label) (k : key) : option nat :=
  match l, k with
  | 0, 0 => Some 2
  | 1, _ => Some 1
  | 2, 1 => Some 2
  | 3, 2 => Some 2
  | _, _ => None
  end.
Definition wchain := chain_rk wrk.

(* ---- chain_rk satisfies the hypotheses on [chain] ---- *)
Definition torank (g : nat * list label) : rank := match snd g with [h] => ROne h | hs => RAmb hs end.

Lemma handlers_groups : forall gs, handlers (map torank gs) = concat (map snd gs).
Proof.
  induction gs as [|[r ls] gs IH]; cbn [map concat handlers snd]; auto. unfold torank at 1; cbn [snd].
  destruct ls as [|h [|h2 t]]; cbn [handlers app]; rewrite IH; auto.
Qed.

Lemma ins_group_perm : forall l r gs, Permutation (concat (map snd (ins_group l r gs))) (l :: concat (map snd gs)).
Proof.
  intros l r gs; induction gs as [|[r' ls] gs IH]; [cbn; auto|].
  cbn [ins_group]. destruct (Nat.eqb r r'); [|destruct (Nat.ltb r' r)]; cbn [map concat snd app].
  - rewrite <- app_assoc. cbn [app]. apply Permutation_sym, Permutation_middle.
  - apply Permutation_refl.
  - rewrite IH. apply Permutation_sym, Permutation_middle.
Qed.

Lemma fold_groups_perm : forall (rk : label -> key -> option nat) k regs gs,
  Permutation (concat (map snd (fold_left (fun gs l => match rk l k with Some r => ins_group l r gs | None => gs end) regs gs)))
              (rev (filter (fun l => match rk l k with Some _ => true | None => false end) regs) ++ concat (map snd gs)).
Proof.
  intros rk k regs; induction regs as [|l regs IH]; intros gs; cbn; auto.
  destruct (rk l k) as [r|]; cbn; auto.
  rewrite IH. rewrite ins_group_perm. rewrite <- app_assoc. cbn [app]. apply Permutation_refl.
Qed.

Lemma chain_rk_perm : forall rk regs k,
  Permutation (handlers (chain_rk rk regs k)) (filter (fun l => match rk l k with Some _ => true | None => false end) regs).
Proof.
  intros. unfold chain_rk. change (fun g => match snd g with [h] => ROne h | hs => RAmb hs end) with torank.
  rewrite handlers_groups, fold_groups_perm. cbn. rewrite app_nil_r. apply Permutation_sym, Permutation_rev.
Qed.

Lemma chain_rk_nodup : forall rk regs k, NoDup regs -> NoDup (handlers (chain_rk rk regs k)).
Proof.
  intros rk regs k ND. eapply Permutation_NoDup; [apply Permutation_sym, chain_rk_perm|]. apply NoDup_filter; exact ND.
Qed.
Lemma chain_rk_sub : forall rk regs k h, In h (handlers (chain_rk rk regs k)) -> In h regs.
Proof.
  intros rk regs k h H. eapply Permutation_in in H; [|apply chain_rk_perm]. apply filter_In in H; tauto.
Qed.
Lemma wmeth_rec : forall l, m_body (wmeth l) = BNext -> m_recoded (wmeth l) = true.
Proof. intros [|[|[|[|[|l]]]]]; cbn; auto; discriminate. Qed.

(* ---- witnesses ---- *)
Notation WP := (probes wchain wmeth 100).

(* KF-19: a, b, then a method using a bare call_next, then c.  The first call raises the configuration error; afterwards the
   function dispatches over the prefix {a, b}: str goes to b although c is registered. *)
Definition s_fill := fail_after wchain wmeth 100 (init [0; 1; 3; 2]) (OCall 0).
Lemma wit_fill :
  snd (run_op wchain wmeth 100 (init [0; 1; 3; 2]) (OCall 0)) = Some ([], RErr EConfig) /\
  WP s_fill [0; 1; 2] = [Some ([0; 1], RRet); Some ([1], RRet); Some ([1], RRet)] /\
  all_allowed wchain wmeth 100 s_fill [0; 1; 2] = false.
Proof. vm_compute. repeat split; reflexivity. Qed.

(* ... and removing the offending method does not help: _compiled was never set, so nothing is rebuilt *)
Lemma wit_fill_removal :
  let s2 := fst (run_op wchain wmeth 100 s_fill (OUnreg 3)) in
  s_defs s2 = [0; 1; 2] /\ all_ok wmeth (s_defs s2) = true /\
  WP s2 [1] = [Some ([1], RRet)] /\ fresh_outcome wchain wmeth (s_defs s2) 1 = ([2], RRet) /\
  all_allowed wchain wmeth 100 s2 [1] = false.
Proof. vm_compute. repeat split; reflexivity. Qed.

(* KF-19, rebuild: after first use, registering a method with conflicting argument names fails in analysis -- AFTER the table
   in service was replaced by an empty one: every call reports "no method" *)
Definition s_built := fst (run_ops wchain wmeth 100 (init [0; 1]) [OCall 0]).
Lemma wit_rebuild :
  snd (run_op wchain wmeth 100 s_built (OReg 4)) = Some ([], RErr EConfig) /\
  WP (fail_after wchain wmeth 100 s_built (OReg 4)) [0; 1; 2] =
    [Some ([], RErr ENoMethod); Some ([], RErr ENoMethod); Some ([], RErr ENoMethod)] /\
  all_allowed wchain wmeth 100 (fail_after wchain wmeth 100 s_built (OReg 4)) [0; 1; 2] = false.
Proof. vm_compute. repeat split; reflexivity. Qed.

(* KF-20 (repaired in /repo 7cfed94, the model follows): a(int) -> call_next, b(object); built through a str call; the int
   resolution interrupted after ANY number of steps -- step 4 is inside the write loop, after its first write -- leaves a
   state in which every probe returns the complete-table outcome: the first-rank entry is written last *)
Definition s_built1 := fst (run_ops wchain wmeth 100 (init [0; 1]) [OCall 1]).
Lemma wit_resolve_fixed :
  in_write_window (snd (run_alone wchain wmeth 4 s_built1 (start (OCall 0)))) = true /\
  l_pc (snd (run_alone wchain wmeth 4 s_built1 (start (OCall 0)))) = PWrite 0 0 None true [WDict (0, 0) 0] /\
  WP (fail_after wchain wmeth 4 s_built1 (OCall 0)) [0; 0] = [Some ([0; 1], RRet); Some ([0; 1], RRet)] /\
  forallb (fun n => all_allowed wchain wmeth 100 (fail_after wchain wmeth n s_built1 (OCall 0)) [0; 1; 2; 0]) (seq 0 12) = true.
Proof. vm_compute. repeat split; reflexivity. Qed.

(* KF-45: interrupt between recording a new method and rebuilding: the method is registered but never dispatched to *)
Definition s_builtb := fst (run_ops wchain wmeth 100 (init [1]) [OCall 0]).
Lemma wit_stale :
  s_defs (fail_after wchain wmeth 1 s_builtb (OReg 0)) = [1; 0] /\
  WP (fail_after wchain wmeth 1 s_builtb (OReg 0)) [0] = [Some ([1], RRet)] /\
  fresh_outcome wchain wmeth [1; 0] 0 = ([0; 1], RRet) /\
  all_allowed wchain wmeth 100 (fail_after wchain wmeth 1 s_builtb (OReg 0)) [0] = false.
Proof. vm_compute. repeat split; reflexivity. Qed.

Lemma full_c18_false : ~ C18_safe_after_failure wchain wmeth.
Proof.
  intros H. specialize (H [0; 1; 3; 2] [] (OCall 0) 100 [0; 1; 2] 100). vm_compute in H. exact (Bool.diff_false_true H).
Qed.
Lemma full_c18_removal_false : ~ C18_works_after_removal wchain wmeth.
Proof.
  intros H. specialize (H [0; 1; 3; 2] [] (OCall 0) 100 3 [1] 100). cbv zeta in H.
  assert (OK : all_ok wmeth (s_defs (fst (run_op wchain wmeth 100 (fail_after wchain wmeth 100
                 (fst (run_ops wchain wmeth 100 (init [0; 1; 3; 2]) [])) (OCall 0)) (OUnreg 3)))) = true) by (vm_compute; reflexivity).
  specialize (H OK). vm_compute in H. exact (Bool.diff_false_true H).
Qed.

(* KF-21: two first callers.  (i) thread 0 builds up to the swap, thread 1 enters through the swapped entry point and finds an
   empty table; (ii) thread 1 is already inside the trampoline when thread 0 swaps; it builds a second table into which
   thread 0 then registers its remaining methods: b is there twice -> spurious ambiguity *)
Definition sch_empty := [0; 0; 0; 0; 0; 1; 1; 1].
Definition sch_double := [1] ++ repeat 0 8 ++ repeat 1 10 ++ repeat 0 20 ++ repeat 1 20.
Lemma wit_build_race :
  nth 1 (map result_of (snd (run_schedule wchain wmeth (init [0; 1]) [start (OCall 0); start (OCall 0)] sch_empty))) None
    = Some ([], RErr ENoMethod) /\
  nth 0 (map result_of (snd (run_schedule wchain wmeth (init [0; 1]) [start (OCall 0); start (OCall 0)] sch_double))) None
    = Some ([0], RErr EAmbig) /\
  map (fun t => t_regs t) (s_tables (fst (run_schedule wchain wmeth (init [0; 1]) [start (OCall 0); start (OCall 0)] sch_double)))
    = [[0]; [0; 1; 1]] /\
  spec_call wchain wmeth [0; 1] 0 = ([0; 1], RRet).
Proof. vm_compute. repeat split; reflexivity. Qed.

(* the former KF-20 window seen by another thread: thread 0 resolves int and is pre-empted after its first write (now the
   continuation entry); thread 1 misses the plain key, resolves itself, and both return the complete-table outcome *)
Definition sch_chain := [0; 0; 0; 0] ++ repeat 1 12 ++ repeat 0 12.
Lemma wit_chain_window :
  map result_of (snd (run_schedule wchain wmeth s_built1 [start (OCall 0); start (OCall 0)] sch_chain))
    = [Some ([0; 1], RRet); Some ([0; 1], RRet)] /\
  all_ok wmeth (s_defs s_built1) = true /\ spec_call wchain wmeth (s_defs s_built1) 0 = ([0; 1], RRet).
Proof. vm_compute. repeat split; reflexivity. Qed.

Lemma full_c19_false : ~ C19_concurrent_as_sequential wchain wmeth.
Proof.
  intros H. specialize (H [0; 1] [] [0; 0] sch_empty [] 100). cbv zeta in H.
  assert (OK : all_ok wmeth (s_defs (fst (run_ops wchain wmeth 100 (init [0; 1]) []))) = true) by (vm_compute; reflexivity).
  destruct (H OK) as [A _]. vm_compute in A. exact (Bool.diff_false_true A).
Qed.

(* ---- non-vacuity of the proved parts ---- *)
Example partial_call_inhabited :
  (* first build, failure at the swap step (not yet executed): a safe point; so is every point of a resolution; step 8 of
     the first build (inside the fill loop) is not *)
  safe_point (snd (run_alone wchain wmeth 4 (init [0; 1; 2]) (start (OCall 0)))) = true /\
  WP (fail_after wchain wmeth 4 (init [0; 1; 2]) (OCall 0)) [0; 1; 2] = map Some (map (spec_call wchain wmeth [0; 1; 2]) [0; 1; 2]) /\
  safe_point (snd (run_alone wchain wmeth 3 s_built1 (start (OCall 0)))) = true /\
  safe_point (snd (run_alone wchain wmeth 4 s_built1 (start (OCall 0)))) = true /\
  safe_point (snd (run_alone wchain wmeth 8 (init [0; 1; 2]) (start (OCall 0)))) = false /\
  safe_point (snd (run_alone wchain wmeth 5 s_built1 (start (OCall 0)))) = true /\
  spec_call wchain wmeth [0; 1; 2] 0 = ([0; 1], RRet).
Proof. vm_compute. repeat split; reflexivity. Qed.

Example warm_inhabited :
  let s := fst (run_ops wchain wmeth 100 (init [0; 1; 2]) [OCall 0; OCall 1]) in
  warm [0; 1] s = true /\ warm [0; 1; 2] s = false /\
  map result_of (snd (run_schedule wchain wmeth s [start (OCall 0); start (OCall 1); start (OCall 0)] [2; 0; 1; 0; 2; 2; 1; 0; 0; 1; 2; 2; 0; 1; 2; 0]))
    = [Some ([0; 1], RRet); Some ([2], RRet); Some ([0; 1], RRet)].
Proof. vm_compute. repeat split; reflexivity. Qed.

(* the proved domain is exactly the complement of KF-19's window *)
Lemma safe_point_complement : forall l, safe_point l = negb (in_fill_window l).
Proof.
  intros [p tr]. unfold safe_point, in_fill_window, in_compile, before_swap; cbn.
  destruct p as [o| |c a|k|t k cl|t k cl st ws|t k cl|h ob k|h ob k|t h ob k|t h ob k|r]; cbn; auto;
    try (destruct c; reflexivity).
Qed.
