(* C20 — each argument-type combination is resolved at most once between changes.
   Theorems only.  Model: Model/Cache.v; the third component of an access result says whether a resolution
   (MultiTypeMap.mro: the only place type-order / applicability computations and user hooks are reached) was computed. *)
From Coq Require Import ZArith List Bool Arith.
Import ListNotations.
From OvldV Require Import Model.Order Model.Ty Model.Resolve Model.Cache Proofs.CacheFacts Proofs.CacheFull.

(* a key that is in the dict is answered without resolution *)
Theorem C20_hit_no_resolution : forall sub hasm chk fresh st k h,
  assoc_q (mkQ None k) (cs_dict st) = Some h -> get_plain sub hasm chk fresh st k = (st, ORun h, false).
Proof. exact get_plain_hit. Qed.
Print Assumptions C20_hit_no_resolution.

(* once an access succeeded, every later access of the same combination -- after any sequence of accesses of any
   keys, successful or not -- is a hit, returns the same handler and leaves the state unchanged.
   (Failed lookups are recomputed: outside the property.  Registration empties the dict: the only operation after which a
   resolution may be computed again.) *)
Theorem C20_resolved_once : forall sub hasm chk fresh st k st1 h r ops,
  get_plain sub hasm chk fresh st k = (st1, ORun h, r) -> all_gets ops = true ->
  get_plain sub hasm chk fresh (fst (crun sub hasm chk fresh st1 ops)) k
    = (fst (crun sub hasm chk fresh st1 ops), ORun h, false).
Proof. exact resolved_once. Qed.
Print Assumptions C20_resolved_once.

(* ... and every later continuation access (caller code c, same combination: what call_next performs) is answered
   without a resolution and leaves the table as it is; what it answers is the fresh table's answer by C04_history_free *)
Theorem C20_next_no_resolution : forall sub hasm chk fresh st k st1 h r ops c,
  get_plain sub hasm chk fresh st k = (st1, ORun h, r) -> all_gets ops = true ->
  exists out, getitem sub hasm chk fresh (fst (crun sub hasm chk fresh st1 ops)) (mkQ (Some c) k)
              = (fst (crun sub hasm chk fresh st1 ops), out, false).
Proof. exact resolved_once_next. Qed.
Print Assumptions C20_next_no_resolution.

(* ---- at the level of the function (Model/Graph.v, tied to /repo by C16's correspondence): what does not change the set
   of methods does not rebuild -- a use of a built function, and an add_mixins that adds nothing (no argument, or only the
   function itself), leave the whole graph, hence every table in service, exactly as it was ---- *)
From OvldV Require Import Model.Graph Proofs.GraphNoop.

Theorem C20_use_of_built_function_rebuilds_nothing : forall g n x,
  g_get g n = Some x -> n_compiled x = true -> step g (OUse n) = (g, Done).
Proof. exact use_of_built_is_noop. Qed.
Print Assumptions C20_use_of_built_function_rebuilds_nothing.

Theorem C20_empty_add_mixins_rebuilds_nothing : forall g n ms,
  (forall m, In m ms -> m = n) -> fst (step g (OAddMixins n ms)) = g.
Proof. exact empty_add_mixins_is_noop. Qed.
Print Assumptions C20_empty_add_mixins_rebuilds_nothing.
