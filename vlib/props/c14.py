"""C14 — types passed as arguments dispatch on type[...] by subtype."""
import json, collections, typing
from .. import model, progs
from ..world import World, random_spec, world_from
from . import resolve_common as R

TYPE, LIST, TUPLE, DICT = 1, 5, 6, 7

CLAIM = dict(
    text="Coq theorems on the lattice model (Model/Ty.v) for keys of the form type[X] = Gen TYPE [X]: type[X] is under type[T] exactly when X is a subtype of T, at any nesting depth (C14_applicable, with C13_generic_covariant for parametrised generics: same-or-subclass origin, argument-wise); a passed type falls under a plain class annotation d exactly when `type` is a subclass of d, hence always under object (C14_under_class); type[T1] compares to type[T2] as T1 to T2 (C14_prefer) and every type[...] annotation is more specific than object (C14_below_object). Resolution among the applicable methods then follows C02. Tie to /repo: generated method sets mixing type[...] annotations over a class hierarchy and generics (list, dict, nested, bare) with ordinary positions; passed classes, parametrised and nested generics, typing.List[...], typing.Any and ordinary values; outcomes compared with the model (keys built by the harness's reading of subtler_type) and with a Python reference subtype rule (property oracle).",
    note="Trusted: as C02. The harness's key construction mirrors utils.subtler_type and the per-position choice (some method annotates the position with type[...]); that choice as generated code is C03's subject. typing.Type[...] is not among the supported forms.",
    technique="Coq proof (corollaries of the generic-alias branch of subclasscheck/typeorder) + differential correspondence", design="6 C14")

THEOREMS = ["C14_applicable", "C14_under_class", "C14_prefer", "C14_below_object"]
ASSUMPTIONS = []


def gen_tyarg(rng, w, depth=1):
    """a type expression that can be passed / put inside type[...]: class, bare generic, parametrised generic"""
    cls_ids = [0, 2, 3] + w.user_ids()
    r = rng.random()
    if depth <= 0 or r < 0.5:
        return [0, rng.choice(cls_ids + [LIST, DICT])]
    if r < 0.7:
        return [1, LIST, gen_tyarg(rng, w, depth - 1)]
    if r < 0.85:
        # tuple[...] with 1-3 arguments: different arities of one origin, often sharing a prefix
        base = [[0, c] for c in rng.sample(cls_ids, min(3, len(cls_ids)))]
        return [1, TUPLE] + base[: rng.randint(1, 3)]
    return [1, DICT, gen_tyarg(rng, w, depth - 1), gen_tyarg(rng, w, depth - 1)]


def ref_subtype(w, x, t):
    C = w.classes
    if t[0] == 0:
        return issubclass(C[x[1]], C[t[1]])
    if x[0] == 0:
        return False
    return issubclass(C[x[1]], C[t[1]]) and len(x) == len(t) and all(ref_subtype(w, a, b) for a, b in zip(x[2:], t[2:]))


def py_obj(w, e, flavour=False):
    if e[0] == 0:
        return w.classes[e[1]]
    args = tuple(py_obj(w, a) for a in e[2:])
    if e[1] == TUPLE:
        return typing.Tuple[args] if flavour else tuple[args]
    if e[1] == LIST:
        return typing.List[args[0]] if flavour else list[args[0]]
    return typing.Dict[args[0], args[1]] if flavour else dict[args[0], args[1]]


def gen_prog(rng):
    spec = random_spec(rng, n_user=rng.randint(2, 4), kinds=("plain", "plain", "abc"))
    w = World(spec)
    npos = rng.choice([1, 1, 2])
    tpos = rng.randrange(npos)
    vary_names = rng.random() < 0.4
    if vary_names and npos == 2:
        tpos = 1
    defs = []
    cls_ids = [0, 2, 3] + w.user_ids()
    for i in range(rng.randint(2, 6)):
        pos = []
        for p in range(npos):
            if p == tpos:
                r = rng.random()
                if r < 0.7:
                    pos.append([1, TYPE, gen_tyarg(rng, w, rng.choice([0, 1, 1, 2]))])
                elif r < 0.8:
                    pos.append([1, TYPE, [0, 0]])           # bare `type` / type[object]
                else:
                    pos.append([0, 0])
            else:
                pos.append([0, rng.choice(cls_ids)])
        d = {"id": i, "pos": pos, "npos_req": npos, "kw": [], "prio": rng.choice([0, 0, 0, 1])}
        if vary_names and npos == 2:
            # position 0 is named differently by different methods: it becomes strictly positional in the entry point
            d["names"] = [rng.choice(["a0", "b0"]), "a1"]
        defs.append(d)
    if not any(d["pos"][tpos][0] == 1 for d in defs):
        defs[0]["pos"][tpos] = [1, TYPE, [0, rng.choice(cls_ids)]]
    inst = [c for c in cls_ids if w.instantiable(c)]
    calls = []
    for _ in range(14):
        args = []
        for p in range(npos):
            if p == tpos:
                r = rng.random()
                if r < 0.75:
                    args.append(["T", gen_tyarg(rng, w, rng.choice([0, 1, 1, 2])), rng.random() < 0.25])
                elif r < 0.85:
                    args.append(["ANY"])
                else:
                    args.append(["V", rng.choice(inst)])
            else:
                args.append(["V", rng.choice(inst)])
        calls.append({"args": args})
    return {"spec": spec, "defs": defs, "calls": calls, "tpos": tpos}


def check(ctx, prog, stats, samples):
    w = world_from(prog["spec"])
    defs = prog["defs"]
    b = progs.Built(w, defs)
    mms = R.model_defs(defs)
    tpos = prog["tpos"]
    keys, pyargs = [], []
    for call in prog["calls"]:
        kpos, vals = [], []
        for p, a in enumerate(call["args"]):
            if a[0] == "V":
                vals.append(w.instance(a[1]))
                kpos.append([0, a[1]])
            elif a[0] == "ANY":
                vals.append(typing.Any)
                kpos.append([1, TYPE, [0, 0]])
            else:
                vals.append(py_obj(w, a[1], a[2]))
                kpos.append([1, TYPE, a[1]])
        keys.append([kpos, []])
        pyargs.append(vals)
    mres = model.run_cases([[10, w.encode(), mms, [[0, k] for k in keys]], [22, w.encode(), mms, keys]])
    for call, vals, mo, art in zip(prog["calls"], pyargs, mres[0], mres[1]):
        out, entered = b.call(vals)
        stats["evaluations"] += 1
        case = dict(prog, calls=[call])
        m = progs.dec_outcome(mo)
        stats["hist"][out[0]] += 1
        stats["distinct"].add(hash(json.dumps([prog["defs"], call])))
        if out != m:
            ctx.violation(f"implementation {out} != model {m}", case, kind="correspondence")
            continue
        # reference rule
        def applicable(d):
            for p, (a, t) in enumerate(zip(call["args"], d["pos"])):
                if a[0] == "V":
                    if t[0] == 1:
                        return False
                    if not issubclass(w.classes[a[1]], w.classes[t[1]]):
                        return False
                else:
                    x = [0, 0] if a[0] == "ANY" else a[1]
                    if t[0] == 0:
                        if not issubclass(type, w.classes[t[1]]):
                            return False
                    elif not ref_subtype(w, x, t[2]):
                        return False
            return True

        def le(ta, tb):      # annotation ta at least as specific as tb
            if ta[0] == 1 and tb[0] == 1:
                return ref_subtype(w, ta[2], tb[2])
            if ta[0] == 1 and tb[0] == 0:
                return issubclass(type, w.classes[tb[1]])
            if ta[0] == 0 and tb[0] == 0:
                return issubclass(w.classes[ta[1]], w.classes[tb[1]])
            return False
        app = [d for d in defs if applicable(d)]
        order = {d["id"]: i for i, d in enumerate(defs)}

        def beats(x, y):
            if x["prio"] != y["prio"]:
                return x["prio"] > y["prio"]
            if x["pos"] == y["pos"]:
                return order[x["id"]] > order[y["id"]]
            return all(le(a, c) for a, c in zip(x["pos"], y["pos"]))
        win = [x for x in app if all(beats(x, y) for y in app if y is not x)]
        exp = ["nomethod"] if not app else ["run", win[0]["id"]] if len(win) == 1 else ["ambig"]
        if exp != out:
            if art or (exp == ["ambig"] and R.kf01_shape_generic(app, out, le)):
                ctx.known_hit("KF-01", case)
                stats["kf01"] += 1
            else:
                ctx.violation(f"implementation {out} deviates from the reference subtype rule {exp}", case)
    # delegation through type[...] annotations: the walk made with f.next(...) must be the walk made with call_next(...)
    # (Ovld.next builds the continuation key itself, from the run-time types of its arguments)
    dn = [dict(d, body="next") for d in defs]
    df = [dict(d, body="fnext") for d in defs]
    bn, bf = progs.Built(world_from(prog["spec"]), dn), progs.Built(world_from(prog["spec"]), df)
    for call, vals in zip(prog["calls"], pyargs):
        vn = [bn.w.instance(a[1]) if a[0] == "V" else typing.Any if a[0] == "ANY" else py_obj(bn.w, a[1], a[2]) for a in call["args"]]
        vf = [bf.w.instance(a[1]) if a[0] == "V" else typing.Any if a[0] == "ANY" else py_obj(bf.w, a[1], a[2]) for a in call["args"]]
        rn, rf = bn.call(vn), bf.call(vf)
        stats["evaluations"] += 1
        stats["next_walks"] += 1
        if rn != rf:
            ctx.violation(f"the walk through f.next {rf} differs from the walk through call_next {rn}", dict(prog, calls=[call], fnext=True))
            return
        if len(set(rf[1])) != len(rf[1]):
            ctx.violation(f"a method was visited twice in one f.next walk: {rf[1]}", dict(prog, calls=[call], fnext=True))
            return
    if len(samples) < 2:
        samples.append({"defs": defs, "call": prog["calls"][0]})


def run(ctx):
    stats = {"evaluations": 0, "hist": collections.Counter(), "distinct": set(), "kf01": 0, "programs": 0, "next_walks": 0}
    samples = []
    n = 80 if ctx.quick() else 4000
    for _ in range(n):
        prog = gen_prog(ctx.rng)
        check(ctx, prog, stats, samples)
        stats["programs"] += 1
        if len(ctx.violations) > 5:
            break
    return {"evaluations": stats["evaluations"], "distinct_nontrivial": len(stats["distinct"]),
            "rule": "random hierarchies; 2-6 methods over 1-2 positions, one position annotated with type[...] over classes, bare and parametrised generics (list, dict, nested to depth 2), bare type or object, the others with classes; 14 calls passing classes, bare / parametrised / nested generics (25% in typing.List / typing.Dict spelling), typing.Any and ordinary values; every case involves a type-valued position: all non-trivial; distinct by content",
            "samples": samples, "programs": stats["programs"], "outcome_histogram": dict(stats["hist"]),
            "deviations_attributed_to_KF-01": stats["kf01"], "walks_f_next_vs_call_next": stats["next_walks"], "traces_validated_against_impl": stats["evaluations"]}


def replay(ctx, payload):
    """re-run the recorded program through the same comparisons; reproduced iff it raises a violation again"""
    stats = {"evaluations": 0, "hist": collections.Counter(), "distinct": set(), "kf01": 0, "programs": 0, "next_walks": 0}
    before = len(ctx.violations)
    check(ctx, payload["case"], stats, [])
    return len(ctx.violations) > before


def replay_finding(ctx, e):
    """KF-01's C14 witness: the implementation still runs the method recorded there although the reference rule says Ambiguous"""
    wit = e.get("witness_C14")
    if wit is None:
        return e["status"] == "open"
    w = world_from(wit["spec"])
    b = progs.Built(w, wit["defs"])
    vals = []
    for a in wit["calls"][0]["args"]:
        vals.append(w.instance(a[1]) if a[0] == "V" else typing.Any if a[0] == "ANY" else py_obj(w, a[1], a[2]))
    out, _ = b.call(vals)
    return out == wit["expect_impl"]
