(* LeafCand.v -- Candidate.sort_key, Candidate.dominates, the arity / required-keyword filter and the grouping loop of
   _pull as regenerated from /repo's current source (Gen/Leaf.v) equal the hand-written definitions the model uses. *)
From Coq Require Import ZArith List Bool Arith Lia.
Import ListNotations.
From OvldV Require Import Model.Order Model.Ty Model.Resolve Gen.Leaf Proofs.ResolveSort Proofs.LeafTactics.

Lemma all2_ge l1 l2 : all2_src (fun x y => Nat.leb y x) l1 l2 = all_ge l1 l2.
Proof. revert l2. induction l1 as [|x xs IH]; intros [|y ys]; simpl; try reflexivity. now rewrite IH. Qed.

Lemma all2_src_ext f g l1 l2 : (forall x y, f x y = g x y) -> all2_src f l1 l2 = all2_src g l1 l2.
Proof. intros H. revert l2. induction l1 as [|x xs IH]; intros [|y ys]; simpl; try reflexivity. now rewrite H, IH. Qed.

Lemma dominates_agree a b : dominates_src a b = dominates a b.
Proof.
  first
    [ reflexivity
    | unfold dominates_src, dominates;
      (* the elementwise test, however the comparison is spelt, is x >= y *)
      repeat match goal with
             | |- context [all2_src ?f ?l1 ?l2] =>
                 lazymatch f with
                 | (fun x y => Nat.leb y x) => fail
                 | _ => rewrite (all2_src_ext f (fun x y => Nat.leb y x) l1 l2)
                          by (intros x y; split_ifs; destruct (Nat.leb y x) eqn:?; to_prop; try reflexivity; lia)
                 end
             end;
      rewrite ?all2_ge;
      split_ifs; to_prop; try reflexivity; try lia; try congruence ].
Qed.

(* the stable sort compares sort_key tuples lexicographically, descending *)
Definition lex_gt (k1 k2 : Z * nat * Z) : Prop :=
  let '(p1, s1, t1) := k1 in let '(p2, s2, t2) := k2 in
  (p2 < p1)%Z \/ (p1 = p2 /\ (s2 < s1 \/ (s1 = s2 /\ (t2 < t1)%Z))).

Lemma sort_key_agree a b : key_gt a b = true <-> lex_gt (sort_key_src a) (sort_key_src b).
Proof. unfold sort_key_src, lex_gt. rewrite key_gt_spec. tauto. Qed.

Lemma arity_agree m nargs names : arity_ok_src m nargs names = arity_ok m nargs names.
Proof.
  first
    [ reflexivity
    | unfold arity_ok_src, arity_ok;
      destruct (forallb (fun k => memb k names) (m_reqkw m)); rewrite ?andb_true_r, ?andb_false_r; try reflexivity;
      repeat match goal with |- context [Nat.leb ?x ?y] => destruct (Nat.leb x y) eqn:? end;
      repeat match goal with |- context [Nat.ltb ?x ?y] => destruct (Nat.ltb x y) eqn:? end;
      to_prop; simpl; try reflexivity; lia ].
Qed.

(* the grouping loop of _pull *)
Lemma existsb_dom_agree kept c2 :
  existsb (fun c => dominates_src c c2) kept = existsb (fun c => dominates c c2) kept.
Proof. induction kept as [|a r IH]; simpl; [reflexivity|]. now rewrite dominates_agree, IH. Qed.

Lemma grp_agree : forall rest kept, grp_src kept rest = grp kept rest.
Proof.
  first
    [ intros; reflexivity
    | induction rest as [|c2 r IH]; intros kept; simpl; [reflexivity|];
      rewrite ?negb_involutive, ?existsb_dom_agree;
      destruct (existsb (fun c => dominates c c2) kept); cbn [negb]; rewrite ?IH; reflexivity ].
Qed.


(* sort_types: what one comparison adds to the dependency graph; TypeMap.__missing__: the level given to a round *)
Lemma edge_agree o : edge_src o = edge_dir o.
Proof. first [reflexivity | destruct o; reflexivity]. Qed.

Lemma level_agree nr r : level_index_src nr r = level_index nr r.
Proof. first [reflexivity | unfold level_index_src, level_index; lia]. Qed.
