(* ResolveSort.v — order facts about Candidate.sort_key / dominates, the stable sort and _pull (hierarchy independent). *)
From Coq Require Import ZArith List Bool Arith Lia Permutation.
Import ListNotations.
From OvldV Require Import Model.Order Model.Ty Model.Resolve Proofs.TyEq.

Lemma key_gt_spec a b :
  key_gt a b = true <->
  (c_prio b < c_prio a)%Z \/
  (c_prio a = c_prio b /\ (sumn (c_spec b) < sumn (c_spec a) \/
                           (sumn (c_spec a) = sumn (c_spec b) /\ (c_tie b < c_tie a)%Z))).
Proof.
  unfold key_gt.
  destruct (Z.ltb_spec (c_prio b) (c_prio a)); [split; auto|].
  destruct (Z.ltb_spec (c_prio a) (c_prio b)); [split; [discriminate|lia]|].
  destruct (Nat.ltb_spec (sumn (c_spec b)) (sumn (c_spec a))); [split; [intros _; right; split; [lia|auto]|auto]|].
  destruct (Nat.ltb_spec (sumn (c_spec a)) (sumn (c_spec b))); [split; [discriminate|lia]|].
  rewrite Z.ltb_lt. split; [intros; right; split; [lia|right; split; [lia|auto]] | lia].
Qed.

Lemma key_gt_asym a b : key_gt a b = true -> key_gt b a = false.
Proof.
  intros H. apply key_gt_spec in H. destruct (key_gt b a) eqn:E; [|reflexivity].
  apply key_gt_spec in E. lia.
Qed.

Lemma key_gt_trans a b c : key_gt a b = true -> key_gt b c = true -> key_gt a c = true.
Proof. rewrite !key_gt_spec. lia. Qed.

Lemma key_gt_negtrans a b c : key_gt a c = true -> key_gt a b = true \/ key_gt b c = true.
Proof.
  rewrite !key_gt_spec.
  destruct (Z.lt_trichotomy (c_prio b) (c_prio a)) as [H|[H|H]];
  destruct (Z.lt_trichotomy (c_prio c) (c_prio b)) as [H2|[H2|H2]];
  destruct (Nat.lt_trichotomy (sumn (c_spec b)) (sumn (c_spec a))) as [H3|[H3|H3]];
  destruct (Nat.lt_trichotomy (sumn (c_spec c)) (sumn (c_spec b))) as [H4|[H4|H4]];
  destruct (Z.lt_trichotomy (c_tie b) (c_tie a)) as [H5|[H5|H5]];
  destruct (Z.lt_trichotomy (c_tie c) (c_tie b)) as [H6|[H6|H6]]; lia.
Qed.

(* ---- insertion sort ---- *)
Lemma insert_desc_perm c l : Permutation (c :: l) (insert_desc c l).
Proof.
  induction l as [|x r IH]; simpl; [reflexivity|].
  destruct (key_gt x c); [|reflexivity].
  etransitivity; [apply perm_swap|]. now constructor.
Qed.

Lemma sort_desc_perm l : Permutation l (sort_desc l).
Proof.
  induction l as [|x r IH]; simpl; [reflexivity|].
  etransitivity; [|apply insert_desc_perm]. now constructor.
Qed.

Lemma sort_desc_In l x : In x (sort_desc l) <-> In x l.
Proof. split; apply Permutation_in; [symmetry|]; apply sort_desc_perm. Qed.

Lemma key_gt_irrefl m : key_gt m m = false.
Proof. destruct (key_gt m m) eqn:E; [|reflexivity]. pose proof (key_gt_asym _ _ E). congruence. Qed.

(* the head of the sorted list has no strictly greater element *)
Lemma insert_desc_head c l h t :
  (forall y t', l = y :: t' -> forall x, In x l -> key_gt x y = false) ->
  insert_desc c l = h :: t -> forall x, In x (c :: l) -> key_gt x h = false.
Proof.
  intros Hl Hi x Hx. destruct l as [|y r]; simpl in Hi.
  - injection Hi as <- <-. destruct Hx as [<-|[]]. apply key_gt_irrefl.
  - destruct (key_gt y c) eqn:E; injection Hi as <- <-.
    + destruct Hx as [<-|Hx]; [now apply key_gt_asym | exact (Hl y r eq_refl x Hx)].
    + destruct Hx as [<-|Hx]; [apply key_gt_irrefl|].
      destruct (key_gt x c) eqn:E2; [|reflexivity].
      destruct (key_gt_negtrans x y c E2) as [H|H]; [|congruence].
      rewrite (Hl y r eq_refl x Hx) in H. discriminate.
Qed.

Lemma sort_desc_head l h t : sort_desc l = h :: t -> forall x, In x l -> key_gt x h = false.
Proof.
  revert h t. induction l as [|a r IH]; intros h t H x Hx; [destruct Hx|].
  simpl in H. eapply insert_desc_head; [|exact H|].
  - intros y t' Hy z Hz. eapply IH; [exact Hy|]. now apply sort_desc_In.
  - destruct Hx as [<-|Hx]; [now left|right]. now apply sort_desc_In.
Qed.

(* an element strictly greater than every other one ends up first *)
Lemma sort_desc_top l m :
  In m l -> (forall x, In x l -> x = m \/ key_gt m x = true) -> exists t, sort_desc l = m :: t.
Proof.
  induction l as [|a r IH]; intros Hin Hgt; [destruct Hin|].
  assert (Hr : forall x, In x r -> x = m \/ key_gt m x = true) by (intros x Hx; apply Hgt; now right).
  simpl. destruct Hin as [->|Hin].
  - destruct (sort_desc r) as [|y t] eqn:E; simpl; [eauto|].
    assert (Hy : In y r) by (apply sort_desc_In; rewrite E; now left).
    destruct (Hr y Hy) as [->|Hk].
    + rewrite key_gt_irrefl. eauto.
    + rewrite (key_gt_asym _ _ Hk). eauto.
  - destruct (IH Hin Hr) as [t Ht]. rewrite Ht. simpl.
    destruct (Hgt a (or_introl eq_refl)) as [->|Hk].
    + rewrite key_gt_irrefl. eauto.
    + rewrite Hk. eauto.
Qed.

(* ---- _pull ---- *)
Lemma filter_all_true {X} (f : X -> bool) l : (forall x, In x l -> f x = true) -> filter f l = l.
Proof. induction l as [|a r IH]; simpl; intros H; [reflexivity|]. rewrite (H a (or_introl eq_refl)), IH; auto. Qed.

Lemma filter_all_false {X} (f : X -> bool) l : (forall x, In x l -> f x = false) -> filter f l = [].
Proof. induction l as [|a r IH]; simpl; intros H; [reflexivity|]. rewrite (H a (or_introl eq_refl)), IH; auto. Qed.

Lemma pull_first fuel c1 rest :
  pull (S fuel) (c1 :: rest) [] =
    (c1 :: filter (fun c2 => negb (dominates c1 c2)) rest)
      :: pull fuel rest (map (fun c => m_id (c_m c)) (filter (fun c2 => negb (dominates c1 c2)) rest)).
Proof. cbn [pull]. rewrite filter_all_true by (intros; reflexivity). reflexivity. Qed.

Lemma pull_nil fuel : pull fuel [] [] = [].
Proof. destruct fuel; reflexivity. Qed.
