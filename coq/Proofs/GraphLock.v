(* GraphLock.v — the (transitive) lock, propagation along linkback derivations, and freshness of used nodes *)
From Coq Require Import ZArith List Bool Arith Lia.
Import ListNotations.
From OvldV Require Import Model.Graph Spec.Overlay Proofs.GraphTab Proofs.GraphBase Proofs.GraphUpd Proofs.GraphInv Proofs.GraphProps.

(* ================= lock ================= *)
(* LockInv: for a used node c, every non-linkback node v from which c derives through linkback derivations only
   (c itself included) has all its mixins locked.   LockClosed: a locked node has all its mixins locked.
   LbChild: a linkback derivation is listed among the children of each of its parents. *)
Definition LockInv (g : graph) : Prop :=
  forall c yc v y m z, g_get g c = Some yc -> n_compiled yc = true -> Lb g v c -> g_get g v = Some y ->
                       n_linkback y = false -> In m (n_mixins y) -> g_get g m = Some z -> n_locked z = true.

Definition NoE : nat -> Prop := fun _ => False.
Definition LockClosed (g : graph) : Prop := LC NoE g.

Definition LbChild (g : graph) : Prop :=
  forall c y p, g_get g c = Some y -> n_linkback y = true -> In p (n_mixins y) ->
                exists x, g_get g p = Some x /\ In c (n_children x).

Definition lk_rel (x y : node) : Prop :=
  n_mixins y = n_mixins x /\ n_linkback y = n_linkback x /\ (n_compiled y = true -> n_compiled x = true) /\
  (n_locked x = true -> n_locked y = true).

Lemma LockInv_rel : forall g g',
  (forall k y, g_get g' k = Some y -> exists x, g_get g k = Some x /\ lk_rel x y) ->
  (forall v c yc, g_get g' c = Some yc -> n_compiled yc = true -> Lb g' v c -> Lb g v c) ->
  LockInv g -> LockInv g'.
Proof.
  intros g g' R RL Lg c yc v y m z Ec Cy Lv Ev Ly Im Em.
  destruct (R _ _ Ec) as [xc [Exc (_ & _ & Rc3 & _)]]. destruct (R _ _ Ev) as [x [Ex (R1 & R2 & _ & _)]].
  destruct (R _ _ Em) as [w [Ew (_ & _ & _ & R4)]].
  apply R4. eapply (Lg c xc v x m w); eauto; try congruence.
Qed.

Lemma LC_rel : forall E g g',
  (forall k y, g_get g' k = Some y -> exists x, g_get g k = Some x /\ n_mixins y = n_mixins x /\ n_locked y = n_locked x) ->
  LC E g -> LC E g'.
Proof.
  intros E g g' R H k y q z Ek Lk NE Iq Eq.
  destruct (R _ _ Ek) as [x [Ex [M1 L1]]]. destruct (R _ _ Eq) as [w [Ew [_ L2]]].
  rewrite L2. eapply (H k x q w); eauto; congruence.
Qed.

Lemma gkeep_back : forall g g' k y, gkeep g g' -> g_get g' k = Some y -> exists x, g_get g k = Some x /\ keep x y.
Proof. exact gkeep_back0. Qed.

Lemma LbChild_gkeep : forall g g', gkeep g g' -> LbChild g -> LbChild g'.
Proof.
  intros g g' K H c y' p Ec Ly Ip. destruct (gkeep_back _ _ _ _ K Ec) as [y [Ey Ky]].
  destruct Ky as (_ & Km & _ & Kl & _). rewrite <- Km in Ip. rewrite <- Kl in Ly.
  destruct (H _ _ _ Ey Ly Ip) as (x & Ex & Ic). destruct (proj2 K _ _ Ex) as [x' [Ex' Kx]].
  exists x'. split; auto. destruct Kx as (_ & _ & Kc & _). rewrite <- Kc. auto.
Qed.

Lemma LockInv_upd : forall f g n g', upd f g n = Some g' -> LockInv g -> LockInv g'.
Proof.
  intros f g n g' U. destruct (upd_spec _ _ _ _ U) as [(K & C & _) _].
  apply LockInv_rel.
  - intros k y Ey. destruct (gkeep_back _ _ _ _ K Ey) as [x [Ex Kx]]. exists x. split; auto.
    destruct Kx as (_ & K2 & _ & K4 & K5 & _). repeat split; auto.
    intros Cy. pose proof (C k) as Ck. rewrite (compiled_b_get _ _ _ Ey), (compiled_b_get _ _ _ Ex) in Ck. congruence.
  - intros v c yc _ _. apply Lb_sk. apply same_sym. apply gkeep_same_sk. auto.
Qed.

Lemma set_own_back : forall g n t k y, g_get (g_mod g n (set_own t)) k = Some y ->
  exists x, g_get g k = Some x /\ n_mixins y = n_mixins x /\ n_linkback y = n_linkback x /\
            n_compiled y = n_compiled x /\ n_locked y = n_locked x /\ n_children y = n_children x.
Proof.
  intros g n t k y Ey. rewrite g_get_mod in Ey. destruct (Nat.eqb k n) eqn:Ek.
  - apply Nat.eqb_eq in Ek. subst. destruct (g_get g n) as [x0|]; [|discriminate]. cbn in Ey. injection Ey as <-.
    exists x0. cbn. repeat split; reflexivity.
  - exists y. repeat split; auto.
Qed.

Lemma LockInv_set_own : forall g n t, LockInv g -> LockInv (g_mod g n (set_own t)).
Proof.
  intros g n t. apply LockInv_rel.
  - intros k y Ey. destruct (set_own_back _ _ _ _ _ Ey) as (x & Ex & A & B & C & D & _).
    exists x. split; auto. unfold lk_rel. repeat split; auto; congruence.
  - intros v c yc _ _. apply Lb_sk. apply same_sym. apply same_set_own.
Qed.

Lemma LC_set_own : forall E g n t, LC E g -> LC E (g_mod g n (set_own t)).
Proof.
  intros E g n t. apply LC_rel. intros k y Ey. destruct (set_own_back _ _ _ _ _ Ey) as (x & Ex & A & B & C & D & _). eauto.
Qed.

Lemma LbChild_set_own : forall g n t, LbChild g -> LbChild (g_mod g n (set_own t)).
Proof.
  intros g n t H c y p Ec Ly Ip. destruct (set_own_back _ _ _ _ _ Ec) as (y0 & Ey0 & A & B & _).
  rewrite A in Ip. rewrite B in Ly. destruct (H _ _ _ Ey0 Ly Ip) as (x & Ex & Ic).
  rewrite g_get_mod. destruct (Nat.eqb p n) eqn:Ep.
  - apply Nat.eqb_eq in Ep. subst. rewrite Ex. cbn. eexists. split; eauto.
  - eauto.
Qed.

Lemma inv_mixin_lt : forall g c y m, Inv g -> g_get g c = Some y -> In m (n_mixins y) -> m < length g.
Proof.
  intros g c y m I E Im. pose proof (inv_mterm g c I (g_get_lt _ _ _ E)) as T.
  destruct (length g) as [|f] eqn:L; [discriminate|]. rewrite mterm_S, E in T. rewrite forallb_forall in T.
  specialize (T _ Im). apply mterm_lt in T. lia.
Qed.

Lemma inv_ChildMix : forall g, Inv g -> ChildMix g.
Proof. intros g I p x c Ep Ic. apply (inv_child _ I _ _ _ Ep Ic). Qed.

(* --- create --- *)
Lemma Lb_created_back : forall g ms lb v c, c < length g -> Lb (created g ms lb) v c -> Lb g v c.
Proof.
  intros g ms lb v c Lc H. destruct (created_old g ms lb) as (L & Enew & Old).
  induction H as [a | a x' c0 c Ea Ic H IH]; [constructor|].
  destruct (Nat.lt_ge_cases a (length g)) as [La|La].
  - destruct (g_get_some _ _ La) as [x Ex]. destruct (Old _ _ Ex) as [y' [Ey' R]]. rewrite Ea in Ey'. injection Ey' as <-.
    destruct R as (_ & _ & _ & _ & _ & _ & Hc). apply Hc in Ic. destruct Ic as [Ic|[-> _]].
    + eapply lb_step; eauto.
    + apply created_no_children in H. lia.
  - assert (a = length g) as -> by (apply g_get_lt in Ea; lia). rewrite Enew in Ea. injection Ea as <-. cbn in Ic. contradiction.
Qed.

Lemma LockInv_create : forall g ms lb, Inv g -> LockInv g -> LockInv (created g ms lb).
Proof.
  intros g ms lb I Lg c yc v y m z Ec Cy Lv Ev Ly Im Em.
  destruct (created_old g ms lb) as (L & Enew & Old).
  assert (c < length g) as Lc.
  { destruct (Nat.lt_ge_cases c (length g)); auto. assert (c = length g) as -> by (apply g_get_lt in Ec; lia).
    rewrite Enew in Ec. injection Ec as <-. discriminate. }
  pose proof (Lb_created_back _ _ _ _ _ Lc Lv) as Lv0.
  assert (v < length g) as Lvv.
  { inversion Lv0; subst; auto. eapply g_get_lt; eauto. }
  destruct (g_get_some _ _ Lc) as [xc Exc]. destruct (Old _ _ Exc) as [yc' [Eyc' Rc]]. rewrite Ec in Eyc'. injection Eyc' as <-.
  destruct (g_get_some _ _ Lvv) as [x Ex]. destruct (Old _ _ Ex) as [y' [Ey' R]]. rewrite Ev in Ey'. injection Ey' as <-.
  destruct Rc as (_ & _ & _ & _ & Rc5 & _). destruct R as (_ & R2 & R3 & _).
  rewrite R2 in Im. pose proof (inv_mixin_lt _ _ _ _ I Ex Im) as Lm. destruct (g_get_some _ _ Lm) as [w Ew].
  destruct (Old _ _ Ew) as [z' [Ez' Rz]]. rewrite Em in Ez'. injection Ez' as <-.
  destruct Rz as (_ & _ & _ & R4 & _). rewrite R4. eapply (Lg c xc v x m w); eauto; congruence.
Qed.

Lemma LC_create : forall g ms lb, Inv g -> LockClosed g -> LockClosed (created g ms lb).
Proof.
  intros g ms lb I H k y q z Ek Lk _ Iq Eq.
  destruct (created_old g ms lb) as (L & Enew & Old).
  destruct (Nat.lt_ge_cases k (length g)) as [Lk'|Lk'].
  - destruct (g_get_some _ _ Lk') as [x Ex]. destruct (Old _ _ Ex) as [y' [Ey' R]]. rewrite Ek in Ey'. injection Ey' as <-.
    destruct R as (_ & R2 & _ & R4 & _). rewrite R2 in Iq. rewrite R4 in Lk.
    pose proof (inv_mixin_lt _ _ _ _ I Ex Iq) as Lq. destruct (g_get_some _ _ Lq) as [w Ew].
    destruct (Old _ _ Ew) as [z' [Ez' Rz]]. rewrite Eq in Ez'. injection Ez' as <-.
    destruct Rz as (_ & _ & _ & Rz4 & _). rewrite Rz4. eapply (H k x q w); eauto.
  - assert (k = length g) as -> by (apply g_get_lt in Ek; lia). rewrite Enew in Ek. injection Ek as <-. discriminate.
Qed.

Lemma LbChild_create : forall g ms lb, Inv g -> valid_ids g ms = true -> LbChild g -> LbChild (created g ms lb).
Proof.
  intros g ms lb I V H c y p Ec Ly Ip. destruct (created_old g ms lb) as (L & Enew & Old).
  destruct (Nat.lt_ge_cases c (length g)) as [Lc|Lc].
  - destruct (g_get_some _ _ Lc) as [y0 Ey0]. destruct (Old _ _ Ey0) as [y' [Ey' R]]. rewrite Ec in Ey'. injection Ey' as <-.
    destruct R as (_ & R2 & R3 & _). rewrite R2 in Ip. rewrite R3 in Ly.
    destruct (H _ _ _ Ey0 Ly Ip) as (x & Ex & Ic). destruct (Old _ _ Ex) as [x' [Ex' Rx]].
    exists x'. split; auto. destruct Rx as (_ & _ & _ & _ & _ & _ & Hc). apply Hc. auto.
  - assert (c = length g) as -> by (apply g_get_lt in Ec; lia). rewrite Enew in Ec. injection Ec as <-.
    cbn in Ly, Ip. subst lb. rewrite valid_ids_spec in V. destruct (g_get_some _ _ (V _ Ip)) as [x Ex].
    destruct (Old _ _ Ex) as [x' [Ex' Rx]]. exists x'. split; auto.
    destruct Rx as (_ & _ & _ & _ & _ & _ & Hc). apply Hc. auto.
Qed.

(* --- add_mixins: the graph with the new edges, before _update --- *)
Lemma mixed_back : forall g n x ms k y, g_get g n = Some x -> g_get (mixed g n x ms) k = Some y ->
  exists z, g_get g k = Some z /\ n_linkback y = n_linkback z /\ n_locked y = n_locked z /\ n_compiled y = n_compiled z /\
            n_snap y = n_snap z /\ (k <> n -> n_mixins y = n_mixins z).
Proof.
  intros g n x ms k y E Ey. destruct (mixed_rel g n x ms E) as [L Old]. cbn zeta in Old.
  assert (k < length g) as Lk by (rewrite <- L; eapply g_get_lt; eauto).
  destruct (g_get_some _ _ Lk) as [z Ez]. destruct (Old _ _ Ez) as [y' [Ey' R]]. rewrite Ey in Ey'. injection Ey' as <-.
  destruct R as (_ & R2 & R3 & R4 & R5 & R6 & _). exists z. repeat split; auto.
  intros Ne. apply Nat.eqb_neq in Ne. rewrite Ne in R6. auto.
Qed.

Lemma LC_mixed : forall g n x ms, g_get g n = Some x -> n_locked x = false -> LockClosed g -> LockClosed (mixed g n x ms).
Proof.
  intros g n x ms E Lk H k y q z Ek Lky _ Iq Eq.
  destruct (mixed_back _ _ _ _ _ _ E Ek) as (y0 & Ey0 & _ & A3 & _ & _ & A6).
  destruct (mixed_back _ _ _ _ _ _ E Eq) as (z0 & Ez0 & _ & B3 & _).
  assert (k <> n) as Ne by (intros ->; rewrite E in Ey0; injection Ey0 as <-; congruence).
  rewrite A6 in Iq by auto. rewrite B3. eapply (H k y0 q z0); eauto; try congruence; try (unfold NoE; tauto).
Qed.

Lemma LbChild_mixed : forall g n x ms, g_get g n = Some x -> valid_ids g ms = true -> LbChild g -> LbChild (mixed g n x ms).
Proof.
  intros g n x ms E V H c y p Ec Ly Ip. destruct (mixed_rel g n x ms E) as [L Old]. cbn zeta in Old.
  assert (c < length g) as Lc by (rewrite <- L; eapply g_get_lt; eauto).
  destruct (g_get_some _ _ Lc) as [y0 Ey0]. destruct (Old _ _ Ey0) as [y' [Ey' R]]. rewrite Ec in Ey'. injection Ey' as <-.
  destruct R as (_ & R2 & _ & _ & _ & R6 & _). rewrite R2 in Ly.
  assert (forall xp, g_get g p = Some xp -> In c (n_children xp) -> exists x', g_get (mixed g n x ms) p = Some x' /\ In c (n_children x')) as Keep.
  { intros xp Exp Ic. destruct (Old _ _ Exp) as [xp' [Exp' Rp]]. exists xp'. split; auto.
    destruct Rp as (_ & _ & _ & _ & _ & _ & Hc). apply Hc. auto. }
  destruct (Nat.eqb c n) eqn:Ecn.
  - apply Nat.eqb_eq in Ecn. subst c. rewrite E in Ey0. injection Ey0 as <-. rewrite R6 in Ip. apply in_app_iff in Ip.
    destruct Ip as [Ip|Ip].
    + destruct (H _ _ _ E Ly Ip) as (xp & Exp & Ic). eauto.
    + assert (p < length g) as Lp.
      { rewrite valid_ids_spec in V. apply V. apply filter_In in Ip. tauto. }
      destruct (g_get_some _ _ Lp) as [xp Exp]. destruct (Old _ _ Exp) as [xp' [Exp' Rp]]. exists xp'. split; auto.
      destruct Rp as (_ & _ & _ & _ & _ & _ & Hc). apply Hc. right. split; auto. rewrite Ly. auto.
  - rewrite R6 in Ip. destruct (H _ _ _ Ey0 Ly Ip) as (xp & Exp & Ic). eauto.
Qed.

Lemma Lb_grow : forall g g', (forall a x, g_get g a = Some x -> exists y, g_get g' a = Some y /\ incl (n_children x) (n_children y)) ->
  forall a k, Lb g a k -> Lb g' a k.
Proof.
  intros g g' H a k L. induction L; [constructor|].
  destruct (H _ _ H0) as [y [Ey Inc]]. eapply lb_step; eauto.
Qed.

Lemma Lb_to_mixed : forall g n x ms a k, g_get g n = Some x -> Lb g a k -> Lb (mixed g n x ms) a k.
Proof.
  intros g n x ms a k E. apply Lb_grow. intros b z Ez.
  destruct (mixed_rel g n x ms E) as [L Old]. cbn zeta in Old. destruct (Old _ _ Ez) as [y [Ey R]].
  exists y. split; auto. destruct R as (_ & _ & _ & _ & _ & _ & Hc). intros c Ic. apply Hc. auto.
Qed.

(* after add_mixins + _update *)
Lemma LockInv_mixed_upd : forall g n x ms g', Inv g -> g_get g n = Some x -> wf_b (mixed g n x ms) = true ->
  upd (length g) (mixed g n x ms) n = Some g' -> LockInv g -> LockInv g'.
Proof.
  intros g n x ms g' I E W U Lg c yc v y m z Ec Cy Lv Ev Ly Im Em.
  set (g2 := mixed g n x ms) in *.
  pose proof (Inv_mixed g n x ms I E W) as I2. fold g2 in I2.
  destruct (mixed_rel g n x ms E) as [L2 _]. fold g2 in L2.
  destruct (upd_spec _ _ _ _ U) as [(K & C & _) _].
  destruct (lb_b (length g) g2 n c) eqn:V.
  - pose proof (upd_UL _ _ _ _ (inv_ChildMix _ I2) U) as UL1. eapply (UL1 c yc v y m z); eauto.
  - assert (same sk g2 g') as Ssk by (apply gkeep_same_sk; auto).
    assert (Lb g2 v c) as Lv2 by (eapply Lb_sk; [apply same_sym; exact Ssk | exact Lv]).
    assert (~ Lb g2 n c) as NL.
    { intros Q. rewrite lb_b_complete in V; [discriminate | | exact Q].
      rewrite <- L2. apply inv_cterm; auto. rewrite L2. eapply g_get_lt; eauto. }
    assert (Lb g v c) as Lv0.
    { destruct (Lb_mixed _ _ _ _ _ _ E Lv2) as [Q|Q]; auto. exfalso. apply NL. apply Lb_to_mixed; auto. }
    assert (v <> n) as Ne by (intros ->; apply NL; auto).
    destruct (gkeep_back _ _ _ _ K Ec) as [yc2 [Ec2 Kc]]. destruct (gkeep_back _ _ _ _ K Ev) as [y2 [Ev2 Kv]].
    destruct (gkeep_back _ _ _ _ K Em) as [z2 [Ez2 Kz]].
    destruct (mixed_back _ _ _ _ _ _ E Ec2) as (yc0 & Ec0 & _ & _ & A4 & _).
    destruct (mixed_back _ _ _ _ _ _ E Ev2) as (y0 & Ev0 & B2 & _ & _ & _ & B6).
    destruct (mixed_back _ _ _ _ _ _ E Ez2) as (z0 & Ez0 & _ & D3 & _).
    destruct Kv as (_ & Km & _ & Kl & _). destruct Kz as (_ & _ & _ & _ & Klk & _).
    apply Klk. rewrite D3. eapply (Lg c yc0 v y0 m z0); eauto.
    + pose proof (C c) as Cc. rewrite (compiled_b_get _ _ _ Ec), (compiled_b_get _ _ _ Ec2) in Cc. congruence.
    + rewrite <- B6 by auto. rewrite Km. auto.
Qed.

(* --- first use --- *)
Lemma LockInv_compile : forall g n g', Inv g -> compile g n = Some g' -> LockInv g -> LockInv g'.
Proof.
  intros g n g' I C Lg c yc v y m z Ec Cy Lv Ev Ly Im Em.
  pose proof (compile_gkeep _ _ _ C) as K.
  destruct (Nat.eq_dec c n) as [->|Ne].
  - pose proof (compile_UL _ _ _ (inv_ChildMix _ I) C) as UL1. eapply (UL1 n yc v y m z); eauto.
  - destruct (gkeep_back _ _ _ _ K Ec) as [xc [Exc Kc]]. destruct (gkeep_back _ _ _ _ K Ev) as [x [Ex Kx]].
    destruct (gkeep_back _ _ _ _ K Em) as [w [Ew Kw]].
    destruct Kx as (_ & Kx2 & _ & Kx4 & _). destruct Kw as (_ & _ & _ & _ & Kw5 & _).
    destruct (compile_other _ _ _ _ _ C Ne Exc) as (y' & Ey' & Cy' & _). rewrite Ec in Ey'. injection Ey' as <-.
    apply Kw5. eapply (Lg c xc v x m w); eauto; try congruence.
    eapply Lb_sk; [apply same_sym; apply gkeep_same_sk; exact K | exact Lv].
Qed.

Definition LK (g : graph) : Prop := LockInv g /\ LockClosed g /\ LbChild g.

Lemma LK_modify : forall g n t g', upd (length g) (g_mod g n (set_own t)) n = Some g' -> LK g -> LK g'.
Proof.
  intros g n t g' U (A & B & D). split; [|split].
  - eapply LockInv_upd; eauto. apply LockInv_set_own. auto.
  - eapply upd_LC; eauto. apply LC_set_own. auto.
  - eapply LbChild_gkeep; [apply (upd_spec _ _ _ _ U)|]. apply LbChild_set_own. auto.
Qed.

Lemma LK_create : forall g ms lb, Inv g -> valid_ids g ms = true -> LK g -> LK (created g ms lb).
Proof.
  intros g ms lb I V (A & B & D). split; [apply LockInv_create | split; [apply LC_create | apply LbChild_create]]; auto.
Qed.

Lemma LK_step : forall g o, Inv g -> LK g -> LK (step_g g o).
Proof.
  intros g o I H. unfold step_g. destruct o; cbn [step].
  - destruct (valid_ids g mixins) eqn:V; [rewrite do_create_eq by auto | rewrite do_create_invalid by auto; auto].
    apply LK_create; auto.
  - destruct (valid_ids g (n :: mixins)) eqn:V; [rewrite do_create_eq by auto | rewrite do_create_invalid by auto; auto].
    apply LK_create; auto.
  - destruct (valid_ids g (n :: mixins)) eqn:V; [|rewrite do_create_invalid by auto; auto].
    rewrite do_create_eq by auto. rewrite do_register_unfold.
    destruct (do_modify_cases (created g (n :: mixins) lb) (length g) (t_register sig l))
      as [(x & t & g' & E & Lk & F & U & ->)|[Nd Eq]].
    + cbn. eapply LK_modify; eauto. apply LK_create; auto.
    + destruct (do_modify (created g (n :: mixins) lb) (length g) (t_register sig l)) as [g2 o2].
      cbn in *. destruct o2; cbn; auto. congruence.
  - destruct (do_add_mixins_cases g n ms) as [(x & E & Lk & F & ->)|[(x & g' & E & V & Lk & F & W & U & ->)|(_ & -> & _)]]; auto.
    cbn. destruct H as (A & B & D). split; [|split].
    + eapply LockInv_mixed_upd; eauto.
    + eapply upd_LC; eauto. apply LC_mixed; auto.
    + eapply LbChild_gkeep; [apply (upd_spec _ _ _ _ U)|]. apply LbChild_mixed; auto.
  - rewrite do_register_unfold.
    destruct (do_modify_cases g n (t_register sig l)) as [(x & t & g' & E & Lk & F & U & ->)|[_ ->]]; auto.
    cbn. eapply LK_modify; eauto.
  - unfold do_unregister.
    destruct (do_modify_cases g n (fun t => Some (t_remove l t))) as [(x & t & g' & E & Lk & F & U & ->)|[_ ->]]; auto.
    cbn. eapply LK_modify; eauto.
  - unfold do_use. destruct (g_get g n) eqn:E; auto. destruct (n_compiled n0); auto.
    destruct (compile g n) eqn:C; auto. cbn. destruct H as (A & B & D). split; [|split].
    + eapply LockInv_compile; eauto.
    + eapply compile_LC; eauto.
    + eapply LbChild_gkeep; [eapply compile_gkeep; eauto | auto].
Qed.

Lemma LK_run_from : forall ops g, Inv g -> LK g -> LK (run_from g ops).
Proof.
  induction ops as [|o r IH]; cbn; intros g I H; auto. apply IH; [apply Inv_step | apply LK_step]; auto.
Qed.

Lemma LK_nil : LK [].
Proof. split; [|split]; intros c y; intros; destruct c; discriminate. Qed.

Lemma LK_run : forall ops, LK (run ops).
Proof. intros. apply LK_run_from; [apply Inv_nil | apply LK_nil]. Qed.

(* everything a locked node derives from is locked *)
Lemma locked_up : forall g a m, Inv g -> LockClosed g -> Anc g a m ->
  forall z, g_get g m = Some z -> n_locked z = true -> exists w, g_get g a = Some w /\ n_locked w = true.
Proof.
  intros g a m I H An. induction An as [|m x q Em Iq An IH]; intros z Ez Lz; eauto.
  rewrite Em in Ez. injection Ez as <-.
  pose proof (inv_mixin_lt _ _ _ _ I Em Iq) as Lq. destruct (g_get_some _ _ Lq) as [y Ey].
  apply (IH y Ey). eapply (H m x q y); eauto.
Qed.

(* the full lock statement: once c is in use, for every non-linkback node v from which c derives through linkback
   derivations only (c itself, if it is not a linkback derivation; else the first non-linkback node up its chain of
   linkback parents), every mixin m of v and everything m derives from refuses modification *)
Lemma lock_full : forall ops c yc v y m a, let g := run ops in
  g_get g c = Some yc -> n_compiled yc = true -> Lb g v c -> g_get g v = Some y -> n_linkback y = false ->
  In m (n_mixins y) -> Anc g a m -> exists w, g_get g a = Some w /\ n_locked w = true.
Proof.
  intros ops c yc v y m a g Ec Cy Lv Ev Ly Im An. pose proof (Inv_run ops) as I. destruct (LK_run ops) as (A & B & _).
  fold g in I, A, B.
  pose proof (inv_mixin_lt _ _ _ _ I Ev Im) as Lm. destruct (g_get_some _ _ Lm) as [z Ez].
  eapply locked_up; eauto.
Qed.

(* a modifiable ancestor of a used node reaches it through linkback derivations only *)
Lemma unlocked_anc_lb : forall g N xN c yc, Inv g -> LK g -> g_get g N = Some xN -> n_locked xN = false ->
  g_get g c = Some yc -> n_compiled yc = true -> Anc g N c -> Lb g N c.
Proof.
  intros g N xN c yc I (A & B & D) EN LN Ec Cy An.
  assert (forall v, Anc g N v -> Lb g v c -> Lb g N c) as X.
  { intros v Av. induction Av as [|v x m Ev Im Av IH]; auto. intros Lv.
    pose proof (inv_mixin_lt _ _ _ _ I Ev Im) as Lm. destruct (g_get_some _ _ Lm) as [z Ez].
    destruct (n_linkback x) eqn:Lx.
    - destruct (D _ _ _ Ev Lx Im) as (xm & Exm & Ic). apply IH. eapply lb_step; eauto.
    - exfalso. assert (n_locked z = true) as Lz by (eapply (A c yc v x m z); eauto).
      destruct (locked_up g N m I B Av z Ez Lz) as (w & Ew & Lw). congruence. }
  apply (X c An). constructor.
Qed.

(* ================= linkback: every later change of an ancestor is visible ================= *)
Lemma defns_none : forall f g k, g_get g k = None -> defns f g k = None.
Proof. intros. destruct f; auto. rewrite defns_S, H. reflexivity. Qed.

Lemma linkback_upd : forall g1 n g' k, Inv g1 -> n < length g1 ->
  upd (length g1) g1 n = Some g' -> Lb g1 n k -> obs g' k = defns (length g') g' k.
Proof.
  intros g1 n g' k I1 Ln U Hk.
  destruct (upd_spec _ _ _ _ U) as [(K & C & S) F].
  assert (length g' = length g1) as L' by (destruct K; congruence).
  assert (visited (length g1) g1 n k) as V.
  { unfold visited. apply lb_b_complete; auto. apply inv_cterm; auto. }
  unfold obs. destruct (g_get g' k) eqn:Ek.
  - destruct (n_compiled n0) eqn:Ck; auto.
    rewrite (F k n0 V Ek Ck). rewrite L'. apply gkeep_defns. auto.
  - symmetry. apply defns_none. auto.
Qed.

Lemma linkback : forall ops o k, let g := run ops in
  is_modification o = true -> snd (step g o) = Done -> Lb g (target g o) k ->
  obs (step_g g o) k = defns (length (step_g g o)) (step_g g o) k \/
  (exists n ms, o = OAddMixins n ms /\ nself n ms = [] /\ step_g g o = g).
Proof.
  intros ops o k g Ho D Hk. pose proof (Inv_run ops) as I. fold g in I.
  unfold step_g in *. destruct o; try discriminate; cbn [step target] in *.
  - destruct (do_add_mixins_cases g n ms) as [(x & E & Lk & F & Q)|[(x & g' & E & V & Lk & F & W & U & Q)|(Nd & _ & _)]]; [| |congruence].
    + right. exists n, ms. rewrite Q. auto.
    + left. rewrite Q. cbn. destruct (mixed_rel g n x ms E) as [L _].
      eapply linkback_upd with (g1 := mixed g n x ms) (n := n).
      * apply Inv_mixed; auto. * rewrite L. eapply g_get_lt; eauto. * rewrite L. exact U. * apply Lb_to_mixed; auto.
  - left. rewrite do_register_unfold in *.
    destruct (do_modify_cases g n (t_register sig l)) as [(x & t & g' & E & Lk & F & U & Q)|[Nd _]]; [|congruence].
    rewrite Q. cbn. pose proof (length_g_mod g n (set_own t)) as L.
    eapply linkback_upd with (g1 := g_mod g n (set_own t)) (n := n).
    + apply Inv_set_own; auto. eapply register_nodup; eauto. eapply inv_nodup; eauto.
    + rewrite L. eapply g_get_lt; eauto. + rewrite L. exact U.
    + eapply Lb_same; [apply same_set_own | exact Hk].
  - left. unfold do_unregister in *.
    destruct (do_modify_cases g n (fun t => Some (t_remove l t))) as [(x & t & g' & E & Lk & F & U & Q)|[Nd _]]; [|congruence].
    rewrite Q. cbn. pose proof (length_g_mod g n (set_own t)) as L.
    eapply linkback_upd with (g1 := g_mod g n (set_own t)) (n := n).
    + apply Inv_set_own; auto. injection F as <-. apply nodup_t_remove. eapply inv_nodup; eauto.
    + rewrite L. eapply g_get_lt; eauto. + rewrite L. exact U.
    + eapply Lb_same; [apply same_set_own | exact Hk].
Qed.

(* ================= used nodes stay equal to the overlay in histories outside the finding class ================= *)
Definition Fresh (g : graph) : Prop :=
  forall n x, g_get g n = Some x -> n_compiled x = true -> Some (n_snap x) = defns (length g) g n.

Lemma filter_nil : forall A (f : A -> bool) l, filter f l = [] -> forall x, In x l -> f x = false.
Proof.
  induction l; cbn; intros; [contradiction|]. destruct (f a) eqn:E; [discriminate|].
  destruct H0 as [<-|H0]; auto.
Qed.

Lemma anc_b_new : forall g ms lb f c, Inv g -> c < length g -> anc_b f (created g ms lb) (length g) c = false.
Proof.
  intros g ms lb f c I. revert c. destruct (created_old g ms lb) as (L & Enew & Old).
  induction f; intros c Lc; cbn [anc_b].
  - rewrite orb_false_r. apply Nat.eqb_neq. lia.
  - apply orb_false_iff. split; [apply Nat.eqb_neq; lia|].
    destruct (g_get_some _ _ Lc) as [x Ex]. destruct (Old _ _ Ex) as [y [Ey R]]. rewrite Ey.
    destruct R as (_ & R2 & _). rewrite R2.
    destruct (existsb (anc_b f (created g ms lb) (length g)) (n_mixins x)) eqn:X; auto.
    apply existsb_exists in X. destruct X as [m [Im Am]]. rewrite IHf in Am; [discriminate|].
    eapply inv_mixin_lt; eauto.
Qed.

Lemma Anc_lt : forall g a n, Inv g -> Anc g a n -> n < length g -> a < length g.
Proof.
  intros g a n I H. induction H; auto. intros Ln. apply IHAnc. eapply inv_mixin_lt; eauto.
Qed.

Lemma Fresh_create : forall g ms lb, Inv g -> Fresh g -> Fresh (created g ms lb).
Proof.
  intros g ms lb I Fg n y Ey Cy. destruct (created_old g ms lb) as (L & Enew & Old).
  destruct (Nat.lt_ge_cases n (length g)) as [Ln|Ln].
  - destruct (g_get_some _ _ Ln) as [x Ex]. destruct (Old _ _ Ex) as [y' [Ey' R]]. rewrite Ey in Ey'. injection Ey' as <-.
    destruct R as (_ & _ & _ & _ & R5 & R6 & _). rewrite R6, (Fg n x Ex) by congruence.
    symmetry. apply iso_defns with (N := length g); auto; [apply iso_create|].
    destruct (anc_b (length g) g (length g) n) eqn:B; auto. apply anc_b_sound in B.
    pose proof (Anc_lt _ _ _ I B Ln). lia.
  - assert (n = length g) as -> by (apply g_get_lt in Ey; lia). rewrite Enew in Ey. injection Ey as <-. discriminate.
Qed.

Lemma Fresh_compile : forall g n g', Inv g -> compile g n = Some g' -> Fresh g -> Fresh g'.
Proof.
  intros g n g' I C Fg k y Ey Cy. pose proof (compile_gkeep _ _ _ C) as K.
  assert (length g' = length g) as L by (destruct K; auto). rewrite L, <- (gkeep_defns _ _ K).
  destruct (Nat.eq_dec k n) as [->|Ne].
  - destruct (compile_self _ _ _ C) as (y' & Ey' & _ & Sy). congruence.
  - destruct (gkeep_back _ _ _ _ K Ey) as [x [Ex _]].
    destruct (compile_other _ _ _ _ _ C Ne Ex) as (y' & Ey' & Cy' & Sy'). rewrite Ey in Ey'. injection Ey' as <-.
    rewrite Sy'. apply Fg; auto. congruence.
Qed.

(* a change at n (own table or new mixins), then _update: fresh again provided every used node deriving from n is
   reached by the propagation *)
Lemma Fresh_upd_gen : forall g n g1 g', Inv g -> Fresh g -> Inv g1 -> length g1 = length g ->
  (forall m, m <> n -> option_map dm (g_get g m) = option_map dm (g_get g1 m)) ->
  (forall k x1, g_get g1 k = Some x1 -> exists x0, g_get g k = Some x0 /\ n_compiled x0 = n_compiled x1 /\ n_snap x0 = n_snap x1) ->
  (forall a k, Lb g a k -> Lb g1 a k) ->
  upd (length g) g1 n = Some g' -> n < length g ->
  (forall c, c < length g -> compiled_b g c = true -> anc_b (length g) g n c = true -> lb_b (length g) g n c = true) ->
  Fresh g'.
Proof.
  intros g n g1 g' I Fg I1 L1 Hdm Hfl HLb U Ln Hexp k y Ey Cy.
  destruct (upd_spec _ _ _ _ U) as [(K & C & S) F].
  assert (length g' = length g) as L' by (destruct K; congruence).
  destruct (gkeep_back _ _ _ _ K Ey) as [x1 [Ex1 _]].
  assert (k < length g) as Lk by (rewrite <- L1; eapply g_get_lt; eauto).
  assert (n_compiled x1 = true) as Cx1.
  { pose proof (C k) as Ck. rewrite (compiled_b_get _ _ _ Ey), (compiled_b_get _ _ _ Ex1) in Ck. congruence. }
  destruct (Hfl _ _ Ex1) as (x0 & Ex0 & Cx0 & Sx0). rewrite Cx1 in Cx0.
  rewrite L', <- L1. rewrite <- (gkeep_defns _ _ K).
  destruct (lb_b (length g) g1 n k) eqn:V.
  - rewrite (F k y V Ey Cy). rewrite L1. reflexivity.
  - destruct (S _ _ _ Ex1 Ey) as [Q|(_ & V' & _)]; [|unfold visited in V'; congruence].
    rewrite Q, <- Sx0, (Fg k x0 Ex0 Cx0). rewrite L1.
    assert (anc_b (length g) g n k = false) as A.
    { destruct (anc_b (length g) g n k) eqn:A; auto.
      assert (lb_b (length g) g n k = true) as B by (apply Hexp; auto; unfold compiled_b; rewrite Ex0; auto).
      apply lb_b_sound in B. apply HLb in B.
      rewrite lb_b_complete in V; [discriminate | | exact B].
      rewrite <- L1. apply inv_cterm; auto. lia. }
    apply defns_local with (a := n); auto.
Qed.

Lemma Fresh_modify : forall g n x t g', Inv g -> Fresh g -> g_get g n = Some x -> NoDup (keys t) ->
  upd (length g) (g_mod g n (set_own t)) n = Some g' ->
  (forall c, c < length g -> compiled_b g c = true -> anc_b (length g) g n c = true -> lb_b (length g) g n c = true) ->
  Fresh g'.
Proof.
  intros g n x t g' I Fg E N U Hexp.
  eapply Fresh_upd_gen with (g1 := g_mod g n (set_own t)); eauto.
  - apply Inv_set_own; auto. - apply length_g_mod.
  - intros m Ne. rewrite g_get_mod_other; auto.
  - intros k x1 Ex1. rewrite g_get_mod in Ex1. destruct (Nat.eqb k n) eqn:Ekn.
    + apply Nat.eqb_eq in Ekn. subst. rewrite E in Ex1. cbn in Ex1. injection Ex1 as <-. eauto.
    + eauto.
  - intros a k. apply Lb_same. apply same_set_own.
  - eapply g_get_lt; eauto.
Qed.

Lemma Fresh_mixed_upd : forall g n x ms g', Inv g -> Fresh g -> g_get g n = Some x -> wf_b (mixed g n x ms) = true ->
  upd (length g) (mixed g n x ms) n = Some g' ->
  (forall c, c < length g -> compiled_b g c = true -> anc_b (length g) g n c = true -> lb_b (length g) g n c = true) ->
  Fresh g'.
Proof.
  intros g n x ms g' I Fg E W U Hexp. destruct (mixed_rel g n x ms E) as [L Old]. cbn zeta in Old.
  eapply Fresh_upd_gen with (g1 := mixed g n x ms); eauto.
  - apply Inv_mixed; auto.
  - intros m Ne. symmetry. apply (iso_dm _ _ _ (iso_mixed g n x ms E) m Ne).
  - intros k x1 Ex1. destruct (mixed_back _ _ _ _ _ _ E Ex1) as (z & Ez & _ & _ & A4 & A5 & _). eauto.
  - intros a k. apply Lb_to_mixed. auto.
  - eapply g_get_lt; eauto.
Qed.

(* since the lock is complete, a successful change at n reaches every used node that derives from n *)
Lemma reach_all : forall g n x, Inv g -> LK g -> g_get g n = Some x -> n_locked x = false ->
  forall c, c < length g -> compiled_b g c = true -> anc_b (length g) g n c = true -> lb_b (length g) g n c = true.
Proof.
  intros g n x I H E Lk c Lc Cc Ac. destruct (g_get_some _ _ Lc) as [yc Ec].
  unfold compiled_b in Cc. rewrite Ec in Cc. apply anc_b_sound in Ac.
  apply lb_b_complete; [apply inv_cterm; auto; eapply g_get_lt; eauto|].
  eapply unlocked_anc_lb; eauto.
Qed.

Lemma Fresh_step : forall g o, Inv g -> LK g -> Fresh g -> Fresh (step_g g o).
Proof.
  intros g o I H Fg. unfold step_g. destruct o; cbn [step].
  - destruct (valid_ids g mixins) eqn:V; [rewrite do_create_eq by auto; apply Fresh_create; auto | rewrite do_create_invalid by auto; auto].
  - destruct (valid_ids g (n :: mixins)) eqn:V; [rewrite do_create_eq by auto; apply Fresh_create; auto | rewrite do_create_invalid by auto; auto].
  - destruct (valid_ids g (n :: mixins)) eqn:V; [|rewrite do_create_invalid by auto; auto].
    rewrite do_create_eq by auto. rewrite do_register_unfold.
    pose proof (Inv_create g (n :: mixins) lb I V) as I1.
    destruct (do_modify_cases (created g (n :: mixins) lb) (length g) (t_register sig l))
      as [(x & t & g' & E & Lk & F & U & ->)|[Nd Eq]].
    + cbn. eapply Fresh_modify; eauto.
      * apply Fresh_create; auto.
      * eapply register_nodup; eauto. eapply inv_nodup; eauto.
      * eapply reach_all; eauto. apply LK_create; auto.
    + destruct (do_modify (created g (n :: mixins) lb) (length g) (t_register sig l)) as [g2 o2].
      cbn in *. destruct o2; cbn; auto. congruence.
  - destruct (do_add_mixins_cases g n ms) as [(x & E & Lk & F & ->)|[(x & g' & E & V & Lk & F & W & U & ->)|(_ & -> & _)]]; auto.
    cbn. eapply Fresh_mixed_upd; eauto. eapply reach_all; eauto.
  - rewrite do_register_unfold.
    destruct (do_modify_cases g n (t_register sig l)) as [(x & t & g' & E & Lk & F & U & ->)|[_ ->]]; auto.
    cbn. eapply Fresh_modify; eauto.
    + eapply register_nodup; eauto. eapply inv_nodup; eauto.
    + eapply reach_all; eauto.
  - unfold do_unregister.
    destruct (do_modify_cases g n (fun t => Some (t_remove l t))) as [(x & t & g' & E & Lk & F & U & ->)|[_ ->]]; auto.
    cbn. eapply Fresh_modify; eauto.
    + injection F as <-. apply nodup_t_remove. eapply inv_nodup; eauto.
    + eapply reach_all; eauto.
  - unfold do_use. destruct (g_get g n) eqn:E; auto. destruct (n_compiled n0); auto.
    destruct (compile g n) eqn:C; auto. cbn. eapply Fresh_compile; eauto.
Qed.

Lemma fresh_from : forall ops g, Inv g -> LK g -> Fresh g -> Fresh (run_from g ops).
Proof.
  induction ops as [|o r IH]; cbn; intros g I H Fg; auto.
  apply IH; [apply Inv_step | apply LK_step | apply Fresh_step]; auto.
Qed.

Lemma Fresh_run : forall ops, Fresh (run ops).
Proof.
  intros. apply fresh_from; [apply Inv_nil | apply LK_nil |]. intros k y Ek. destruct k; discriminate.
Qed.

Lemma fresh_obs : forall g n, Fresh g -> n < length g -> obs g n = defns (length g) g n.
Proof.
  intros g n F Ln. unfold obs. destruct (g_get_some _ _ Ln) as [x E]. rewrite E.
  destruct (n_compiled x) eqn:C; auto.
Qed.

(* every node of every history shows exactly what a rebuild would give now *)
Lemma always_fresh : forall ops n, n < length (run ops) -> obs (run ops) n = defns (length (run ops)) (run ops) n.
Proof. intros. apply fresh_obs; auto. apply Fresh_run. Qed.

Lemma overlay_used : forall ops n x t, let g := run ops in
  g_get g n = Some x -> obs g n = Some t ->
  exists pts, Forall2 (fun m pt => obs g m = Some pt) (n_mixins x) pts /\
              forall k, t_get k t = overlay_get k pts (n_own x).
Proof.
  intros ops n x t g E O. pose proof (Inv_run ops) as I. fold g in I.
  pose proof (Fresh_run ops) as Fg. fold g in Fg.
  rewrite fresh_obs in O; auto; [|eapply g_get_lt; eauto].
  destruct (overlay_defns g n x t I E O) as [pts [F2 Hk]]. exists pts. split; auto.
  assert (forall m, In m (n_mixins x) -> m < length g) as Lm by (intros; eapply inv_mixin_lt; eauto).
  clear -F2 Fg Lm. induction F2; constructor; auto.
  - rewrite fresh_obs; auto. apply Lm. left. auto.
  - apply IHF2. intros. apply Lm. right. auto.
Qed.

(* the all-plain special case of lock_full *)
Lemma NLPath_Anc : forall g c a, NLPath g c a ->
  exists y m, g_get g c = Some y /\ n_linkback y = false /\ In m (n_mixins y) /\ Anc g a m.
Proof.
  intros g c a H. induction H as [c y m Ec Ly Im | c y m a Ec Ly Im _ IH].
  - exists y, m. repeat split; auto. constructor.
  - exists y, m. repeat split; auto. destruct IH as (y' & m' & Ey' & _ & Im' & An). eapply anc_step; eauto.
Qed.

Lemma lock_nlpath : forall ops c y a, let g := run ops in
  g_get g c = Some y -> n_compiled y = true -> NLPath g c a -> exists w, g_get g a = Some w /\ n_locked w = true.
Proof.
  intros ops c y a g Ec Cy P. destruct (NLPath_Anc _ _ _ P) as (y' & m & Ey' & Ly & Im & An).
  fold g in Ey'. rewrite Ec in Ey'. injection Ey' as <-.
  eapply (lock_full ops c y c y m a); eauto. constructor.
Qed.

Lemma lock_closed : forall ops a m z, let g := run ops in
  g_get g m = Some z -> n_locked z = true -> Anc g a m -> exists w, g_get g a = Some w /\ n_locked w = true.
Proof.
  intros ops a m z g Ez Lz An. eapply locked_up; eauto. - apply Inv_run. - apply (LK_run ops).
Qed.
