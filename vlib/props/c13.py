"""C13 — type-level matching agrees with the documented meaning of each type."""
import json, collections
from .. import model
from . import lattice as L
from ..world import METHOD_NAMES

CLAIM = dict(
   text="Coq theorems about the model of subclasscheck: for every type of any depth, subclasscheck(class, T) equals T's documented meaning (Spec/Denot.v: some arm / all arms / exactly / proper subclass / has method / predicate; bound for value types), and at the public entry point (fuel chosen by the model) the answer always exists and is that meaning, so a class is under a union iff under some member, under an intersection iff under all, under a value type iff under its bound (C13_entry_is_meaning, C13_union_some_member, C13_inter_all_members, C13_dependent_is_bound); reflexive; equals issubclass on classes; argument-wise covariant on generics; transitive on the fragment class <= class <= down-closed type, refuted beyond it (KF-22, KF-25). Leaf tie: the generic-alias branch of subclasscheck (origin test, same number of arguments, argument-wise tests) is regenerated from /repo's source on every run and proved to be the model's (C13_leaf_generic_branch). Correspondence: implementation vs extracted model on all ordered pairs; every (class, type) pair also against an independent Python reading of the documentation and, on a sample, through a real @ovld dispatch; all chained triples for transitivity.",
   note="Same trusted base as C12. Hypotheses on the class table (partial order, hasattr inherited) are checked per generated world. Partial: transitivity is false of the code outside the proved fragment (known findings).",
   technique="Coq proof (induction on fuel; spec function denot) + differential correspondence", design="6 C13")

THEOREMS = ["C13_total", "C13_denot", "C13_refl", "C13_fuel_irrelevant", "C13_classes", "C13_generic_covariant",
            "C13_alias_under_class", "C13_entry_is_meaning", "C13_union_some_member", "C13_inter_all_members", "C13_dependent_is_bound", "C13_trans_partial", "C13_trans_refuted_constructed", "C13_trans_refuted_exactly", "C13_leaf_generic_branch"]
ASSUMPTIONS = ["hypotheses of the theorems (issubclass reflexive/transitive/antisymmetric, hasattr inherited along issubclass) are checked per generated world; worlds violating them (virtual subclasses registered on an ABC that defines a method) are compared against the model only"]


def py_denot(w, e, c):
    """documented meaning of type e for class id c -- written from docs/types.md, independent of the library's code"""
    t = e[0]
    C = w.classes
    if t == 0:
        return issubclass(C[c], C[e[1]])
    if t == 1:
        return issubclass(C[c], C[e[1]]) and len(e) == 2
    if t == 2:
        return any(py_denot(w, x, c) for x in e[1:])
    if t == 3:
        return all(py_denot(w, x, c) for x in e[1:])
    if t == 4:
        return c == e[2]
    if t == 5:
        return issubclass(C[c], C[e[2]]) and c != e[2]
    if t == 6:
        return hasattr(C[c], METHOD_NAMES[e[2]])
    if t == 7:
        return c in w.pred_sets[e[2]]
    if t == 8:
        return py_denot(w, e[1], c)
    if t in (9, 10):
        return py_denot(w, e[2], c)
    if t == 11:
        return py_denot(w, e[1], c)
    raise ValueError(e)


def down_closed(e):
    t = e[0]
    if t in (4, 7):
        return False
    if t in (2, 3):
        return all(down_closed(x) for x in e[1:])
    if t == 8 or t == 11:
        return down_closed(e[1])
    if t in (9, 10):
        return down_closed(e[2])
    return True


def hasm_inherited(w):
    for c in w.classes:
        for d in w.classes:
            try:
                if issubclass(c, d):
                    for nm in METHOD_NAMES:
                        if hasattr(d, nm) and not hasattr(c, nm):
                            return False
            except TypeError:
                pass
    return True


def dispatch_applicable(w, T, cls):
    """is a method declared on T applicable to an instance of cls (observed through a real @ovld function)?"""
    import ovld
    f = ovld.Ovld()

    def m(x):
        return "ran"
    m.__annotations__ = {"x": T}
    f.register(m)
    try:
        inst = cls.__new__(cls)
    except TypeError:
        return None
    try:
        return f(inst) == "ran"
    except TypeError as e:
        if "No method" in str(e):
            return False
        raise


def check_case(ctx, case, stats, samples):
    w, objs, ords, subs = L.eval_impl(case)
    res = model.run_cases([L.model_case(w, case)])[0]
    msub, mden = res[1], res[3]
    n = len(objs)
    encs = case["types"]
    hyp = w.is_partial_order() and hasm_inherited(w)
    stats["worlds"] += 1
    stats["worlds_hyp"] += int(hyp)
    broken = False
    for i in range(n):
        for j in range(n):
            stats["evaluations"] += 1
            if subs[i][j] != msub[i][j] and not broken:
                ctx.violation(f"subclasscheck: implementation {subs[i][j]} != model {msub[i][j]}", L.pair_case(case, i, j), kind="correspondence")
                broken = True      # the tie is broken for this world: the oracles below still question the implementation's own answers
            if isinstance(subs[i][j], list):
                ctx.violation("subclasscheck raised", L.pair_case(case, i, j))
    idx = {json.dumps(e): k for k, e in enumerate(encs)}
    cls_idx = {e[1]: k for k, e in enumerate(encs) if e[0] == 0}
    # (b) reflexivity, (c) documented meaning, (d) issubclass on classes
    for i, e in enumerate(encs):
        if subs[i][i] != 1:
            ctx.violation("subclasscheck(t, t) is false", L.pair_case(case, i, i))
        for c in range(w.n):
            exp = py_denot(w, e, c)
            got = L.impl_sub(w.classes[c], objs[i])
            stats["denot_checks"] += 1
            stats["nontrivial"].add(hash(json.dumps([case["spec"], e, c])) if e[0] != 0 else 0)
            if got != int(exp):
                ctx.violation(f"subclasscheck(class {c}, T) = {got} but T's documented meaning gives {exp}", {"spec": case["spec"], "preds": case["preds"], "types": [[0, c], e]})
            if bool(mden[i][1][c]) != exp and hyp and not broken:
                ctx.violation(f"model denot disagrees with the harness's reading of the documentation for class {c}", {"spec": case["spec"], "preds": case["preds"], "types": [[0, c], e]}, kind="spec")
    # (e) generic covariance, from the implementation's own matrix
    for i, a in enumerate(encs):
        for j, b in enumerate(encs):
            if a[0] == 1 and b[0] == 1 and i != j and objs[i] != objs[j]:
                exp = issubclass(w.classes[a[1]], w.classes[b[1]]) and len(a) == len(b) and all(
                    subs[idx[json.dumps(x)]][idx[json.dumps(y)]] == 1 for x, y in zip(a[2:], b[2:])
                    if json.dumps(x) in idx and json.dumps(y) in idx)
                known = all(json.dumps(x) in idx and json.dumps(y) in idx for x, y in zip(a[2:], b[2:]))
                if known:
                    stats["generic_checks"] += 1
                    if subs[i][j] != int(exp):
                        ctx.violation(f"generic alias subtyping is not argument-wise covariant: got {subs[i][j]} expected {exp}", L.pair_case(case, i, j))
    # (f) transitivity on all triples
    for i in range(n):
        for j in range(n):
            if i == j or subs[i][j] != 1:
                continue
            for k in range(n):
                if k == j or subs[j][k] != 1:
                    continue
                stats["triples"] += 1
                in_dom = encs[i][0] == 0 and encs[j][0] == 0 and down_closed(encs[k]) and hyp
                stats["triples_in_domain"] += int(in_dom)
                if subs[i][k] != 1:
                    if in_dom:
                        ctx.violation("transitivity fails inside the proved domain", L.triple_case(case, i, j, k))
                    elif encs[i][0] == 0 and encs[j][0] == 0 and not down_closed(encs[k]):
                        ctx.known_hit("KF-25", L.triple_case(case, i, j, k))
                    elif encs[i][0] != 0 or encs[j][0] != 0:
                        ctx.known_hit("KF-22", L.triple_case(case, i, j, k))
                    else:
                        stats["trans_fail_outside_hypotheses"] += 1
    # (g) applicability through a real dispatch, on a sample
    for i, e in enumerate(encs[:8]):
        if e[0] in (8, 9, 10, 11) or any(x in json.dumps(e) for x in ()):
            continue
        if "[8," in json.dumps(e) or "[9," in json.dumps(e) or "[10," in json.dumps(e) or "[11," in json.dumps(e):
            continue
        for c in w.user_ids():
            if case["spec"][c - w.nb]["kind"] != "plain":
                continue
            r = dispatch_applicable(w, objs[i], w.classes[c])
            if r is None:
                continue
            stats["dispatch_checks"] += 1
            if r != py_denot(w, e, c):
                ctx.violation(f"a method declared on T {'ran' if r else 'did not run'} for an instance of class {c}, against T's documented meaning", {"spec": case["spec"], "preds": case["preds"], "types": [[0, c], e]})
    if len(samples) < 3:
        samples.append({"T": encs[0], "classes": w.n, "subclasscheck_row_impl": [L.impl_sub(w.classes[c], objs[0]) for c in range(w.n)], "denot_model": mden[0][1]})


_defer_ids = [0]


def check_deferred(ctx, stats):
    """Deferred["pkg.Cls"]: a class of an external package that is not imported yet. Documented meaning: a class
    matches when it belongs to that package (first component of its module path) and is a subclass of the named class.
    Model: a class predicate (Chk) true exactly on those classes."""
    import os, sys, tempfile, importlib, shutil
    from ovld.types import Deferred
    from ovld import Ovld
    _defer_ids[0] += 1
    pkg = f"vdeferpkg{os.getpid()}_{_defer_ids[0]}"
    root = tempfile.mkdtemp(prefix="vdefer_", dir="/tmp")
    try:
        depth = ctx.rng.choice([0, 1, 2])
        sub = ["core", "frame"][:depth]
        d = os.path.join(root, pkg, *sub)
        os.makedirs(d)
        p = os.path.join(root, pkg)
        modpath = pkg
        for part in sub:
            open(os.path.join(p, "__init__.py"), "a").close()
            p = os.path.join(p, part)
            modpath += "." + part
        # the classes live in the innermost module; the package re-exports them (the usual layout)
        with open(os.path.join(p, "__init__.py"), "a") as f:
            f.write("class Frame:\n    pass\nclass WideFrame(Frame):\n    pass\nclass Other:\n    pass\n")
        if sub:
            with open(os.path.join(root, pkg, "__init__.py"), "a") as f:
                f.write(f"from {modpath} import Frame, WideFrame, Other\n")
        sys.path.insert(0, root)
        T = Deferred[f"{pkg}.Frame"]           # created BEFORE the package is imported
        mod = importlib.import_module(pkg)

        class Local(mod.Frame):                # subclass defined outside the package
            pass
        cases = [(mod.Frame, True), (mod.WideFrame, True), (mod.Other, False), (Local, False), (int, False), (object, False)]
        f = Ovld()

        def m(x):
            return "deferred"
        m.__annotations__ = {"x": T}

        def g(x):
            return "object"
        g.__annotations__ = {"x": object}
        f.register(m)
        f.register(g)
        for cls, exp in cases:
            got = L.impl_sub(cls, T)
            stats["evaluations"] += 1
            stats["deferred_checks"] += 1
            if got != int(exp):
                ctx.violation(f"subclasscheck({cls.__module__}.{cls.__name__}, Deferred[...Frame]) = {got}, documented meaning gives {exp} (classes live {depth} level(s) below the package root)",
                              {"deferred": True, "module_depth": depth, "class": cls.__name__})
                return
            try:
                inst = cls()
            except TypeError:
                continue
            ran = f(inst)
            if (ran == "deferred") != exp:
                ctx.violation(f"a method declared on Deferred[...Frame] {'ran' if ran == 'deferred' else 'did not run'} for an instance of {cls.__name__}",
                              {"deferred": True, "module_depth": depth, "class": cls.__name__})
                return
    finally:
        if root in sys.path:
            sys.path.remove(root)
        for k in [k for k in sys.modules if k.startswith(pkg)]:
            del sys.modules[k]
        shutil.rmtree(root, ignore_errors=True)


def check_dataclass(ctx, stats):
    """ovld.types.Dataclass ('is a dataclass'), a type outside the model: property oracle alone -- subclasscheck and a
    real dispatch against dataclasses.is_dataclass, over decorated classes and UNDECORATED subclasses of them"""
    import dataclasses
    import ovld as _ov
    from ovld.types import Dataclass
    from ovld.mro import subclasscheck

    @dataclasses.dataclass
    class P:
        x: int = 0

    class Q(P):
        pass

    class R(Q):
        pass

    @dataclasses.dataclass
    class S(Q):
        y: int = 0

    class N:
        pass
    f = _ov.Ovld(name="f")

    def m_dc(x: Dataclass):
        return "dataclass"

    def m_obj(x: object):
        return "other"
    f.register(m_dc)
    f.register(m_obj)
    for cls in (P, Q, R, S, N, int):
        exp = dataclasses.is_dataclass(cls)
        got = bool(subclasscheck(cls, Dataclass))
        stats["evaluations"] += 2
        stats["dataclass_checks"] = stats.get("dataclass_checks", 0) + 2
        if got != exp:
            ctx.violation(f"subclasscheck({cls.__name__}, Dataclass) is {got} but dataclasses.is_dataclass says {exp}", {"dataclass": cls.__name__})
            return
        try:
            r = f(cls() if cls is not int else 3)
        except TypeError as e:
            r = "TypeError:" + str(e)[:40]
        if r != ("dataclass" if exp else "other"):
            ctx.violation(f"an instance of {cls.__name__} is dispatched to {r!r} (is_dataclass: {exp})", {"dataclass": cls.__name__, "dispatch": True})
            return


def run(ctx):
    stats = collections.Counter()
    stats = {"evaluations": 0, "worlds": 0, "worlds_hyp": 0, "denot_checks": 0, "generic_checks": 0, "triples": 0,
             "triples_in_domain": 0, "dispatch_checks": 0, "trans_fail_outside_hypotheses": 0, "nontrivial": set(), "deferred_checks": 0}
    samples = []
    n_worlds = 8 if ctx.quick() else 300
    cases = []
    for _ in range(n_worlds):
        case = L.gen_world_case(ctx.rng, n_types=22 if ctx.quick() else 30)
        cases.append(case)
        check_case(ctx, case, stats, samples)
        check_deferred(ctx, stats)
        check_dataclass(ctx, stats)
        if len(ctx.violations) > 20:
            break
    return {"evaluations": stats["evaluations"] + stats["denot_checks"], "distinct_nontrivial": len(stats["nontrivial"]),
            "rule": "random class worlds x type corpus to depth 3; subclasscheck over all ordered pairs (impl vs model); every (class, type) pair against the documented meaning (harness reading of the docs, and the Coq spec denot); all triples for transitivity; a (class,type) check is non-trivial when the type is not a plain class; distinct by (world, type, class)",
            "samples": samples, "worlds": stats["worlds"], "worlds_satisfying_theorem_hypotheses": stats["worlds_hyp"],
            "documented_meaning_checks": stats["denot_checks"], "generic_covariance_checks": stats["generic_checks"],
            "chained_triples": stats["triples"], "chained_triples_in_proved_domain": stats["triples_in_domain"],
            "dispatch_level_applicability_checks": stats["dispatch_checks"], "deferred_class_checks": stats["deferred_checks"],
            "transitivity_failures_in_worlds_outside_hypotheses": stats["trans_fail_outside_hypotheses"],
            "traces_validated_against_impl": stats["evaluations"]}


def replay(ctx, payload):
    case = payload["case"]
    w, objs, ords, subs = L.eval_impl(case)
    res = model.run_cases([L.model_case(w, case)])[0]
    print(json.dumps({"impl_subclasscheck": subs, "model_subclasscheck": res[1]}))
    n = len(objs)
    if any(subs[i][j] != res[1][i][j] for i in range(n) for j in range(n)):
        return True
    if n == 3:
        return subs[0][1] == 1 and subs[1][2] == 1 and subs[0][2] != 1
    if n == 2 and case["types"][0][0] == 0:
        return subs[0][1] != int(py_denot(w, case["types"][1], case["types"][0][1]))
    return False


def replay_finding(ctx, e):
    wit = e["witness"]
    w, objs, ords, subs = L.eval_impl(wit)
    return subs[0][1] == 1 and subs[1][2] == 1 and subs[0][2] == 0
