(* Dep.v — value level: isinstance for every type of the closure (the __instancecheck__ of each constructor),
   the checks EMITTED by the codegen of each type (dependent.py / types.py codegen methods), the strategy selection of
   recode.generate_dependent_dispatch (if-chain / lookup table / counting), and resolution with value-dependent ranks
   (typemap.resolve + wrap_dependent: dispatcher per rank, fall-through to the next rank).
   Follows /repo after the repairs of KF-12, KF-14, KF-15, KF-16, KF-50, KF-51 (see findings/). *)
From Coq Require Import ZArith List Bool Arith.
Import ListNotations.
From OvldV Require Import Model.Order Model.Ty Model.Resolve.

(* fixed class ids of the builtins (vlib/world.py BUILTINS) *)
Definition C_OBJECT := 0. Definition C_INT := 2. Definition C_STR := 3. Definition C_BOOL := 4.
Definition C_LIST := 5. Definition C_TUPLE := 6. Definition C_DICT := 7. Definition C_FLOAT := 11. Definition C_NONE := 12.

Definition class_of (v : val) : nat :=
  match v with
  | VInt _ => C_INT | VStr _ => C_STR | VBool _ => C_BOOL | VNone => C_NONE
  | VTup _ => C_TUPLE | VLst _ => C_LIST | VDict _ => C_DICT | VObj c _ => c
  end.

(* ---- the built-in value predicates; None = the Python code raises on this value ---- *)
Fixpoint is_prefix (p s : list Z) : bool :=
  match p, s with
  | [], _ => true
  | x :: ps, y :: ss => Z.eqb x y && is_prefix ps ss
  | _ :: _, [] => false
  end.

Definition is_suffix (p s : list Z) : bool := is_prefix (rev p) (rev s).

Fixpoint is_substr (p s : list Z) : bool :=
  is_prefix p s || match s with [] => false | _ :: r => is_substr p r end.

(* re.search for the patterns the harness uses: "^lit", "lit$", "lit" *)
Definition regex_search (pat s : list Z) : bool :=
  match pat with
  | 94%Z :: lit => is_prefix lit s
  | _ => match rev pat with
         | 36%Z :: rlit => is_suffix (rev rlit) s
         | _ => is_substr pat s
         end
  end.

Definition val_in (v : val) (l : list val) : bool := existsb (val_pyeq v) l.

Section Values.
  Variable sub : nat -> nat -> bool.
  Variable hasm : nat -> nat -> bool.
  Variable chk : nat -> nat -> bool.
  Variable utab : nat -> val -> bool.        (* truth table of user predicate f (f >= 10) *)

  Definition is_inst_cls (v : val) (c : nat) : bool := sub (class_of v) c.

  (* FuncDependentType.check: func(value, *parameters) *)
  Definition fn_check (f : nat) (ps : list (option val)) (v : val) : option bool :=
    match f with
    | 0 => match v, ps with VStr s, [Some (VStr p)] => Some (is_prefix p s) | VStr _, _ => None | _, _ => None end
    | 1 => match v, ps with VStr s, [Some (VStr p)] => Some (is_suffix p s) | _, _ => None end
    | 2 => match v with
           | VDict kvs => Some (forallb (fun p => match p with Some k => val_in k (map fst kvs) | None => false end) ps)
           | VLst l | VTup l => Some (forallb (fun p => match p with Some k => val_in k l | None => false end) ps)
           | VStr s => match ps with
                       | [] => Some true
                       | _ => if forallb (fun p => match p with Some (VStr _) => true | _ => false end) ps
                              then Some (forallb (fun p => match p with Some (VStr k) => is_substr k s | _ => false end) ps)
                              else None
                       end
           | _ => match ps with [] => Some true | _ => None end          (* `k in 5` raises TypeError *)
           end
    | 3 => match v, ps with VStr s, [Some (VStr p)] => Some (regex_search p s) | _, _ => None end
    | _ => Some (utab f v)
    end.

  (* isinstance(v, T) -- the __instancecheck__ of each constructor; None = raises *)
  Fixpoint instance (t : ty) (v : val) {struct t} : option bool :=
    let fix any_inst (l : list ty) : option bool :=
      match l with
      | [] => Some false
      | x :: r => match instance x v with None => None | Some true => Some true | Some false => any_inst r end
      end in
    let fix all_inst (l : list ty) : option bool :=
      match l with
      | [] => Some true
      | x :: r => match instance x v with None => None | Some false => Some false | Some true => all_inst r end
      end in
    let fix all2_inst (l : list ty) (vs : list val) : option bool :=
      match l, vs with
      | x :: r, y :: ys => match instance x y with None => None | Some false => Some false | Some true => all2_inst r ys end
      | _, _ => Some true
      end in
    let and_bound (b : ty) (k : option bool) : option bool :=
      match instance b v with None => None | Some false => Some false | Some true => k end in
    match t with
    | Cls c => Some (is_inst_cls v c)
    | Gen _ _ => None                                   (* isinstance(x, list[int]) raises TypeError *)
    | Uni ts => any_inst ts
    | Int ts => all_inst ts
    | Exa _ c => Some (Nat.eqb (class_of v) c)
    | Strict _ c => Some (sub (class_of v) c && negb (Nat.eqb (class_of v) c))
    | HasM _ m => Some (hasm (class_of v) m)
    | Chk _ p => Some (chk p (class_of v))
    | Lit vs b => and_bound b (Some (val_in v vs))
    | Fn f ps b => and_bound b (fn_check f ps v)
    | TFn f ts b =>
        and_bound b
          (let is_empty := match v with
                           | VLst [] | VTup [] | VStr [] | VDict [] => true
                           | _ => false
                           end in
           let first_iter := match v with                 (* first item when iterating *)
                             | VLst (x :: _) | VTup (x :: _) => Some x
                             | VStr (ch :: _) => Some (VStr [ch])
                             | VDict ((k, _) :: _) => Some k
                             | _ => None
                             end in
           match f, ts with
           | 4, [t1] =>                                   (* SequenceFastCheck: not value or isinstance(value[0], typ) *)
               if is_empty then Some true else
               match v with
               | VLst (x :: _) | VTup (x :: _) => instance t1 x
               | VStr (ch :: _) => instance t1 (VStr [ch])
               | VNone => Some true                      (* not None *)
               | _ => None
               end
           | 5, [t1] =>                                   (* CollectionFastCheck: first iterated item *)
               if is_empty then Some true else
               match first_iter with Some x => instance t1 x | None => None end
           | 6, [t1; t2] =>                               (* MappingFastCheck *)
               if is_empty then Some true else
               match v with
               | VNone => Some true
               | VDict ((k, x) :: _) =>
                   match instance t1 k with None => None | Some false => Some false | Some true => instance t2 x end
               | _ => None
               end
           | _, _ => None
           end)
    | Prod ts b =>
        and_bound b
          (match v with
           | VTup vs => if Nat.eqb (length vs) (length ts) then all2_inst ts vs else Some false
           | _ => Some false
           end)
    end.

  (* ---- the check EMITTED for a type (generate_checking_code / codegen): no bound test for dependent types ---- *)
  Fixpoint emit (t : ty) (v : val) {struct t} : option bool :=
    (* a member of a union / intersection: generate_checking_code(t, with_bound=True) -- since the repair of KF-14 a
       value-dependent member tests isinstance(value, bound) before its own condition *)
    let arm (x : ty) : option bool :=
      if is_dep x
      then match instance (dep_bound x) v with
           | None => None
           | Some false => Some false
           | Some true => emit x v
           end
      else emit x v in
    let fix any_e (l : list ty) : option bool :=
      match l with
      | [] => Some false
      | x :: r => match arm x with None => None | Some true => Some true | Some false => any_e r end
      end in
    let fix all_e (l : list ty) : option bool :=
      match l with
      | [] => Some true
      | x :: r => match arm x with None => None | Some false => Some false | Some true => all_e r end
      end in
    match t with
    | Cls c => Some (is_inst_cls v c)                    (* "isinstance({arg}, {this})" *)
    | Gen _ _ => None
    | Uni ts => any_e ts                                 (* " or ".join(...) *)
    | Int ts => all_e ts                                 (* " and ".join(...) *)
    | Exa _ _ | Strict _ _ | HasM _ _ | Chk _ _ => instance t v   (* MetaMC.codegen falls back to isinstance (repair of KF-50) *)
    | Lit vs _ => Some (val_in v vs)                     (* "({arg} == {p})" / "({arg} in {ps})" *)
    | Fn f ps _ => fn_check f ps v                       (* "{this}.check({arg})", Regexp: rx.search *)
    | TFn f ts _ => instance (TFn f ts (Cls C_OBJECT)) v  (* "{this}.check({arg})": the check itself, no bound test *)
    | Prod ts _ =>                                        (* "len({arg}) == n and isinstance({arg}[i], p_i) ..." *)
        let len := match v with
                   | VTup vs | VLst vs => Some (length vs)
                   | VStr s => Some (length s)
                   | VDict kvs => Some (length kvs)
                   | _ => None                                            (* len(5) raises *)
                   end in
        match len with
        | None => None
        | Some n =>
            if negb (Nat.eqb n (length ts)) then Some false else
            match v with
            | VTup vs | VLst vs =>
                (fix go (l : list ty) (ws : list val) : option bool :=
                   match l, ws with
                   | x :: r, y :: ys => match instance x y with None => None | Some false => Some false | Some true => go r ys end
                   | _, _ => Some true
                   end) ts vs
            | VStr s =>                                                   (* "xb"[0] is "x" *)
                (fix go (l : list ty) (ws : list Z) : option bool :=
                   match l, ws with
                   | x :: r, y :: ys => match instance x (VStr [y]) with None => None | Some false => Some false | Some true => go r ys end
                   | _, _ => Some true
                   end) ts s
            | _ => match ts with [] => Some true | _ => None end          (* {...}[0]: KeyError *)
            end
        end
    end.
End Values.

(* is_dependent(t): a DependentType, or any of its __args__ is *)
Fixpoint ty_isdep (t : ty) : bool :=
  match t with
  | Lit _ _ | Fn _ _ _ | TFn _ _ _ | Prod _ _ => true
  | Gen _ a | Uni a | Int a => existsb ty_isdep a
  | _ => false
  end.

Definition meth_isdep (m : meth) : bool := existsb ty_isdep (m_pos m) || existsb (fun p => ty_isdep (snd p)) (m_kw m).

(* ---- generate_dependent_dispatch ---- *)
Inductive strategy : Type :=
| SKeyed (s : slot) (table : list (val * nat))   (* HANDLER = table.get(arg, FALLTHROUGH); later entries win *)
| SChain                                          (* if c1: return H1 ... return FALLTHROUGH *)
| SCount.                                         (* exactly one match, none -> fall through, several -> ambiguity error *)

Definition ty_kind (t : ty) : nat :=              (* type(t): distinguishes the DependentType subclasses *)
  match t with
  | Cls _ => 0 | Gen _ _ => 1 | Uni _ => 2 | Int _ => 2 | Exa _ _ | Strict _ _ | HasM _ _ | Chk _ _ => 2
  | Lit _ _ => 10 | Prod _ _ => 11 | Fn f _ _ => 20 + f | TFn f _ _ => 20 + f
  end.

Definition slot_of (m : meth) (s : slot) : ty := match slot_ty m s with Some t => t | None => Cls 0 end.

(* the two decisions of generate_dependent_dispatch that pick the strategy.  For one position whose types are all
   Literal-like ("keyable"): distinct = number of different keys, nkeyed = number of (key, handler) pairs, nfeat = number of
   different types at the position -- a shared key forces counting, fewer than four types the if-chain, else the table.
   At the end: a table if a key expression survived, else the if-chain if the handlers are exclusive, else counting. *)
Inductive kchoice := KCount | KChain | KTable.
Definition keyable_decide (distinct nkeyed nfeat : nat) : kchoice :=
  if negb (Nat.eqb distinct nkeyed) then KCount else if Nat.ltb nfeat 4 then KChain else KTable.
Definition final_choice (haskey exclusive : bool) : kchoice :=
  if haskey then KTable else if exclusive then KChain else KCount.

(* strategy selection: mirrors the loop over the positions of the key (later positions overwrite the flags),
   then the "more than one relevant position" reset, then the single-handler shortcut *)
Definition choose_strategy (hs : list meth) (slots : list slot) : strategy :=
  let step (acc : bool * option (slot * list (val * nat))) (s : slot) :=
    let featured := dedup_first (map (fun h => slot_of h s) hs) in
    if Nat.eqb (length featured) (length hs) then
      match featured with
      | [] => acc
      | f0 :: _ =>
          if forallb (fun t => Nat.eqb (ty_kind t) (ty_kind f0)) featured then
            match f0 with
            | Lit _ _ =>
                (* keyable: {key: h for key in get_keys()}, get_keys = all the values (repair of KF-15) *)
                let all_keys := map (fun h => match slot_of h s with
                                              | Lit vs _ => map (fun v => (v, m_id h)) vs
                                              | _ => []
                                              end) hs in
                let keyed := concat all_keys in
                let distinct := length (fold_left (fun seen kv => if val_in (fst kv) seen then seen else fst kv :: seen) keyed []) in
                match keyable_decide distinct (length keyed) (length featured) with
                | KCount => (false, None)                (* a key shared by several handlers: counting (repair of KF-16) *)
                | KChain => (true, None)
                | KTable => (fst acc, Some (s, keyed))
                end
            | _ => (false, snd acc)       (* exclusive_type is False for every built-in dependent type *)
            end
          else acc
      end
    else acc in
  let '(exclusive, keyed) := fold_left step slots (false, None) in
  let multi := existsb (fun h => Nat.ltb 1 (length (filter (fun s => ty_isdep (slot_of h s)) slots))) hs in
  let keyed := if multi then None else keyed in
  let exclusive := exclusive || Nat.eqb (length hs) 1 in
  match keyed with
  | Some (s, tab) => match final_choice true exclusive with KTable => SKeyed s tab | KChain => SChain | KCount => SCount end
  | None => match final_choice false exclusive with KTable | KChain => SChain | KCount => SCount end
  end.

Inductive dout : Type :=
| DRun (m : nat)          (* a method body is entered *)
| DNoMethod
| DAmbig (ms : list nat)
| DExc                    (* an exception escapes from a generated check (e.g. AttributeError) *)
| DCycle | DFuel.

Section Dispatch.
  Variable sub : nat -> nat -> bool.
  Variable hasm : nat -> nat -> bool.
  Variable chk : nat -> nat -> bool.
  Variable sub_fresh : nat -> bool.
  Variable utab : nat -> val -> bool.

  Notation emit := (emit sub hasm chk utab).

  Definition arg_at (args : list (slot * val)) (s : slot) : val :=
    match find (fun p => slot_eqb (fst p) s) args with Some p => snd p | None => VNone end.

  (* conjunction of the emitted checks of handler h over its dependent positions, left to right, short-circuit *)
  Fixpoint conj (h : meth) (slots : list slot) (args : list (slot * val)) : option bool :=
    match slots with
    | [] => Some true
    | s :: r =>
        if ty_isdep (slot_of h s)
        then match emit (slot_of h s) (arg_at args s) with
             | None => None
             | Some false => Some false
             | Some true => conj h r args
             end
        else conj h r args
    end.

  Fixpoint last_assoc (v : val) (tab : list (val * nat)) (acc : option nat) : option nat :=
    match tab with
    | [] => acc
    | (k, h) :: r => last_assoc v r (if val_pyeq k v then Some h else acc)
    end.

  (* one rank's dispatcher: Some (Some h) = handler h, Some None = fall through *)
  Inductive dres : Type := RHandler (h : nat) | RFall | RAmbig (l : list nat) | RExc.

  (* if c1: return H1 ... return FALLTHROUGH *)
  Fixpoint chain_go (slots : list slot) (args : list (slot * val)) (l : list meth) : dres :=
    match l with
    | [] => RFall
    | h :: r => match conj h slots args with
                | None => RExc
                | Some true => RHandler (m_id h)
                | Some false => chain_go slots args r
                end
    end.

  (* MATCHi = ...; SUMMATION = sum; one match -> that handler, none -> fall through, several -> ambiguity error *)
  Fixpoint count_go (all_ids : list nat) (slots : list slot) (args : list (slot * val)) (l : list meth) (acc : list nat) : dres :=
    match l with
    | [] => match acc with
            | [h] => RHandler h
            | [] => RFall
            | _ => RAmbig all_ids
            end
    | h :: r => match conj h slots args with
                | None => RExc
                | Some true => count_go all_ids slots args r (acc ++ [m_id h])
                | Some false => count_go all_ids slots args r acc
                end
    end.

  Definition dispatch_rank (hs : list meth) (slots : list slot) (args : list (slot * val)) : dres :=
    match choose_strategy hs slots with
    | SKeyed s tab => match last_assoc (arg_at args s) tab None with Some h => RHandler h | None => RFall end
    | SChain => chain_go slots args hs
    | SCount => count_go (map m_id hs) slots args hs []
    end.

  (* walking the ranks of a resolution with the argument values: typemap.resolve's funcs chain *)
  Fixpoint walk (ranks : list (list cand)) (slots : list slot) (args : list (slot * val)) (first : bool) : dout :=
    match ranks with
    | [] => DNoMethod
    | g :: rest =>
        let hs := map c_m g in
        if existsb meth_isdep hs then
          match dispatch_rank hs slots args with
          | RHandler h => DRun h
          | RAmbig l => DAmbig l
          | RExc => DExc
          | RFall => walk rest slots args false
          end
        else
          match g with
          | [c] => DRun (m_id (c_m c))
          | _ => DAmbig (map (fun c => m_id (c_m c)) g)   (* also when reached by fall-through (repair of KF-12) *)
          end
    end.

  Definition key_slot_list (k : key) : list slot := map fst (key_slots k).

  (* a direct call: resolve the key, then run the chain on the values *)
  Definition dcall (ms : list meth) (k : key) (args : list (slot * val)) : dout :=
    match mro sub hasm chk sub_fresh ms k with
    | Err ECycle => DCycle
    | Err EFuel => DFuel
    | Ok ranks => walk ranks (key_slot_list k) args true
    end.

  (* call_next from handler [caller] with these values: the entry stored under (code of caller, key) is the NEXT
     rank's function, whatever rank-mates the caller has (KF-08) *)
  Fixpoint ranks_after (ranks : list (list cand)) (caller : nat) : option (list (list cand)) :=
    match ranks with
    | [] => None
    | g :: rest => if existsb (fun c => Nat.eqb (m_id (c_m c)) caller) g then Some rest else ranks_after rest caller
    end.

  Definition dnext (ms : list meth) (caller : nat) (k : key) (args : list (slot * val)) : dout :=
    match mro sub hasm chk sub_fresh ms k with
    | Err ECycle => DCycle
    | Err EFuel => DFuel
    | Ok [] => DNoMethod
    | Ok ((g1 :: _) as ranks) =>
        if negb (existsb meth_isdep (map c_m g1)) && negb (Nat.eqb (length g1) 1)
        then DAmbig (map (fun c => m_id (c_m c)) g1)            (* self[real_tup] raises first *)
        else
        match ranks_after ranks caller with
        | None => walk ranks (key_slot_list k) args true        (* caller not a candidate: fresh lookup *)
        | Some rest =>
            match rest with
            | [] => DNoMethod
            | g :: _ =>
                if existsb meth_isdep (map c_m g) then walk rest (key_slot_list k) args false
                else match g with
                     | [c] => DRun (m_id (c_m c))
                     | _ => DAmbig (map (fun c => m_id (c_m c)) g)    (* remembered error under (code, key) *)
                     end
            end
        end
    end.
End Dispatch.
