(* Entry.v — the generated entry point of an ovld function (component "Entry", property C03).

   What is modelled, and where it lives in /repo/src/ovld:
     core.py    Signature.extract     -> [extract_from], [sig_req_pos], [sig_max_pos], [sig_req_names]
     core.py    Arginfo                -> [arginfo], [canonical], (is_complex: the flag [p_cx] of the parameter)
     core.py    ArgumentAnalyzer       -> [analyze] (add: counts, name<->position tables, the self check;
                                          compile: the two error cases and the six classification lists;
                                          lookup_for: [lookup_for])
     recode.py  generate_dispatch      -> [gen_entry]: a mini-AST of the generated function (parameter list
                                          with MISSING defaults and the / and * markers where the code puts
                                          them, KWARGS/TARGS statements, one early exit per optional positional,
                                          the final call); the early exits slice the positional parts
                                          lookup[:req+i] / posargs[:req+i+1] and keep the keyword parts (KF-02 repaired);
                                          a positional supplied by keyword beyond the omitted one is still dropped (KF-31)
     CPython    def-statement rules    -> [resolve_params] (markers -> kinds, SyntaxError cases)
     CPython    argument binding       -> [bind]
     CPython    execution of the body  -> [run_stmts] (interpreter of the mini-AST)
     typemap.py MultiTypeMap.mro       -> [admits] (arity / required-keyword filter, per-slot type test as a table)
     typemap.py __missing__, register  -> [lookup]: the empty-tuple branch returns [self.empty] (known finding KF-03)

   Names are abstract identifiers: user parameter names are naturals, the generated names ARG<n> and self
   are separate constructors.  (The generator's own identifiers -- method, type, KWARGS, TARGS, OVLD,
   MISSING -- are assumed not to be used as parameter names; see vlib/props/c03.py ASSUMPTIONS.)

   Definitions only; proofs are in Proofs/Entry*.v. *)
From Coq Require Import ZArith List Bool Arith.
Import ListNotations.

(* ---------- method signatures as data ---------- *)
Inductive pkind : Type := PosOnly | PosKw | KwOnly.

Record param : Type := mkParam {
  p_kind : pkind;
  p_name : nat;          (* identifier of the parameter's name *)
  p_req : bool;          (* no default value *)
  p_ann : nat;           (* identifier of the annotation (types are another component's job) *)
  p_cx : bool }.         (* Arginfo.is_complex: the annotation is a builtin types.GenericAlias (type[...]) *)

Record msig : Type := mkSig {
  m_self : bool;               (* first parameter is called self (it is not in m_params) *)
  m_params : list param;
  m_prio : Z }.

Definition kind_eqb (a b : pkind) : bool :=
  match a, b with PosOnly, PosOnly | PosKw, PosKw | KwOnly, KwOnly => true | _, _ => false end.
Definition is_positional (p : param) : bool := negb (kind_eqb (p_kind p) KwOnly).

(* ---------- Arginfo / Signature.extract ---------- *)
Inductive canon : Type := CPos (p : nat) | CName (n : nat).
Definition canon_eqb (a b : canon) : bool :=
  match a, b with
  | CPos x, CPos y => Nat.eqb x y
  | CName x, CName y => Nat.eqb x y
  | _, _ => false
  end.
Definition is_cpos (c : canon) : bool := match c with CPos _ => true | CName _ => false end.

Record arginfo : Type := mkArg {
  a_pos : option nat;
  a_name : option nat;
  a_req : bool;
  a_cx : bool }.

Definition canonical (a : arginfo) : canon :=
  match a_pos a with
  | Some p => CPos p
  | None => CName (match a_name a with Some n => n | None => 0 end)
  end.

(* the loop of Signature.extract: [i] is the enumerate index (minus one for methods with self) *)
Fixpoint extract_from (i : nat) (ps : list param) : list arginfo :=
  match ps with
  | [] => []
  | p :: r =>
      (match p_kind p with
       | PosOnly => mkArg (Some i) None (p_req p) (p_cx p)
       | PosKw => mkArg (Some i) (Some (p_name p)) (p_req p) (p_cx p)
       | KwOnly => mkArg None (Some (p_name p)) (p_req p) (p_cx p)
       end) :: extract_from (S i) r
  end.
Definition sig_arginfo (s : msig) : list arginfo := extract_from 0 (m_params s).

Definition sig_pos_params (s : msig) : list param := filter is_positional (m_params s).
Definition sig_kw_params (s : msig) : list param := filter (fun p => negb (is_positional p)) (m_params s).
Definition sig_max_pos (s : msig) : nat := length (sig_pos_params s).
Definition sig_req_pos (s : msig) : nat := length (filter p_req (sig_pos_params s)).
Definition sig_req_names (s : msig) : list nat := map p_name (filter p_req (sig_kw_params s)).
Definition sig_kw_names (s : msig) : list nat := map p_name (sig_kw_params s).

(* ---------- small list utilities ---------- *)
Definition memb {X} (e : X -> X -> bool) (x : X) (l : list X) : bool := existsb (e x) l.

Fixpoint dedup {X} (e : X -> X -> bool) (l : list X) : list X :=     (* keeps first occurrences, in order *)
  match l with
  | [] => []
  | x :: r => x :: filter (fun y => negb (e x y)) (dedup e r)
  end.

Fixpoint takewhile {X} (f : X -> bool) (l : list X) : list X :=
  match l with
  | [] => []
  | x :: r => if f x then x :: takewhile f r else []
  end.

Definition onat_eqb (a b : option nat) : bool :=
  match a, b with
  | Some x, Some y => Nat.eqb x y
  | None, None => true
  | _, _ => false
  end.

Fixpoint list_max (l : list nat) : nat := match l with [] => 0 | x :: r => Nat.max x (list_max r) end.

(* ---------- ArgumentAnalyzer ---------- *)
Inductive ident : Type := IUser (n : nat) | IArg (n : nat) | ISelf.      (* x / ARG<n> / self *)
Definition ident_eqb (a b : ident) : bool :=
  match a, b with
  | IUser x, IUser y => Nat.eqb x y
  | IArg x, IArg y => Nat.eqb x y
  | ISelf, ISelf => true
  | _, _ => false
  end.

Inductive lk : Type := LType | LSubtler.        (* type(x) / subtler_type(x) *)

Inductive an_error : Type :=
| ErrSelfMix      (* add: "Some, but not all registered methods define `self`" *)
| ErrDiffPos      (* compile: "declared in different positions by different methods" *)
| ErrPosKw.       (* compile: "declared in a positional and keyword setting by different methods" *)

Record analysis : Type := mkAn {
  an_self : bool;
  an_spr : list ident;     (* strict_positional_required *)
  an_spo : list ident;     (* strict_positional_optional *)
  an_pr : list ident;      (* positional_required *)
  an_po : list ident;      (* positional_optional *)
  an_kr : list nat;        (* keyword_required *)
  an_ko : list nat;        (* keyword_optional *)
  an_cx : list canon }.    (* complex_transforms *)

Section Analyzer.
  Variable sigs : list msig.

  Definition all_infos : list arginfo := flat_map sig_arginfo sigs.
  Definition total : nat := length sigs.

  (* counts[c] = [number of required declarations, number of declarations] *)
  Definition cnt_req (c : canon) : nat :=
    length (filter (fun a => canon_eqb (canonical a) c && a_req a) all_infos).
  Definition cnt_all (c : canon) : nat :=
    length (filter (fun a => canon_eqb (canonical a) c) all_infos).
  Definition req_all (c : canon) : bool := Nat.eqb (cnt_req c) total.

  (* name_to_positions: names in first-insertion order, each with its set of canonical keys *)
  Definition names_order : list nat :=
    dedup Nat.eqb (flat_map (fun a => match a_name a with Some n => [n] | None => [] end) all_infos).
  Definition canons_of (n : nat) : list canon :=
    dedup canon_eqb (map canonical (filter (fun a => onat_eqb (a_name a) (Some n)) all_infos)).

  (* position_to_names: positions are 0 .. npos-1 (every signature numbers its positionals from 0) *)
  Definition npos : nat := list_max (map sig_max_pos sigs).
  Definition names_at (p : nat) : list (option nat) :=
    dedup onat_eqb (map a_name (filter (fun a => onat_eqb (a_pos a) (Some p)) all_infos)).
  Definition p_to_n : list (list (option nat)) := map names_at (seq 0 npos).

  Definition single_named (l : list (option nat)) : bool :=
    match l with [Some _] => true | _ => false end.
  (* positional = the maximal suffix of positions that carry exactly one name; the rest is strict *)
  Definition strict_len : nat := npos - length (takewhile single_named (rev p_to_n)).

  Definition name_at (p : nat) : nat :=
    match names_at p with Some n :: _ => n | _ => 0 end.
  Definition pid (p : nat) : ident := if p <? strict_len then IArg (S p) else IUser (name_at p).

  Definition name_error (n : nat) : option an_error :=
    let cs := canons_of n in
    if Nat.eqb (length cs) 1 then None
    else if forallb is_cpos cs then Some ErrDiffPos else Some ErrPosKw.

  Fixpoint first_error (ns : list nat) : option an_error :=
    match ns with
    | [] => None
    | n :: r => match name_error n with Some e => Some e | None => first_error r end
    end.

  Definition self_mixed : bool :=
    match sigs with
    | [] => false
    | s :: r => existsb (fun t => negb (Bool.eqb (m_self t) (m_self s))) r
    end.

  Definition is_kw_name (n : nat) : bool :=
    match canons_of n with [CName _] => true | _ => false end.
  Definition keywords : list nat := filter is_kw_name names_order.

  Definition analyze : an_error + analysis :=
    if self_mixed then inl ErrSelfMix
    else match first_error names_order with
         | Some e => inl e
         | None =>
             let strict := seq 0 strict_len in
             let posl := seq strict_len (npos - strict_len) in
             inr {| an_self := match sigs with s :: _ => m_self s | [] => false end;
                    an_spr := map pid (filter (fun p => req_all (CPos p)) strict);
                    an_spo := map pid (filter (fun p => negb (req_all (CPos p))) strict);
                    an_pr := map pid (filter (fun p => req_all (CPos p)) posl);
                    an_po := map pid (filter (fun p => negb (req_all (CPos p))) posl);
                    an_kr := filter (fun n => req_all (CName n)) keywords;
                    an_ko := filter (fun n => negb (req_all (CName n))) keywords;
                    an_cx := map canonical (filter a_cx all_infos) |}
         end.
End Analyzer.

Definition lookup_for (a : analysis) (c : canon) : lk :=
  if memb canon_eqb c (an_cx a) then LSubtler else LType.

(* ---------- the mini-AST of the generated entry point ---------- *)
Inductive pitem : Type :=
| PArg (x : ident) (dflt : bool)       (* x   or   x=MISSING *)
| PSlash                               (* /  *)
| PStar.                               (* *  *)

Inductive kitem : Type :=               (* elements of the lookup tuple *)
| KPosI (f : lk) (x : ident)            (* f(x) *)
| KNamedI (n : nat) (f : lk) (x : ident) (* ('n', f(x)) *)
| KTargs.                               (* *TARGS *)

Inductive aitem : Type :=               (* arguments of the forwarded call *)
| APosI (x : ident)                     (* x *)
| AKwI (n : nat) (x : ident)            (* n=x *)
| AKwargs.                              (* **KWARGS *)

Record call : Type := mkCall { c_key : list kitem; c_args : list aitem }.
   (* method = OVLD.map[(c_key)] ; return method(c_args) *)

Inductive stmt : Type :=
| SInitK                                (* KWARGS = {} *)
| SInitT                                (* TARGS = [] *)
| SKwOpt (t : ident) (kn : nat) (v : ident) (tn : nat) (f : lk) (ta : ident)
     (* if t is not MISSING: KWARGS['kn'] = v ; TARGS.append(('tn', f(ta))) *)
| SExit (x : ident) (c : call)          (* if x is MISSING: <c> *)
| SCall (c : call).                     (* <c> *)

Record entry : Type := mkEntry { e_params : list pitem; e_body : list stmt }.

(* ---------- generate_dispatch ---------- *)
Fixpoint mapi_from {X Y} (i : nat) (f : nat -> X -> Y) (l : list X) : list Y :=
  match l with [] => [] | x :: r => f i x :: mapi_from (S i) f r end.

Definition gen_entry (a : analysis) : entry :=
  let spr := an_spr a in let spo := an_spo a in
  let pr := an_pr a in let po := an_po a in
  let kr := an_kr a in let ko := an_ko a in
  let selfp := if an_self a then [PArg ISelf false] else [] in
  let selfa := if an_self a then [APosI ISelf] else [] in
  let s1 := spr ++ spo in
  let s2 := pr ++ po in
  (* "if name in spr: args.append(name) else: args.append(name=MISSING)" *)
  let args1 := map (fun x => PArg x (negb (memb ident_eqb x spr))) s1 in
  let args2 := map (fun x => PArg x (negb (memb ident_eqb x pr))) s2 in
  (* lookup_for(i) with the running index i over spr+spo+pr+po *)
  let look_pos := mapi_from 0 (fun i x => KPosI (lookup_for a (CPos i)) x) (s1 ++ s2) in
  let slash1 := (length po <=? 1) && negb (match s1 with [] => true | _ => false end) in
  let slash2 := 1 <? length po in
  let star := negb (match kr ++ ko with [] => true | _ => false end) in
  let has_ko := negb (match ko with [] => true | _ => false end) in
  let params :=
    selfp ++ args1 ++ (if slash1 then [PSlash] else []) ++ args2 ++ (if slash2 then [PSlash] else [])
    ++ (if star then [PStar] else [])
    ++ map (fun n => PArg (IUser n) false) kr ++ map (fun n => PArg (IUser n) true) ko in
  let posargs :=      (* without the slot 0 that holds "self" or "" *)
    map APosI (s1 ++ s2) ++ map (fun n => AKwI n (IUser n)) kr ++ (if has_ko then [AKwargs] else []) in
  let lookup :=
    look_pos ++ map (fun n => KNamedI n (lookup_for a (CName n)) (IUser n)) kr
    ++ (if has_ko then [KTargs] else []) in
  let inits := if has_ko then [SInitK; SInitT] else [] in
  let kwopts := map (fun n => SKwOpt (IUser n) n (IUser n) n (lookup_for a (CName n)) (IUser n)) ko in
  let req := length (spr ++ pr) in
  let np := length (s1 ++ s2) in       (* npos: number of positional parameters, strict + named *)
  (* lookup[: req + i] + lookup[npos :], posargs[: req + i + 1] + posargs[npos + 1 :] (slot 0 is self or ""):
     the positionals before the omitted one, and all the keyword parts (repair of KF-02) *)
  let exits := mapi_from 0 (fun i x => SExit x (mkCall (firstn (req + i) lookup ++ skipn np lookup)
                                                       (selfa ++ firstn (req + i) posargs ++ skipn np posargs)))
                         (spo ++ po) in
  mkEntry params (inits ++ kwopts ++ exits ++ [SCall (mkCall lookup (selfa ++ posargs))]).

(* ---------- CPython: the def statement (markers -> parameter kinds; None = SyntaxError) ---------- *)
Record eparam : Type := mkEP { ep_kind : pkind; ep_id : ident; ep_dflt : bool }.

Fixpoint take_args (l : list pitem) : list (ident * bool) * list pitem :=
  match l with
  | PArg x d :: r => let (a, t) := take_args r in ((x, d) :: a, t)
  | _ => ([], l)
  end.

Definition with_kind (k : pkind) (l : list (ident * bool)) : list eparam :=
  map (fun xd => mkEP k (fst xd) (snd xd)) l.

(* "parameter without a default follows parameter with a default" *)
Fixpoint defaults_ok (seen : bool) (l : list eparam) : bool :=
  match l with
  | [] => true
  | p :: r => if ep_dflt p then defaults_ok true r else negb seen && defaults_ok seen r
  end.

Fixpoint nodupb {X} (e : X -> X -> bool) (l : list X) : bool :=
  match l with [] => true | x :: r => negb (memb e x r) && nodupb e r end.

Definition is_nil {X} (l : list X) : bool := match l with [] => true | _ => false end.

Definition split_params (l : list pitem) : option (list eparam * list eparam) :=   (* positional, keyword-only *)
  let (a1, r1) := take_args l in
  match r1 with
  | [] => Some (with_kind PosKw a1, [])
  | PSlash :: r2 =>
      if is_nil a1 then None
      else let (a2, r3) := take_args r2 in
           match r3 with
           | [] => Some (with_kind PosOnly a1 ++ with_kind PosKw a2, [])
           | PStar :: r4 =>
               let (a3, r5) := take_args r4 in
               if is_nil a3 || negb (is_nil r5) then None
               else Some (with_kind PosOnly a1 ++ with_kind PosKw a2, with_kind KwOnly a3)
           | _ => None
           end
  | PStar :: r4 =>
      let (a3, r5) := take_args r4 in
      if is_nil a3 || negb (is_nil r5) then None
      else Some (with_kind PosKw a1, with_kind KwOnly a3)
  | PArg _ _ :: _ => None
  end.

Definition resolve_params (l : list pitem) : option (list eparam) :=
  match split_params l with
  | None => None
  | Some (pp, kk) =>
      if defaults_ok false pp && nodupb ident_eqb (map ep_id (pp ++ kk)) then Some (pp ++ kk) else None
  end.

(* ---------- CPython: binding of a call to a parameter list ----------
   [pos] are the positional actuals, [kws] the keyword actuals (name, value); V is what an actual denotes.
   Result: one entry per parameter, Some v = bound to v, None = not supplied (the default applies);
   [None] for the whole result = TypeError. *)
Section Bind.
  Context {V : Type}.

  Definition ep_positional (p : eparam) : bool := negb (kind_eqb (ep_kind p) KwOnly).
  Definition ep_by_kw (p : eparam) : bool := negb (kind_eqb (ep_kind p) PosOnly).

  Fixpoint kw_find (n : nat) (kws : list (nat * V)) : option V :=
    match kws with
    | [] => None
    | (m, v) :: r => if Nat.eqb n m then Some v else kw_find n r
    end.

  (* value of each parameter: positionals consume [pos] in order, everything else looks in [kws] *)
  Fixpoint bind_vals (ps : list eparam) (pos : list V) (kws : list (nat * V)) : list (option V) :=
    match ps with
    | [] => []
    | p :: r =>
        if ep_positional p then
          match pos with
          | v :: pos' => Some v :: bind_vals r pos' kws
          | [] => (match ep_id p with
                   | IUser n => if ep_by_kw p then kw_find n kws else None
                   | _ => None
                   end) :: bind_vals r [] kws
          end
        else (match ep_id p with IUser n => kw_find n kws | _ => None end) :: bind_vals r pos kws
    end.

  (* index of the positional parameter called n that accepts keywords, if any *)
  Fixpoint pos_index_of (n : nat) (i : nat) (ps : list eparam) : option nat :=
    match ps with
    | [] => None
    | p :: r =>
        if ep_positional p then
          if ep_by_kw p && ident_eqb (ep_id p) (IUser n) then Some i else pos_index_of n (S i) r
        else pos_index_of n i r
    end.

  Definition kw_param (n : nat) (ps : list eparam) : bool :=
    existsb (fun p => ep_by_kw p && ident_eqb (ep_id p) (IUser n)) ps.

  Definition bind (ps : list eparam) (pos : list V) (kws : list (nat * V)) : option (list (option V)) :=
    let npp := length (filter ep_positional ps) in
    if negb (length pos <=? npp) then None                               (* too many positional arguments *)
    else if negb (nodupb Nat.eqb (map fst kws)) then None                (* keyword argument repeated *)
    else if negb (forallb (fun nv => kw_param (fst nv) ps) kws) then None     (* unexpected keyword *)
    else if existsb (fun nv => match pos_index_of (fst nv) 0 ps with
                               | Some i => i <? length pos
                               | None => false end) kws then None        (* multiple values *)
    else
      let vals := bind_vals ps pos kws in
      if forallb (fun pv => ep_dflt (fst pv) || match snd pv with Some _ => true | None => false end)
                 (combine ps vals)
      then Some vals else None.                                          (* missing required argument *)
End Bind.

(* ---------- the caller's arguments, symbolically ---------- *)
Inductive src : Type :=
| SSelf                (* the instance *)
| SPos (i : nat)       (* the caller's i-th positional argument *)
| SKw (n : nat)        (* the caller's keyword argument n *)
| SMissing             (* the MISSING placeholder *)
| SUnbound.            (* a name that is not bound (NameError) *)

Definition src_eqb (a b : src) : bool :=
  match a, b with
  | SSelf, SSelf | SMissing, SMissing | SUnbound, SUnbound => true
  | SPos x, SPos y => Nat.eqb x y
  | SKw x, SKw y => Nat.eqb x y
  | _, _ => false
  end.

(* call shape: number of positionals and keyword names; [self] = called on an instance *)
Definition caller_pos (self : bool) (k : nat) : list src :=
  (if self then [SSelf] else []) ++ map SPos (seq 0 k).
Definition caller_kws (K : list nat) : list (nat * src) := map (fun n => (n, SKw n)) K.

(* ---------- interpreter of the body ---------- *)
Definition env : Type := list (ident * option src).       (* parameter -> Some actual | None = MISSING *)

Fixpoint env_get (e : env) (x : ident) : src :=
  match e with
  | [] => SUnbound
  | (y, v) :: r => if ident_eqb x y then (match v with Some s => s | None => SMissing end) else env_get r x
  end.
Definition is_missing (e : env) (x : ident) : bool := src_eqb (env_get e x) SMissing.

Record keyent : Type := mkKE { ke_name : option nat; ke_lk : lk; ke_src : src }.

Record state : Type := mkSt { st_kwargs : option (list (nat * src)); st_targs : option (list keyent) }.

Inductive outcome : Type :=
| OCall (key : list keyent) (fpos : list src) (fkw : list (nat * src))
| ONameError            (* KWARGS / TARGS used before assignment *)
| OFallOff.             (* body ends without a call (returns None) *)

Definition eval_call (e : env) (st : state) (c : call) : outcome :=
  let needs_t := existsb (fun k => match k with KTargs => true | _ => false end) (c_key c) in
  let needs_k := existsb (fun a => match a with AKwargs => true | _ => false end) (c_args c) in
  match (if needs_t then st_targs st else Some []), (if needs_k then st_kwargs st else Some []) with
  | Some targs, Some kwargs =>
      OCall
        (flat_map (fun k => match k with
                            | KPosI f x => [mkKE None f (env_get e x)]
                            | KNamedI n f x => [mkKE (Some n) f (env_get e x)]
                            | KTargs => targs
                            end) (c_key c))
        (flat_map (fun a => match a with APosI x => [env_get e x] | _ => [] end) (c_args c))
        (flat_map (fun a => match a with
                            | APosI _ => []
                            | AKwI n x => [(n, env_get e x)]
                            | AKwargs => kwargs
                            end) (c_args c))
  | _, _ => ONameError
  end.

Fixpoint run_stmts (e : env) (st : state) (ss : list stmt) : outcome :=
  match ss with
  | [] => OFallOff
  | SInitK :: r => run_stmts e (mkSt (Some []) (st_targs st)) r
  | SInitT :: r => run_stmts e (mkSt (st_kwargs st) (Some [])) r
  | SKwOpt t kn v tn f ta :: r =>
      if is_missing e t then run_stmts e st r
      else match st_kwargs st, st_targs st with
           | Some kw, Some tg =>
               run_stmts e (mkSt (Some (kw ++ [(kn, env_get e v)])) (Some (tg ++ [mkKE (Some tn) f (env_get e ta)]))) r
           | _, _ => ONameError
           end
  | SExit x c :: r => if is_missing e x then eval_call e st c else run_stmts e st r
  | SCall c :: _ => eval_call e st c
  end.

(* ---------- the whole entry point on a call shape ---------- *)
Inductive entry_result : Type :=
| RAnalysisError (e : an_error)      (* TypeError at build time *)
| RSyntaxError                       (* the generated source would not compile *)
| RBindError                         (* TypeError from binding the call to the generated parameter list *)
| ROut (o : outcome).

Definition entry_params (a : analysis) : option (list eparam) := resolve_params (e_params (gen_entry a)).

Definition run_entry (sigs : list msig) (self : bool) (k : nat) (K : list nat) : entry_result :=
  match analyze sigs with
  | inl e => RAnalysisError e
  | inr a =>
      match entry_params a with
      | None => RSyntaxError
      | Some ps =>
          match bind ps (caller_pos self k) (caller_kws K) with
          | None => RBindError
          | Some vals => ROut (run_stmts (combine (map ep_id ps) vals) (mkSt None None) (e_body (gen_entry a)))
          end
      end
  end.

(* ---------- a method's own parameter list, for binding the forwarded call ---------- *)
Definition sig_eparams (s : msig) : list eparam :=
  (if m_self s then [mkEP PosKw ISelf false] else [])
  ++ map (fun p => mkEP (p_kind p) (IUser (p_name p)) (negb (p_req p))) (m_params s).

(* ---------- MultiTypeMap: arity / keyword filter and the empty-tuple branch ----------
   [compat f s ann] : the class key that lookup function f yields for the object denoted by s falls under
   the annotation ann (a table supplied by the harness; type resolution is another component). *)
Section Lookup.
  Variable compat : lk -> src -> nat -> bool.

  Definition key_nargs (key : list keyent) : nat :=
    length (filter (fun k => match ke_name k with None => true | Some _ => false end) key).
  Definition key_names (key : list keyent) : list nat :=
    flat_map (fun k => match ke_name k with Some n => [n] | None => [] end) key.

  Fixpoint slots_ok (s : msig) (i : nat) (key : list keyent) : bool :=     (* i = enumerate index in the key *)
    match key with
    | [] => true
    | k :: r =>
        (match ke_name k with
         | None => match nth_error (sig_pos_params s) i with
                   | Some p => compat (ke_lk k) (ke_src k) (p_ann p)
                   | None => false
                   end
         | Some n => existsb (fun p => Nat.eqb (p_name p) n && compat (ke_lk k) (ke_src k) (p_ann p)) (sig_kw_params s)
         end) && slots_ok s (S i) r
    end.

  (* the comprehension in MultiTypeMap.mro: req_pos <= nargs <= max_pos and not (req_names - names) *)
  Definition arity_ok (s : msig) (key : list keyent) : bool :=
    (sig_req_pos s <=? key_nargs key) && (key_nargs key <=? sig_max_pos s)
    && forallb (fun n => memb Nat.eqb n (key_names key)) (sig_req_names s).

  Definition admits (s : msig) (key : list keyent) : bool := arity_ok s key && slots_ok s 0 key.

  (* highest priority wins (signature sets of the harness carry pairwise distinct priorities) *)
  Fixpoint best (cands : list (nat * msig)) : option (nat * msig) :=
    match cands with
    | [] => None
    | c :: r => match best r with
                | Some d => if Z.ltb (m_prio (snd c)) (m_prio (snd d)) then Some d else Some c
                | None => Some c
                end
    end.

  Definition indexed (sigs : list msig) : list (nat * msig) := combine (seq 0 (length sigs)) sigs.

  (* self.empty: the last registered signature with an empty type tuple *)
  Definition empty_entry (sigs : list msig) : option (nat * msig) :=
    last (map Some (filter (fun c => is_nil (m_params (snd c))) (indexed sigs))) None.

  Definition lookup (sigs : list msig) (key : list keyent) : option (nat * msig) :=
    if is_nil key then empty_entry sigs
    else best (filter (fun c => admits (snd c) key) (indexed sigs)).
End Lookup.

(* ---------- the full dispatch of one call: what does the selected method receive? ---------- *)
Inductive dispatch_result : Type :=
| DAnalysisError (e : an_error)
| DSyntaxError
| DBindError                          (* the entry point rejects the call *)
| DBodyError                          (* NameError / fall-off in the generated body *)
| DNoMethod (key : list keyent)       (* "No method ..." *)
| DRejected (key : list keyent) (fpos : list src) (fkw : list (nat * src)) (m : nat)    (* the method rejects the forwarded call *)
| DRan (key : list keyent) (fpos : list src) (fkw : list (nat * src)) (m : nat) (got : list (option src)).
      (* method m ran; [got] is aligned with sig_eparams: Some s = received s, None = its own default *)

Definition dispatch (compat : lk -> src -> nat -> bool) (sigs : list msig) (self : bool) (k : nat) (K : list nat)
  : dispatch_result :=
  match run_entry sigs self k K with
  | RAnalysisError e => DAnalysisError e
  | RSyntaxError => DSyntaxError
  | RBindError => DBindError
  | ROut (OCall key fpos fkw) =>
      match lookup compat sigs key with
      | None => DNoMethod key
      | Some (m, s) =>
          match bind (sig_eparams s) fpos fkw with
          | None => DRejected key fpos fkw m
          | Some got => DRan key fpos fkw m got
          end
      end
  | ROut _ => DBodyError
  end.
