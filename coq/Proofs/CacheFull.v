(* CacheFull.v — C04 in full: every dictionary access, plain or continuation key (caller code, *types), returns what a
   brand-new table returns, for every method list with distinct handlers and every finite access sequence. *)
From Coq Require Import ZArith List Bool Arith Lia Permutation.
Import ListNotations.
From OvldV Require Import Model.Order Model.Ty Model.Resolve Model.Cache
  Proofs.TyEq Proofs.ResolveKahn Proofs.ResolveSort Proofs.ResolveCands Proofs.ResolveNext Proofs.ResolveStatic Proofs.CacheFacts.

(* the entries resolve() writes for one key: (caller, outcome), in writing order *)
Fixpoint chain_entries (ranks : list (list cand)) (parent : option nat) : list (option nat * outcome) :=
  match ranks with
  | [] => []
  | g :: rest =>
      match g with
      | [c] => (parent, ORun (cid c)) :: chain_entries rest (Some (cid c))
      | _ => [(parent, OAmbig (ids g))]
      end
  end.

Definition parents (l : list (option nat * outcome)) : list (option nat) := map fst l.

Lemma chain_entries_parents ranks p :
  forall q, In q (parents (chain_entries ranks p)) -> q = p \/ exists c g, q = Some (cid c) /\ In g ranks /\ g = [c].
Proof.
  revert p. induction ranks as [|g rest IH]; intros p q Hq; [destruct Hq|].
  simpl in Hq. destruct g as [|c [|c2 t]]; simpl in Hq.
  - destruct Hq as [<-|[]]. now left.
  - destruct Hq as [<-|Hq]; [now left|].
    destruct (IH _ _ Hq) as [->|(c' & g' & -> & Hg & ->)].
    + right. exists c, [c]. repeat split. now left.
    + right. exists c', [c']. repeat split. now right.
  - destruct Hq as [<-|[]]. now left.
Qed.

Lemma in_ranks_ids ranks g c : In g ranks -> In c g -> In (cid c) (ids (concat ranks)).
Proof. intros Hg Hc. unfold ids. apply in_map. apply in_concat. eauto. Qed.

(* distinct handlers => the parents of the chain entries are pairwise distinct *)
Lemma chain_entries_nodup ranks p :
  NoDup (ids (concat ranks)) -> (forall c, p = Some c -> ~ In c (ids (concat ranks))) ->
  NoDup (parents (chain_entries ranks p)).
Proof.
  revert p. induction ranks as [|g rest IH]; intros p Hnd Hp; simpl; [constructor|].
  destruct g as [|c [|c2 t]]; simpl; try (constructor; [intros []|constructor]).
  simpl in Hnd. unfold ids in Hnd. simpl in Hnd. fold (ids (concat rest)) in Hnd. inversion Hnd as [|? ? Hnotin Hnd']; subst.
  constructor.
  - intros Hin. destruct (chain_entries_parents _ _ _ Hin) as [E|(c' & g' & E & Hg & ->)].
    + subst p. apply (Hp (cid c) eq_refl). simpl. unfold ids. simpl. now left.
    + subst p. apply (Hp (cid c') eq_refl). simpl. unfold ids. simpl. right.
      apply (in_ranks_ids rest [c'] c'); [exact Hg|now left].
  - apply IH; [exact Hnd'|]. intros c0 E. injection E as <-. exact Hnotin.
Qed.

(* chain_next reads the chain entries *)
Lemma chain_next_entries ranks p c o :
  chain_next ranks c = Some o -> In (Some c, o) (chain_entries ranks p).
Proof.
  revert p. induction ranks as [|g rest IH]; intros p H; simpl in H; [discriminate|].
  destruct g as [|x [|x2 t]]; try discriminate. simpl.
  destruct (Nat.eqb (m_id (c_m x)) c) eqn:E.
  - apply Nat.eqb_eq in E. destruct rest as [|g2 r2]; [discriminate|]. injection H as <-.
    right. simpl. unfold cid. rewrite E. destruct g2 as [|y [|y2 t2]]; simpl; now left.
  - right. apply IH. exact H.
Qed.

Lemma entries_chain_next ranks p c o :
  NoDup (ids (concat ranks)) -> p <> Some c ->
  In (Some c, o) (chain_entries ranks p) -> chain_next ranks c = Some o.
Proof.
  revert p. induction ranks as [|g rest IH]; intros p Hnd Hp Hin; [destruct Hin|].
  simpl in Hin. destruct g as [|x [|x2 t]]; simpl in Hin.
  - destruct Hin as [E|[]]. injection E as E _. congruence.
  - destruct Hin as [E|Hin]; [injection E as E _; congruence|].
    simpl in Hnd. unfold ids in Hnd. simpl in Hnd. fold (ids (concat rest)) in Hnd. inversion Hnd as [|? ? Hnotin Hnd']; subst.
    simpl. destruct (Nat.eqb (m_id (c_m x)) c) eqn:E.
    + apply Nat.eqb_eq in E.
      (* the entry keyed by x itself is the first one of the rest *)
      destruct rest as [|g2 r2]; [destruct Hin|].
      simpl in Hin. destruct g2 as [|y [|y2 t2]]; simpl in Hin.
      * destruct Hin as [E2|[]]. injection E2 as _ <-. reflexivity.
      * destruct Hin as [E2|Hin]; [injection E2 as _ <-; reflexivity|].
        exfalso. assert (Hq : In (Some c) (parents (chain_entries r2 (Some (cid y))))) by (apply in_map_iff; exists (Some c, o); auto).
        destruct (chain_entries_parents _ _ _ Hq) as [E3|(c' & g' & E3 & Hg & ->)].
        -- injection E3 as E3. apply Hnotin. unfold cid in *. rewrite E, E3. simpl. unfold ids. simpl. now left.
        -- injection E3 as E3. apply Hnotin. unfold cid in *. rewrite E, E3. simpl. unfold ids. simpl. right.
           apply (in_ranks_ids r2 [c'] c'); [exact Hg|now left].
      * destruct Hin as [E2|[]]. injection E2 as _ <-. reflexivity.
    + apply (IH (Some (cid x))); [exact Hnd'| |exact Hin].
      intros E2. injection E2 as E2. unfold cid in E2. rewrite E2, Nat.eqb_refl in E. discriminate.
  - destruct Hin as [E|[]]. injection E as E _. congruence.
Qed.

(* ---- _pull yields each candidate at most once ---- *)
Lemma pull_sub : forall n scs proc x, In x (concat (pull n scs proc)) -> In x scs /\ ~ In (cid x) proc.
Proof.
  induction n as [|n IH]; intros scs proc x Hx; [destruct Hx|].
  simpl in Hx. destruct (filter (fun c => negb (memb (m_id (c_m c)) proc)) scs) as [|c1 r1] eqn:Ef; [destruct Hx|].
  assert (Hf : forall y, In y (c1 :: r1) -> In y scs /\ ~ In (cid y) proc).
  { intros y Hy. rewrite <- Ef in Hy. apply filter_In in Hy. destruct Hy as [Hy Hm]. split; [exact Hy|].
    apply negb_true_iff in Hm. intros Hin. apply memb_In in Hin. unfold cid in Hin. congruence. }
  simpl in Hx. destruct Hx as [<-|Hx]; [apply Hf; now left|].
  apply in_app_iff in Hx. destruct Hx as [Hx|Hx].
  - apply grp_sub in Hx. apply Hf. now right.
  - apply IH in Hx. destruct Hx as [Hx Hn]. destruct (Hf x (or_intror Hx)) as [H1 H2]. split; [exact H1|exact H2].
Qed.

Lemma pull_nodup : forall n scs proc, NoDup (map cid scs) -> NoDup (map cid (concat (pull n scs proc))).
Proof.
  induction n as [|n IH]; intros scs proc Hnd; [constructor|].
  simpl. destruct (filter (fun c => negb (memb (m_id (c_m c)) proc)) scs) as [|c1 r1] eqn:Ef; [constructor|].
  assert (Hnd1 : NoDup (map cid (c1 :: r1))).
  { rewrite <- Ef. clear -Hnd. induction scs as [|a r IH]; simpl; [constructor|]. inversion Hnd; subst.
    destruct (negb _); [|auto]. simpl. constructor; [|auto]. intros Hin. apply H1.
    apply in_map_iff in Hin. destruct Hin as (y & Hy & Hyin). apply filter_In in Hyin. apply in_map_iff. exists y. tauto. }
  simpl in Hnd1. inversion Hnd1 as [|? ? Hc1 Hr1]; subst.
  simpl. rewrite map_app. constructor.
  - intros Hin. apply in_app_iff in Hin. destruct Hin as [Hin|Hin].
    + apply Hc1. apply in_map_iff in Hin. destruct Hin as (y & Hy & Hyin). apply grp_sub in Hyin. apply in_map_iff. exists y. tauto.
    + apply Hc1. apply in_map_iff in Hin. destruct Hin as (y & Hy & Hyin). apply pull_sub in Hyin. apply in_map_iff. exists y. tauto.
  - apply NoDup_app_disj.
    + apply grp_map_nodup. exact Hr1.
    + apply IH. exact Hr1.
    + intros i Hi1 Hi2. apply in_map_iff in Hi2. destruct Hi2 as (y & Hy & Hyin). apply pull_sub in Hyin.
      destruct Hyin as [_ Hn]. apply Hn. apply in_app_iff. right. rewrite Hy. exact Hi1.
Qed.

(* ---- what write_chain leaves in the dict and in errors ---- *)
Lemma key_eqb_refl k : key_eqb k k = true.
Proof. now apply key_eqb_eq. Qed.

Lemma qkey_neq p k p' k' : (k <> k' \/ p <> p') -> qkey_eqb (mkQ p k) (mkQ p' k') = false.
Proof.
  intros H. destruct (qkey_eqb (mkQ p k) (mkQ p' k')) eqn:E; [|reflexivity].
  apply qkey_eqb_eq in E. injection E as -> ->. destruct H; congruence.
Qed.

Lemma write_chain_all ranks p k st : cs_all (write_chain ranks p k st) = cs_all st.
Proof.
  revert p st. induction ranks as [|g r IH]; intros p st; simpl; [reflexivity|].
  destruct g as [|c [|c2 t]]; simpl; try reflexivity. now rewrite IH.
Qed.

(* keys not written by this chain keep their entries *)
Lemma write_chain_other ranks : forall p k st p' k',
  (k <> k' \/ ~ In p' (parents (chain_entries ranks p))) ->
  assoc_q (mkQ p' k') (cs_dict (write_chain ranks p k st)) = assoc_q (mkQ p' k') (cs_dict st) /\
  assoc_q (mkQ p' k') (cs_err (write_chain ranks p k st)) = assoc_q (mkQ p' k') (cs_err st).
Proof.
  induction ranks as [|g r IH]; intros p k st p' k' H; simpl; [auto|].
  destruct g as [|c [|c2 t]].
  - simpl. split; [reflexivity|]. rewrite qkey_neq; [reflexivity|]. destruct H as [H|H]; [now left|right; intros ->; apply H; simpl; now left].
  - assert (H' : k <> k' \/ ~ In p' (parents (chain_entries r (Some (cid c))))).
    { destruct H as [H|H]; [now left|right; intros Hin; apply H; simpl; now right]. }
    destruct (IH (Some (m_id (c_m c))) k (mkC (cs_ms st) ((mkQ p k, m_id (c_m c)) :: cs_dict st) (cs_err st) (cs_all st)) p' k' H') as [H1 H2].
    rewrite H1, H2. simpl. split; [|reflexivity].
    rewrite qkey_neq; [reflexivity|]. destruct H as [H|H]; [now left|right; intros ->; apply H; simpl; now left].
  - simpl. split; [reflexivity|]. rewrite qkey_neq; [reflexivity|]. destruct H as [H|H]; [now left|right; intros ->; apply H; simpl; now left].
Qed.

Definition push_dict (st : cstate) (q : qkey) (h : nat) : cstate :=
  mkC (cs_ms st) ((q, h) :: cs_dict st) (cs_err st) (cs_all st).

Lemma write_chain_single c r p k st :
  write_chain ([c] :: r) p k st = write_chain r (Some (cid c)) k (push_dict st (mkQ p k) (cid c)).
Proof. reflexivity. Qed.

(* the entries of the chain are found afterwards *)
Lemma write_chain_in ranks : forall p k st p' o,
  NoDup (parents (chain_entries ranks p)) -> In (p', o) (chain_entries ranks p) ->
  match o with
  | ORun h => assoc_q (mkQ p' k) (cs_dict (write_chain ranks p k st)) = Some h
  | OAmbig g => assoc_q (mkQ p' k) (cs_err (write_chain ranks p k st)) = Some g /\
                assoc_q (mkQ p' k) (cs_dict (write_chain ranks p k st)) = assoc_q (mkQ p' k) (cs_dict st)
  | _ => True
  end.
Proof.
  induction ranks as [|g r IH]; intros p k st p' o Hnd Hin; [destruct Hin|].
  destruct g as [|c [|c2 t]].
  - simpl in Hin. destruct Hin as [E|[]]. injection E as <- <-. simpl. rewrite qkey_eqb_refl. auto.
  - rewrite write_chain_single. cbn [chain_entries parents map fst] in Hnd, Hin.
    inversion Hnd as [|? ? Hnotin Hnd']; subst.
    destruct Hin as [E|Hin].
    + injection E as <- <-.
      destruct (write_chain_other r (Some (cid c)) k (push_dict st (mkQ p k) (cid c)) p k (or_intror Hnotin)) as [H1 _].
      rewrite H1. unfold push_dict. simpl. now rewrite qkey_eqb_refl.
    + specialize (IH (Some (cid c)) k (push_dict st (mkQ p k) (cid c)) p' o Hnd' Hin). destruct o; auto.
      destruct IH as [H1 H2]. split; [exact H1|]. rewrite H2. unfold push_dict. simpl.
      rewrite qkey_neq; [reflexivity|]. right. intros ->. apply Hnotin. apply in_map_iff. exists (p', OAmbig ms). auto.
  - simpl in Hin. destruct Hin as [E|[]]. injection E as <- <-. simpl. rewrite qkey_eqb_refl. auto.
Qed.

(* every entry found after write_chain was there before or is one of the chain's *)
Lemma write_chain_dict_src ranks : forall p k st q h,
  assoc_q q (cs_dict (write_chain ranks p k st)) = Some h ->
  assoc_q q (cs_dict st) = Some h \/ exists p', q = mkQ p' k /\ In (p', ORun h) (chain_entries ranks p).
Proof.
  induction ranks as [|g r IH]; intros p k st q h H; [left; exact H|].
  destruct g as [|c [|c2 t]].
  - simpl in H. now left.
  - rewrite write_chain_single in H. destruct (IH _ _ _ _ _ H) as [H1|(p' & -> & Hin)].
    + unfold push_dict in H1. simpl in H1. destruct (qkey_eqb (mkQ p k) q) eqn:E.
      * apply qkey_eqb_eq in E. subst q. injection H1 as <-. right. exists p. split; [reflexivity|]. simpl. now left.
      * now left.
    + right. exists p'. split; [reflexivity|]. simpl. now right.
  - simpl in H. now left.
Qed.

Lemma write_chain_err_src ranks : forall p k st q g,
  assoc_q q (cs_err (write_chain ranks p k st)) = Some g ->
  assoc_q q (cs_err st) = Some g \/ exists p', q = mkQ p' k /\ In (p', OAmbig g) (chain_entries ranks p).
Proof.
  induction ranks as [|g0 r IH]; intros p k st q g H; [left; exact H|].
  destruct g0 as [|c [|c2 t]].
  - simpl in H. destruct (qkey_eqb (mkQ p k) q) eqn:E; [|now left].
    apply qkey_eqb_eq in E. subst q. injection H as <-. right. exists p. split; [reflexivity|]. simpl. now left.
  - rewrite write_chain_single in H. destruct (IH _ _ _ _ _ H) as [H1|(p' & -> & Hin)].
    + left. exact H1.
    + right. exists p'. split; [reflexivity|]. simpl. now right.
  - simpl in H. destruct (qkey_eqb (mkQ p k) q) eqn:E; [|now left].
    apply qkey_eqb_eq in E. subst q. injection H as <-. right. exists p. split; [reflexivity|]. simpl. now left.
Qed.

Lemma rank_outcome_cases g : (exists c, g = [c] /\ rank_outcome g = ORun (cid c)) \/ rank_outcome g = OAmbig (ids g).
Proof. destruct g as [|c [|c2 t]]; simpl; eauto. Qed.

Lemma chain_entries_head g rest : exists tl, chain_entries (g :: rest) None = (None, rank_outcome g) :: tl /\
  (forall c o, In (Some c, o) tl -> exists c1, g = [c1]).
Proof.
  destruct g as [|c [|c2 t]]; simpl.
  - exists []. split; [reflexivity|]. intros c o [].
  - exists (chain_entries rest (Some (cid c))). split; [reflexivity|]. eauto.
  - exists []. split; [reflexivity|]. intros c0 o [].
Qed.

Lemma chain_next_shape ranks c o : chain_next ranks c = Some o -> (exists h, o = ORun h) \/ (exists g, o = OAmbig g).
Proof.
  induction ranks as [|g rest IH]; simpl; [discriminate|].
  destruct g as [|x [|x2 t]]; try discriminate.
  destruct (Nat.eqb (m_id (c_m x)) c); [|exact IH].
  destruct rest as [|g2 r2]; [discriminate|]. intros H; injection H as <-.
  destruct (rank_outcome_cases g2) as [(c' & Hg & Hr) | Hr]; rewrite Hr; eauto.
Qed.

Lemma existsb_groups_memb (ranks : list (list cand)) c :
  existsb (fun gr => existsb (fun x => Nat.eqb (m_id (c_m x)) c) gr) ranks = memb c (ids (concat ranks)).
Proof.
  induction ranks as [|g r IH]; simpl; [reflexivity|]. rewrite IH. unfold ids. rewrite map_app. unfold memb.
  rewrite existsb_app. f_equal. induction g as [|x g IHg]; simpl; [reflexivity|]. rewrite IHg.
  f_equal. apply Nat.eqb_sym.
Qed.

Section Full.
  Variable sub : nat -> nat -> bool.
  Variable hasm : nat -> nat -> bool.
  Variable chk : nat -> nat -> bool.
  Variable sub_fresh : nat -> bool.
  Variable ms : list meth.
  Hypothesis ms_nodup : NoDup (map m_id ms).

  Notation mro := (mro sub hasm chk sub_fresh).
  Notation lookup := (lookup sub hasm chk sub_fresh).
  Notation lookup_next := (lookup_next sub hasm chk sub_fresh).
  Notation candidates := (candidates sub hasm chk sub_fresh).
  Notation fresh := (fresh sub hasm chk sub_fresh ms).
  Notation getitem := (getitem sub hasm chk sub_fresh).
  Notation get_plain := (get_plain sub hasm chk sub_fresh).
  Notation miss_plain := (miss_plain sub hasm chk sub_fresh).

  Lemma mro_nodup k ranks : mro ms k = Ok ranks -> NoDup (ids (concat ranks)).
  Proof.
    unfold Resolve.mro. destruct (candidates ms k) as [cs|] eqn:Hc; cbn [rbind]; [|discriminate].
    intros H. assert (E : ranks = pull (S (length (sort_desc cs))) (sort_desc cs) []) by congruence.
    rewrite E. apply (pull_nodup (S (length (sort_desc cs)))).
    eapply Permutation_NoDup; [apply Permutation_map; apply sort_desc_perm|].
    pose proof (cands_NoDup _ _ _ _ _ _ _ ms_nodup Hc) as Hcs.
    destruct (candidates_inv _ _ _ _ _ _ _ Hc) as (lv & _ & ->).
    clear -ms_nodup. induction ms as [|m r IH]; simpl; [constructor|].
    inversion ms_nodup; subst. unfold cand_of at 1.
    destruct (arity_ok m _ _); [|apply IH; assumption].
    destruct (spec_of lv m); [|apply IH; assumption].
    simpl. constructor; [|apply IH; assumption].
    intros Hin. apply H1. apply in_map_iff in Hin. destruct Hin as (c & Hc & Hin).
    apply omap_filter_In in Hin. destruct Hin as (m' & Hm' & Hcm).
    unfold cand_of in Hcm. destruct (arity_ok m' _ _); [|discriminate]. destruct (spec_of lv m'); [|discriminate].
    injection Hcm as <-. unfold cid in Hc. simpl in Hc. rewrite <- Hc. now apply in_map.
  Qed.

  (* what each chain entry means for a fresh table *)
  Lemma entry_fresh k ranks p o :
    mro ms k = Ok ranks -> In (p, o) (chain_entries ranks None) -> fresh (mkQ p k) = o.
  Proof.
    intros Hm Hin. pose proof (mro_nodup _ _ Hm) as Hnd.
    destruct ranks as [|g rest]; [destruct Hin|].
    destruct (chain_entries_head g rest) as (tl & Htl & Hsingle). rewrite Htl in Hin.
    unfold Cache.fresh. simpl q_caller. simpl q_key.
    assert (Hpar : NoDup (parents (chain_entries (g :: rest) None))) by (apply chain_entries_nodup; [exact Hnd|discriminate]).
    rewrite Htl in Hpar. simpl in Hpar. inversion Hpar as [|? ? Hnone Hpar']; subst.
    destruct Hin as [E|Hin].
    - injection E as <- <-. unfold Resolve.lookup. rewrite Hm. reflexivity.
    - destruct p as [c|]; [|exfalso; apply Hnone; apply in_map_iff; exists (None, o); auto].
      destruct (Hsingle _ _ Hin) as [c1 ->].
      assert (Hin' : In (Some c, o) (chain_entries ([c1] :: rest) None)) by (rewrite Htl; now right).
      pose proof (entries_chain_next _ None c o Hnd ltac:(discriminate) Hin') as Hcn.
      unfold Resolve.lookup_next. rewrite Hm. cbn [rank_outcome].
      assert (Hmem : existsb (fun gr => existsb (fun x => Nat.eqb (m_id (c_m x)) c) gr) ([c1] :: rest) = true).
      { rewrite existsb_groups_memb. apply memb_In.
        assert (Hq : In (Some c) (parents (chain_entries ([c1] :: rest) None))) by (apply in_map_iff; exists (Some c, o); auto).
        destruct (chain_entries_parents _ _ _ Hq) as [E|(c' & g' & E & Hg & ->)]; [discriminate|].
        injection E as ->. apply (in_ranks_ids _ [c'] c'); [exact Hg|now left]. }
      rewrite Hmem. cbn [negb]. rewrite Hcn. reflexivity.
  Qed.

  Definition FInv (st : cstate) : Prop :=
    cs_ms st = ms /\
    (forall q h, assoc_q q (cs_dict st) = Some h -> fresh q = ORun h) /\
    (forall q g, assoc_q q (cs_err st) = Some g -> fresh q = OAmbig g) /\
    (forall k cands, assoc_k k (cs_all st) = Some cands -> exists ranks, mro ms k = Ok ranks /\ cands = ids (concat ranks)) /\
    (forall k h, assoc_q (mkQ None k) (cs_dict st) = Some h ->
       exists ranks, mro ms k = Ok ranks /\ assoc_k k (cs_all st) = Some (ids (concat ranks)) /\
         forall c o, chain_next ranks c = Some o ->
           match o with
           | ORun h' => assoc_q (mkQ (Some c) k) (cs_dict st) = Some h'
           | OAmbig g => assoc_q (mkQ (Some c) k) (cs_err st) = Some g
           | _ => True
           end).

  Lemma FInv_init : FInv (cinit ms).
  Proof. unfold FInv, cinit. simpl. repeat split; intros; discriminate. Qed.

  Lemma assoc_k_cons {X} k k' (x : X) l : assoc_k k' ((k, x) :: l) = if key_eqb k k' then Some x else assoc_k k' l.
  Proof. reflexivity. Qed.

  Lemma key_neq k k' : k <> k' -> key_eqb k k' = false.
  Proof. intros H. destruct (key_eqb k k') eqn:E; [|reflexivity]. apply key_eqb_eq in E. contradiction. Qed.

  Lemma fresh_plain k : fresh (mkQ None k) = lookup ms k.
  Proof. reflexivity. Qed.

  (* a plain miss: the new state satisfies the invariant and the answer is the fresh one *)
  Lemma miss_plain_full st k st' out r :
    FInv st -> assoc_q (mkQ None k) (cs_dict st) = None ->
    miss_plain st k = (st', out, r) -> FInv st' /\ out = lookup ms k.
  Proof.
    intros (Hms & HD & HE & HA & HC) Hmiss H. unfold Cache.miss_plain in H. rewrite Hms in H.
    destruct (mro ms k) as [ranks|e] eqn:Hm.
    2:{ injection H as <- <- _. split; [repeat split; assumption|]. unfold Resolve.lookup. now rewrite Hm. }
    set (st1 := mkC ms (cs_dict st) (cs_err st) ((k, ids (concat ranks)) :: cs_all st)) in H.
    assert (HA1 : forall k' cands, assoc_k k' (cs_all st1) = Some cands -> exists ranks', mro ms k' = Ok ranks' /\ cands = ids (concat ranks')).
    { intros k' cands Hk. unfold st1 in Hk. simpl cs_all in Hk. rewrite assoc_k_cons in Hk.
      destruct (key_eqb k k') eqn:E; [|now apply HA].
      apply key_eqb_eq in E. subst k'. injection Hk as <-. eauto. }
    destruct ranks as [|g rest].
    { injection H as <- <- _. split.
      - split; [reflexivity|]. split; [exact HD|]. split; [exact HE|]. split; [exact HA1|].
        intros k' h Hk. simpl cs_dict in Hk. destruct (HC _ _ Hk) as (rk & Hrk & Hall & Hch).
        exists rk. split; [exact Hrk|]. split; [|exact Hch].
        simpl cs_all. rewrite assoc_k_cons. rewrite key_neq; [exact Hall|]. intros ->. congruence.
      - unfold Resolve.lookup. now rewrite Hm. }
    set (ranks := g :: rest) in *.
    set (st2 := write_chain ranks None k st1) in H.
    pose proof (mro_nodup _ _ Hm) as Hnd.
    assert (Hpar : NoDup (parents (chain_entries ranks None))) by (apply chain_entries_nodup; [exact Hnd|discriminate]).
    assert (HD2 : forall q h, assoc_q q (cs_dict st2) = Some h -> fresh q = ORun h).
    { intros q h Hq. destruct (write_chain_dict_src _ _ _ _ _ _ Hq) as [Hold|(p' & -> & Hin)]; [now apply HD|].
      eapply entry_fresh; eauto. }
    assert (HE2 : forall q g0, assoc_q q (cs_err st2) = Some g0 -> fresh q = OAmbig g0).
    { intros q g0 Hq. destruct (write_chain_err_src _ _ _ _ _ _ Hq) as [Hold|(p' & -> & Hin)]; [now apply HE|].
      eapply entry_fresh; eauto. }
    assert (Hall2 : cs_all st2 = (k, ids (concat ranks)) :: cs_all st) by (unfold st2; now rewrite write_chain_all).
    assert (Hinv2 : FInv st2).
    { split; [unfold st2; now rewrite write_chain_ms|]. split; [exact HD2|]. split; [exact HE2|].
      split; [rewrite Hall2; exact HA1|].
      intros k' h Hk. destruct (key_eqb k k') eqn:E.
      - apply key_eqb_eq in E. subst k'. exists ranks. split; [exact Hm|].
        split; [rewrite Hall2, assoc_k_cons, key_eqb_refl; reflexivity|].
        intros c o Hcn. pose proof (chain_next_entries _ None _ _ Hcn) as Hin.
        pose proof (write_chain_in ranks None k st1 (Some c) o Hpar Hin) as Hw. fold st2 in Hw.
        destruct o; try exact I; [exact Hw|exact (proj1 Hw)].
      - assert (Hne : k <> k') by (intros ->; rewrite key_eqb_refl in E; discriminate).
        destruct (write_chain_other ranks None k st1 None k' (or_introl Hne)) as [Hd _]. fold st2 in Hd.
        rewrite Hd in Hk. simpl cs_dict in Hk. destruct (HC _ _ Hk) as (rk & Hrk & Hallk & Hch).
        exists rk. split; [exact Hrk|]. split; [rewrite Hall2, assoc_k_cons, E; exact Hallk|].
        intros c o Hcn. specialize (Hch c o Hcn).
        destruct (write_chain_other ranks None k st1 (Some c) k' (or_introl Hne)) as [Hd' He']. fold st2 in Hd', He'.
        destruct o; try exact I; [rewrite Hd'|rewrite He']; exact Hch. }
    destruct (chain_entries_head g rest) as (tl & Htl & _). fold ranks in Htl.
    assert (Hin0 : In (None, rank_outcome g) (chain_entries ranks None)) by (rewrite Htl; now left).
    pose proof (write_chain_in ranks None k st1 None _ Hpar Hin0) as Hw. fold st2 in Hw.
    assert (Hlk : lookup ms k = rank_outcome g) by (unfold Resolve.lookup; rewrite Hm; reflexivity).
    destruct (rank_outcome_cases g) as [(c1 & Hg & Hro)|Hro]; rewrite Hro in Hw, Hlk.
    - destruct (assoc_q (mkQ None k) (cs_err st2)) as [g0|] eqn:Eerr.
      + apply HE2 in Eerr. rewrite fresh_plain in Eerr. congruence.
      + rewrite Hw in H. injection H as <- <- _. split; [exact Hinv2|]. now rewrite Hlk.
    - destruct Hw as [Hw _]. rewrite Hw in H. injection H as <- <- _. split; [exact Hinv2|]. now rewrite Hlk.
  Qed.

  Lemma get_plain_full st k st' out r :
    FInv st -> get_plain st k = (st', out, r) -> FInv st' /\ out = lookup ms k.
  Proof.
    intros Hinv H. unfold Cache.get_plain in H.
    destruct (assoc_q (mkQ None k) (cs_dict st)) as [h|] eqn:E.
    - injection H as <- <- _. split; [exact Hinv|]. destruct Hinv as (_ & HD & _). symmetry. exact (HD _ _ E).
    - eapply miss_plain_full; eauto.
  Qed.

  Lemma lookup_next_not_run c k : (forall h, lookup ms k <> ORun h) -> lookup_next ms c k = lookup ms k.
  Proof.
    unfold Resolve.lookup_next, Resolve.lookup. destruct (mro ms k) as [[|g rest]|e]; try reflexivity.
    intros Hn. destruct (rank_outcome_cases g) as [(c1 & _ & Hro)|Hro]; rewrite Hro in *; [exfalso; eapply Hn; reflexivity|reflexivity].
  Qed.

  Theorem getitem_full st q st' out r :
    FInv st -> getitem st q = (st', out, r) -> FInv st' /\ out = fresh q.
  Proof.
    intros Hinv H. destruct q as [[c|] k]; unfold Cache.getitem in H; simpl q_caller in H; simpl q_key in H.
    2:{ eapply get_plain_full; eassumption. }
    destruct (assoc_q (mkQ (Some c) k) (cs_dict st)) as [h|] eqn:Ehit.
    { injection H as <- <- _. split; [exact Hinv|]. destruct Hinv as (_ & HD & _). symmetry. exact (HD _ _ Ehit). }
    destruct (get_plain st k) as [[st1 o1] r1] eqn:Egp.
    destruct (get_plain_full _ _ _ _ _ Hinv Egp) as [Hinv1 Ho1].
    assert (Hfr : fresh (mkQ (Some c) k) = lookup_next ms c k) by reflexivity.
    destruct o1 as [h| | g| | ];
      try (injection H as <- <- _; split; [exact Hinv1|]; rewrite Hfr, lookup_next_not_run; [assumption|intros h0; congruence]).
    pose proof (get_plain_stores _ _ _ _ _ _ _ _ _ Egp) as Hst.
    destruct Hinv1 as (Hms1 & HD1 & HE1 & HA1 & HC1).
    destruct (HC1 _ _ Hst) as (ranks & Hm & Hall & Hch). rewrite Hall in H.
    assert (Hlk : rank_outcome (hd [] ranks) = ORun h /\ ranks <> []).
    { unfold Resolve.lookup in Ho1. rewrite Hm in Ho1. destruct ranks as [|g rest]; [discriminate|]. simpl. split; [congruence|discriminate]. }
    assert (Hfr2 : fresh (mkQ (Some c) k) =
       if negb (memb c (ids (concat ranks))) then ORun h else match chain_next ranks c with Some o => o | None => ONoMethod end).
    { rewrite Hfr. unfold Resolve.lookup_next. rewrite Hm. destruct ranks as [|g rest]; [destruct Hlk as [_ Hx]; congruence|].
      destruct Hlk as [Hro _]. simpl hd in Hro. rewrite Hro. rewrite existsb_groups_memb. reflexivity. }
    assert (Hinv1 : FInv st1) by (repeat split; assumption).
    destruct (negb (memb c (ids (concat ranks)))) eqn:Emem.
    { injection H as <- <- _. split; [exact Hinv1|]. now rewrite Hfr2. }
    destruct (chain_next ranks c) as [o|] eqn:Ecn.
    - specialize (Hch c o Ecn). destruct (chain_next_shape _ _ _ Ecn) as [[h' ->]|[g ->]].
      + destruct (assoc_q (mkQ (Some c) k) (cs_err st1)) as [g0|] eqn:Eerr.
        * apply HE1 in Eerr. congruence.
        * rewrite Hch in H. injection H as <- <- _. split; [exact Hinv1|]. now rewrite Hfr2.
      + rewrite Hch in H. injection H as <- <- _. split; [exact Hinv1|]. now rewrite Hfr2.
    - destruct (assoc_q (mkQ (Some c) k) (cs_err st1)) as [g0|] eqn:Eerr; [apply HE1 in Eerr; congruence|].
      destruct (assoc_q (mkQ (Some c) k) (cs_dict st1)) as [h2|] eqn:Ed; [apply HD1 in Ed; congruence|].
      injection H as <- <- _. split; [exact Hinv1|]. now rewrite Hfr2.
  Qed.

  (* any finite sequence of accesses: every answer is the brand-new table's answer *)
  Fixpoint gets (qs : list qkey) : list cop := match qs with [] => [] | q :: r => CGet q :: gets r end.

  Theorem gets_full : forall qs st st' outs,
    FInv st -> crun sub hasm chk sub_fresh st (gets qs) = (st', outs) ->
    FInv st' /\ map (fun x => match x with Some (o, _) => Some o | None => None end) outs = map (fun q => Some (fresh q)) qs.
  Proof.
    induction qs as [|q r IH]; intros st st' outs Hinv H; simpl in H.
    - injection H as <- <-. split; [exact Hinv|reflexivity].
    - destruct (getitem st q) as [[st1 o] rr] eqn:Eg.
      destruct (crun sub hasm chk sub_fresh st1 (gets r)) as [st2 xs] eqn:Er.
      injection H as <- <-. destruct (getitem_full _ _ _ _ _ Hinv Eg) as [Hinv1 ->].
      destruct (IH _ _ _ Hinv1 Er) as [Hinv2 Hxs]. split; [exact Hinv2|]. simpl. now rewrite Hxs.
  Qed.
End Full.

(* ---- histories that also register: the table is emptied at each registration, so the same invariant restarts ---- *)
Lemma NoDup_app_l {X} (a b : list X) : NoDup (a ++ b) -> NoDup a.
Proof.
  induction a as [|x a IH]; simpl; intros H; [constructor|]. inversion H; subst.
  constructor; [|auto]. intros Hin. apply H2. apply in_app_iff. now left.
Qed.

Fixpoint regs (ops : list cop) : list meth :=
  match ops with [] => [] | CReg m :: r => m :: regs r | _ :: r => regs r end.

Section History.
  Variable sub : nat -> nat -> bool.
  Variable hasm : nat -> nat -> bool.
  Variable chk : nat -> nat -> bool.
  Variable sub_fresh : nat -> bool.

  Fixpoint expected (ms : list meth) (ops : list cop) : list (option outcome) :=
    match ops with
    | [] => []
    | CGet q :: r => Some (fresh sub hasm chk sub_fresh ms q) :: expected ms r
    | CReg m :: r => None :: expected (ms ++ [m]) r
    end.

  Definition outs_of (xs : list (option (outcome * bool))) : list (option outcome) :=
    map (fun x => match x with Some (o, _) => Some o | None => None end) xs.

  Lemma crun_full : forall ops ms st st' outs,
    NoDup (map m_id (ms ++ regs ops)) -> FInv sub hasm chk sub_fresh ms st ->
    crun sub hasm chk sub_fresh st ops = (st', outs) -> outs_of outs = expected ms ops.
  Proof.
    induction ops as [|o r IH]; intros ms st st' outs Hnd Hinv H; simpl in H.
    - injection H as _ <-. reflexivity.
    - destruct o as [q|m].
      + simpl in H. destruct (getitem sub hasm chk sub_fresh st q) as [[st1 o1] rr] eqn:Eg.
        destruct (crun sub hasm chk sub_fresh st1 r) as [st2 xs] eqn:Er. injection H as _ <-.
        assert (Hnd0 : NoDup (map m_id ms)).
        { rewrite map_app in Hnd. eapply NoDup_app_l; exact Hnd. }
        destruct (getitem_full _ _ _ _ _ Hnd0 _ _ _ _ _ Hinv Eg) as [Hinv1 ->].
        simpl. f_equal. eapply IH; eauto.
      + simpl in H. destruct (crun sub hasm chk sub_fresh (cregister st m) r) as [st2 xs] eqn:Er. injection H as _ <-.
        simpl. f_equal. eapply IH; [| |exact Er].
        * simpl in Hnd. rewrite <- app_assoc. exact Hnd.
        * destruct Hinv as (Hms & _). unfold cregister. rewrite Hms. apply FInv_init.
  Qed.

  Theorem history_free ms ops st' outs :
    NoDup (map m_id (ms ++ regs ops)) ->
    crun sub hasm chk sub_fresh (cinit ms) ops = (st', outs) -> outs_of outs = expected ms ops.
  Proof. intros Hnd. apply crun_full; [exact Hnd|apply FInv_init]. Qed.
End History.

(* ---- C20 for continuation keys: once the plain key is stored, a continuation access of the same combination
        (any caller code) computes no resolution and leaves the table unchanged ---- *)
Section Once.
  Variable sub : nat -> nat -> bool.
  Variable hasm : nat -> nat -> bool.
  Variable chk : nat -> nat -> bool.
  Variable sub_fresh : nat -> bool.

  Lemma getitem_next_hit st c k h :
    assoc_q (mkQ None k) (cs_dict st) = Some h ->
    exists out, getitem sub hasm chk sub_fresh st (mkQ (Some c) k) = (st, out, false).
  Proof.
    intros Hk. unfold Cache.getitem. simpl q_caller. simpl q_key.
    destruct (assoc_q (mkQ (Some c) k) (cs_dict st)); [eauto|].
    rewrite (get_plain_hit sub hasm chk sub_fresh _ _ _ Hk).
    destruct (assoc_k k (cs_all st)); [|eauto].
    destruct (negb (memb c l)); [eauto|].
    destruct (assoc_q (mkQ (Some c) k) (cs_err st)); [eauto|].
    destruct (assoc_q (mkQ (Some c) k) (cs_dict st)); eauto.
  Qed.

  Theorem resolved_once_next st k st1 h r ops c :
    get_plain sub hasm chk sub_fresh st k = (st1, ORun h, r) -> all_gets ops = true ->
    exists out, getitem sub hasm chk sub_fresh (fst (crun sub hasm chk sub_fresh st1 ops)) (mkQ (Some c) k)
                = (fst (crun sub hasm chk sub_fresh st1 ops), out, false).
  Proof.
    intros H Hg. apply (getitem_next_hit _ c k h). apply crun_keeps; [exact Hg|]. eapply get_plain_stores; eauto.
  Qed.
End Once.

(* ---- the model's getitem follows the decision chain (code_action_of) that Gen/Leaf.v regenerates from the source ---- *)
Section Action.
  Variable sub : nat -> nat -> bool.
  Variable hasm : nat -> nat -> bool.
  Variable chk : nat -> nat -> bool.
  Variable sub_fresh : nat -> bool.

  Definition is_some {X} (o : option X) : bool := match o with Some _ => true | None => false end.

  Definition run_action (st1 : cstate) (q : qkey) (h : nat) (a : code_action) : outcome :=
    match a with
    | CA_plain => ORun h
    | CA_error => match assoc_q q (cs_err st1) with Some g => OAmbig g | None => ONoMethod end
    | CA_entry => match assoc_q q (cs_dict st1) with Some h2 => ORun h2 | None => ONoMethod end
    | CA_nomethod => ONoMethod
    end.

  Lemma getitem_follows_action st c k st1 h r cands :
    assoc_q (mkQ (Some c) k) (cs_dict st) = None ->
    get_plain sub hasm chk sub_fresh st k = (st1, ORun h, r) ->
    assoc_k k (cs_all st1) = Some cands ->
    getitem sub hasm chk sub_fresh st (mkQ (Some c) k) =
      (st1, run_action st1 (mkQ (Some c) k) h
              (code_action_of (negb (memb c cands)) (is_some (assoc_q (mkQ (Some c) k) (cs_err st1)))
                              (is_some (assoc_q (mkQ (Some c) k) (cs_dict st1)))), r).
  Proof.
    intros Hmiss Hp Hall. unfold Cache.getitem. simpl q_caller. simpl q_key. rewrite Hmiss, Hp, Hall.
    unfold code_action_of, run_action.
    destruct (negb (memb c cands)); [reflexivity|].
    destruct (assoc_q (mkQ (Some c) k) (cs_err st1)); [reflexivity|]. simpl is_some.
    destruct (assoc_q (mkQ (Some c) k) (cs_dict st1)); reflexivity.
  Qed.
End Action.
