(* Norm.v — types.py TypeNormalizer + abc.py generic handlers: annotation spellings -> the type dispatch uses. *)
From Coq Require Import ZArith List Bool Arith.
Import ListNotations.
From OvldV Require Import Model.Order Model.Ty Model.Dep.

Definition C_TYPE := 1.
Definition F_SEQ := 4.

Inductive ann : Type :=
| ATy (t : ty)                  (* a class or an ovld type object, used as is *)
| AAny                          (* typing.Any *)
| AMissing                      (* no annotation *)
| ABareType                     (* type *)
| AUnion (l : list ann)         (* typing.Union[...] and A | B | ...: Python's typing hands over the flat member list *)
| ATuple (l : list ann)         (* (A, B): a tuple of types *)
| AOptional (a : ann)           (* Optional[A], A | None: members (A, NoneType) *)
| AAnnotated (a : ann)          (* Annotated[A, ...] *)
| AStr (a : ann)                (* a string that evaluates to the annotation a *)
| ATypeOf (t : ty)              (* type[X] *)
| AList (a : ann) (typing_spelling : bool)    (* list[A] / typing.List[A] *)
| ALiteral (vs : list val)      (* Literal[v1, ..., vn] *)
| ATupleOf (l : list ann).      (* tuple[A, B] *)

Definition literal_bound (vs : list val) : ty :=
  match vs with
  | [] => Cls C_OBJECT
  | v :: r => if forallb (fun x => Nat.eqb (class_of x) (class_of v)) r then Cls (class_of v) else Cls C_OBJECT
  end.

Fixpoint norm (a : ann) : ty :=
  match a with
  | ATy t => t
  | AAny | AMissing => Cls C_OBJECT
  | ABareType => Gen C_TYPE [Cls C_OBJECT]
  | AUnion l => Uni (map norm l)
  | ATuple l => Uni (map norm l)
  | AOptional x => Uni [norm x; Cls C_NONE]
  | AAnnotated x => norm x
  | AStr x => norm x
  | ATypeOf t => Gen C_TYPE [t]
  | AList x _ => TFn F_SEQ [norm x] (Cls C_LIST)
  | ALiteral vs => Lit vs (literal_bound vs)
  | ATupleOf l => Prod (map norm l) (Cls C_TUPLE)
  end.
