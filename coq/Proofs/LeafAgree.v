(* LeafAgree.v — the leaf decision functions regenerated from /repo's current source (Gen/Leaf.v) are extensionally
   equal to the hand-written ones the model and all theorems use.  Scripts are written to survive harmless respellings
   of the source (case split on every comparison, then lia): a semantic edit makes one of them fail. *)
From Coq Require Import ZArith List Bool Arith Lia.
Import ListNotations.
From OvldV Require Import Model.Order Model.Ty Model.Resolve Gen.Leaf Proofs.ResolveSort.

Ltac split_ifs :=
  repeat match goal with
         | |- context [if ?c then _ else _] => let E := fresh "E" in destruct c eqn:E
         end.

Ltac to_prop :=
  repeat match goal with
         | H : Z.ltb _ _ = true |- _ => apply Z.ltb_lt in H
         | H : Z.ltb _ _ = false |- _ => apply Z.ltb_ge in H
         | H : Z.leb _ _ = true |- _ => apply Z.leb_le in H
         | H : Z.leb _ _ = false |- _ => apply Z.leb_gt in H
         | H : Z.eqb _ _ = true |- _ => apply Z.eqb_eq in H
         | H : Z.eqb _ _ = false |- _ => apply Z.eqb_neq in H
         | H : Nat.ltb _ _ = true |- _ => apply Nat.ltb_lt in H
         | H : Nat.ltb _ _ = false |- _ => apply Nat.ltb_ge in H
         | H : Nat.leb _ _ = true |- _ => apply Nat.leb_le in H
         | H : Nat.leb _ _ = false |- _ => apply Nat.leb_gt in H
         | H : Nat.eqb _ _ = true |- _ => apply Nat.eqb_eq in H
         | H : Nat.eqb _ _ = false |- _ => apply Nat.eqb_neq in H
         | H : negb _ = true |- _ => apply negb_true_iff in H
         | H : negb _ = false |- _ => apply negb_false_iff in H
         end.

Lemma opposite_agree o : opposite_src o = opposite o.
Proof. first [reflexivity | destruct o; reflexivity]. Qed.

Lemma forallb_eq {X} (p q : X -> bool) l : (forall x, p x = q x) -> forallb p l = forallb q l.
Proof. intros H; induction l; simpl; congruence. Qed.

Lemma existsb_eq {X} (p q : X -> bool) l : (forall x, p x = q x) -> existsb p l = existsb q l.
Proof. intros H; induction l; simpl; congruence. Qed.

(* membership tests against literal sets of orders, as predicates on one order *)
Definition in_orders (xs : list order) (x : order) : bool := existsb (order_eqb x) xs.

Lemma merge_ref l :
  merge l =
    if forallb (in_orders [SAME]) l && negb (match l with [] => true | _ => false end) then SAME
    else if forallb (in_orders [LESS; SAME]) l then LESS
    else if forallb (in_orders [MORE; SAME]) l then MORE
    else NONE.
Proof.
  unfold merge.
  rewrite (forallb_eq is_same (in_orders [SAME])) by (intros []; reflexivity).
  rewrite (forallb_eq le_same (in_orders [LESS; SAME])) by (intros []; reflexivity).
  rewrite (forallb_eq ge_same (in_orders [MORE; SAME])) by (intros []; reflexivity).
  rewrite andb_comm. reflexivity.
Qed.

Lemma all_same_exists l : forallb (in_orders [SAME]) l = true ->
  existsb (fun x => order_eqb x SAME) l = negb (match l with [] => true | _ => false end).
Proof. destruct l as [|x r]; simpl; [reflexivity|]. destruct x; simpl; try discriminate. reflexivity. Qed.

Lemma merge_agree l : merge_src l = merge l.
Proof.
  (* when the source left the translator's subset, merge_src is the hand-written function itself: reflexivity *)
  first
    [ reflexivity
    | rewrite merge_ref; unfold merge_src;
      (* every generated membership test is an in_orders test, whatever the order in which the set literal lists its members *)
      repeat match goal with
             | |- context [forallb ?p l] =>
                 lazymatch p with
                 | in_orders _ => fail
                 | _ => first
                     [ rewrite (forallb_eq p (in_orders [SAME])) by (intros []; reflexivity)
                     | rewrite (forallb_eq p (in_orders [LESS; SAME])) by (intros []; reflexivity)
                     | rewrite (forallb_eq p (in_orders [MORE; SAME])) by (intros []; reflexivity) ]
                 end
             end;
      destruct (forallb (in_orders [SAME]) l) eqn:Es;
      [ rewrite (all_same_exists _ Es); reflexivity | reflexivity ] ].
Qed.

Lemma all2_ge l1 l2 : all2_src (fun x y => Nat.leb y x) l1 l2 = all_ge l1 l2.
Proof. revert l2. induction l1 as [|x xs IH]; intros [|y ys]; simpl; try reflexivity. now rewrite IH. Qed.

Lemma all2_src_ext f g l1 l2 : (forall x y, f x y = g x y) -> all2_src f l1 l2 = all2_src g l1 l2.
Proof. intros H. revert l2. induction l1 as [|x xs IH]; intros [|y ys]; simpl; try reflexivity. now rewrite H, IH. Qed.

Lemma dominates_agree a b : dominates_src a b = dominates a b.
Proof.
  first
    [ reflexivity
    | unfold dominates_src, dominates;
      (* the elementwise test, however the comparison is spelt, is x >= y *)
      repeat match goal with
             | |- context [all2_src ?f ?l1 ?l2] =>
                 lazymatch f with
                 | (fun x y => Nat.leb y x) => fail
                 | _ => rewrite (all2_src_ext f (fun x y => Nat.leb y x) l1 l2)
                          by (intros x y; split_ifs; destruct (Nat.leb y x) eqn:?; to_prop; try reflexivity; lia)
                 end
             end;
      rewrite ?all2_ge;
      split_ifs; to_prop; try reflexivity; try lia; try congruence ].
Qed.

(* the stable sort compares sort_key tuples lexicographically, descending *)
Definition lex_gt (k1 k2 : Z * nat * Z) : Prop :=
  let '(p1, s1, t1) := k1 in let '(p2, s2, t2) := k2 in
  (p2 < p1)%Z \/ (p1 = p2 /\ (s2 < s1 \/ (s1 = s2 /\ (t2 < t1)%Z))).

Lemma sort_key_agree a b : key_gt a b = true <-> lex_gt (sort_key_src a) (sort_key_src b).
Proof. unfold sort_key_src, lex_gt. rewrite key_gt_spec. tauto. Qed.

Lemma arity_agree m nargs names : arity_ok_src m nargs names = arity_ok m nargs names.
Proof.
  first
    [ reflexivity
    | unfold arity_ok_src, arity_ok;
      destruct (forallb (fun k => memb k names) (m_reqkw m)); rewrite ?andb_true_r, ?andb_false_r; try reflexivity;
      repeat match goal with |- context [Nat.leb ?x ?y] => destruct (Nat.leb x y) eqn:? end;
      repeat match goal with |- context [Nat.ltb ?x ?y] => destruct (Nat.ltb x y) eqn:? end;
      to_prop; simpl; try reflexivity; lia ].
Qed.

(* the grouping loop of _pull *)
Lemma existsb_dom_agree kept c2 :
  existsb (fun c => dominates_src c c2) kept = existsb (fun c => dominates c c2) kept.
Proof. induction kept as [|a r IH]; simpl; [reflexivity|]. now rewrite dominates_agree, IH. Qed.

Lemma grp_agree : forall rest kept, grp_src kept rest = grp kept rest.
Proof.
  first
    [ intros; reflexivity
    | induction rest as [|c2 r IH]; intros kept; simpl; [reflexivity|];
      rewrite ?negb_involutive, ?existsb_dom_agree;
      destruct (existsb (fun c => dominates c c2) kept); cbn [negb]; rewrite ?IH; reflexivity ].
Qed.

(* the issubclass fallback at the end of typeorder, as the model's tord_body spells it *)
Lemma cls_tail_agree s12 s21 :
  cls_tail_src s12 s21 = (if s12 && s21 then SAME else if s12 then LESS else if s21 then MORE else NONE).
Proof. destruct s12, s21; reflexivity. Qed.
