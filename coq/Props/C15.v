(* C15 — equivalent spellings of an annotation dispatch identically.
   Theorems only.  Model: Model/Norm.v (TypeNormalizer and the generic handlers of abc.py).  Dispatch depends on an
   annotation only through its normalised type (methods carry [ty]s in Model/Resolve.v), so equal normal forms give
   identical dispatch for all arguments and all surrounding method sets.  These equalities hold by computation: the
   theorem content is thin and most of the assurance for C15 is the correspondence run (normalize_type of the real
   annotation objects against [norm], and behavioural comparison of respelt programs).  Member order of unions and Literal
   values: identified by the library (equality up to order, fix: commit 1379476) and by the harness's canonical encoding. *)
From Coq Require Import ZArith List Bool Arith.
Import ListNotations.
From OvldV Require Import Model.Order Model.Ty Model.Dep Model.Norm.

Theorem C15_union_spellings : forall l, norm (AUnion l) = norm (ATuple l).
Proof. reflexivity. Qed.
Print Assumptions C15_union_spellings.

Theorem C15_optional : forall a, norm (AOptional a) = norm (AUnion [a; ATy (Cls C_NONE)]).
Proof. reflexivity. Qed.
Print Assumptions C15_optional.

Theorem C15_any_missing_object : norm AAny = norm AMissing /\ norm AMissing = norm (ATy (Cls C_OBJECT)).
Proof. split; reflexivity. Qed.
Print Assumptions C15_any_missing_object.

Theorem C15_annotated : forall a, norm (AAnnotated a) = norm a.
Proof. reflexivity. Qed.
Print Assumptions C15_annotated.

Theorem C15_string : forall a, norm (AStr a) = norm a.
Proof. reflexivity. Qed.
Print Assumptions C15_string.

Theorem C15_list_spellings : forall a, norm (AList a true) = norm (AList a false).
Proof. reflexivity. Qed.
Print Assumptions C15_list_spellings.

(* respelling inside a compound annotation: normalisation is compositional *)
Theorem C15_congruence_union : forall l l', map norm l = map norm l' -> norm (AUnion l) = norm (AUnion l').
Proof. intros l l' H. simpl. now rewrite H. Qed.
Print Assumptions C15_congruence_union.

Theorem C15_bare_type : norm ABareType = norm (ATypeOf (Cls C_OBJECT)).
Proof. reflexivity. Qed.
Print Assumptions C15_bare_type.

(* ---- the general statements: every documented respelling, anywhere inside an annotation, in any method of any list ---- *)
From Coq Require Import Permutation.
From OvldV Require Import Model.TyDom Model.Resolve Proofs.NormRespell.

(* [respell] (Proofs/NormRespell.v) is the least equivalence containing the documented pairs -- Union[..] / A | B / (A, B);
   Optional[A] / A | None; Any / missing / object; Annotated[A, ..] / A; "A" / A; list[A] / typing.List[A]; type / type[object] --
   and closed under every compound annotation form.  Related annotations normalise to the same type. *)
Theorem C15_respelling_same_type : forall a b, respell a b -> norm a = norm b.
Proof. exact respell_norm. Qed.
Print Assumptions C15_respelling_same_type.

(* ... so two method lists that differ only by respellings (any number of them, at any depth, in any parameter of any
   method) are the same list of registered methods: the table lookup, and every other function of it, agree for every
   class hierarchy and every call *)
Theorem C15_respelling_same_dispatch : forall sub hasm chk fresh ms ms' k,
  Forall2 respell_meth ms ms' ->
  lookup sub hasm chk fresh (map nmeth ms) k = lookup sub hasm chk fresh (map nmeth ms') k.
Proof. intros sub hasm chk fresh ms ms' k H. exact (respell_dispatch _ (fun l => lookup sub hasm chk fresh l k) ms ms' H). Qed.
Print Assumptions C15_respelling_same_dispatch.

Theorem C15_respelling_same_continuation : forall sub hasm chk fresh ms ms' caller k,
  Forall2 respell_meth ms ms' ->
  lookup_next sub hasm chk fresh (map nmeth ms) caller k = lookup_next sub hasm chk fresh (map nmeth ms') caller k.
Proof. intros sub hasm chk fresh ms ms' caller k H. exact (respell_dispatch _ (fun l => lookup_next sub hasm chk fresh l caller k) ms ms' H). Qed.
Print Assumptions C15_respelling_same_continuation.

(* reorderings (members of unions / intersections, values of Literals, at any depth: [reord]) are NOT identities of the
   model's terms -- the library identifies them by an order-insensitive == (fix 1379476) and the harness hands the model
   a canonical member order; what is proved here is that the order carries no meaning: the classes that fall under the type
   are the same, and a Literal has the same bound and the same members *)
Theorem C15_reorder_same_classes : forall sub hasm chk fresh, (forall c, sub c c = true) ->
  forall T T' c, reord T T' -> subclasscheck sub hasm chk fresh (Cls c) T = subclasscheck sub hasm chk fresh (Cls c) T'.
Proof. exact reord_subclasscheck. Qed.
Print Assumptions C15_reorder_same_classes.

Theorem C15_literal_order : forall sub hasm chk utab vs vs', Permutation vs vs' ->
  literal_bound vs = literal_bound vs' /\
  forall v, instance sub hasm chk utab (norm (ALiteral vs)) v = instance sub hasm chk utab (norm (ALiteral vs')) v.
Proof. exact literal_order. Qed.
Print Assumptions C15_literal_order.
