(* ResolveSort.v — order facts about Candidate.sort_key / dominates, the stable sort and _pull (hierarchy independent). *)
From Coq Require Import ZArith List Bool Arith Lia Permutation.
Import ListNotations.
From OvldV Require Import Model.Order Model.Ty Model.Resolve Proofs.TyEq.

Lemma key_gt_spec a b :
  key_gt a b = true <->
  (c_prio b < c_prio a)%Z \/
  (c_prio a = c_prio b /\ (sumn (c_spec b) < sumn (c_spec a) \/
                           (sumn (c_spec a) = sumn (c_spec b) /\ (c_tie b < c_tie a)%Z))).
Proof.
  unfold key_gt.
  destruct (Z.ltb_spec (c_prio b) (c_prio a)); [split; auto|].
  destruct (Z.ltb_spec (c_prio a) (c_prio b)); [split; [discriminate|lia]|].
  destruct (Nat.ltb_spec (sumn (c_spec b)) (sumn (c_spec a))); [split; [intros _; right; split; [lia|auto]|auto]|].
  destruct (Nat.ltb_spec (sumn (c_spec a)) (sumn (c_spec b))); [split; [discriminate|lia]|].
  rewrite Z.ltb_lt. split; [intros; right; split; [lia|right; split; [lia|auto]] | lia].
Qed.

Lemma key_gt_asym a b : key_gt a b = true -> key_gt b a = false.
Proof.
  intros H. apply key_gt_spec in H. destruct (key_gt b a) eqn:E; [|reflexivity].
  apply key_gt_spec in E. lia.
Qed.

Lemma key_gt_trans a b c : key_gt a b = true -> key_gt b c = true -> key_gt a c = true.
Proof. rewrite !key_gt_spec. lia. Qed.

Lemma key_gt_negtrans a b c : key_gt a c = true -> key_gt a b = true \/ key_gt b c = true.
Proof.
  rewrite !key_gt_spec.
  destruct (Z.lt_trichotomy (c_prio b) (c_prio a)) as [H|[H|H]];
  destruct (Z.lt_trichotomy (c_prio c) (c_prio b)) as [H2|[H2|H2]];
  destruct (Nat.lt_trichotomy (sumn (c_spec b)) (sumn (c_spec a))) as [H3|[H3|H3]];
  destruct (Nat.lt_trichotomy (sumn (c_spec c)) (sumn (c_spec b))) as [H4|[H4|H4]];
  destruct (Z.lt_trichotomy (c_tie b) (c_tie a)) as [H5|[H5|H5]];
  destruct (Z.lt_trichotomy (c_tie c) (c_tie b)) as [H6|[H6|H6]]; lia.
Qed.

(* ---- insertion sort ---- *)
Lemma insert_desc_perm c l : Permutation (c :: l) (insert_desc c l).
Proof.
  induction l as [|x r IH]; simpl; [reflexivity|].
  destruct (key_gt x c); [|reflexivity].
  etransitivity; [apply perm_swap|]. now constructor.
Qed.

Lemma sort_desc_perm l : Permutation l (sort_desc l).
Proof.
  induction l as [|x r IH]; simpl; [reflexivity|].
  etransitivity; [|apply insert_desc_perm]. now constructor.
Qed.

Lemma sort_desc_In l x : In x (sort_desc l) <-> In x l.
Proof. split; apply Permutation_in; [symmetry|]; apply sort_desc_perm. Qed.

Lemma key_gt_irrefl m : key_gt m m = false.
Proof. destruct (key_gt m m) eqn:E; [|reflexivity]. pose proof (key_gt_asym _ _ E). congruence. Qed.

(* the head of the sorted list has no strictly greater element *)
Lemma insert_desc_head c l h t :
  (forall y t', l = y :: t' -> forall x, In x l -> key_gt x y = false) ->
  insert_desc c l = h :: t -> forall x, In x (c :: l) -> key_gt x h = false.
Proof.
  intros Hl Hi x Hx. destruct l as [|y r]; simpl in Hi.
  - injection Hi as <- <-. destruct Hx as [<-|[]]. apply key_gt_irrefl.
  - destruct (key_gt y c) eqn:E; injection Hi as <- <-.
    + destruct Hx as [<-|Hx]; [now apply key_gt_asym | exact (Hl y r eq_refl x Hx)].
    + destruct Hx as [<-|Hx]; [apply key_gt_irrefl|].
      destruct (key_gt x c) eqn:E2; [|reflexivity].
      destruct (key_gt_negtrans x y c E2) as [H|H]; [|congruence].
      rewrite (Hl y r eq_refl x Hx) in H. discriminate.
Qed.

Lemma sort_desc_head l h t : sort_desc l = h :: t -> forall x, In x l -> key_gt x h = false.
Proof.
  revert h t. induction l as [|a r IH]; intros h t H x Hx; [destruct Hx|].
  simpl in H. eapply insert_desc_head; [|exact H|].
  - intros y t' Hy z Hz. eapply IH; [exact Hy|]. now apply sort_desc_In.
  - destruct Hx as [<-|Hx]; [now left|right]. now apply sort_desc_In.
Qed.

(* an element strictly greater than every other one ends up first *)
Lemma sort_desc_top l m :
  In m l -> (forall x, In x l -> x = m \/ key_gt m x = true) -> exists t, sort_desc l = m :: t.
Proof.
  induction l as [|a r IH]; intros Hin Hgt; [destruct Hin|].
  assert (Hr : forall x, In x r -> x = m \/ key_gt m x = true) by (intros x Hx; apply Hgt; now right).
  simpl. destruct Hin as [->|Hin].
  - destruct (sort_desc r) as [|y t] eqn:E; simpl; [eauto|].
    assert (Hy : In y r) by (apply sort_desc_In; rewrite E; now left).
    destruct (Hr y Hy) as [->|Hk].
    + rewrite key_gt_irrefl. eauto.
    + rewrite (key_gt_asym _ _ Hk). eauto.
  - destruct (IH Hin Hr) as [t Ht]. rewrite Ht. simpl.
    destruct (Hgt a (or_introl eq_refl)) as [->|Hk].
    + rewrite key_gt_irrefl. eauto.
    + rewrite Hk. eauto.
Qed.

(* ---- _pull ---- *)
Lemma filter_all_true {X} (f : X -> bool) l : (forall x, In x l -> f x = true) -> filter f l = l.
Proof. induction l as [|a r IH]; simpl; intros H; [reflexivity|]. rewrite (H a (or_introl eq_refl)), IH; auto. Qed.

Lemma filter_all_false {X} (f : X -> bool) l : (forall x, In x l -> f x = false) -> filter f l = [].
Proof. induction l as [|a r IH]; simpl; intros H; [reflexivity|]. rewrite (H a (or_introl eq_refl)), IH; auto. Qed.

Lemma pull_first fuel c1 rest :
  pull (S fuel) (c1 :: rest) [] =
    (c1 :: grp [c1] rest) :: pull fuel rest (map (fun c => m_id (c_m c)) (grp [c1] rest)).
Proof. cbn [pull]. rewrite filter_all_true by (intros; reflexivity). reflexivity. Qed.

(* ---- the group of the first candidate ---- *)
Lemma grp_sub kept rest x : In x (grp kept rest) -> In x rest.
Proof.
  revert kept. induction rest as [|c2 r IH]; intros kept; simpl; [tauto|].
  destruct (existsb _ kept); simpl; intros H; [right; eauto|]. destruct H as [->|H]; [now left|right; eauto].
Qed.

Lemma grp_not_dom : forall rest kept x c, In x (grp kept rest) -> In c kept -> dominates c x = false.
Proof.
  induction rest as [|c2 r IH]; intros kept x c Hx Hc; simpl in Hx; [destruct Hx|].
  destruct (existsb (fun c0 => dominates c0 c2) kept) eqn:E; [eauto|].
  destruct Hx as [->|Hx].
  - destruct (dominates c x) eqn:Ed; [|reflexivity].
    assert (existsb (fun c0 => dominates c0 x) kept = true) by (apply existsb_exists; eauto). congruence.
  - eapply IH; [exact Hx|]. apply in_app_iff. now left.
Qed.

(* the members of the group do not dominate one another, in list order *)
Lemma grp_nil_iff kept rest : grp kept rest = [] <-> forall x, In x rest -> existsb (fun c => dominates c x) kept = true.
Proof.
  induction rest as [|c2 r IH]; simpl; [split; [intros _ x []|reflexivity]|].
  destruct (existsb (fun c => dominates c c2) kept) eqn:E.
  - rewrite IH. split; [intros H x [<-|Hx]; auto|intros H x Hx; auto].
  - split; [discriminate|]. intros H. specialize (H c2 (or_introl eq_refl)). congruence.
Qed.

Lemma grp_single_nil_iff c1 rest :
  grp [c1] rest = [] <-> filter (fun c2 => negb (dominates c1 c2)) rest = [].
Proof.
  rewrite grp_nil_iff. split.
  - intros H. apply filter_all_false. intros x Hx. specialize (H x Hx). simpl in H. rewrite orb_false_r in H. now rewrite H.
  - intros H x Hx. simpl. rewrite orb_false_r. destruct (dominates c1 x) eqn:E; [reflexivity|].
    assert (Hin : In x (filter (fun c2 => negb (dominates c1 c2)) rest)) by (apply filter_In; rewrite E; auto).
    rewrite H in Hin. destruct Hin.
Qed.

(* every candidate left out of the group is dominated by a member of the group *)
Lemma grp_out_dominated : forall rest kept x, In x rest -> ~ In x (grp kept rest) ->
  exists c, In c (kept ++ grp kept rest) /\ dominates c x = true.
Proof.
  induction rest as [|c2 r IH]; intros kept x Hx Hn; [destruct Hx|]. simpl in *.
  destruct (existsb (fun c => dominates c c2) kept) eqn:E.
  - destruct Hx as [->|Hx].
    + apply existsb_exists in E. destruct E as (c & Hc & Hd). exists c. split; [apply in_app_iff; now left|exact Hd].
    + eauto.
  - destruct Hx as [->|Hx]; [exfalso; apply Hn; now left|].
    destruct (IH (kept ++ [c2]) x Hx) as (c & Hc & Hd); [intros H; apply Hn; now right|].
    exists c. split; [|exact Hd]. rewrite <- app_assoc in Hc. exact Hc.
Qed.

Lemma grp_map_nodup {Y} (f : cand -> Y) : forall rest kept, NoDup (map f rest) -> NoDup (map f (grp kept rest)).
Proof.
  induction rest as [|c2 r IH]; intros kept H; simpl; [constructor|]. inversion H as [|? ? Hn Hr]; subst.
  destruct (existsb _ kept); [auto|]. simpl. constructor; [|auto].
  intros Hin. apply Hn. apply in_map_iff in Hin. destruct Hin as (y & Hy & Hin). apply in_map_iff. exists y.
  split; [exact Hy|eapply grp_sub; eauto].
Qed.

Lemma pull_nil fuel : pull fuel [] [] = [].
Proof. destruct fuel; reflexivity. Qed.
