(* ResolveCands.v — the candidate set of MultiTypeMap.mro: exactly the methods whose arity/keywords fit the call and
   whose declared type at every supplied slot passes subclasscheck; their specificity tuples read the level tables. *)
From Coq Require Import ZArith List Bool Arith Lia Permutation.
Import ListNotations.
From OvldV Require Import Model.Order Model.Ty Model.Resolve Proofs.TyEq Proofs.ResolveKahn Proofs.ResolveLevels Proofs.ResolveSort.

Lemma omap_filter_In {X Y} (f : X -> option Y) l y :
  In y (omap_filter f l) <-> exists x, In x l /\ f x = Some y.
Proof.
  induction l as [|a r IH]; simpl; [split; [intros []|intros (x & [] & _)]|].
  destruct (f a) as [b|] eqn:E; simpl; rewrite IH; split.
  - intros [<-|(x & Hx & Hf)]; [exists a; auto|exists x; auto].
  - intros (x & [<-|Hx] & Hf); [left; congruence|right; eauto].
  - intros (x & Hx & Hf); exists x; auto.
  - intros (x & [<-|Hx] & Hf); [congruence|eauto].
Qed.

Lemma Forall2_impl' {X Y} (P Q : X -> Y -> Prop) l1 l2 :
  (forall x y, P x y -> Q x y) -> Forall2 P l1 l2 -> Forall2 Q l1 l2.
Proof. intros H; induction 1; constructor; auto. Qed.

Lemma mem_ty_In t l : mem_ty t l = true <-> In t l.
Proof.
  unfold mem_ty. rewrite existsb_exists. split.
  - intros (y & Hy & E). apply ty_eqb_eq in E. now subst.
  - intros H. exists t. split; [exact H|apply ty_eqb_refl].
Qed.

Lemma dedup_ty_In t l : In t (dedup_ty l) <-> In t l.
Proof.
  induction l as [|a r IH]; simpl; [tauto|].
  destruct (mem_ty a r) eqn:E.
  - rewrite IH. split; [auto|]. intros [<-|H]; [now apply mem_ty_In|exact H].
  - simpl. rewrite IH. tauto.
Qed.

Lemma dedup_ty_NoDup l : NoDup (dedup_ty l).
Proof.
  induction l as [|a r IH]; simpl; [constructor|].
  destruct (mem_ty a r) eqn:E; [exact IH|].
  constructor; [|exact IH]. rewrite dedup_ty_In. intros H. apply mem_ty_In in H. congruence.
Qed.

Lemma dedup_first_In t l : In t (dedup_first l) <-> In t l.
Proof. unfold dedup_first. rewrite <- in_rev, dedup_ty_In, <- in_rev. tauto. Qed.

Lemma dedup_first_NoDup l : NoDup (dedup_first l).
Proof. unfold dedup_first. apply NoDup_rev. apply dedup_ty_NoDup. Qed.

Lemma slot_types_In ms s t :
  In t (slot_types ms s) <-> exists m, In m ms /\ slot_ty m s = Some t.
Proof.
  unfold slot_types. rewrite filter_In, mem_ty_In, omap_filter_In. split; [tauto|].
  intros (m & Hm & Hs). split; [|eauto].
  unfold all_types. apply dedup_first_In. apply in_flat_map. exists m. split; [exact Hm|].
  destruct s as [i|k]; simpl in Hs.
  - apply in_app_iff. left. eapply nth_error_In; eauto.
  - apply in_app_iff. right. clear -Hs. induction (m_kw m) as [|[a x] r IH]; simpl in *; [discriminate|].
    destruct (Nat.eqb a k); [injection Hs as ->; now left|right; auto].
Qed.

Lemma slot_types_NoDup ms s : NoDup (slot_types ms s).
Proof. unfold slot_types. apply NoDup_filter. apply dedup_first_NoDup. Qed.

Section Hier.
  Variable sub : nat -> nat -> bool.
  Variable hasm : nat -> nat -> bool.
  Variable chk : nat -> nat -> bool.
  Variable sub_fresh : nat -> bool.

  Notation subclasscheck := (subclasscheck sub hasm chk sub_fresh).
  Notation levels := (levels sub hasm chk sub_fresh).
  Notation candidates := (candidates sub hasm chk sub_fresh).
  Notation mro := (mro sub hasm chk sub_fresh).
  Notation lookup := (lookup sub hasm chk sub_fresh).
  Notation lookup_next := (lookup_next sub hasm chk sub_fresh).

  (* the per-slot level tables of a key *)
  Definition tables_for (ms : list meth) (k : key) (lv : list (slot * list (ty * nat))) : Prop :=
    Forall2 (fun (st : slot * ty) (e : slot * list (ty * nat)) =>
               fst e = fst st /\ levels (slot_types ms (fst st)) (snd st) = Ok (snd e)) (key_slots k) lv.

  Definition cand_of (lv : list (slot * list (ty * nat))) (nargs : nat) (names : list nat) (m : meth) : option cand :=
    if arity_ok m nargs names
    then match spec_of lv m with Some sp => Some (mkCand m sp) | None => None end
    else None.

  Lemma candidates_inv ms k cs :
    candidates ms k = Ok cs ->
    exists lv, tables_for ms k lv /\
      cs = omap_filter (cand_of lv (length (k_pos k)) (map fst (k_kw k))) ms.
  Proof.
    unfold Resolve.candidates. intros H.
    destruct (rmapM _ (key_slots k)) as [lv|] eqn:E; simpl in H; [|discriminate].
    injection H as <-. exists lv. split; [|reflexivity].
    apply rmapM_Forall2 in E. unfold tables_for.
    eapply Forall2_impl'; [|exact E]. intros [s t] e He. simpl in He.
    destruct (levels (slot_types ms s) t) as [tab|] eqn:El; simpl in He; [|discriminate].
    injection He as <-. simpl. auto.
  Qed.

  Lemma spec_of_Forall2 lv m sp :
    spec_of lv m = Some sp <->
    Forall2 (fun (e : slot * list (ty * nat)) lvl => exists t, slot_ty m (fst e) = Some t /\ assoc_ty t (snd e) = Some lvl) lv sp.
  Proof.
    revert sp. induction lv as [|[s tab] r IH]; intros sp; simpl.
    - split; [intros H; injection H as <-; constructor | intros H; inversion H; reflexivity].
    - destruct (slot_ty m s) as [t|] eqn:Es.
      + destruct (assoc_ty t tab) as [lvl|] eqn:Ea.
        * fold (spec_of r m). destruct (spec_of r m) as [ls|] eqn:Er.
          -- split.
             ++ intros H. injection H as <-. constructor; [exists t; auto | now apply IH].
             ++ intros H. inversion H as [|? ? ? ? (t' & Ht & Hl) Hr]; subst. simpl in *.
                rewrite Es in Ht. injection Ht as <-. rewrite Ea in Hl. injection Hl as <-.
                apply IH in Hr. congruence.
          -- split; [discriminate|]. intros H. inversion H as [|? ? ? ? _ Hr]; subst. apply IH in Hr. discriminate.
        * split; [discriminate|]. intros H. inversion H as [|? ? ? ? (t' & Ht & Hl) _]; subst. simpl in *.
          rewrite Es in Ht. injection Ht as <-. congruence.
      + split; [discriminate|]. intros H. inversion H as [|? ? ? ? (t' & Ht & _) _]; subst. simpl in *. congruence.
  Qed.

  (* type-level applicability, for arbitrary declared types *)
  Definition applicable_ty (m : meth) (k : key) : bool :=
    arity_ok m (length (k_pos k)) (map fst (k_kw k))
    && forallb (fun st : slot * ty =>
                  match slot_ty m (fst st) with
                  | Some t => match subclasscheck (snd st) t with Some true => true | _ => false end
                  | None => false
                  end) (key_slots k).

  Lemma spec_of_some_iff ms k lv m :
    tables_for ms k lv -> In m ms ->
    ((exists sp, spec_of lv m = Some sp) <->
     forallb (fun st : slot * ty =>
                match slot_ty m (fst st) with
                | Some t => match subclasscheck (snd st) t with Some true => true | _ => false end
                | None => false
                end) (key_slots k) = true).
  Proof.
    intros Ht Hm. unfold tables_for in Ht. induction Ht as [|[s kt] [s' tab] sts lv' [Hs Hl] Hr IH]; simpl in *.
    - split; [auto|eauto].
    - subst s'. fold (spec_of lv' m).
      destruct (slot_ty m s) as [t|] eqn:Es; [|split; [intros [sp H]; discriminate|discriminate]].
      pose proof (levels_dom _ _ _ _ _ _ _ t Hl (slot_types_NoDup ms s)) as Hd.
      destruct (assoc_ty t tab) as [lvl|] eqn:Ea.
      + assert (Hsc : subclasscheck kt t = Some true) by (apply Hd; eauto).
        rewrite Hsc. simpl. rewrite <- IH. split.
        * intros [sp H]. destruct (spec_of lv' m); [eauto|discriminate].
        * intros [sp H]. rewrite H. eauto.
      + split; [intros [sp H]; discriminate|].
        intros H. apply andb_true_iff in H. destruct H as [H _].
        destruct (subclasscheck kt t) as [[|]|] eqn:Hsc; try discriminate.
        destruct (proj2 Hd) as [lvl Hl']; [|discriminate].
        split; [|reflexivity]. apply slot_types_In. eauto.
  Qed.

  Lemma cand_In ms k cs c :
    candidates ms k = Ok cs ->
    (In c cs <-> exists lv, tables_for ms k lv /\ In (c_m c) ms /\
                   arity_ok (c_m c) (length (k_pos k)) (map fst (k_kw k)) = true /\ spec_of lv (c_m c) = Some (c_spec c)).
  Proof.
    intros H. destruct (candidates_inv _ _ _ H) as (lv & Ht & ->).
    rewrite omap_filter_In. unfold cand_of. split.
    - intros (m & Hm & Hc). destruct (arity_ok m _ _) eqn:Ea; [|discriminate].
      destruct (spec_of lv m) as [sp|] eqn:Es; [|discriminate]. injection Hc as <-. simpl. eauto 6.
    - intros (lv' & Ht' & Hm & Ha & Hs). exists (c_m c). split; [exact Hm|].
      assert (lv' = lv).
      { clear -Ht Ht'. unfold tables_for in *. revert lv' Ht'. induction Ht as [|st e sts l [H1 H2] Hr IH]; intros lv' Ht'; inversion Ht' as [|? e' ? l' [H1' H2'] Hr']; subst; [reflexivity|].
        f_equal; [|auto]. destruct e, e'. simpl in *. congruence. }
      subst lv'. rewrite Ha, Hs. destruct c; reflexivity.
  Qed.

  (* candidate <-> applicable at the type level *)
  Lemma cand_applicable ms k cs m :
    candidates ms k = Ok cs -> In m ms ->
    ((exists c, In c cs /\ c_m c = m) <-> applicable_ty m k = true).
  Proof.
    intros H Hm. destruct (candidates_inv _ _ _ H) as (lv & Ht & Hcs).
    unfold applicable_ty. rewrite andb_true_iff, <- (spec_of_some_iff _ _ _ _ Ht Hm). split.
    - intros (c & Hc & <-). apply (cand_In _ _ _ _ H) in Hc. destruct Hc as (lv' & Ht' & _ & Ha & Hs).
      split; [exact Ha|].
      assert (lv' = lv).
      { clear -Ht Ht'. unfold tables_for in *. revert lv' Ht'. induction Ht as [|st e sts l [H1 H2] Hr IH]; intros lv' Ht'; inversion Ht' as [|? e' ? l' [H1' H2'] Hr']; subst; [reflexivity|].
        f_equal; [|auto]. destruct e, e'. simpl in *. congruence. }
      subst. eauto.
    - intros [Ha [sp Hs]]. exists (mkCand m sp). split; [|reflexivity].
      apply (cand_In _ _ _ _ H). exists lv. simpl. auto.
  Qed.

  (* ---- lookup outcomes in terms of the sorted candidate list ---- *)
  Lemma lookup_unfold ms k cs :
    candidates ms k = Ok cs ->
    lookup ms k = match sort_desc cs with
                  | [] => ONoMethod
                  | c1 :: rest => rank_outcome (c1 :: grp [c1] rest)
                  end.
  Proof.
    intros H. unfold Resolve.lookup, Resolve.mro. rewrite H. cbn [rbind].
    destruct (sort_desc cs) as [|c1 rest] eqn:E; [reflexivity|].
    rewrite pull_first. reflexivity.
  Qed.

  Theorem lookup_nomethod_iff ms k cs :
    candidates ms k = Ok cs ->
    (lookup ms k = ONoMethod <-> forall m, In m ms -> applicable_ty m k = false).
  Proof.
    intros H. rewrite (lookup_unfold _ _ _ H). split.
    - destruct (sort_desc cs) as [|c1 rest] eqn:E.
      + intros _ m Hm. destruct (applicable_ty m k) eqn:Ea; [|reflexivity].
        apply (cand_applicable _ _ _ _ H Hm) in Ea. destruct Ea as (c & Hc & _).
        apply sort_desc_In in Hc. rewrite E in Hc. destruct Hc.
      + unfold rank_outcome. destruct (grp _ rest); discriminate.
    - intros Hno. destruct (sort_desc cs) as [|c1 rest] eqn:E; [reflexivity|].
      assert (Hc : In c1 cs) by (apply sort_desc_In; rewrite E; now left).
      pose proof Hc as Hc'. apply (cand_In _ _ _ _ H) in Hc'. destruct Hc' as (lv & _ & Hm & _).
      assert (applicable_ty (c_m c1) k = true) by (apply (cand_applicable _ _ _ _ H Hm); eauto).
      rewrite (Hno _ Hm) in H0. discriminate.
  Qed.

  (* C01 (type level), all declared types: the method that runs is registered and applicable *)
  Theorem lookup_run_applicable ms k i :
    lookup ms k = ORun i -> exists m, In m ms /\ m_id m = i /\ applicable_ty m k = true.
  Proof.
    intros H.
    destruct (candidates ms k) as [cs|e] eqn:Ec.
    2: { unfold Resolve.lookup, Resolve.mro in H. rewrite Ec in H. cbn [rbind] in H. destruct e; discriminate. }
    rewrite (lookup_unfold _ _ _ Ec) in H. rename H into H'.
    destruct (sort_desc cs) as [|c1 rest] eqn:E; [discriminate|].
    unfold rank_outcome in H'. destruct (grp _ rest); [|discriminate]. injection H' as <-.
    assert (Hc : In c1 cs) by (apply sort_desc_In; rewrite E; now left).
    pose proof Hc as Hc'. apply (cand_In _ _ _ _ Ec) in Hc'. destruct Hc' as (lv & _ & Hm & _).
    exists (c_m c1). repeat split; [exact Hm|]. apply (cand_applicable _ _ _ _ Ec Hm). eauto.
  Qed.
End Hier.
