(* BuildSpec.v -- C18 and C19 as statements about the Build machine, written from the property texts.
   "Outcome over the complete table" is [spec_call] (Model/BuildM.v): a walk down the resolution chain of the key over
   ALL registered definitions, no tables involved.  A function with an invalid definition can only raise a
   configuration error. *)
From Coq Require Import List Bool Arith.
Import ListNotations.
From OvldV Require Import Model.BuildM.

Definition err_eqb (a b : err) : bool :=
  match a, b with EConfig, EConfig | ENoMethod, ENoMethod | EAmbig, EAmbig | EInternal, EInternal => true | _, _ => false end.
Definition result_eqb (a b : result) : bool :=
  match a, b with RRet, RRet => true | RErr x, RErr y => err_eqb x y | _, _ => false end.
Fixpoint labels_eqb (a b : list label) : bool :=
  match a, b with [], [] => true | x :: a', y :: b' => Nat.eqb x y && labels_eqb a' b' | _, _ => false end.
Definition outcome_eqb (a b : list label * result) : bool := labels_eqb (fst a) (fst b) && result_eqb (snd a) (snd b).

Section Spec.
  Variable chain : list label -> key -> list rank.
  Variable meth : label -> minfo.

  (* what a freshly built function over the definitions [defs] does on key k *)
  Definition fresh_outcome (defs : list label) (k : key) : list label * result :=
    if all_ok meth defs then spec_call chain meth defs k else ([], RErr EConfig).
  Definition is_config (o : list label * result) : bool := match snd o with RErr EConfig => true | _ => false end.

  (* C18's oracle for one probe: configuration error again, or the outcome over the complete set of definitions
     (None = the probe did not finish within the fuel: no claim) *)
  Definition allowedb (defs : list label) (k : key) (x : option (list label * result)) : bool :=
    match x with None => true | Some o => is_config o || outcome_eqb o (fresh_outcome defs k) end.

  Definition all_allowed (fuel : nat) (s : shared) (ks : list key) : bool :=
    forallb (fun kx => allowedb (s_defs s) (fst kx) (snd kx)) (combine ks (probes chain meth fuel s ks)).

  (* FULL C18: after any sequential history, a failure injected after ANY prefix of the steps of any operation
     (first call = first build; register/unregister = rebuild; call = cache-miss resolution), every later probe is allowed,
     and once the offending method is removed (the definitions are valid again) every probe is allowed too. *)
  Definition C18_safe_after_failure : Prop :=
    forall defs0 setup trig n ks fuel,
      let s1 := fail_after chain meth n (fst (run_ops chain meth fuel (init defs0) setup)) trig in
      all_allowed fuel s1 ks = true.
  Definition C18_works_after_removal : Prop :=
    forall defs0 setup trig n d ks fuel,
      let s1 := fail_after chain meth n (fst (run_ops chain meth fuel (init defs0) setup)) trig in
      let s2 := fst (run_op chain meth fuel s1 (OUnreg d)) in
      all_ok meth (s_defs s2) = true -> all_allowed fuel s2 ks = true.

  (* FULL C19: valid definitions, any sequential history, any pool of calls, any schedule: every finished call returned
     the outcome over the complete table, and so do all probes afterwards. *)
  Definition C19_concurrent_as_sequential : Prop :=
    forall defs0 setup ks sch probes_after fuel,
      let s0 := fst (run_ops chain meth fuel (init defs0) setup) in
      all_ok meth (s_defs s0) = true ->
      let r := run_schedule chain meth s0 (map (fun k => start (OCall k)) ks) sch in
      forallb (fun kl => allowedb (s_defs s0) (fst kl) (result_of (snd kl))) (combine ks (snd r)) = true /\
      (forallb (fun l => match l_pc l with PDone _ => true | _ => false end) (snd r) = true ->
       all_allowed fuel (fst r) probes_after = true).
End Spec.
