(* TyDom.v — decidable domain predicates (classifiers) used in the statements of the partial theorems
   and evaluated by the harness on every generated case.  Definitions only. *)
From Coq Require Import ZArith List Bool Arith.
Import ListNotations.
From OvldV Require Import Model.Order Model.Ty.

(* does t.__type_order__(o) produce an answer (rather than NotImplemented / no hook)? *)
Definition answers (t o : ty) : bool :=
  match t with
  | Uni _ | Int _ | Exa _ _ | Lit _ _ | Fn _ _ _ | TFn _ _ _ | Prod _ _ => true
  | _ => false
  end.

Definition is_nil {X} (l : list X) : bool := match l with [] => true | _ => false end.

(* msym t1 t2: no comparison in which BOTH operands' order hooks answer is reached while comparing t1 with t2,
   except dependent-vs-dependent and tuple-vs-tuple (symmetric by construction).
   Its complement is the classifier of known findings KF-06 / KF-07 (hook-vs-hook asymmetry). *)
Fixpoint all2b {X} (f : X -> X -> bool) (l1 l2 : list X) : bool :=
  match l1, l2 with
  | x :: xs, y :: ys => f x y && all2b f xs ys
  | _, _ => true
  end.

Fixpoint msym_ne (t1 t2 : ty) {struct t1} : bool :=
  let fix all2 (l1 l2 : list ty) {struct l1} : bool :=
    match l1, l2 with
    | x :: xs, y :: ys => (ty_eqb x y || msym_ne x y) && all2 xs ys
    | _, _ => true
    end in
  match t1, t2 with
  | Gen o1 a1, Gen o2 a2 =>
      if Nat.eqb o1 o2 then (if Nat.eqb (length a1) (length a2) then all2 a1 a2 else true) else true
  | Prod p1 _, Prod p2 _ =>
      if Nat.eqb (length p1) (length p2) then negb (is_nil p1) && all2 p1 p2 else true
  | Lit _ b1, Lit _ b2 | Lit _ b1, Fn _ _ b2 | Lit _ b1, TFn _ _ b2 | Lit _ b1, Prod _ b2
  | Fn _ _ b1, Lit _ b2 | Fn _ _ b1, Fn _ _ b2 | Fn _ _ b1, TFn _ _ b2 | Fn _ _ b1, Prod _ b2
  | TFn _ _ b1, Lit _ b2 | TFn _ _ b1, Fn _ _ b2 | TFn _ _ b1, TFn _ _ b2 | TFn _ _ b1, Prod _ b2
  | Prod _ b1, Lit _ b2 | Prod _ b1, Fn _ _ b2 | Prod _ b1, TFn _ _ b2 => ty_eqb b1 b2 || msym_ne b1 b2
  | _, _ => negb (answers t1 t2 && answers t2 t1)
  end.

Definition msym (t1 t2 : ty) : bool := ty_eqb t1 t2 || msym_ne t1 t2.
