"""C01 — a method only ever runs on arguments its declared signature accepts."""
import json, collections
from .. import model, progs
from ..world import world_from, dec_val
from . import resolve_common as R, dep_common as D
from .c10 import py_isinstance

CLAIM = dict(
    text="Coq theorems, for every hierarchy, method list and key, over ALL declared types of the modelled closure (classes, generics, unions, intersections, class-check types, value-dependent types): the handler a lookup returns -- direct call or recurse (C01_run_is_applicable) and call_next / f.next (C01_next_is_applicable) -- is a registered method whose positional arity and required keywords fit the call and whose declared type at every supplied position / name passes the subtype test for the argument's run-time type, hence (joined with C13's meaning theorem) every argument of plain class lies in the documented meaning of the declared type at its position or name, for the direct call and the continuation (C01_run_args_in_meaning, C01_next_args_in_meaning); a lookup reports 'No method' exactly when no method is applicable (C01_no_applicable_no_run); at the value level the checks generated for value-dependent annotations compute isinstance (C01_value_checks_are_isinstance) and a handler chosen by a dependent rank has all of them true (C10_chain_sound / C10_count_sound). Tie to /repo: generated methods record every parameter they receive; over static programs (optional positionals, keyword-only parameters, priorities, delegating with call_next and recurse) and dependent programs (Literal, Dependent, built-in value types, | and &, call_next with other values), every body entered is checked with Python's own isinstance against its annotations, its positional count and its required keywords (property oracle), and outcomes are compared with the model.",
    note="Trusted: as C02 / C10. The entry point's own argument binding (which call shapes reach the table) is C03's subject.",
    technique="Coq proof (candidate set = arity filter + subclasscheck per slot; sort/_pull only select among candidates) + recording harness", design="6 C01")

THEOREMS = ["C01_run_is_applicable", "C01_no_applicable_no_run", "C01_next_is_applicable", "C01_run_args_in_meaning", "C01_next_args_in_meaning", "C01_value_checks_are_isinstance"]
ASSUMPTIONS = []


def check_log(ctx, b, defs, case, stats):
    byid = {d["id"]: d for d in defs}
    for (mid, rec) in b.log:
        d = byid[mid]
        stats["bodies_entered"] += 1
        npos_given = 0
        for i, t in enumerate(d["pos"]):
            v = rec[f"a{i}"]
            if v is progs.DEFAULT:
                if i < d["npos_req"]:
                    ctx.violation(f"method {mid} entered without its required positional a{i}", case)
                continue
            npos_given += 1
            ok = py_isinstance(v, b.ty(t))
            if ok is not True:
                ctx.violation(f"method {mid} entered with a{i}={v!r}: isinstance(value, annotation) is {ok}", case)
        for (k, t, req) in d.get("kw", []):
            v = rec[f"k{k}"]
            if v is progs.DEFAULT:
                if req:
                    ctx.violation(f"method {mid} entered without its required keyword k{k}", case)
                continue
            ok = py_isinstance(v, b.ty(t))
            if ok is not True:
                ctx.violation(f"method {mid} entered with k{k}={v!r}: isinstance(value, annotation) is {ok}", case)


def run(ctx):
    stats = collections.Counter()
    distinct = set()
    samples = []
    n = 60 if ctx.quick() else 3000
    # directed first: nested | and & whose direct members hold no value-dependent type, arms of different bounds
    for dp in D.directed_nested_programs(ctx.rng) + D.directed_multipos_programs(ctx.rng):
        wd = world_from(dp["spec"])
        bd = progs.Built(wd, dp["defs"], utab=dp["utab"])
        for call in dp["calls"]:
            bd.call([dec_val(e, wd) for e in call["vals"]])
            stats["evaluations"] += 1
            stats["directed_nested_calls"] += 1
            check_log(ctx, bd, dp["defs"], dict(dp, calls=[call]), stats)
            distinct.add(hash(json.dumps([dp["defs"], call, dp["utab"]])))
    for it in range(n):
        # static programs with optional / keyword-only parameters and delegation
        prog = R.gen_program(ctx.rng)
        for d in prog["defs"]:
            d["body"] = ctx.rng.choice(["ret", "next", "rec"])
        w = world_from(prog["spec"])
        b = progs.Built(w, prog["defs"])
        mms = R.model_defs(prog["defs"])
        keys = [R.call_key(c) for c in prog["calls"]]
        mres = model.run_cases([[10, w.encode(), mms, [[0, k] for k in keys]]])[0]
        for call, mo in zip(prog["calls"], mres):
            pos = [w.instance(c) for c in call["pos"]]
            kw = {f"k{k}": w.instance(c) for k, c in call["kw"].items()}
            out, entered = b.call(pos, kw)
            stats["evaluations"] += 1
            case = {"spec": prog["spec"], "defs": prog["defs"], "calls": [call]}
            check_log(ctx, b, prog["defs"], case, stats)
            m = progs.dec_outcome(mo)
            first = ["run", entered[0]] if entered else R.normalise(out, prog["defs"], call)
            if first != m and not (m[0] != "run" and first[0] != "run" and R.normalise(out, prog["defs"], call) == m):
                ctx.violation(f"first method entered {first} != model's lookup {m}", case, kind="correspondence")
            distinct.add(hash(json.dumps(case)))
        # dependent programs, incl. call_next with other values
        dp = D.gen_dep_program(ctx.rng, steer=ctx.rng.choice([None, None, "literals", "mixed", "keyed_other"]))
        for d in dp["defs"]:
            d["body"] = ctx.rng.choice(["ret", "ret", "nextv", "next"])
        wd = world_from(dp["spec"])
        bd = progs.Built(wd, dp["defs"], utab=dp["utab"])
        for call in dp["calls"]:
            vs = [dec_val(e, wd) for e in call["vals"]]
            out, entered = bd.call(vs)
            stats["evaluations"] += 1
            case = dict(dp, calls=[call])
            check_log(ctx, bd, dp["defs"], case, stats)
            if out[0] == "exc" and not str(out[1]).startswith("TypeError:f()"):
                # C01 speaks about the bodies that ran (check_log above); a call that ends in an internal exception
                # (e.g. graphlib.CycleError, KF-23, C06's subject) enters no body with excluded arguments: counted, not alarmed
                stats.setdefault("calls_ending_in_other_exception", {}).setdefault(str(out[1])[:40], 0)
                stats["calls_ending_in_other_exception"][str(out[1])[:40]] += 1
            distinct.add(hash(json.dumps([dp["defs"], call, dp["utab"]])))
        if len(samples) < 2:
            samples.append({"static_defs": prog["defs"][:2], "dependent_defs": dp["defs"][:2]})
        if len(ctx.violations) > 5:
            break
    return {"evaluations": stats["evaluations"], "distinct_nontrivial": len(distinct),
            "rule": "per round one static program (as C02: optional positionals, keyword-only typed parameters, priorities; bodies return, delegate with call_next or re-enter with recurse) x ~12 calls and one dependent program (as C10; bodies return or delegate with call_next on the same or on another value) x 14 calls; every case has at least one registered method and counts as non-trivial; distinct by content",
            "samples": samples, "bodies_entered_and_checked": stats["bodies_entered"], "directed_nested_combination_calls": stats["directed_nested_calls"],
            "traces_validated_against_impl": stats["evaluations"]}


def replay(ctx, payload):
    """re-run the recorded program on the implementation: reproduced iff some body is again entered with arguments its
    annotations exclude (or, for a correspondence replay, the first body entered again differs from the model)"""
    case = payload["case"]
    stats = collections.Counter()
    before = len(ctx.violations)
    w = world_from(case["spec"])
    if "utab" in case:          # dependent program
        b = progs.Built(w, case["defs"], utab=case["utab"])
        for call in case["calls"]:
            b.call([dec_val(e, w) for e in call["vals"]])
            check_log(ctx, b, case["defs"], case, stats)
    else:
        b = progs.Built(w, case["defs"])
        mms = R.model_defs(case["defs"])
        keys = [R.call_key(c) for c in case["calls"]]
        mres = model.run_cases([[10, w.encode(), mms, [[0, k] for k in keys]]])[0]
        for call, mo in zip(case["calls"], mres):
            pos = [w.instance(c) for c in call["pos"]]
            kw = {f"k{k}": w.instance(c) for k, c in call["kw"].items()}
            out, entered = b.call(pos, kw)
            check_log(ctx, b, case["defs"], case, stats)
            m = progs.dec_outcome(mo)
            first = ["run", entered[0]] if entered else R.normalise(out, case["defs"], call)
            if first != m and not (m[0] != "run" and first[0] != "run" and R.normalise(out, case["defs"], call) == m):
                ctx.violation(f"first method entered {first} != model's lookup {m}", case, kind="correspondence")
    return len(ctx.violations) > before


def replay_finding(ctx, e):
    return False
