(* Run_Rewrite.v — executable entry points of the Rewrite component (C09, C08).
   Encodings (tag first; all identifiers are numbers of the harness's name table):
     tkey : (0 i) positional | (1 k) keyword k | (2) the key of **d (kw.arg is None)
     name : (0 i) identifier | (1 n tkey) __TMP<n>_<key> | (2) self | (3) type | (4) __SUBTLER_TYPE
            | (5 id) ___OVLD<id> | (6 id) ___MAP<id> | (7 c) ___CODE<c>
     const: (0 z) int | (1 s) str | (2) None
     expr : (0 const) | (1 name) | (2 e a) attribute | (3 op a b) | (4 isor (e...)) | (5 c a b) a if c else b
            | (6 f ((star e)...) ((kwkey e)...)) call, kwkey = (0) for ** / (1 k)
            | (7 name e) walrus | (8 (name...) b) lambda | (9 elt name it (cond...)) comprehension
            | (10 (e...)) f-string | (11 tag e) eff(tag, e) | (12 (e...)) tuple | (13 e i) subscript
     stmt : (0 e) expression statement | (1 name e) assignment | (2 e) return
     params: (is_method (tkey...) (posname...) rs cs ((alias own?)...) id code), posname / rs / cs = (0) none | (1 i) *)
(* OPCODE 40 run_rewrite *)
(* OPCODE 41 run_eval *)
From Coq Require Import ZArith List Bool Arith.
Import ListNotations.
From OvldV Require Import Model.Sx Model.Rewrite.

Definition tkey_of (s : sx) : tkey :=
  match sx_tag s with
  | 0%Z => KPos (sx_nat (sx_arg 0 s))
  | 1%Z => KKw (Some (sx_nat (sx_arg 0 s)))
  | _ => KKw None
  end.
Definition name_of (s : sx) : name :=
  match sx_tag s with
  | 0%Z => NUser (sx_nat (sx_arg 0 s))
  | 1%Z => NTmp (sx_nat (sx_arg 0 s)) (tkey_of (sx_arg 1 s))
  | 2%Z => NSelf | 3%Z => NType | 4%Z => NSubtler | 5%Z => NOvld (sx_nat (sx_arg 0 s)) | 6%Z => NMap (sx_nat (sx_arg 0 s))
  | _ => NCode (sx_nat (sx_arg 0 s))
  end.
Definition const_of (s : sx) : const :=
  match sx_tag s with 0%Z => CInt (sx_z (sx_arg 0 s)) | 1%Z => CStr (sx_nat (sx_arg 0 s)) | _ => CNone end.
Definition onat_of (s : sx) : option nat :=
  match sx_tag s with 1%Z => Some (sx_nat (sx_arg 0 s)) | _ => None end.

Fixpoint expr_of (s : sx) : expr :=
  match s with
  | L (A 0%Z :: c :: _) => EConst (const_of c)
  | L (A 1%Z :: x :: _) => EName (name_of x)
  | L (A 2%Z :: e :: a :: _) => EAttr (expr_of e) (sx_nat a)
  | L (A 3%Z :: op :: a :: b :: _) => EBin (sx_nat op) (expr_of a) (expr_of b)
  | L (A 4%Z :: o :: L es :: _) =>
      EBool (sx_bool o) ((fix go (l : list sx) : exprs := match l with [] => ENil | x :: r => ECons (expr_of x) (go r) end) es)
  | L (A 5%Z :: c :: a :: b :: _) => EIf (expr_of c) (expr_of a) (expr_of b)
  | L (A 6%Z :: f :: L ar :: L kw :: _) =>
      ECall (expr_of f)
        ((fix go (l : list sx) : args :=
            match l with
            | [] => ANil
            | L (st :: e :: _) :: r => ACons (sx_bool st) (expr_of e) (go r)
            | _ :: r => go r
            end) ar)
        ((fix go (l : list sx) : kws :=
            match l with
            | [] => KNil
            | L (k :: e :: _) :: r => KCons (onat_of k) (expr_of e) (go r)
            | _ :: r => go r
            end) kw)
  | L (A 7%Z :: x :: e :: _) => ENamed (name_of x) (expr_of e)
  | L (A 8%Z :: ps :: b :: _) => ELam (map name_of (sx_list ps)) (expr_of b)
  | L (A 9%Z :: elt :: x :: it :: L cs :: _) =>
      EComp (expr_of elt) (name_of x) (expr_of it)
        ((fix go (l : list sx) : exprs := match l with [] => ENil | x :: r => ECons (expr_of x) (go r) end) cs)
  | L (A 10%Z :: L es :: _) =>
      EFstr ((fix go (l : list sx) : exprs := match l with [] => ENil | x :: r => ECons (expr_of x) (go r) end) es)
  | L (A 11%Z :: t :: e :: _) => EEffect (sx_nat t) (expr_of e)
  | L (A 12%Z :: L es :: _) =>
      ETuple ((fix go (l : list sx) : exprs := match l with [] => ENil | x :: r => ECons (expr_of x) (go r) end) es)
  | L (A 13%Z :: e :: i :: _) => ESub (expr_of e) (expr_of i)
  | _ => EConst CNone
  end.

Definition stmt_of (s : sx) : stmt :=
  match sx_tag s with
  | 0%Z => SExpr (expr_of (sx_arg 0 s))
  | 1%Z => SAssign (name_of (sx_arg 0 s)) (expr_of (sx_arg 1 s))
  | _ => SReturn (expr_of (sx_arg 0 s))
  end.

Definition rwp_of (s : sx) : rwp :=
  {| p_anal := {| a_method := sx_bool (sx_nth 0 s);
                  a_complex := map tkey_of (sx_list (sx_nth 1 s));
                  a_posnames := map onat_of (sx_list (sx_nth 2 s)) |};
     p_rs := onat_of (sx_nth 3 s); p_cs := onat_of (sx_nth 4 s);
     p_alias := map (fun a => (sx_nat (sx_nth 0 a), sx_bool (sx_nth 1 a))) (sx_list (sx_nth 5 s)); p_id := sx_nat (sx_nth 6 s); p_code := sx_nat (sx_nth 7 s) |}.

(* ---- encoders *)
Definition Zn (n : nat) : sx := A (Z.of_nat n).
Definition sx_tkey (k : tkey) : sx :=
  match k with KPos i => L [A 0%Z; Zn i] | KKw (Some k) => L [A 1%Z; Zn k] | KKw None => L [A 2%Z] end.
Definition sx_name (x : name) : sx :=
  match x with
  | NUser i => L [A 0%Z; Zn i] | NTmp n k => L [A 1%Z; Zn n; sx_tkey k]
  | NSelf => L [A 2%Z] | NType => L [A 3%Z] | NSubtler => L [A 4%Z]
  | NOvld i => L [A 5%Z; Zn i] | NMap i => L [A 6%Z; Zn i] | NCode c => L [A 7%Z; Zn c]
  end.
Definition sx_const (c : const) : sx :=
  match c with CInt z => L [A 0%Z; A z] | CStr s => L [A 1%Z; Zn s] | CNone => L [A 2%Z] end.
Definition sx_onat (o : option nat) : sx := match o with Some k => L [A 1%Z; Zn k] | None => L [A 0%Z] end.

Fixpoint sx_expr (e : expr) : sx :=
  match e with
  | EConst c => L [A 0%Z; sx_const c]
  | EName x => L [A 1%Z; sx_name x]
  | EAttr e a => L [A 2%Z; sx_expr e; Zn a]
  | EBin op a b => L [A 3%Z; Zn op; sx_expr a; sx_expr b]
  | EBool o es => L [A 4%Z; of_bool o; L (sx_exprs es)]
  | EIf c a b => L [A 5%Z; sx_expr c; sx_expr a; sx_expr b]
  | ECall f ar kw => L [A 6%Z; sx_expr f; L (sx_args ar); L (sx_kws kw)]
  | ENamed x e => L [A 7%Z; sx_name x; sx_expr e]
  | ELam ps b => L [A 8%Z; L (map sx_name ps); sx_expr b]
  | EComp elt x it cs => L [A 9%Z; sx_expr elt; sx_name x; sx_expr it; L (sx_exprs cs)]
  | EFstr es => L [A 10%Z; L (sx_exprs es)]
  | EEffect t e => L [A 11%Z; Zn t; sx_expr e]
  | ETuple es => L [A 12%Z; L (sx_exprs es)]
  | ESub e i => L [A 13%Z; sx_expr e; sx_expr i]
  end
with sx_exprs (es : exprs) : list sx :=
  match es with ENil => [] | ECons e r => sx_expr e :: sx_exprs r end
with sx_args (a : args) : list sx :=
  match a with ANil => [] | ACons s e r => L [of_bool s; sx_expr e] :: sx_args r end
with sx_kws (a : kws) : list sx :=
  match a with KNil => [] | KCons k e r => L [sx_onat k; sx_expr e] :: sx_kws r end.

Definition sx_stmt (s : stmt) : sx :=
  match s with
  | SExpr e => L [A 0%Z; sx_expr e]
  | SAssign x e => L [A 1%Z; sx_name x; sx_expr e]
  | SReturn e => L [A 2%Z; sx_expr e]
  end.

(* opcode 40: (40 params (stmt...)) ->
     (usage_error (rewritten stmt...) valid_original valid_rewritten in_domain dom site_in_iter)
   the rewritten body is what NameConverter produces on the method (counter running through the statements);
   the flags are per body (conjunction / disjunction over the statements). *)
Definition stmt_expr (s : stmt) : expr := match s with SExpr e | SAssign _ e | SReturn e => e end.
Definition run_rewrite (s : sx) : sx :=
  let p := rwp_of (sx_arg 0 s) in
  let b := map stmt_of (sx_list (sx_arg 1 s)) in
  let b' := fst (rw_body p 0 b) in
  L [ of_bool (existsb (usage_err_stmt p) b);
      L (map sx_stmt b');
      of_bool (forallb valid_stmt b);
      of_bool (forallb valid_stmt b');
      of_bool (forallb (dom_stmt p) b);
      of_bool (forallb (fun s => dom p (stmt_expr s)) b);
      of_bool (existsb (fun s => site_in_iter p (stmt_expr s)) b) ].

(* ---- opcode 41: evaluation with finite oracles.
   (41 params (stmt...) env fuel) with env = (ntypes-table tbl callables globals self) -- see [oracles_of].
   Values: (0 z) int | (1 s) str | (2) None | (3 b) bool | (4 t) type | (5 d) data | (6 k (v...)) sequence | (7) function
   typeof: the harness supplies, for the finitely many first-order values that can occur, nothing: types are computed
   structurally: int -> 1, str -> 2, None -> 3, bool -> 4, type t -> 100 + t when subtle / 5 otherwise, data d -> 10 + d,
   list -> 6, tuple -> 7, dict -> 8.
   tbl: association list key -> callable id; callable c applied to arguments returns (c, args, kwargs) as data
   after logging event (1000 + c, args): the world is the number of user calls so far. *)
Fixpoint sx_sval (v : sval) : sx :=
  match v with
  | SInt z => L [A 0%Z; A z] | SStr s => L [A 1%Z; Zn s] | SNone => L [A 2%Z] | SBool b => L [A 3%Z; of_bool b]
  | STy t => L [A 4%Z; Zn t] | SData d => L [A 5%Z; Zn d] | SSeq k l => L [A 6%Z; Zn k; L (map sx_sval l)]
  end.
Fixpoint sval_of (s : sx) : sval :=
  match s with
  | L (A 0%Z :: A z :: _) => SInt z
  | L (A 1%Z :: n :: _) => SStr (sx_nat n)
  | L (A 3%Z :: b :: _) => SBool (sx_bool b)
  | L (A 4%Z :: t :: _) => STy (sx_nat t)
  | L (A 5%Z :: d :: _) => SData (sx_nat d)
  | L (A 6%Z :: k :: L l :: _) => SSeq (sx_nat k) (map sval_of l)
  | _ => SNone
  end.
Fixpoint sx_val (v : val) : sx :=
  match v with
  | VInt z => L [A 0%Z; A z] | VStr s => L [A 1%Z; Zn s] | VNone => L [A 2%Z] | VBool b => L [A 3%Z; of_bool b]
  | VTy t => L [A 4%Z; Zn t] | VData d => L [A 5%Z; Zn d] | VSeq k l => L [A 6%Z; Zn k; L (map sx_val l)]
  | VClos _ _ _ => L [A 7%Z] | VPrim _ => L [A 7%Z]
  end.
Definition sx_exn (x : exn) : sx :=
  match x with
  | XNoMethod => L [A 0%Z] | XType => L [A 1%Z] | XName x => L [A 2%Z; sx_name x] | XUser s => L [A 3%Z; sx_sval s] | XUsage => L [A 4%Z]
  end.

Definition typeof_std (subtle : bool) (v : sval) : nat :=
  match v with
  | SInt _ => 1 | SStr _ => 2 | SNone => 3 | SBool _ => 4
  | STy t => if subtle then 100 + t else 5
  | SData d => 10 + d
  | SSeq 0 _ => 6 | SSeq 1 _ => 7 | SSeq _ _ => 8
  end.
Definition sx_kpart (k : kpart) : sx :=
  match k with KC c => L [A 0%Z; Zn c] | KP t => L [A 1%Z; Zn t] | KK o t => L [A 2%Z; sx_onat o; Zn t] end.
Fixpoint sx_eqb (a b : sx) {struct a} : bool :=
  match a, b with
  | A x, A y => Z.eqb x y
  | L l, L m => (fix go (l m : list sx) : bool :=
                   match l, m with [], [] => true | x :: r, y :: t => sx_eqb x y && go r t | _, _ => false end) l m
  | _, _ => false
  end.
(* table: list of (function-id key-as-sx callable-id); a callable is data 100+id *)
Definition tbl_std (table : list sx) (nid : nat) (key : list kpart) : option sval :=
  let k := L (map sx_kpart key) in
  match find (fun row => Nat.eqb (sx_nat (sx_nth 0 row)) nid && sx_eqb (sx_nth 1 row) k) table with
  | Some row => Some (SData (100 + sx_nat (sx_nth 2 row)))
  | None => None
  end.
(* user code, mirrored by the harness's Python objects (vlib/rewrite_rt.py):
   data 100+c = leaf method c of the overloaded function: returns the tuple (c, (args), ((kwid, value)... by kwid)) and logs one event;
   data d with 1 <= d < 100 = a callable user object: even d returns (itself, args...), odd d raises; both log;
   data 0 is what a function looks like to user code: never called through this oracle *)
Fixpoint ins_kw (kv : nat * sval) (l : list (nat * sval)) : list (nat * sval) :=
  match l with [] => [kv] | x :: r => if Nat.leb (fst kv) (fst x) then kv :: l else x :: ins_kw kv r end.
Definition sort_kw (l : list (nat * sval)) : list (nat * sval) := fold_right ins_kw [] l.
Definition callv_std (c : sval) (ar : list sval) (kw : list (nat * sval)) (w : nat) : outcome sval * nat * list event :=
  match c with
  | SData 0 => (Raise XType, w, [])
  | SData d =>
      if Nat.leb 100 d
      then (Val (SSeq 1 [SInt (Z.of_nat (d - 100)); SSeq 1 ar; SSeq 1 (map (fun kv => SSeq 1 [SInt (Z.of_nat (fst kv)); snd kv]) (sort_kw kw))]),
            S w, [(1000 + d, SSeq 1 ar)])
      else if Nat.odd d then (Raise (XUser (SData d)), S w, [(1000 + d, SSeq 1 ar)])
      else (Val (SSeq 1 (SData d :: ar)), S w, [(1000 + d, SSeq 1 ar)])
  | _ => (Raise XType, w, [])
  end.
Fixpoint repeat_list (n : nat) (l : list sval) : list sval := match n with 0 => [] | S m => l ++ repeat_list m l end.
(* Python's + and * on ints, lists and tuples *)
Definition binop_std (op : nat) (a b : sval) : outcome sval :=
  match op, a, b with
  | 0, SInt x, SInt y => Val (SInt (x + y))
  | 0, SSeq 0 l, SSeq 0 m => Val (SSeq 0 (l ++ m))
  | 0, SSeq 1 l, SSeq 1 m => Val (SSeq 1 (l ++ m))
  | 1, SInt x, SInt y => Val (SInt (x * y))
  | 1, SSeq 0 l, SInt n | 1, SInt n, SSeq 0 l => Val (SSeq 0 (repeat_list (Z.to_nat n) l))
  | 1, SSeq 1 l, SInt n | 1, SInt n, SSeq 1 l => Val (SSeq 1 (repeat_list (Z.to_nat n) l))
  | _, _, _ => Raise XType
  end.
Definition getattr_std (a : sval) (n : nat) : outcome sval :=
  match a with
  | SData 0 => Raise (XUser (SInt (Z.of_nat n)))
  | SData d => Val (SSeq 1 [SData d; SInt (Z.of_nat n)])
  | _ => Raise (XUser (SInt (Z.of_nat n)))
  end.
Definition getitem_std (a i : sval) : outcome sval :=
  match a, i with
  | SSeq 0 l, SInt z | SSeq 1 l, SInt z =>
      if Z.ltb z 0 then Raise (XUser SNone)
      else match nth_error l (Z.to_nat z) with Some v => Val v | None => Raise (XUser SNone) end
  | SSeq 0 _, _ | SSeq 1 _, _ => Raise XType
  | SSeq _ _, _ => Raise (XUser SNone)
  | _, _ => Raise XType
  end.
Definition truthy_std (a : sval) : bool :=
  match a with
  | SInt z => negb (Z.eqb z 0) | SStr _ => true | SNone => false | SBool b => b | STy _ => true | SData _ => true
  | SSeq _ l => match l with [] => false | _ => true end
  end.
Definition fmt_std (l : list sval) : sval := SStr 0.

Definition glob_of (g : list sx) (i : nat) : option sval :=
  match find (fun row => Nat.eqb (sx_nat (sx_nth 0 row)) i) g with
  | Some row => Some (sval_of (sx_nth 1 row))
  | None => None
  end.

Definition sx_res (r : res) : sx :=
  match r with Val v => L [A 0%Z; sx_val v] | Raise x => L [A 1%Z; sx_exn x] end.

(* (41 params (stmt...) (table-row...) ((gid sval)...) self fuel which) -> for which = 0 the original body, 1 the
   rewritten body: (outcome trace world) with outcome = (0) out of fuel | (1 res) | (2) fell off the end *)
Definition run_eval (s : sx) : sx :=
  let p := rwp_of (sx_arg 0 s) in
  let b := map stmt_of (sx_list (sx_arg 1 s)) in
  let table := sx_list (sx_arg 2 s) in
  let g := sx_list (sx_arg 3 s) in
  let slf := sval_of (sx_arg 4 s) in
  let fuel := sx_nat (sx_arg 5 s) in
  let b1 := if sx_bool (sx_arg 6 s) then fst (rw_body p 0 b) else b in
  let s0 := {| s_frames := [ {| f_comp := false; f_vars := [] |} ]; s_gvars := []; s_trace := []; s_world := 0 |} in
  match exec nat p typeof_std (tbl_std table) callv_std binop_std getattr_std getitem_std truthy_std fmt_std (glob_of g) slf (sx_bool (sx_arg 6 s))
             fuel [0] b1 s0 with
  | None => L [L [A 0%Z]]
  | Some (r, s1) =>
      L [ match r with
          | Val None => L [A 2%Z]
          | Val (Some v) => L [A 1%Z; sx_res (Val v)]
          | Raise x => L [A 1%Z; sx_res (Raise x)]
          end;
          L (map (fun ev => L [Zn (fst ev); sx_sval (snd ev)]) (s_trace nat s1));
          Zn (s_world nat s1) ]
  end.
