(* ClassDictBase.v — the graph operations a class statement performs, on the private nodes it creates *)
From Coq Require Import ZArith List Bool Arith Lia.
Import ListNotations.
From OvldV Require Import Model.Graph Model.ClassDict Proofs.GraphTab Proofs.GraphBase Proofs.GraphUpd Proofs.GraphInv Proofs.GraphProps.

(* a node no one else can see yet: unlocked, never used, no linkback children, itself not a linkback derivation *)
Definition private_node (x : node) : Prop :=
  n_locked x = false /\ n_compiled x = false /\ n_children x = [] /\ n_linkback x = false.

Definition IsFn (g : graph) (n : nat) (own : table) (ms : list nat) : Prop :=
  exists x, g_get g n = Some x /\ n_own x = own /\ n_mixins x = ms /\ private_node x.

(* g extends g0 without touching it *)
Definition Pre (g0 g : graph) : Prop := length g0 <= length g /\ forall k, k < length g0 -> g_get g k = g_get g0 k.

Lemma Pre_refl : forall g, Pre g g.
Proof. split; auto. Qed.

Lemma of_step_ok : forall r g' u, of_step r = COk g' u -> r = (g', Done).
Proof. intros [g o] g' u H. destruct o; cbn in H; try discriminate. injection H as <- _. reflexivity. Qed.

Lemma upd_private : forall f g n x, g_get g n = Some x -> n_compiled x = false -> n_children x = [] -> upd (S f) g n = Some g.
Proof. intros. rewrite upd_S, H, H0, H1. reflexivity. Qed.

(* ---------- create ---------- *)
Lemma cd_create_ok : forall g ms g' id, cd_create g ms = COk g' id ->
  id = length g /\ valid_ids g ms = true /\ g' = g ++ [add_mix ms (new_node false)].
Proof.
  unfold cd_create, do_create. intros g ms g' id H. destruct (valid_ids g ms); cbn in H; [|discriminate].
  injection H as <- <-. auto.
Qed.

Lemma private_new : forall ms, private_node (add_mix ms (new_node false)).
Proof. intros. unfold private_node. cbn. auto. Qed.

Lemma P_create : forall g0 g ms g' id, Pre g0 g -> cd_create g ms = COk g' id ->
  Pre g0 g' /\ id = length g /\ length g' = S (length g) /\ IsFn g' id [] ms /\
  (forall k, k < length g -> g_get g' k = g_get g k).
Proof.
  intros g0 g ms g' id [L P] H. destruct (cd_create_ok _ _ _ _ H) as (-> & V & ->).
  assert (forall k, k < length g -> g_get (g ++ [add_mix ms (new_node false)]) k = g_get g k) as Old
    by (intros; apply g_get_app_l; auto).
  repeat split.
  - rewrite app_length. cbn. lia.
  - intros k Lk. rewrite Old by lia. auto.
  - rewrite app_length. cbn. lia.
  - eexists. split; [apply g_get_app_new|]. cbn. repeat split; auto.
  - exact Old.
Qed.

(* ---------- register on a private node ---------- *)
Lemma cd_register_ok : forall g n own ms s l g' u, IsFn g n own ms -> cd_register g n s l = COk g' u ->
  exists own', t_register s l own = Some own' /\ g' = g_mod g n (set_own own').
Proof.
  intros g n own ms s l g' u (x & E & <- & Hm & (Pl & Pc & Pch & Plb)) H.
  apply of_step_ok in H. rewrite do_register_unfold in H.
  destruct (do_modify_cases g n (t_register s l)) as [(x' & t & g'' & E' & Lk & F & U & Q)|[Nd _]].
  - rewrite Q in H. injection H as <-. rewrite E in E'. injection E' as <-. exists t. split; auto.
    assert (length g = S (pred (length g))) as Lg by (apply g_get_lt in E; lia).
    rewrite Lg in U. erewrite upd_private in U; [injection U as <-; reflexivity | apply g_get_mod_same; exact E | cbn; auto | cbn; auto].
  - rewrite H in Nd. cbn in Nd. congruence.
Qed.

Lemma P_register : forall g0 g n own ms s l g' u, Pre g0 g -> length g0 <= n -> IsFn g n own ms ->
  cd_register g n s l = COk g' u ->
  Pre g0 g' /\ length g' = length g /\
  (exists own', t_register s l own = Some own' /\ IsFn g' n own' ms) /\
  (forall k, k <> n -> g_get g' k = g_get g k).
Proof.
  intros g0 g n own ms s l g' u [L P] Ln F H.
  destruct (cd_register_ok _ _ _ _ _ _ _ _ F H) as (own' & R & ->).
  destruct F as (x & E & Ho & Hm & Hp).
  repeat split.
  - rewrite length_g_mod. auto.
  - intros k Lk. rewrite g_get_mod_other by lia. auto.
  - apply length_g_mod.
  - exists own'. split; auto. exists (set_own own' x). split; [apply g_get_mod_same; auto|]. cbn. auto.
  - intros k Ne. apply g_get_mod_other. auto.
Qed.

(* ---------- add_mixins on a private node ---------- *)
Lemma add_mix_nil : forall x, add_mix [] x = x.
Proof. intros []. unfold add_mix. cbn. rewrite app_nil_r. reflexivity. Qed.

Lemma g_mod_id : forall g n f, (forall x, f x = x) -> g_mod g n f = g.
Proof. induction g; destruct n; cbn; intros; auto; f_equal; auto. Qed.

Lemma cd_add_mixins_ok : forall g n own ms ms2 g' u, IsFn g n own ms -> cd_add_mixins g n ms2 = COk g' u ->
  g' = g_mod g n (add_mix (filter (fun m => negb (Nat.eqb m n)) ms2)).
Proof.
  intros g n own ms ms2 g' u (x & E & Ho & Hm & (Pl & Pc & Pch & Plb)) H.
  apply of_step_ok in H. fold (nself n ms2).
  destruct (do_add_mixins_cases g n ms2) as [(x' & E' & Lk & F & Q)|[(x' & g'' & E' & V & Lk & F & W & U & Q)|(Nd & _ & _)]].
  - rewrite Q in H. injection H as <-. rewrite F. symmetry. apply g_mod_id. apply add_mix_nil.
  - rewrite Q in H. injection H as <-. rewrite E in E'. injection E' as <-.
    assert (mixed g n x ms2 = g_mod g n (add_mix (nself n ms2))) as M by (unfold mixed, nself; rewrite Plb; reflexivity).
    rewrite M in U.
    assert (length g = S (pred (length g))) as Lg by (apply g_get_lt in E; lia).
    rewrite Lg in U. erewrite upd_private in U; [injection U as <-; reflexivity | apply g_get_mod_same; exact E | cbn; auto | cbn; auto].
  - rewrite H in Nd. cbn in Nd. congruence.
Qed.

Lemma P_add_mixins : forall g0 g n own ms ms2 g' u, Pre g0 g -> length g0 <= n -> IsFn g n own ms ->
  cd_add_mixins g n ms2 = COk g' u ->
  Pre g0 g' /\ length g' = length g /\
  IsFn g' n own (ms ++ filter (fun m => negb (Nat.eqb m n)) ms2) /\
  (forall k, k <> n -> g_get g' k = g_get g k).
Proof.
  intros g0 g n own ms ms2 g' u [L P] Ln F H.
  rewrite (cd_add_mixins_ok _ _ _ _ _ _ _ F H).
  destruct F as (x & E & Ho & Hm & Hp).
  repeat split.
  - rewrite length_g_mod. auto.
  - intros k Lk. rewrite g_get_mod_other by lia. auto.
  - apply length_g_mod.
  - eexists. split; [apply g_get_mod_same; eauto|]. cbn. rewrite Hm. auto.
  - intros k Ne. apply g_get_mod_other. auto.
Qed.

(* ---------- ovld(fn, fresh=True) ---------- *)
Lemma t_register_empty : forall s l, t_register s l [] = Some [((s, 0%Z), l)].
Proof. reflexivity. Qed.

Lemma P_fresh : forall g0 g s l g' n, Pre g0 g -> cd_fresh g s l = COk g' n ->
  Pre g0 g' /\ n = length g /\ length g' = S (length g) /\ IsFn g' n [((s, 0%Z), l)] [] /\
  (forall k, k < length g -> g_get g' k = g_get g k).
Proof.
  intros g0 g s l g' n Pg H. unfold cd_fresh in H.
  destruct (cd_create g []) as [g1 id|] eqn:C; cbn in H; [|discriminate].
  destruct (P_create _ _ _ _ _ Pg C) as (P1 & -> & L1 & F1 & O1).
  destruct (cd_register g1 (length g) s l) as [g2 u|] eqn:R; cbn in H; [|discriminate]. injection H as <- <-.
  destruct (P_register _ _ _ _ _ _ _ _ _ P1 (proj1 Pg) F1 R) as (P2 & L2 & (own' & R2 & F2) & O2).
  rewrite t_register_empty in R2. injection R2 as <-.
  repeat split; auto; try lia.
  - apply P2. - apply P2.
  - intros k Lk. rewrite O2 by lia. auto.
Qed.

Lemma IsFn_frame : forall g g' n own ms, IsFn g n own ms -> g_get g' n = g_get g n -> IsFn g' n own ms.
Proof. intros g g' n own ms (x & E & H) Q. exists x. rewrite Q. auto. Qed.

(* the class statement keeps the invariant *)
Lemma Inv_of_step : forall g r g' u, Inv g -> Inv (fst r) -> of_step r = COk g' u -> Inv g'.
Proof. intros. apply of_step_ok in H1. subst r. auto. Qed.

Lemma Inv_cd_create : forall g ms g' id, Inv g -> cd_create g ms = COk g' id -> Inv g'.
Proof.
  intros g ms g' id I H. destruct (cd_create_ok _ _ _ _ H) as (_ & V & ->).
  pose proof (Inv_create g ms false I V) as Q. unfold created in Q. exact Q.
Qed.

Lemma Inv_cd_register : forall g n s l g' u, Inv g -> cd_register g n s l = COk g' u -> Inv g'.
Proof.
  intros g n s l g' u I H. apply of_step_ok in H.
  pose proof (Inv_do_modify g n (t_register s l) I) as Q. rewrite do_register_unfold in H. rewrite H in Q.
  apply Q. intros. eapply register_nodup; eauto.
Qed.

Lemma Inv_cd_add_mixins : forall g n ms g' u, Inv g -> cd_add_mixins g n ms = COk g' u -> Inv g'.
Proof.
  intros g n ms g' u I H. apply of_step_ok in H. pose proof (Inv_do_add_mixins g n ms I) as Q. rewrite H in Q. exact Q.
Qed.

Lemma Inv_cd_fresh : forall g s l g' n, Inv g -> cd_fresh g s l = COk g' n -> Inv g'.
Proof.
  intros g s l g' n I H. unfold cd_fresh in H.
  destruct (cd_create g []) as [g1 id|] eqn:C; cbn in H; [|discriminate].
  destruct (cd_register g1 id s l) as [g2 u|] eqn:R; cbn in H; [|discriminate]. injection H as <- _.
  eapply Inv_cd_register; [|exact R]. eapply Inv_cd_create; eauto.
Qed.
