"""C09 — source rewriting changes nothing except the recurse / call_next call sites."""
import os, json, ast, shutil, tempfile, warnings, collections, hashlib
from .. import model
from .. import rewrite_lang as RL
from .. import rewrite_rt as RT

CLAIM = dict(
    text="Coq theorems about an executable model of recode.NameConverter and of the evaluation of the expressions it rewrites (Model/Rewrite.v): for every expression of the modelled grammar (constants, names, attribute, binary / boolean / conditional operators, calls with positional, keyword, * and ** arguments, :=, lambda, list comprehension with element / condition / iterable slots, f-string, tuple, subscript, an effect primitive; straight-line bodies of expression statements, assignments, return) that is valid Python and lies in the decidable domain in_domain -- the complement of the open findings' classes KF-09 (keyword naming a positional parameter), KF-10 (** at the call site), KF-11 (call site inside a comprehension iterable), KF-26 (a binder named like something the rewritten code relies on: type, self, the symbols), KF-27 (starred / bare recurse in a method), KF-28 (starred call_next), KF-29 (a second name for the function) and of the documented 'call_next must be called right away' -- the rewriter accepts it, the result is valid Python, and evaluating the rewritten tree with the table lookups inlined equals evaluating the original with recurse / call_next bound to callables of the documented meaning: same value or exception, same effect trace (argument expressions once, left to right, keyword values after positionals), same final state modulo temporaries, same fuel; nesting unbounded (mutual induction on the syntax, induction on fuel for lambda calls); temporaries proved fresh and pairwise distinct. Each finding class has a computed witness (C09_*_refuted). NOT in the theorem, covered by the behaviour run only: closures over factory variables, generators' laziness, nested def bodies, try/finally, loops, carry-over of defaults / keyword-only defaults, traceback file and line numbers. Tie to /repo on every run: (i) the real NameConverter is run on generated method sources and its output AST compared with the model's rewriting of the same tree (and Python's compile() with the model's valid); (ii) every generated method is registered in a real @ovld function / OvldBase class and also executed as written with the names bound to plain callables: value, exception kind, effect log, number of user calls and traceback lines must agree (property oracle, independent of the model), and both runs are compared with the extracted model's eval (semantics validated against CPython); (iii) template bodies exercise the contexts outside the grammar.",
    note="Trusted: Coq kernel, extraction (ExtrOcamlBasic), OCaml driver, the hand-written model (validated by (i) and (ii)), CPython's compile / scoping / evaluation order as modelled. The theorem's user code (table entries, operators, attribute access, globals) is an oracle over first-order views of values: it cannot call back into lambdas passed to it. No axioms. Partial: the full statement is false of the code (seven finding classes, each with a witness reproduced on the real library).",
    technique="Coq proof (simulation by mutual structural induction + fuel; footprint / freshness lemmas) + translation validation of the rewriter + differential behaviour run (registered vs as-written vs model)", design="6 C09")

THEOREMS = ["C09_preserve_partial", "C09_preserve_body_partial", "C09_observables", "C09_start_state", "C09_tmp_fresh", "C09_tmp_distinct",
            "C09_footprint", "C09_accept_partial", "C09_accept_refuted", "C09_dstar_refuted", "C09_poskw_refuted", "C09_hygiene_refuted",
            "C09_method_star_refuted", "C09_callnext_star_refuted", "C09_alias_refuted"]
ASSUMPTIONS = ["the source mentions no __TMP name (hypothesis of the property; the generators never produce one)",
               "behaviour scenarios call recurse / call_next on non-Trigger arguments only, so the documented meaning of call_next there is a fresh lookup (the resolution order proper is C07's)",
               "every method of a scenario has the same two required positional parameters, so that the entry point's own findings (KF-02, KF-03: optional positionals) do not interfere with the as-written run"]
TRUSTED_EXTRA = ["CPython 3.12 ast / compile (static rules compared with the model's valid on every generated tree)"]

NID, CODE = 7, 3
GLOB = {12: [0, 2], 13: [6, 0, [[0, 1], [0, 2]]], 50: [5, 2], 51: [5, 3],
        60: [6, 2, [[6, 1, [[1, 31], [0, 7]]]]], 61: [6, 2, [[6, 1, [[1, 32], [6, 0, [[0, 1]]]]]]]}
KF_ORDER = ["KF-28", "KF-11", "KF-29", "KF-26", "KF-27", "KF-10", "KF-09"]

TV_SHAPES = [
    dict(method=False, pos=[(10, False)], kwonly=[]),
    dict(method=True, pos=[(10, False), (11, True)], kwonly=[(31, False), (32, True)]),
    dict(method=False, pos=[(None, True), (11, False)], kwonly=[(31, True)]),
    dict(method=True, pos=[(10, True)], kwonly=[(32, False)]),
    dict(method=False, pos=[(10, False)], kwonly=[(31, False), (32, False, True)]),     # 32 required, 31 optional
]


def _h(x):
    return hashlib.sha1(json.dumps(x, sort_keys=True).encode()).hexdigest()[:16]


# ---------------------------------------------------------------- (i) translation validation
def tv_case(rng, shapes):
    si = rng.randrange(len(shapes))
    sh = shapes[si]
    rs = rng.choice([RL.RECURSE, RL.RECURSE, RL.ALIAS, RL.SELFNAME, None])
    cs = rng.choice([RL.CALL_NEXT, RL.CALL_NEXT, None])
    if rs is None and cs is None:
        rs = RL.RECURSE
    g = RL.Gen(rng, rs=rs, cs=cs, kwnames=[kwp[0] for kwp in sh["kwonly"]] or [31], posnames=[n for n, _ in sh["pos"] if n is not None], p_odd=0.03)
    body = g.body()
    return {"shape": si, "rs": rs, "cs": cs, "body": body, "nid": rng.randrange(5), "code": rng.randrange(5)}, g.ctx_hist


def tv_eval(case, anals):
    """-> dict of what the real rewriter / compiler say about the case"""
    body = case["body"]
    src = "def m(self, v10, v11):\n" + RL.body_src(body) + "\n"
    tree = ast.parse(src)
    back = [RL.stmt_from_ast(s) for s in tree.body[0].body]
    out = {"src": src, "roundtrip": back == body}
    st, new = RL.run_name_converter(anals[case["shape"]], case["rs"], case["cs"], src, case["nid"], case["code"])
    out["usage"] = st == "usage"
    out["valid"] = RL.compiles(src)
    if st == "ok":
        try:
            out["body"] = [RL.stmt_from_ast(s) for s in new.body[0].body]
        except RL.Unmodelled as e:
            out["body"] = ["unmodelled", str(e)]
        out["valid_rw"] = RL.compiles(new)
        out["rw_src"] = ast.unparse(new)
    return out


def part_tv(ctx, stats, n):
    anals = [RL.real_analysis(s) for s in TV_SHAPES]
    cases, mcases = [], []
    for _ in range(n):
        case, hist = tv_case(ctx.rng, TV_SHAPES)
        for k, v in hist.items():
            stats["contexts"][k] += v
        cases.append(case)
        params = RL.params_from_analysis(anals[case["shape"]], case["rs"], case["cs"], (), case["nid"], case["code"])
        mcases.append([40, params, case["body"]])
    mres = model.run_cases(mcases, chunk=500)
    for case, mc, mr in zip(cases, mcases, mres):
        stats["evaluations"] += 1
        stats["tv_programs"] += 1
        real = tv_eval(case, anals)
        m_usage, m_body, m_valid, m_valid_rw, m_indom, m_dom, m_sii = mr
        key = _h(case["body"])
        for s in case["body"]:
            RL.count_nodes(s[-1], stats["nodes"])
        nontrivial = any(RL.has_site(s[-1], {case["rs"], case["cs"]} - {None}) for s in case["body"])
        if nontrivial:
            stats["distinct"].add(key)
        rep = {"kind": "tv", "case": case}
        if not real["roundtrip"]:
            ctx.violation("harness: source text does not parse back to the generated tree", rep, kind="harness")
            continue
        if real["valid"] != bool(m_valid):
            ctx.violation(f"Python's compile() says valid={real['valid']}, the model's valid says {bool(m_valid)}: {real['src']}", rep, kind="correspondence")
            continue
        if real["usage"] != bool(m_usage):
            ctx.violation(f"NameConverter UsageError={real['usage']}, model usage_err={bool(m_usage)}: {real['src']}", rep, kind="correspondence")
            continue
        stats["tv_usage_error"] += int(real["usage"])
        stats["tv_invalid_original"] += int(not real["valid"])
        if real["usage"]:
            if real["valid"]:
                cls = RT.classify(case["body"], mc[1])
                if "KF-28" in cls:
                    ctx.known_hit("KF-28", rep)
                elif "cn-bare" in cls or "KF-26" in cls:
                    stats["documented_restriction"] += 1
                else:
                    ctx.violation(f"valid placement refused with UsageError outside every known class: {real['src']}", rep)
            continue
        if RL.canon_tmps(real["body"]) != RL.canon_tmps(m_body):
            ctx.violation(f"rewritten AST differs from the model's rewriting.\nsource: {real['src']}real : {real['rw_src']}\nmodel: {RL.body_src(m_body)}", rep, kind="correspondence")
            continue
        stats["tv_ast_equal"] += 1
        if real["valid"]:
            if real["valid_rw"] != bool(m_valid_rw):
                ctx.violation(f"compile() of the rewritten tree: {real['valid_rw']}, model valid: {bool(m_valid_rw)}: {real['rw_src']}", rep, kind="correspondence")
                continue
            # property oracle: every valid placement is accepted
            if not real["valid_rw"]:
                if m_sii:
                    ctx.known_hit("KF-11", rep)
                    stats["tv_kf11"] += 1
                else:
                    ctx.violation(f"rewriting of a valid method is not valid Python, and no call site is inside a comprehension iterable: {real['rw_src']}", rep)
            if m_indom and not real["valid_rw"]:
                ctx.violation("inside the proved domain the rewritten tree must compile", rep)
            stats["tv_in_domain"] += int(bool(m_indom))
        if len(stats["samples"]) < 2 and nontrivial and real["valid"]:
            stats["samples"].append({"part": "translation validation", "source": real["src"], "rewritten": real.get("rw_src"), "in_domain": bool(m_indom)})


# ---------------------------------------------------------------- (ii) behaviour of grammar bodies
def eval_case(rng):
    method = rng.random() < 0.4
    pool = [[RL.RECURSE], [RL.RECURSE], [RL.ALIAS], [RL.RECURSE, RL.ALIAS]] + ([] if method else [[RL.SELFNAME], [RL.SELFNAME, RL.RECURSE]])
    syms = rng.choice(pool)
    g = RL.EvalGen(rng, syms=syms, cs=RL.CALL_NEXT if rng.random() < 0.7 else None, method=method, p_odd=0.012)
    body = g.body()
    if rng.random() < 0.03:
        # hygiene (KF-26): a comprehension variable called `type`
        body = [[2, [9, [6, [1, [0, syms[0]]], [[0, [1, [3]]], [0, [0, [0, 1]]]], []], [3], [1, [0, 13]], []]]]
    arg2 = rng.choice([[0, 5], [6, 0, [[0, 1]]], [2], [6, 1, [[0, 1], [0, 2]]], [0, 0]])
    return {"method": method, "body": body, "arg2": arg2}, g.ctx_hist


def scenario_of(case):
    method = case["method"]
    ind = "    " if method else ""
    slf = "self, " if method else ""
    dec = "" if method else "@ovld\n"
    m_src = f"{dec}{ind}@mark\n{ind}def fself({slf}v10: Trig, v11: object):\n" + RL.body_src(case["body"], indent=ind + "    ")
    return dict(method=method, leaves=RT.DEFAULT_LEAVES, m_src=m_src, globals={str(k): v for k, v in GLOB.items()}, arg2=case["arg2"])


def _fun(v):
    """a lambda that went through user code comes back as its first-order view (data 0): compare functions as that"""
    if isinstance(v, list):
        if v == [7]:
            return [5, 0]
        return [_fun(x) for x in v]
    return v


def model_outcome(o):
    o = _fun(o)
    if o[0] == [0]:
        return ["fuel"]
    out = o[0]
    if out[0] == 2:
        r = ["value", [2]]
    else:
        res = out[1]
        r = ["value", res[1]] if res[0] == 0 else [RT.MODEL_EXC[res[1][0]], None]
    return r + [[[t, v] for t, v in o[1]], o[2]]


def norm_outcome(o):
    l = o.as_list()
    if l[0].startswith("build:"):
        return [l[0]]
    if l[0] != "value":
        l[1] = None
    return l


def syms_of(info):
    rs = RL.ident_id(info["rec_syms"][0]) if info["rec_syms"] else None
    aliases = sorted({RL.ident_id(x) for x in (info["rec_syms"] or [])} - {rs})
    cs = RL.ident_id(info["cn_syms"][0]) if info["cn_syms"] else None
    return rs, cs, aliases


def check_eval_case(ctx, case, work, stats=None, verbose=False):
    """runs one behaviour case; returns (list of (what, kind) problems, known-finding id or None, record)"""
    sc = scenario_of(case)
    if not RL.compiles(RT.module_source(sc)):
        return None
    reg, asw, info = RT.run_scenario(sc, work)
    rs, cs, aliases = syms_of(info)
    params = RL.params_from_analysis(info["anal"], rs, cs, aliases, NID, CODE)
    table = RT.model_table(RT.DEFAULT_LEAVES, NID, CODE)
    globs = [[k, v] for k, v in GLOB.items()] + [[11, case["arg2"]]]
    return {"sc": sc, "reg": reg, "asw": asw, "info": info, "params": params,
            "mcases": [[40, params, case["body"]], [41, params, case["body"], table, globs, [5, 99], 8, 0],
                       [41, params, case["body"], table, globs, [5, 99], 8, 1]]}


def judge_eval_case(case, run, mres):
    """-> (problems [(what, kind)], known finding id or None, flags)"""
    r40, r0, r1 = mres
    usage, rwbody, v0, v1, indom, dom, sii = r40
    m0 = model_outcome(r0)
    m1 = ["build:usage"] if usage else (["build:syntax"] if not v1 else model_outcome(r1))
    a, r = norm_outcome(run["asw"]), norm_outcome(run["reg"])
    cls = RT.classify(case["body"], run["params"]) - {"tmp"}
    problems = []
    src_tail = run["info"]["src"][run["info"]["src"].rfind("@mark"):]
    # outside the modelled CPython fragment: a call whose only positional argument is a starred non-iterable hands it to the
    # call unexamined, so CPython evaluates the keyword values before raising 'argument after * must be an iterable'; the
    # model raises when it unpacks.  Same error kind, the model's effects a prefix of the real ones: not compared further
    # (the registered run is still compared with the as-written one below)
    def lone_star(o, real, m):
        return ("argument after * must be an iterable" in (o.msg or "") and len(real) >= 3 and len(m) >= 3 and real[0] == m[0] == "type"
                and real[2][: len(m[2])] == m[2])
    ls = lone_star(run["asw"], a, m0) and (m1[0] != "type" or lone_star(run["reg"], r, m1) or r == m1)
    if ls:
        run["outside_cpython_fragment"] = True
    if a != m0 and not ls:
        problems.append((f"as-written run differs from the model's evaluation of the original.\n{src_tail}\nreal : {a} {run['asw'].msg}\nmodel: {m0}", "correspondence"))
    if r != m1 and not ls:
        problems.append((f"registered run differs from the model's evaluation of the rewritten body.\n{src_tail}\nreal : {r} {run['reg'].msg}\nmodel: {m1}", "correspondence"))
    if bool(indom) != (not cls):
        problems.append((f"in_domain (Coq) = {bool(indom)} but the harness classifiers say {sorted(cls)}\n{src_tail}", "correspondence"))
    if indom and m0 != m1:
        problems.append((f"model: original and rewritten differ inside the proved domain (contradicts C09_preserve_partial)\n{src_tail}\n{m0}\n{m1}", "model"))
    known = None
    same = (a == r) and (run["asw"].tb == run["reg"].tb)
    if not same:
        kfs = [k for k in KF_ORDER if k in cls]
        if kfs and a == m0 and r == m1:
            known = kfs[0]
        elif "cn-bare" in cls and r == ["build:usage"]:
            known = "documented"
        else:
            problems.append((f"registered method does not behave like its source.\n{src_tail}\nas written : {a} tb={run['asw'].tb} {run['asw'].msg}\nregistered : {r} tb={run['reg'].tb} {run['reg'].msg}\nclasses: {sorted(cls)}", "property"))
    return problems, known, {"in_domain": bool(indom), "classes": sorted(cls), "same": same, "asw": a, "reg": r}


def part_eval(ctx, stats, n, work):
    runs = []
    for _ in range(n):
        case, hist = eval_case(ctx.rng)
        run = check_eval_case(ctx, case, work)
        if run is None:
            stats["eval_invalid_python"] += 1
            continue
        for k, v in hist.items():
            stats["contexts"][k] += v
        runs.append((case, run))
    flat = [mc for _, run in runs for mc in run["mcases"]]
    mres = model.run_cases(flat, chunk=300) if flat else []
    for i, (case, run) in enumerate(runs):
        stats["evaluations"] += 1
        stats["behaviour_programs"] += 1
        stats["traces_validated"] += 2
        problems, known, flags = judge_eval_case(case, run, mres[3 * i: 3 * i + 3])
        stats["outside_cpython_fragment"] += int(bool(run.get("outside_cpython_fragment")))
        for s in case["body"]:
            RL.count_nodes(s[-1], stats["nodes"])
        stats["distinct"].add(_h(case))
        stats["eval_in_domain"] += int(flags["in_domain"])
        stats["eval_outcomes"][flags["reg"][0]] += 1
        for c in flags["classes"]:
            stats["eval_classes"][c] += 1
        rep = {"kind": "eval", "case": case}
        for what, kind in problems:
            ctx.violation(what, rep, kind=kind)
        if known == "documented":
            stats["documented_restriction"] += 1
        elif known:
            ctx.known_hit(known, rep)
        if len(stats["samples"]) < 4 and flags["in_domain"] and flags["reg"][0] == "value" and len(run["reg"].log) >= 2:
            stats["samples"].append({"part": "behaviour", "method_source": run["info"]["src"][run["info"]["src"].rfind("@mark"):],
                                     "registered": flags["reg"], "as_written": flags["asw"]})


# ---------------------------------------------------------------- (iii) contexts outside the grammar
def _site(rng, a="v11", b="v12"):
    f = rng.choice(["recurse", "recurse", "call_next"])
    kw = rng.choice(["", "", ", v31=1", ", v31=eff(7, 2)"])
    return f"{f}({a}, {b}{kw})"


TEMPLATES = {
    "closure_factory": lambda r: dict(method=False, m_src=
        "def make_m(kf, rr):\n    @mark\n    def m(v10: Trig, v11: object):\n        return (rr(v11 + kf, kf), " + _site(r, "kf", "v11").replace("recurse(", "rr(") +
        ")\n    return m\nREGISTER(fself, make_m(eff(1, 4), recurse))"),
    "closure_sorted_after": lambda r: dict(method=False, m_src=
        "def make_m(rr, zz, aa):\n    @mark\n    def m(v10: Trig, v11: object):\n        return (aa, zz, rr(v11 + zz, aa), " + _site(r, "zz", "v11").replace("recurse(", "rr(") +
        ", zz + aa)\n    return m\nREGISTER(fself, make_m(recurse, eff(1, 4), eff(2, 1)))"),
    "closure_counter": lambda r: dict(method=False, m_src=
        "def make_m():\n    count = [0]\n    @mark\n    def m(v10: Trig, v11: object):\n        count[0] += 1\n        return (count[0], " + _site(r, "count[0]", "v11") +
        ", [recurse(count[0] + a, a) for a in v13])\n    return m\nREGISTER(fself, make_m())"),
    "generator_function": lambda r: dict(m_src=
        "def fself({S}v10: Trig, v11: object):\n    eff(1, 0)\n    yield " + _site(r) + "\n    eff(2, 0)\n    for a in v13:\n        yield recurse(a, eff(3, a))\n    return 7"),
    "generator_expression": lambda r: dict(m_src=
        "def fself({S}v10: Trig, v11: object):\n    g = (recurse(eff(1, a), v11) for a in v13)\n    eff(2, 0)\n    return list(g) + [" + _site(r) + "]"),
    "nested_def": lambda r: dict(m_src=
        "def fself({S}v10: Trig, v11: object):\n    def inner(a, b=eff(1, 3)):\n        return " + _site(r, "a", "b") +
        "\n    eff(2, 0)\n    return (inner(v11), inner(1, 2), [inner(x) for x in v13])"),
    "try_finally": lambda r: dict(m_src=
        "def fself({S}v10: Trig, v11: object):\n    try:\n        return " + _site(r) + "\n    finally:\n        eff(9, recurse(1, 1))"),
    "try_except": lambda r: dict(m_src=
        "def fself({S}v10: Trig, v11: object):\n    try:\n        x = recurse(v11, 'nope')\n    except TypeError as e:\n        x = eff(1, 5)\n    try:\n        y = undefined_name\n    except NameError:\n        y = " + _site(r) + "\n    return (x, y)"),
    "kwonly_defaults": lambda r: dict(m_src=
        "def fself({S}v10: Trig, v11: object, *, v31: object = eff(1, 41), v32: object = (1, 2)):\n    return (v31, v32, " + _site(r, "v31", "v11") + ", recurse(v32, 1, v32=v32))"),
    "positional_default": lambda r: dict(m_src=
        "def fself({S}v10: Trig, v11: object, v12: object = eff(1, [7])):\n    return (v12, recurse(v11, v11), recurse(v12, 1), call_next(1, v12))"),
    "lambda_in_defaults": lambda r: dict(m_src=
        "def fself({S}v10: Trig, v11: object, v12: object = (lambda a: eff(1, a + 1)), *, v31: object = (lambda: 41)):\n    return (v12(2), v31(), " + _site(r, "v31()", "v11") + ", recurse(v12(1), 1))"),
    "comprehension_in_defaults": lambda r: dict(m_src=
        "def fself({S}v10: Trig, v11: object, v12: object = [a * 2 for a in (1, 2)], *, v31: object = {a for a in (3,)}):\n    return (v12, sorted(v31), " + _site(r, "v12", "v11") + ")"),
    "loops": lambda r: dict(m_src=
        "def fself({S}v10: Trig, v11: object):\n    acc = []\n    for a in v13:\n        acc.append(" + _site(r, "a", "v11") +
        ")\n    i = 0\n    while i < 2:\n        i += 1\n        acc += [recurse(i, i)]\n    return acc"),
    "multi_for_comprehension": lambda r: dict(m_src=
        "def fself({S}v10: Trig, v11: object):\n    return [recurse(a, b) for a in v13 for b in v13 if a < b or eff(1, a)] + [{a: " + _site(r, "a", "v11") + " for a in v13}, {call_next(a, 1)[0] for a in v13}]"),
    "fstring": lambda r: dict(m_src=
        "def fself({S}v10: Trig, v11: object):\n    return f\"{recurse(v11, 1)!r}-{" + _site(r) + "}-{eff(1, 2):>3}\""),
    "boolean_conditional": lambda r: dict(m_src=
        "def fself({S}v10: Trig, v11: object):\n    return (recurse(v11, 1) if eff(1, v11) else recurse(1, 1), eff(2, 0) or " + _site(r) + ", eff(3, 1) and recurse(1, v13), not recurse(1, 1))"),
    "walrus": lambda r: dict(m_src=
        "def fself({S}v10: Trig, v11: object):\n    if (w := " + _site(r) + "):\n        return (w, (z := recurse(1, 1)), z, [(q := recurse(a, 1)) for a in v13], q)\n    return 0"),
    "lambda_stored": lambda r: dict(m_src=
        "def fself({S}v10: Trig, v11: object):\n    h = lambda a, b=2: " + _site(r, "a", "b") + "\n    eff(1, 0)\n    return (h(v11), h(1, 1), sorted(v13, key=lambda a: recurse(a, 1)[0]))"),
    "multiline_error": lambda r: dict(m_src=
        "def fself({S}v10: Trig, v11: object):\n    eff(1, 0)\n    return recurse(\n        eff(2, v11),\n        undefined_name,\n        eff(3, 0),\n    )"),
    "error_in_lambda": lambda r: dict(m_src=
        "def fself({S}v10: Trig, v11: object):\n    h = lambda a: recurse(a, 1) + (\n        1 // a)\n    return (h(1), h(0))"),
    "nomethod_line": lambda r: dict(m_src=
        "def fself({S}v10: Trig, v11: object):\n    a = recurse(1, 1)\n\n    b = recurse(\n        'x', 'y')\n    return (a, b)"),
    "nomethod_continuation_line": lambda r: dict(m_src=
        "def fself({S}v10: Trig, v11: object):\n    b = (eff(1, 1),\n         2,\n         recurse('x',\n                 'y'))\n    return b"),
    "keyword_order": lambda r: dict(m_src=
        "def fself({S}v10: Trig, v11: object):\n    return (recurse([1], 1, v32=eff(1, [2]), v31=eff(2, 3)), recurse([1], 1, v31=eff(3, 3), v32=eff(4, [2])))"),
    # a keyword-only parameter every method requires next to an optional one: whatever the generated code does with the
    # two kinds, the argument expressions run in the order written
    "required_and_optional_keyword": lambda r: dict(leaves=REQ_LEAVES, stub_sig="v10: Trig, v11: object, *, v31: object = 0, v33: object",
        call_kw={"v33": [0, 1]}, m_src=
        "def fself({S}v10: Trig, v11: object, *, v31: object = 0, v33: object):\n    return (recurse(1, 1, v31=eff(1, 2), v33=eff(2, 3)), "
        "recurse([1], 1, v32=eff(3, [2]), v31=eff(4, 3), v33=eff(5, 1)), recurse(1, 1, v33=eff(6, 1), v31=eff(7, 2)), "
        "call_next(1, [1], v33=eff(8, 9)), " + r.choice(["recurse", "call_next"]) + "(1, 1, v31=(w := eff(9, 4)), v33=w))"),
    "global_nonlocal": lambda r: dict(m_src=
        "def fself({S}v10: Trig, v11: object):\n    n = 0\n    def bump():\n        nonlocal n\n        n += 1\n        return " + _site(r, "n", "v11") + "\n    return (bump(), bump(), n)"),
    "with_and_assert": lambda r: dict(prelude="import contextlib", m_src=
        "def fself({S}v10: Trig, v11: object):\n    with contextlib.nullcontext(" + _site(r) + ") as cm:\n        assert recurse(1, 1), 'x'\n        return cm"),
    "starred_function": lambda r: dict(method=False, m_src=
        "def fself(v10: Trig, v11: object):\n    pair = (v11, 1)\n    return (recurse(*pair), list(map(recurse, v13, v13)), recurse(*[1], *[1]))"),
    "self_name": lambda r: dict(method=False, m_src=
        "def fself(v10: Trig, v11: object):\n    return (fself(v11, 1), [fself(a, a) for a in v13], fself(1, v13, v31=1))"),
    "alias_only": lambda r: dict(m_src=
        "def fself({S}v10: Trig, v11: object):\n    return (rec(v11, 1), [rec(a, a) for a in v13])"),
}


REQ_LEAVES = [
    dict(pos=[1, 1], kw={31: (1, False), 33: (1, True)}),
    dict(pos=[6, 1], kw={31: (1, False), 32: (6, False), 33: (1, True)}),
    dict(pos=[1, 6], kw={33: (1, True)}),
    dict(pos=[6, 6], kw={33: (1, True)}),
]


def template_scenario(name, rng, method=None):
    t = TEMPLATES[name](rng)
    method = t.get("method", rng.random() < 0.4 if method is None else method)
    ind = "    " if method else ""
    src = t["m_src"]
    if "REGISTER(" not in src:
        src = src.replace("{S}", "self, " if method else "")
        dec = ("" if method else "@ovld\n") + "@mark\n"
        src = dec + src
    src = "\n".join(ind + l for l in src.split("\n"))
    arg2 = rng.choice([[0, 5], [0, 5], [6, 0, [[0, 1]]], [0, 1]])
    sc = dict(method=method, leaves=t.get("leaves", RT.DEFAULT_LEAVES), m_src=src, prelude=t.get("prelude", ""),
              globals={str(k): v for k, v in GLOB.items()}, arg2=arg2, template=name)
    for k in ("stub_sig", "call_kw"):
        if k in t:
            sc[k] = t[k]
    return sc


def judge_template(reg, asw):
    a = [asw.kind, asw.rep, asw.log, asw.calls, asw.tb]
    r = [reg.kind, reg.rep, reg.log, reg.calls, reg.tb]
    return a == r, a, r


def part_templates(ctx, stats, rounds, work):
    for _ in range(rounds):
        for name in TEMPLATES:
            sc = template_scenario(name, ctx.rng)
            reg, asw, info = RT.run_scenario(sc, work)
            stats["evaluations"] += 1
            stats["template_programs"] += 1
            stats["templates"][name] += 1
            stats["distinct"].add(_h([sc["m_src"], sc["arg2"], sc["method"]]))
            same, a, r = judge_template(reg, asw)
            if asw.kind.startswith("build:"):
                ctx.violation(f"harness: template {name} does not run as written: {asw.msg}", {"kind": "template", "sc": sc}, kind="harness")
                continue
            if not same:
                ctx.violation(f"template {name}: registered method does not behave like its source.\n{sc['m_src']}\nas written: {a} {asw.msg}\nregistered: {r} {reg.msg}",
                              {"kind": "template", "sc": sc})
            stats["template_outcomes"][reg.kind] += 1


# ---------------------------------------------------------------- entry points
def new_stats():
    return {"evaluations": 0, "distinct": set(), "samples": [], "contexts": collections.Counter(), "nodes": {},
            "tv_programs": 0, "tv_ast_equal": 0, "tv_usage_error": 0, "tv_invalid_original": 0, "tv_kf11": 0, "tv_in_domain": 0,
            "behaviour_programs": 0, "eval_in_domain": 0, "eval_invalid_python": 0, "outside_cpython_fragment": 0, "eval_outcomes": collections.Counter(),
            "eval_classes": collections.Counter(), "traces_validated": 0, "documented_restriction": 0,
            "template_programs": 0, "templates": collections.Counter(), "template_outcomes": collections.Counter()}


NODE_NAMES = {0: "constant", 1: "name", 2: "attribute", 3: "binop", 4: "boolop", 5: "ifexp", 6: "call", 7: "walrus", 8: "lambda",
              9: "comprehension", 10: "fstring", 11: "effect", 12: "tuple", 13: "subscript"}


def run(ctx):
    warnings.simplefilter("ignore")
    stats = new_stats()
    work = tempfile.mkdtemp(prefix="c09_")
    try:
        n_tv, n_ev, rounds = (1500, 260, 2) if ctx.quick() else (40000, 14000, 40)
        part_tv(ctx, stats, n_tv)
        part_templates(ctx, stats, rounds, work)
        part_eval(ctx, stats, n_ev, work)
        cross = 0
        if not ctx.quick():
            # extraction cross-checked against the kernel's evaluator on a sample of rewriting cases
            anals = [RL.real_analysis(s) for s in TV_SHAPES]
            mc = []
            for _ in range(40):
                case, _h2 = tv_case(ctx.rng, TV_SHAPES)
                mc.append([40, RL.params_from_analysis(anals[case["shape"]], case["rs"], case["cs"], (), case["nid"], case["code"]), case["body"]])
            if model.run_cases(mc) != model.run_in_coq(mc):
                ctx.violation("extracted model and vm_compute disagree", {"kind": "extraction", "cases": mc}, kind="extraction")
            cross = len(mc)
    finally:
        shutil.rmtree(work, ignore_errors=True)
    return {"evaluations": stats["evaluations"], "distinct_nontrivial": len(stats["distinct"]),
            "rule": "translation validation: random straight-line method bodies over the modelled grammar (every expression context; awkward placements -- *, **, positional-by-keyword, repeated keyword, bare symbols, symbol-named binders -- with small probability), 5 parameter shapes (function / method, type[...] positions, positional-only, keyword-only), distinct non-trivial = distinct bodies containing a recurse / call_next call; behaviour: random bodies of the executable sub-grammar registered in a real function / class next to 10 leaf methods, distinct by (body, argument, method?); templates: 29 hand-written contexts outside the grammar with randomised call sites",
            "samples": stats["samples"], "programs": stats["tv_programs"], "disagreements_checked": stats["tv_programs"],
            "tv_rewritten_ast_equal_to_model": stats["tv_ast_equal"], "tv_usage_errors_agreeing": stats["tv_usage_error"],
            "tv_invalid_originals_agreeing": stats["tv_invalid_original"], "tv_valid_and_in_domain": stats["tv_in_domain"], "tv_kf11_hits": stats["tv_kf11"],
            "behaviour_programs": stats["behaviour_programs"], "behaviour_programs_outside_the_modelled_cpython_fragment_lone_star": stats["outside_cpython_fragment"], "behaviour_in_domain": stats["eval_in_domain"],
            "behaviour_outcomes": dict(stats["eval_outcomes"]), "behaviour_finding_classes": dict(stats["eval_classes"]),
            "documented_restriction_cases": stats["documented_restriction"],
            "template_programs": stats["template_programs"], "template_outcomes": dict(stats["template_outcomes"]),
            "traces_validated_against_impl": stats["traces_validated"],
            "context_histogram": dict(stats["contexts"]), "node_histogram": {NODE_NAMES[k]: v for k, v in sorted(stats["nodes"].items())},
            "vm_compute_crosscheck_cases": cross}


def replay(ctx, payload):
    warnings.simplefilter("ignore")
    c = payload["case"]
    work = tempfile.mkdtemp(prefix="c09_")
    try:
        if c.get("kind") == "tv":
            case = c["case"]
            anals = [RL.real_analysis(s) for s in TV_SHAPES]
            params = RL.params_from_analysis(anals[case["shape"]], case["rs"], case["cs"], (), case["nid"], case["code"])
            mr = model.run_cases([[40, params, case["body"]]])[0]
            real = tv_eval(case, anals)
            print(json.dumps({"source": real["src"], "real_rewritten": real.get("rw_src"), "model_rewritten": RL.body_src(mr[1]),
                              "usage": [real["usage"], mr[0]], "valid": [real["valid"], mr[2]], "valid_rewritten": [real.get("valid_rw"), mr[3]]}, indent=1))
            bad = real["usage"] != bool(mr[0]) or real["valid"] != bool(mr[2])
            if not real["usage"]:
                bad = bad or RL.canon_tmps(real["body"]) != RL.canon_tmps(mr[1]) or (real["valid"] and (real["valid_rw"] != bool(mr[3]) or not real["valid_rw"]))
            else:
                bad = bad or real["valid"]
            return bool(bad)
        if c.get("kind") == "eval":
            case = c["case"]
            run_ = check_eval_case(ctx, case, work)
            mres = model.run_cases(run_["mcases"])
            problems, known, flags = judge_eval_case(case, run_, mres)
            print(run_["info"]["src"])
            print(json.dumps(flags, indent=1))
            for w, k in problems:
                print(k, w)
            return bool(problems) or (known is not None)
        if c.get("kind") == "template":
            reg, asw, info = RT.run_scenario(c["sc"], work)
            same, a, r = judge_template(reg, asw)
            print(info["src"]); print("as written:", a, asw.msg); print("registered:", r, reg.msg)
            return not same
        return False
    finally:
        shutil.rmtree(work, ignore_errors=True)


def replay_finding(ctx, e):
    """True = the witness still reproduces on the implementation exactly as recorded"""
    warnings.simplefilter("ignore")
    wit = e["witness"]
    work = tempfile.mkdtemp(prefix="c09_")
    try:
        sc = wit["scenario"]
        reg, asw, info = RT.run_scenario(sc, work)
        got = {"registered": reg.kind, "as_written": asw.kind}
        if "registered_message_contains" in wit["expect"]:
            if wit["expect"]["registered_message_contains"] not in reg.msg:
                return False
        return got["registered"] == wit["expect"]["registered"] and got["as_written"] == wit["expect"]["as_written"] \
            and (reg.kind != asw.kind or reg.value != asw.value or reg.log != asw.log)
    finally:
        shutil.rmtree(work, ignore_errors=True)
