(* TyMeaning.v — corollaries of subck_denot + totality at the public entry point subclasscheck (fuel chosen by the
   model): the decision for a class against a union / intersection / value-dependent type decomposes into the
   decisions against the components, at any nesting depth (C13). *)
From Coq Require Import List Bool Arith Lia.
Import ListNotations.
From OvldV Require Import Model.Order Model.Ty Model.TyDom Spec.Denot Proofs.TyEq Proofs.TySub Proofs.TyTotal.

Section Meaning.
  Variable sub : nat -> nat -> bool.
  Variable hasm : nat -> nat -> bool.
  Variable chk : nat -> nat -> bool.
  Variable sub_fresh : nat -> bool.
  Hypothesis sub_refl : forall c, sub c c = true.

  Notation sc := (subclasscheck sub hasm chk sub_fresh).
  Notation denot := (denot sub hasm chk).

  (* the public test always answers, and its answer is the documented meaning *)
  Theorem subclasscheck_denot c T : sc (Cls c) T = Some (denot T c).
  Proof.
    destruct (sc (Cls c) T) as [b|] eqn:E.
    - f_equal. unfold subclasscheck in E. now apply (subck_denot sub hasm chk sub_fresh sub_refl) in E.
    - now apply subclasscheck_total in E.
  Qed.

  Theorem subclasscheck_union c ts :
    sc (Cls c) (Uni ts) = Some true <-> exists t, In t ts /\ sc (Cls c) t = Some true.
  Proof.
    rewrite subclasscheck_denot. cbn [Denot.denot]. split.
    - intros H. injection H as H. apply existsb_exists in H. destruct H as [t [Hin Ht]].
      exists t. split; [exact Hin|]. rewrite subclasscheck_denot. now rewrite Ht.
    - intros [t [Hin Ht]]. rewrite subclasscheck_denot in Ht. injection Ht as Ht.
      f_equal. apply existsb_exists. now exists t.
  Qed.

  Theorem subclasscheck_inter c ts :
    sc (Cls c) (Int ts) = Some true <-> forall t, In t ts -> sc (Cls c) t = Some true.
  Proof.
    rewrite subclasscheck_denot. cbn [Denot.denot]. split.
    - intros H t Hin. injection H as H. rewrite forallb_forall in H. rewrite subclasscheck_denot. now rewrite (H t Hin).
    - intros H. f_equal. apply forallb_forall. intros t Hin. specialize (H t Hin).
      rewrite subclasscheck_denot in H. now injection H.
  Qed.

  (* type-level meaning of a value-dependent type is that of its bound *)
  Theorem subclasscheck_dep_bound c T : is_dep T = true -> sc (Cls c) T = sc (Cls c) (dep_bound T).
  Proof.
    intros H. rewrite !subclasscheck_denot. destruct T; try discriminate; reflexivity.
  Qed.
End Meaning.
