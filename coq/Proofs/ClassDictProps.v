(* ClassDictProps.v — the lemmas behind Props/C17.v *)
From Coq Require Import ZArith List Bool Arith Lia.
Import ListNotations.
From OvldV Require Import Model.Graph Model.ClassDict Spec.Overlay Proofs.GraphTab Proofs.GraphBase Proofs.GraphUpd
  Proofs.GraphInv Proofs.GraphProps Proofs.GraphStack Proofs.ClassDictBase.

Ltac cb H g1 x E :=
  match type of H with
  | cbind ?r _ = COk _ _ => destruct r as [g1 x|] eqn:E; cbn [cbind] in H; [|discriminate H]
  end.

(* ================= no leak ================= *)
(* state of a class statement started in g0: g extends g0 untouched, and the current entry of the namespace, when it
   is an overloaded function, is a private node created by this statement *)
Definition cur_ok (g0 g : graph) (cur : attr) : Prop :=
  match cur with
  | AOvld n _ => length g0 <= n /\ exists own ms, IsFn g n own ms
  | _ => True
  end.

Definition CS (g0 g : graph) (cur : attr) : Prop := Pre g0 g /\ Inv g /\ cur_ok g0 g cur.

Ltac splits := unfold CS; repeat match goal with |- _ /\ _ => split end.

Lemma base_mixins_P : forall g0 bases g g' ms, Pre g0 g -> Inv g -> cd_base_mixins g bases = COk g' ms ->
  Pre g0 g' /\ Inv g' /\ length g <= length g' /\ (forall k, k < length g -> g_get g' k = g_get g k).
Proof.
  intros g0. induction bases as [|a r IH]; intros g g' ms P I H; cbn [cd_base_mixins] in H.
  - injection H as <- _. auto.
  - destruct a as [|s l|m f].
    + eapply IH; eauto.
    + cb H g1 q E1. destruct (P_fresh _ _ _ _ _ _ P E1) as (P1 & -> & L1 & F1 & O1).
      pose proof (Inv_cd_fresh _ _ _ _ _ I E1) as I1.
      cb H g2 ms2 E2. injection H as <- _.
      destruct (IH _ _ _ P1 I1 E2) as (P2 & I2 & L2 & O2). splits; auto; try lia.
      intros k Lk. rewrite O2 by lia. auto.
    + cb H g2 ms2 E2. injection H as <- _. eapply IH; eauto.
Qed.

Lemma add_each_P : forall g0 p others g own ms g' u, Pre g0 g -> Inv g -> length g0 <= p -> IsFn g p own ms ->
  cd_add_each g p others = COk g' u ->
  Pre g0 g' /\ Inv g' /\ length g' = length g /\
  IsFn g' p own (ms ++ filter (fun m => negb (Nat.eqb m p)) others) /\ (forall k, k <> p -> g_get g' k = g_get g k).
Proof.
  intros g0 p. induction others as [|m r IH]; intros g own ms g' u P I Lp F H; cbn [cd_add_each] in H.
  - injection H as <- _. rewrite app_nil_r. auto.
  - cb H g1 u1 E1. destruct (P_add_mixins _ _ _ _ _ _ _ _ P Lp F E1) as (P1 & L1 & F1 & O1).
    pose proof (Inv_cd_add_mixins _ _ _ _ _ I E1) as I1.
    destruct (IH _ _ _ _ _ P1 I1 Lp F1 H) as (P2 & I2 & L2 & F2 & O2).
    splits; auto; try congruence.
    + cbn [filter] in *. destruct (negb (Nat.eqb m p)); cbn [app] in *; rewrite <- app_assoc in F2; exact F2.
    + intros k Ne. rewrite O2, O1; auto.
Qed.

Lemma register_each_P : forall g0 o others g own ms g' u, Pre g0 g -> Inv g -> length g0 <= o -> IsFn g o own ms ->
  cd_register_each g o others = COk g' u ->
  Pre g0 g' /\ Inv g' /\ exists own', IsFn g' o own' ms.
Proof.
  intros g0 o. induction others as [|a r IH]; intros g own ms g' u P I Lo F H; cbn [cd_register_each] in H.
  - injection H as <- _. eauto.
  - destruct a as [|s l|m f]; try (eapply IH; eauto; fail).
    cb H g1 u1 E1. destruct (P_register _ _ _ _ _ _ _ _ _ P Lo F E1) as (P1 & L1 & (own' & R1 & F1) & O1).
    pose proof (Inv_cd_register _ _ _ _ _ _ I E1) as I1. eapply IH; eauto.
Qed.

Lemma prepare_CS : forall g0 g bases g' cur, Pre g0 g -> Inv g -> cd_prepare g bases = COk g' cur -> CS g0 g' cur.
Proof.
  intros g0 g bases g' cur P I H. unfold cd_prepare in H.
  destruct (filter is_ov bases) as [|[|s l|n0 f] rest]; try (injection H as <- <-; splits; cbn; auto).
  destruct (marked_nodes rest) as [|m1 mr] eqn:M; [injection H as <- <-; splits; cbn; auto|].
  cb H g1 o E1. destruct (P_create _ _ _ _ _ P E1) as (P1 & -> & L1 & F1 & O1).
  pose proof (Inv_cd_create _ _ _ _ I E1) as I1.
  cb H g2 u E2. injection H as <- <-.
  destruct (register_each_P _ _ _ _ _ _ _ _ P1 I1 (proj1 P) F1 E2) as (P2 & I2 & own' & F2).
  splits; cbn [cur_ok]; splits; eauto; try (destruct P; lia); try lia.
Qed.

Lemma setitem_CS : forall g0 g bases cur d g' cur', CS g0 g cur -> cd_setitem g bases cur d = COk g' cur' -> CS g0 g' cur'.
Proof.
  intros g0 g bases cur d g' cur' (P & I & C) H. unfold cd_setitem in H.
  destruct (d_kind d).
  - (* plain def *)
    destruct cur as [|s0 l0|n f].
    + injection H as <- <-. splits; cbn; auto.
    + cb H g1 p E1. destruct (P_fresh _ _ _ _ _ _ P E1) as (P1 & -> & L1 & F1 & O1).
      pose proof (Inv_cd_fresh _ _ _ _ _ I E1) as I1.
      cb H g2 u E2. injection H as <- <-.
      destruct (P_register _ _ _ _ _ _ _ _ _ P1 (proj1 P) F1 E2) as (P2 & L2 & (own' & R2 & F2) & O2).
      pose proof (Inv_cd_register _ _ _ _ _ _ I1 E2) as I2.
      splits; cbn [cur_ok]; splits; eauto; try (destruct P; lia); try lia.
    + destruct C as (Ln & own & ms & F).
      cb H g1 u E1. injection H as <- <-.
      destruct (P_register _ _ _ _ _ _ _ _ _ P Ln F E1) as (P1 & L1 & (own' & R1 & F1) & O1).
      pose proof (Inv_cd_register _ _ _ _ _ _ I E1) as I1.
      splits; cbn [cur_ok]; splits; eauto; try (destruct P; lia); try lia.
  - (* @ovld def *)
    destruct cur as [|s0 l0|n f]; [| discriminate |].
    + cb H g1 p E1. injection H as <- <-. destruct (P_fresh _ _ _ _ _ _ P E1) as (P1 & -> & L1 & F1 & O1).
      pose proof (Inv_cd_fresh _ _ _ _ _ I E1) as I1.
      splits; cbn [cur_ok]; splits; eauto; try (destruct P; lia); try lia.
    + destruct C as (Ln & own & ms & F).
      cb H g1 u E1. cb H g2 u2 E2. injection H as <- <-.
      destruct (P_register _ _ _ _ _ _ _ _ _ P Ln F E1) as (P1 & L1 & (own' & R1 & F1) & O1).
      pose proof (Inv_cd_register _ _ _ _ _ _ I E1) as I1.
      destruct (P_add_mixins _ _ _ _ _ _ _ _ P1 Ln F1 E2) as (P2 & L2 & F2 & O2).
      pose proof (Inv_cd_add_mixins _ _ _ _ _ I1 E2) as I2.
      splits; cbn [cur_ok]; splits; eauto; try (destruct P; lia); try lia.
  - (* @extend_super def *)
    cb H g1 nN E1. destruct (P_fresh _ _ _ _ _ _ P E1) as (P1 & -> & L1 & F1 & O1).
    pose proof (Inv_cd_fresh _ _ _ _ _ I E1) as I1.
    destruct cur as [|s0 l0|n f].
    + cb H g2 ms E2. destruct (base_mixins_P _ _ _ _ _ P1 I1 E2) as (P2 & I2 & L2 & O2).
      assert (IsFn g2 (length g) [((d_sig d, 0%Z), d_label d)] []) as FN
        by (eapply IsFn_frame; [exact F1 | apply O2; lia]).
      destruct ms as [|m0 others].
      * injection H as <- <-. splits; cbn [cur_ok]; splits; eauto; try (destruct P; lia); try lia.
      * cb H g3 p E3. destruct (P_create _ _ _ _ _ P2 E3) as (P3 & -> & L3 & F3 & O3).
        pose proof (Inv_cd_create _ _ _ _ I2 E3) as I3.
        assert (length g0 <= length g2) as Lp by (destruct P2; lia).
        cb H g4 u4 E4. destruct (add_each_P _ _ _ _ _ _ _ _ P3 I3 Lp F3 E4) as (P4 & I4 & L4 & F4 & O4).
        cb H g5 u5 E5. injection H as <- <-.
        destruct (P_add_mixins _ _ _ _ _ _ _ _ P4 Lp F4 E5) as (P5 & L5 & F5 & O5).
        pose proof (Inv_cd_add_mixins _ _ _ _ _ I4 E5) as I5.
        splits; cbn [cur_ok]; splits; eauto; try (destruct P; lia); try lia.
    + (* a plain def is already bound: it is wrapped into a fresh function p, the marked one becomes a mixin of p *)
      cb H g2 p E2. destruct (P_fresh _ _ _ _ _ _ P1 E2) as (P2 & -> & L2 & F2 & O2).
      pose proof (Inv_cd_fresh _ _ _ _ _ I1 E2) as I2.
      assert (length g0 <= length g1) as Lp by (destruct P1; lia).
      cb H g3 u3 E3. injection H as <- <-.
      destruct (P_add_mixins _ _ _ _ _ _ _ _ P2 Lp F2 E3) as (P3 & L3 & F3 & O3).
      pose proof (Inv_cd_add_mixins _ _ _ _ _ I2 E3) as I3.
      splits; cbn [cur_ok]; splits; eauto; try (destruct P; lia); try lia.
    + destruct C as (Ln & own & ms & F).
      assert (IsFn g1 n own ms) as F' .
      { eapply IsFn_frame; [exact F | apply O1]. destruct F as (x & Ex & _). eapply g_get_lt; eauto. }
      cb H g2 u E2. injection H as <- <-.
      destruct (P_add_mixins _ _ _ _ _ _ _ _ P1 Ln F' E2) as (P2 & L2 & F2 & O2).
      pose proof (Inv_cd_add_mixins _ _ _ _ _ I1 E2) as I2.
      splits; cbn [cur_ok]; splits; eauto; try (destruct P; lia); try lia.
Qed.

Lemma body_CS : forall g0 bases body g cur g' cur', CS g0 g cur -> cd_body g bases cur body = COk g' cur' -> CS g0 g' cur'.
Proof.
  intros g0 bases. induction body as [|d r IH]; intros g cur g' cur' C H; cbn [cd_body] in H.
  - injection H as <- <-. auto.
  - cb H g1 c1 E1. eapply IH; [|exact H]. eapply setitem_CS; eauto.
Qed.

Lemma name_CS : forall g bases body g' a, Inv g -> cd_name g bases body = COk g' a -> CS g g' a.
Proof.
  intros g bases body g' a I H. unfold cd_name in H. cb H g1 c0 E1.
  eapply body_CS; [|exact H]. eapply prepare_CS; eauto. apply Pre_refl.
Qed.

Lemma Pre_obs : forall g0 g k, Inv g0 -> Pre g0 g -> k < length g0 -> obs g k = obs g0 k.
Proof.
  intros g0 g k I [L P] Lk. unfold obs. rewrite (P k Lk). destruct (g_get g0 k) eqn:E; auto.
  destruct (n_compiled n); auto.
  destruct (inv_defns g0 k I Lk) as [t D]. rewrite D.
  eapply defns_mono_gen; [| exact L | exact D].
  intros m x Em. exists x. split; auto. rewrite P; auto. eapply g_get_lt; eauto.
Qed.

Lemma no_leak : forall g bases body g' a, Inv g -> cd_name g bases body = COk g' a ->
  forall k, k < length g -> g_get g' k = g_get g k /\ obs g' k = obs g k.
Proof.
  intros g bases body g' a I H k Lk. destruct (name_CS _ _ _ _ _ I H) as (P & _ & _).
  split; [apply P; auto | apply Pre_obs; auto].
Qed.

(* plain classes (no metaclass) *)
Lemma pd_setitem_CS : forall g0 g cur d g' cur', CS g0 g cur -> pd_setitem g cur d = COk g' cur' -> CS g0 g' cur'.
Proof.
  intros g0 g cur d g' cur' (P & I & C) H. unfold pd_setitem in H. destruct (d_kind d).
  - injection H as <- <-. splits; cbn; auto.
  - destruct cur as [|s0 l0|n f]; [| discriminate |].
    + cb H g1 p E1. injection H as <- <-. destruct (P_fresh _ _ _ _ _ _ P E1) as (P1 & -> & L1 & F1 & O1).
      pose proof (Inv_cd_fresh _ _ _ _ _ I E1) as I1. splits; cbn [cur_ok]; splits; eauto; try (destruct P; lia); try lia.
    + destruct C as (Ln & own & ms & F). cb H g1 u E1. injection H as <- <-.
      destruct (P_register _ _ _ _ _ _ _ _ _ P Ln F E1) as (P1 & L1 & (own' & R1 & F1) & O1).
      pose proof (Inv_cd_register _ _ _ _ _ _ I E1) as I1. splits; cbn [cur_ok]; splits; eauto; try (destruct P; lia); try lia.
  - cb H g1 nN E1. injection H as <- <-. destruct (P_fresh _ _ _ _ _ _ P E1) as (P1 & -> & L1 & F1 & O1).
    pose proof (Inv_cd_fresh _ _ _ _ _ I E1) as I1. splits; cbn [cur_ok]; splits; eauto; try (destruct P; lia); try lia.
Qed.

Lemma no_leak_plain : forall g body g' a, Inv g -> pd_name g body = COk g' a ->
  forall k, k < length g -> g_get g' k = g_get g k /\ obs g' k = obs g k.
Proof.
  intros g body g' a I H k Lk. unfold pd_name in H.
  assert (forall body g1 cur, CS g g1 cur -> pd_body g1 cur body = COk g' a -> CS g g' a) as X.
  { induction body0 as [|d r IH]; intros g1 cur C Hb; cbn [pd_body] in Hb.
    - injection Hb as <- <-. auto.
    - cb Hb g2 c2 E. eapply IH; [|exact Hb]. eapply pd_setitem_CS; eauto. }
  destruct (X body g ANone) as (P & _ & _); auto.
  - splits; cbn; auto. apply Pre_refl.
  - split; [apply P; auto | apply Pre_obs; auto].
Qed.
