"""Regenerate MANIFEST.json from the per-property registry below (kept valid at all times)."""
import json, os
from . import VERIF

def collect_claims():
    """Each claimed property's module vlib/props/cnn.py carries CLAIM = dict(text=, note=, technique=, design=)."""
    import glob, importlib
    out = {}
    for f in sorted(glob.glob(os.path.join(VERIF, "vlib", "props", "c[0-9]*.py"))):
        pid = os.path.basename(f)[:-3].upper()
        mod = importlib.import_module(f"vlib.props.{pid.lower()}")
        hold = json.load(open(os.path.join(VERIF, "hold.json"))) if os.path.exists(os.path.join(VERIF, "hold.json")) else {}
        if getattr(mod, "CLAIM", None) and pid not in hold:
            out[pid] = mod.CLAIM
    return out


def main():
    CLAIMS = collect_claims()
    props = [json.loads(l) for l in open(os.path.join(VERIF, "properties.jsonl"))]
    checks = []
    for p in props:
        pid = p["id"]
        if pid in CLAIMS:
            c = CLAIMS[pid]
            checks.append({
                "property_id": pid,
                "quick_cmd": f"./check {pid} --tier quick",
                "thorough_cmd": f"./check {pid} --tier thorough",
                "evidence_file": f"/verif/evidence/{pid}.json",
                "replay_cmd_template": f"./check {pid} --replay {{path}}",
                "engine": "coq-model",
                "level_claimed": {"category": "proof", "text": c["text"], "design_ref": "DESIGN.md section " + c["design"]},
                "level_note": c["note"],
                "technique": c["technique"],
            })
    na_reasons = json.load(open(os.path.join(VERIF, "not_applicable.json"))) if os.path.exists(os.path.join(VERIF, "not_applicable.json")) else {}
    if os.path.exists(os.path.join(VERIF, "hold.json")):
        na_reasons.update(json.load(open(os.path.join(VERIF, "hold.json"))))
    na = [{"property_id": p["id"], "reason": na_reasons.get(p["id"], "not claimed yet: machinery under construction in this round (see DESIGN.md section 10)")}
          for p in props if p["id"] not in CLAIMS]
    m = {
        "version": 1,
        "setup_cmd": "./setup.sh",
        "hooks": {"guard": "OVLD_VERIF", "enable": "OVLD_VERIF=1 in the environment of the implementation process (set by ./check)",
                  "baseline_off_cmd": "cd /repo && env -u OVLD_VERIF /venv/bin/python -m pytest -ra -q -p no:cacheprovider --timeout=900 --continue-on-collection-errors",
                  "source_commits": ["32c6aa9229a4cb4e2a667735494285b977a47086"], "add_only": True},
        "engines": [{"name": "coq-model", "path": "/verif/coq", "serves_properties": sorted(CLAIMS),
                     "kind_free_text": "Coq 8.16 development: executable Gallina model (Model/), specs (Spec/), proofs (Proofs/), property theorems (Props/), extracted to OCaml (ocaml/driver.ml) and driven by the Python harness vlib/ against /repo/src"}],
        "checks": checks,
        "notes": "Every check: regenerate Gen/*.v from /repo, make, compile Props/<id>.v (Print Assumptions), correspondence implementation vs extracted model, property oracles on the implementation, known-finding witnesses (findings/KF-*.json, one file per finding; known_findings.json is the generated one-file index).",
        "not_applicable": na,
    }
    json.dump(m, open(os.path.join(VERIF, "MANIFEST.json"), "w"), indent=1)
    print("MANIFEST: claimed", sorted(CLAIMS), "unclaimed", len(na))


if __name__ == "__main__":
    main()
