"""Run a dispatch program in this (fresh) interpreter and print the outcomes as JSON.
Used for hash-seed / process-to-process determinism: python -m vlib.subrun < program.json"""
import sys, json


def main():
    prog = json.load(sys.stdin)
    from vlib import progs
    from vlib.world import world_from
    from vlib.props import resolve_common as R
    # address perturbation: allocate a seed-dependent number of throw-away classes first
    import os
    junk = [type(f"J{i}", (), {}) for i in range(int(os.environ.get("VERIF_JUNK", "0")))]
    w = world_from(prog["spec"], prog.get("preds", []))
    b = progs.Built(w, prog["defs"], hook=prog.get("hook", False))
    out = []
    for call in prog["calls"]:
        pos = [w.instance(c) for c in call["pos"]]
        kw = {f"k{k}": w.instance(c) for k, c in call["kw"].items()}
        o, entered = b.call(pos, kw)
        out.append(R.normalise(o, prog["defs"], call))
    print(json.dumps(out))


if __name__ == "__main__":
    main()
