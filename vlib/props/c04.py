"""C04 — caching is invisible: a call's outcome never depends on earlier calls."""
import json, collections
from .. import model, progs, tablelevel
from ..world import world_from, World
from . import resolve_common as R

CLAIM = dict(
    text="Coq theorem on the MultiTypeMap state machine (Model/Cache.v: the dict with continuation entries keyed by caller code, self.errors, self.all; getitem = hit or __missing__ incl. the leading-code-object path and resolve()'s write loop): for every method list and every finite sequence of dictionary accesses (plain and continuation keys, any order, repeats, failing and ambiguous ones), interleaved with registrations of further handlers (distinct code objects), each access returns exactly what a brand-new table over the handlers registered so far returns (C04_history_free), by an invariant stating that every stored entry, remembered error and candidate set is the one a fresh resolution produces and that a stored first-rank entry comes with all its continuation entries. Tie to /repo: (a) random access histories on a real MultiTypeMap vs the extracted state machine, step by step; (b) random call histories on a long-lived @ovld function whose methods delegate with call_next, each call compared (result and sequence of bodies entered) with the same call on a freshly built function (the property oracle) and with the model's chain; (c) functions with value-dependent methods that take an optional positional and an optional keyword-only parameter, called in all four shapes in random order, each call against a function built for that call only (the per-rank dispatchers generated per shape are outside the table model: property oracle alone).",
    note="Trusted: as C02. The state machine treats resolve() as atomic (interruption inside it is C18/C19's subject) and models the static view of ranks; per-position TypeMap caches are not modelled separately (their content is a function of the registered types, which do not change in C04's histories).",
    technique="Coq proof (cache invariant by induction over the access sequence) + differential correspondence on histories", design="6 C04")

THEOREMS = ["C04_history_free", "C04_access_step", "C04_leaf_missing", "C04_getitem_follows_chain", "C04_history_free_partial", "C04_invariant_reachable"]
ASSUMPTIONS = ["resolve() runs to completion (no interrupt between its writes)"]


def gen_history_program(rng):
    prog = R.gen_program(rng, allow_kw=False)
    # some methods delegate
    for d in prog["defs"]:
        if rng.random() < 0.5:
            d["body"] = "next"
    calls = prog["calls"]
    hist = [rng.choice(calls) for _ in range(rng.randint(8, 30))] if calls else []
    if calls and rng.random() < 0.5:
        # most-derived argument classes first: whatever their resolution leaves behind (per-position tables, candidate
        # sets, remembered errors) is in place when the calls with their base classes follow
        w = World(prog["spec"])
        distinct = []
        for c in calls:
            if c not in distinct:
                distinct.append(c)
        distinct.sort(key=lambda c: -sum(len(w.classes[x].__mro__) for x in c["pos"]))
        hist = distinct + hist[: max(0, len(hist) - len(distinct))]
    prog["history"] = hist
    return prog


def model_chain(w, mms, defs, call):
    """predicted (final outcome, bodies entered) of one outer call, from the model's lookup / lookup_next"""
    byid = {d["id"]: d for d in defs}
    key = R.call_key(call)
    qs = [[0, key]] + [[1, d["id"], key] for d in defs]
    res = model.run_cases([[10, w.encode(), mms, qs]])[0]
    first = progs.dec_outcome(res[0])
    nxt = {d["id"]: progs.dec_outcome(r) for d, r in zip(defs, res[1:])}
    entered = []
    cur = first
    for _ in range(len(defs) + 2):
        if cur[0] != "run":
            return cur, entered
        mid = cur[1]
        entered.append(mid)
        d = byid[mid]
        delegates = d.get("body") == "next" and d["npos_req"] == len(d["pos"]) and all(r for (_, _, r) in d.get("kw", []))
        if not delegates:
            return cur, entered
        cur = nxt[mid]
    return ["loop"], entered


def check_function_history(ctx, prog, stats):
    w = world_from(prog["spec"])
    defs = prog["defs"]
    long_lived = progs.Built(w, defs)
    mms = R.model_defs(defs)
    memo = {}
    for step, call in enumerate(prog["history"]):
        pos = [w.instance(c) for c in call["pos"]]
        got = long_lived.call(pos)
        got = (R.normalise(got[0], defs, call), got[1])
        fresh = progs.Built(world_from(prog["spec"]), defs)
        wf = fresh.w
        exp = fresh.call([wf.instance(c) for c in call["pos"]])
        exp = (R.normalise(exp[0], defs, call), exp[1])
        stats["evaluations"] += 1
        stats["hist"][got[0][0]] += 1
        case = {"spec": prog["spec"], "defs": defs, "history": prog["history"][: step + 1]}
        if got != exp:
            ctx.violation(f"call #{step} gives {got} on the long-lived function but {exp} on a freshly built one", case)
            return
        k = json.dumps(call)
        if k not in memo:
            memo[k] = model_chain(w, mms, defs, call)
        mo = memo[k]
        if (mo[0], mo[1]) != (got[0], got[1]) and not (mo[0][0] == "run" and got[0][0] == "run" and mo[1] == got[1]):
            ctx.violation(f"call #{step}: implementation {got} != model chain {mo}", case, kind="correspondence")
            return
        stats["nontrivial"].add(hash(json.dumps([prog["spec"], defs, prog["history"][: step + 1]])) if step > 0 else 0)


def check_table_history(ctx, prog, stats):
    """random dictionary accesses (plain and continuation keys) on a real MultiTypeMap vs the state machine"""
    rng = ctx.rng
    w = world_from(prog["spec"])
    defs = prog["defs"]
    t = tablelevel.Table(w)
    mms = R.model_defs(defs)
    ties = {m[0]: m[6] for m in mms}
    order = [m[0] for m in mms]
    byid = {d["id"]: d for d in defs}
    for mid in order:
        t.register(byid[mid], ties[mid])
    ops = []
    got = []
    for _ in range(rng.randint(6, 25)):
        call = rng.choice(prog["calls"])
        caller = rng.choice([None, None] + order)
        ops.append([0, -1 if caller is None else caller, R.call_key(call)])
        got.append(t.get(caller, call["pos"], call["kw"]))
    # directed tail: for a few calls the plain access (which may fail: no method, ambiguity) followed by the continuation
    # access from each of a few callers, twice -- a failed combination must answer the second time as it did the first
    for call in rng.sample(prog["calls"], min(3, len(prog["calls"]))):
        for caller in [None] + rng.sample(order, min(3, len(order))):
            for _rep in range(1 if caller is None else 2):
                ops.append([0, -1 if caller is None else caller, R.call_key(call)])
                got.append(t.get(caller, call["pos"], call["kw"]))
    res = model.run_cases([[14, w.encode(), mms, ops]])[0]
    for i, (g, r) in enumerate(zip(got, res)):
        stats["evaluations"] += 1
        stats["table_hist"][g[0]] += 1
        m = progs.dec_outcome(r[0])
        if g != m:
            ctx.violation(f"table access #{i}: implementation {g} != state machine {m}",
                          {"spec": prog["spec"], "defs": defs, "ops": ops[: i + 1]}, kind="correspondence")
            break               # the tie is broken: the property is still asked of the implementation below
    # property oracle at table level: every access equals the same access on a fresh table
    for i, op in enumerate(ops):
        ft = tablelevel.Table(world_from(prog["spec"]))
        for mid in order:
            ft.register(byid[mid], ties[mid])
        key = op[2]
        exp = ft.get(None if op[1] < 0 else op[1], [x[1] for x in key[0]], {str(k): tt[1] for k, tt in key[1]})
        if exp != got[i]:
            ctx.violation(f"table access #{i} gives {got[i]} after the history but {exp} on a fresh table",
                          {"spec": prog["spec"], "defs": defs, "ops": ops[: i + 1]})
            return
    stats["table_histories"] += 1


def gen_dep_shapes_program(rng):
    """value-dependent methods with an optional positional and an optional keyword-only parameter, so that one function
    is called in several shapes -- (v), (v, x), (v, k0=..), (v, x, k0=..) -- selecting the same methods: per-rank
    dispatchers are generated per call shape and type combination"""
    from . import dep_common as D
    from ..world import enc_val
    pool = rng.choice([[1, 2, 3, 7], ["a", "ab", "b", "zz"]])
    cls = D.INT if isinstance(pool[0], int) else D.STR
    utab = {"10": [enc_val(v) for v in pool if rng.random() < 0.5]}
    k = rng.randint(1, 5)
    defs = []
    for i in range(k):
        r = rng.random()
        t = [8, [0, cls], enc_val(pool[i % len(pool)])] if r < 0.7 else [9, 10, [0, cls]]
        optpos = rng.random() < 0.7
        optkw = rng.random() < 0.7
        defs.append({"id": i, "pos": [t] + ([[0, 0]] if optpos else []), "npos_req": 1, "kw": [[0, [0, 0], False]] if optkw else [], "prio": 0,
                     "body": rng.choice(["ret", "ret", "next"])})
    defs.append({"id": 20, "pos": [[0, rng.choice([0, cls])], [0, 0]], "npos_req": 1, "kw": [[0, [0, 0], False]], "prio": 0, "body": "ret"})
    if rng.random() < 0.5:
        defs.append({"id": 21, "pos": [[0, 0], [0, 0]], "npos_req": 1, "kw": [[0, [0, 0], False]], "prio": -1, "body": "ret"})
    calls = []
    for _ in range(rng.randint(8, 20)):
        v = rng.choice(pool + [rng.choice([5, "q"])])
        shape = rng.randrange(4)
        c = {"vals": [enc_val(v)] + ([enc_val(rng.choice([1, "x"]))] if shape & 1 else [])}
        if shape & 2:
            c["kwvals"] = {"0": enc_val(rng.choice([1, "y"]))}
        calls.append(c)
    return {"spec": [], "defs": defs, "utab": utab, "calls": calls, "dep_shapes": True}


def check_dep_shapes_history(ctx, prog, stats):
    """property oracle alone: every call of the history on the long-lived function = the same call on a function built
    for that call only"""
    from . import dep_common as D
    from ..world import dec_val
    w = world_from(prog["spec"])
    long_lived = progs.Built(w, prog["defs"], utab=prog["utab"])
    for n, call in enumerate(prog["calls"]):
        vs = [dec_val(e, w) for e in call["vals"]]
        kw = {f"k{k}": dec_val(e, w) for k, e in call.get("kwvals", {}).items()}
        got = long_lived.call(vs, kw)
        fresh = progs.Built(world_from(prog["spec"]), prog["defs"], utab=prog["utab"])
        exp = fresh.call(vs, kw)
        stats["evaluations"] += 1
        stats["dep_shape_calls"] += 1
        if got != exp:
            ctx.violation(f"call #{n} of the history gives {got} on the long-lived function and {exp} on a freshly built one",
                          dict(prog, calls=prog["calls"][: n + 1]))
            return


def run(ctx):
    stats = {"evaluations": 0, "nontrivial": set(), "hist": collections.Counter(), "table_hist": collections.Counter(),
             "table_histories": 0, "function_histories": 0, "normalizer_repeats": 0, "dep_shape_calls": 0}
    samples = []
    check_normalizer_history(ctx, stats)
    n = 40 if ctx.quick() else 1500
    for _ in range(n):
        prog = gen_history_program(ctx.rng)
        if not prog["calls"]:
            continue
        check_function_history(ctx, prog, stats)
        stats["function_histories"] += 1
        check_table_history(ctx, prog, stats)
        check_dep_shapes_history(ctx, gen_dep_shapes_program(ctx.rng), stats)
        if len(samples) < 2:
            samples.append({"defs": prog["defs"], "history": prog["history"][:6]})
        if len(ctx.violations) > 5:
            break
    return {"evaluations": stats["evaluations"], "distinct_nontrivial": len(stats["nontrivial"]),
            "rule": "random programs (as C02, no keywords) with half of the methods delegating through call_next; histories of 8-30 calls with repetitions incl. failing and ambiguous calls on one long-lived function, each compared with a freshly built function; plus 6-25 random accesses (plain and continuation keys) per program on a real MultiTypeMap; a history prefix is non-trivial from its second call on",
            "samples": samples, "calls_in_several_shapes_on_value_dependent_functions_vs_fresh": stats["dep_shape_calls"], "function_histories": stats["function_histories"], "table_histories": stats["table_histories"],
            "call_outcomes": dict(stats["hist"]), "table_outcomes": dict(stats["table_hist"]),
            "traces_validated_against_impl": stats["evaluations"]}


def check_normalizer_history(ctx, stats):
    """the table of generic-type handlers (types.py TypeNormalizer) is a TypeMap too: asking it twice about a generic type it
    does not know must give the same answer both times -- also through a Callable-annotated method, whose check
    normalises the annotations of the callback it receives.  Property oracle alone (outside the modelled tables)."""
    import collections.abc as cabc, typing
    import ovld as _ov
    from ovld.types import normalize_type

    def outcome(thunk):
        try:
            return ["value", repr(thunk())[:60]]
        except Exception as e:  # noqa
            return [type(e).__name__, str(e)[:60]]
    for t in (cabc.Iterable[int], cabc.Iterator[str], typing.Awaitable[int]):
        a = outcome(lambda: normalize_type(t, None))
        b = outcome(lambda: normalize_type(t, None))
        stats["evaluations"] += 2
        stats["normalizer_repeats"] += 1
        if a != b:
            ctx.violation(f"normalize_type({t}) answers {a} the first time and {b} the second", {"normalizer": repr(t)})
            return
    f = _ov.Ovld(name="f")

    def m(cb: typing.Callable[[int], int]):
        return "callable"

    def o(cb: object):
        return "other"
    f.register(m)
    f.register(o)

    def callback(xs: cabc.Iterable[int]) -> int:
        return 0
    first = outcome(lambda: f(callback))
    second = outcome(lambda: f(callback))
    stats["evaluations"] += 2
    if first != second:
        ctx.violation(f"a Callable-annotated method called twice with the same callback answers {first}, then {second}", {"normalizer": "callable-callback"})


def replay(ctx, payload):
    if payload["case"].get("dep_shapes"):
        st = {"evaluations": 0, "dep_shape_calls": 0}
        before = len(ctx.violations)
        check_dep_shapes_history(ctx, payload["case"], st)
        return len(ctx.violations) > before
    case = payload["case"]
    w = world_from(case["spec"])
    if "history" in case:
        ll = progs.Built(w, case["defs"])
        last = None
        for call in case["history"]:
            last = ll.call([w.instance(c) for c in call["pos"]])
        fr = progs.Built(world_from(case["spec"]), case["defs"])
        call = case["history"][-1]
        exp = fr.call([fr.w.instance(c) for c in call["pos"]])
        print(json.dumps({"long_lived": last, "fresh": exp}))
        return last != exp
    return True


def replay_finding(ctx, e):
    return False
