(* GraphBase.v — basic lemmas about graphs, defns, and the traversals of Model/Graph.v *)
From Coq Require Import ZArith List Bool Arith Lia.
Import ListNotations.
From OvldV Require Import Model.Graph Proofs.GraphTab.

(* ---------- g_get / g_mod ---------- *)
Lemma length_g_mod : forall g n f, length (g_mod g n f) = length g.
Proof. induction g; destruct n; cbn; auto. Qed.

Lemma g_get_mod : forall g n f m,
  g_get (g_mod g n f) m = if Nat.eqb m n then option_map f (g_get g n) else g_get g m.
Proof.
  unfold g_get. induction g; intros.
  - cbn. destruct (Nat.eqb m n); destruct n; destruct m; reflexivity.
  - destruct n; destruct m; cbn; auto.
Qed.

Lemma g_get_mod_same : forall g n f x, g_get g n = Some x -> g_get (g_mod g n f) n = Some (f x).
Proof. intros. rewrite g_get_mod, Nat.eqb_refl, H. reflexivity. Qed.

Lemma g_get_mod_other : forall g n f m, m <> n -> g_get (g_mod g n f) m = g_get g m.
Proof. intros. rewrite g_get_mod. apply Nat.eqb_neq in H. rewrite H. reflexivity. Qed.

Lemma g_get_lt : forall g n x, g_get g n = Some x -> n < length g.
Proof. unfold g_get. intros. apply nth_error_Some. congruence. Qed.

Lemma g_get_some : forall g n, n < length g -> exists x, g_get g n = Some x.
Proof. unfold g_get. intros. destruct (nth_error g n) eqn:E; eauto. apply nth_error_None in E. lia. Qed.

Lemma g_get_app_l : forall g e n, n < length g -> g_get (g ++ e) n = g_get g n.
Proof. unfold g_get. intros. apply nth_error_app1. auto. Qed.

Lemma g_get_app_new : forall g x, g_get (g ++ [x]) (length g) = Some x.
Proof. unfold g_get. intros. rewrite nth_error_app2 by lia. rewrite Nat.sub_diag. reflexivity. Qed.

(* ---------- what each traversal reads ---------- *)
Definition dm (x : node) := (n_own x, n_mixins x).
Definition sk (x : node) := (n_mixins x, n_children x).

(* g' agrees with g on [proj] wherever g is defined *)
Definition agree {A} (proj : node -> A) (g g' : graph) : Prop :=
  forall n x, g_get g n = Some x -> exists y, g_get g' n = Some y /\ proj x = proj y.

Definition same {A} (proj : node -> A) (g g' : graph) : Prop :=
  forall n, option_map proj (g_get g n) = option_map proj (g_get g' n).

Lemma same_agree : forall A (p : node -> A) g g', same p g g' -> agree p g g'.
Proof.
  intros A p g g' H n x E. specialize (H n). rewrite E in H. cbn in H.
  destruct (g_get g' n); [|discriminate]. cbn in H. injection H as H. eauto.
Qed.

Lemma same_sym : forall A (p : node -> A) g g', same p g g' -> same p g' g.
Proof. intros A p g g' H n. symmetry. apply H. Qed.

Lemma same_trans : forall A (p : node -> A) g1 g2 g3, same p g1 g2 -> same p g2 g3 -> same p g1 g3.
Proof. intros A p g1 g2 g3 H1 H2 n. rewrite H1. apply H2. Qed.

Lemma same_refl : forall A (p : node -> A) g, same p g g.
Proof. intros A p g n. reflexivity. Qed.

Lemma same_mod : forall A (p : node -> A) g n f, (forall x, p (f x) = p x) -> same p g (g_mod g n f).
Proof.
  intros A p g n f H m. rewrite g_get_mod. destruct (Nat.eqb m n) eqn:E; auto.
  apply Nat.eqb_eq in E. subst. destruct (g_get g n); cbn; auto. rewrite H. reflexivity.
Qed.

(* ---------- fold_left helpers ---------- *)
Lemma fold_left_ext_in : forall A B (f1 f2 : A -> B -> A) l a,
  (forall a b, In b l -> f1 a b = f2 a b) -> fold_left f1 l a = fold_left f2 l a.
Proof.
  induction l; cbn; intros; auto. rewrite H by auto. apply IHl. intros. apply H. auto.
Qed.

Definition dstep (rec : nat -> option table) (acc : option table) (m : nat) : option table :=
  match acc, rec m with Some a, Some t => Some (t_update a t) | _, _ => None end.

Lemma defns_body_eq : forall rec x,
  defns_body rec x = match fold_left (dstep rec) (n_mixins x) (Some []) with
                     | Some a => Some (t_update a (n_own x)) | None => None end.
Proof. reflexivity. Qed.

Lemma dfold_none : forall rec l, fold_left (dstep rec) l None = None.
Proof. induction l; cbn; auto. Qed.

Lemma dstep_some : forall r a0 m,
  dstep r (Some a0) m = match r m with Some t => Some (t_update a0 t) | None => None end.
Proof. reflexivity. Qed.

Lemma dfold_mono : forall (r1 r2 : nat -> option table) l acc t,
  (forall m t, In m l -> r1 m = Some t -> r2 m = Some t) ->
  fold_left (dstep r1) l acc = Some t -> fold_left (dstep r2) l acc = Some t.
Proof.
  induction l; cbn [fold_left]; intros; auto.
  destruct acc as [a0|]; [|cbn in H0; rewrite dfold_none in H0; discriminate].
  rewrite dstep_some in *. destruct (r1 a) eqn:E; [|rewrite dfold_none in H0; discriminate].
  rewrite (H a t0) by (cbn; auto). eapply IHl; eauto. intros. apply H; cbn; auto.
Qed.

Lemma dfold_some : forall (r : nat -> option table) l acc,
  (forall m, In m l -> exists t, r m = Some t) -> exists t, fold_left (dstep r) l (Some acc) = Some t.
Proof.
  induction l; cbn [fold_left]; intros; eauto.
  destruct (H a) as [t E]; [cbn; auto|]. rewrite dstep_some, E. apply IHl. intros. apply H. cbn; auto.
Qed.

Lemma defns_S : forall f g n,
  defns (S f) g n = match g_get g n with None => None | Some x => defns_body (defns f g) x end.
Proof. reflexivity. Qed.

(* ---------- defns: monotone in the fuel, and only reads own tables and mixins ---------- *)
Lemma defns_mono_gen : forall g g', agree dm g g' ->
  forall f f' n t, f <= f' -> defns f g n = Some t -> defns f' g' n = Some t.
Proof.
  intros g g' A. induction f; intros f' n t L H; [discriminate|].
  destruct f'; [lia|]. rewrite defns_S in *.
  destruct (g_get g n) eqn:E; [|discriminate]. destruct (A _ _ E) as [y [Ey D]]. rewrite Ey.
  unfold dm in D. injection D as Do Dm.
  rewrite defns_body_eq in *. rewrite <- Do, <- Dm.
  destruct (fold_left (dstep (defns f g)) (n_mixins n0) (Some [])) eqn:F; [|discriminate].
  rewrite (dfold_mono (defns f g) (defns f' g') _ _ t0); auto.
  intros. apply IHf; auto. lia.
Qed.

Lemma agree_refl : forall A (p : node -> A) g, agree p g g.
Proof. intros A p g n x E. eauto. Qed.

Lemma defns_mono : forall g f f' n t, f <= f' -> defns f g n = Some t -> defns f' g n = Some t.
Proof. intros. eapply defns_mono_gen; eauto. apply agree_refl. Qed.

Lemma defns_same : forall g g', same dm g g' -> forall f n, defns f g n = defns f g' n.
Proof.
  intros g g' S f n.
  destruct (defns f g n) eqn:E.
  - symmetry. eapply defns_mono_gen; eauto. apply same_agree. auto.
  - destruct (defns f g' n) eqn:E'; auto.
    eapply defns_mono_gen in E'; [| apply same_agree; apply same_sym; eauto | apply Nat.le_refl]. congruence.
Qed.

(* the effective table of n changes only if the own table / mixins of n or of something n derives from change *)
Lemma defns_local : forall g g' a,
  (forall m, m <> a -> option_map dm (g_get g m) = option_map dm (g_get g' m)) ->
  forall f n, anc_b f g a n = false -> defns f g n = defns f g' n.
Proof.
  intros g g' a H. induction f; intros n An; [reflexivity|].
  cbn [anc_b] in An. apply orb_false_iff in An. destruct An as [Ne An]. apply Nat.eqb_neq in Ne.
  rewrite !defns_S. pose proof (H n (not_eq_sym Ne)) as Hn.
  destruct (g_get g n) eqn:E; destruct (g_get g' n) eqn:E'; cbn in Hn; try discriminate; auto.
  injection Hn as Ho Hm. rewrite !defns_body_eq. rewrite <- Ho, <- Hm.
  rewrite (fold_left_ext_in _ _ (dstep (defns f g)) (dstep (defns f g'))); auto.
  intros acc m Im. unfold dstep. rewrite IHf; auto.
  destruct (existsb (anc_b f g a) (n_mixins n0)) eqn:X; [discriminate|].
  destruct (anc_b f g a m) eqn:Y; auto.
  assert (existsb (anc_b f g a) (n_mixins n0) = true) by (apply existsb_exists; eauto). congruence.
Qed.

(* ---------- termination checks ---------- *)
Lemma mterm_S : forall f g n,
  mterm (S f) g n = match g_get g n with None => false | Some x => forallb (mterm f g) (n_mixins x) end.
Proof. reflexivity. Qed.
Lemma cterm_S : forall f g n,
  cterm (S f) g n = match g_get g n with None => false | Some x => forallb (cterm f g) (n_children x) end.
Proof. reflexivity. Qed.

Lemma mterm_defns : forall g f n, mterm f g n = true -> exists t, defns f g n = Some t.
Proof.
  induction f; intros n H; [discriminate|]. rewrite mterm_S in H. rewrite defns_S.
  destruct (g_get g n) eqn:E; [|discriminate]. rewrite defns_body_eq.
  destruct (dfold_some (defns f g) (n_mixins n0) []) as [t Ht].
  - intros m Im. apply IHf. rewrite forallb_forall in H. auto.
  - match goal with |- context [fold_left ?a ?b ?c] => replace (fold_left a b c) with (Some t) by (symmetry; exact Ht) end.
    eauto.
Qed.

Lemma mterm_mono_gen : forall g g', agree n_mixins g g' ->
  forall f f' n, f <= f' -> mterm f g n = true -> mterm f' g' n = true.
Proof.
  intros g g' A. induction f; intros f' n L H; [discriminate|].
  destruct f'; [lia|]. rewrite mterm_S in *. destruct (g_get g n) eqn:E; [|discriminate].
  destruct (A _ _ E) as [y [Ey D]]. rewrite Ey, <- D.
  rewrite forallb_forall in *. intros. apply IHf; auto. lia.
Qed.

Lemma mterm_lt : forall g f n, mterm f g n = true -> n < length g.
Proof. intros. destruct f; [discriminate|]. rewrite mterm_S in H. destruct (g_get g n) eqn:E; [|discriminate]. eapply g_get_lt; eauto. Qed.

Lemma same_proj : forall A B (p : node -> A) (q : A -> B) g g', same p g g' -> same (fun x => q (p x)) g g'.
Proof.
  intros A B p q g g' H n. specialize (H n). destruct (g_get g n), (g_get g' n); cbn in *; try discriminate; auto.
  injection H as ->. reflexivity.
Qed.

Lemma mterm_same : forall g g', same sk g g' -> forall f n, mterm f g n = mterm f g' n.
Proof.
  intros g g' S f n.
  assert (same n_mixins g g') as Sm by (apply (same_proj _ _ sk fst); auto).
  destruct (mterm f g n) eqn:E.
  - symmetry. eapply mterm_mono_gen; eauto. apply same_agree. auto.
  - destruct (mterm f g' n) eqn:E'; auto.
    eapply mterm_mono_gen in E'; [| apply same_agree; apply same_sym; eauto | apply Nat.le_refl]. congruence.
Qed.

Lemma cterm_mono_gen : forall g g', agree n_children g g' ->
  forall f f' n, f <= f' -> cterm f g n = true -> cterm f' g' n = true.
Proof.
  intros g g' A. induction f; intros f' n L H; [discriminate|].
  destruct f'; [lia|]. rewrite cterm_S in *. destruct (g_get g n) eqn:E; [|discriminate].
  destruct (A _ _ E) as [y [Ey D]]. rewrite Ey, <- D.
  rewrite forallb_forall in *. intros. apply IHf; auto. lia.
Qed.

Lemma cterm_same : forall g g', same sk g g' -> forall f n, cterm f g n = cterm f g' n.
Proof.
  intros g g' S f n.
  assert (same n_children g g') as Sm by (apply (same_proj _ _ sk snd); auto).
  destruct (cterm f g n) eqn:E.
  - symmetry. eapply cterm_mono_gen; eauto. apply same_agree. auto.
  - destruct (cterm f g' n) eqn:E'; auto.
    eapply cterm_mono_gen in E'; [| apply same_agree; apply same_sym; eauto | apply Nat.le_refl]. congruence.
Qed.

Lemma same_length : forall A (p : node -> A) g g', same p g g' -> length g = length g'.
Proof.
  intros A p g g' H.
  destruct (Nat.lt_trichotomy (length g) (length g')) as [L|[L|L]]; auto.
  - specialize (H (length g)). unfold g_get in H. destruct (nth_error g (length g)) eqn:E.
    + apply nth_error_Some in L || idtac. assert (nth_error g (length g) <> None) by congruence. apply nth_error_Some in H0. lia.
    + destruct (nth_error g' (length g)) eqn:E'; [discriminate|]. apply nth_error_None in E'. lia.
  - specialize (H (length g')). unfold g_get in H. destruct (nth_error g' (length g')) eqn:E.
    + assert (nth_error g' (length g') <> None) by congruence. apply nth_error_Some in H0. lia.
    + destruct (nth_error g (length g')) eqn:E'; [discriminate|]. apply nth_error_None in E'. lia.
Qed.

Lemma wf_b_same : forall g g', same sk g g' -> wf_b g' = wf_b g.
Proof.
  intros. unfold wf_b. rewrite <- (same_length _ _ _ _ H).
  apply forallb_ext || idtac.
  induction (seq 0 (length g)); cbn; auto. rewrite IHl, (mterm_same _ _ H), (cterm_same _ _ H). reflexivity.
Qed.

Lemma wf_b_spec : forall g, wf_b g = true <->
  forall n, n < length g -> mterm (length g) g n = true /\ cterm (length g) g n = true.
Proof.
  intros. unfold wf_b. rewrite forallb_forall. split; intros.
  - specialize (H n). rewrite andb_true_iff in H. apply H. apply in_seq. lia.
  - apply in_seq in H0. apply andb_true_iff. apply H. lia.
Qed.

(* ---------- the boolean reachabilities are sound for the relations used in the theorem statements ---------- *)
(* Anc g a n: a is n or a function n derives from *)
Inductive Anc (g : graph) (a : nat) : nat -> Prop :=
| anc_refl : Anc g a a
| anc_step : forall n x m, g_get g n = Some x -> In m (n_mixins x) -> Anc g a m -> Anc g a n.

(* Lb g a n: n is a or derives from a through linkback derivations only (the edges recorded in [children]) *)
Inductive Lb (g : graph) : nat -> nat -> Prop :=
| lb_refl : forall a, Lb g a a
| lb_step : forall a x c n, g_get g a = Some x -> In c (n_children x) -> Lb g c n -> Lb g a n.

Lemma anc_b_sound : forall g a f n, anc_b f g a n = true -> Anc g a n.
Proof.
  induction f; cbn; intros n H.
  - rewrite orb_false_r in H. apply Nat.eqb_eq in H. subst. constructor.
  - apply orb_true_iff in H. destruct H as [H|H]; [apply Nat.eqb_eq in H; subst; constructor|].
    destruct (g_get g n) eqn:E; [|discriminate]. apply existsb_exists in H. destruct H as [m [Im Hm]].
    eapply anc_step; eauto.
Qed.

Lemma anc_b_complete : forall g a f n, mterm f g n = true -> Anc g a n -> anc_b f g a n = true.
Proof.
  induction f; intros n T H; [discriminate|].
  cbn [anc_b]. destruct H; [rewrite Nat.eqb_refl; reflexivity|].
  rewrite mterm_S in T. rewrite H in *. apply orb_true_iff. right. apply existsb_exists. exists m. split; auto.
  apply IHf; auto. rewrite forallb_forall in T. auto.
Qed.

Lemma lb_b_sound : forall g f a n, lb_b f g a n = true -> Lb g a n.
Proof.
  induction f; cbn; intros a n H.
  - rewrite orb_false_r in H. apply Nat.eqb_eq in H. subst. constructor.
  - apply orb_true_iff in H. destruct H as [H|H]; [apply Nat.eqb_eq in H; subst; constructor|].
    destruct (g_get g a) eqn:E; [|discriminate]. apply existsb_exists in H. destruct H as [c [Ic Hc]].
    eapply lb_step; eauto.
Qed.

Lemma lb_b_complete : forall g f a n, cterm f g a = true -> Lb g a n -> lb_b f g a n = true.
Proof.
  induction f; intros a n T H; [discriminate|].
  cbn [lb_b]. destruct H; [rewrite Nat.eqb_refl; reflexivity|].
  rewrite cterm_S in T. rewrite H in *. apply orb_true_iff. right. apply existsb_exists. exists c. split; auto.
  apply IHf; auto. rewrite forallb_forall in T. auto.
Qed.
