"""C02 — static resolution follows the documented priority-then-specificity rule."""
import json, collections
from . import resolve_common as R

CLAIM = dict(
    text="Coq theorems relating the executable model of MultiTypeMap resolution (Model/Resolve.v: level tables by Kahn layering of the applicable registered types, arity/keyword filter, stable sort by (priority, sum of levels, tiebreak), _pull, first-rank outcome) to the documented rule (Spec/Dispatch.v: applicable, beats, spec_outcome) for every class DAG, every method list and every key: 'No method' exactly when no method is applicable (C02_no_method); a method the rule names as winner is returned (C02_winner_complete); the method returned is applicable and beaten by none (C02_winner_maximal). Where the call's classes fall under pairwise comparable registered types at every position (chain_applicable; every call under single inheritance) the outcome IS the rule's verdict, Ambiguous included (C02_exact_on_chains, C02_single_inheritance_exact, for tiebreaks as any sequence of registrations leaves them: C02_ties_registered). Outside that domain the only remaining difference -- rule says Ambiguous, implementation returns an unbeaten method -- is real (C02_exact_refuted, KF-01: layer-index levels order unrelated classes) and is classified by chain_applicable. Key lemma: Kahn rounds are strictly monotone along the subclass order (Proofs/ResolveLevels.v). Tie to /repo: every generated program is run through the real Ovld (public call and resolve(), bodies record entry) and through the extracted model; outcomes must agree exactly, and every deviation from the rule must be of the KF-01 shape, outside chain_applicable, and predicted by the model.",
    note="Trusted: Coq kernel, extraction, driver, hand model (validated by the correspondence), issubclass table of the generated classes, the harness's guarded hook fixing set-iteration order to registration order (OVLD_VERIF). Reading adopted: a Python binding TypeError raised by the generated entry point for a call shape no method accepts counts as the 'no applicable method' error. Tiebreaks come from the registration model (defs_register). The side condition that the level computation does not fail is itself proved for the static fragment (C02_static_total: no fuel exhaustion, no graphlib cycle).",
    technique="Coq proof (Kahn-layer monotonicity, sort/_pull lemmas, spec vs model) + differential correspondence on generated programs", design="6 C02")

THEOREMS = ["C02_static_total", "C02_no_internal_error", "C02_winner_complete_unconditional", "C02_winner_maximal_unconditional", "C02_no_method_unconditional", "C02_leaf_dominates", "C02_leaf_sort_key", "C02_leaf_arity", "C02_leaf_group", "C02_leaf_edge", "C02_leaf_level", "C02_no_method", "C02_winner_complete", "C02_winner_maximal", "C02_exact_on_chains", "C02_single_inheritance_exact", "C02_ties_registered", "C02_exact_registered", "C02_exact_refuted"]
ASSUMPTIONS = ["generated worlds satisfy the theorems' hypotheses (issubclass reflexive/antisymmetric): checked per world",
               "call shapes mixing keywords with omitted optional positionals are left to C03 (entry point)"]


def check_program(ctx, prog, stats, samples):
    res, w, b = R.eval_program(prog)
    po = w.is_partial_order()
    for call, r in zip(prog["calls"], res):
        stats["evaluations"] += 1
        case = {"spec": prog["spec"], "defs": prog["defs"], "calls": [call]}
        key = json.dumps([prog["spec"], prog["defs"], call])
        if len(prog["defs"]) > 1:
            stats["nontrivial"].add(hash(key))
        stats["impl_hist"][r["impl"][0]] += 1
        if r["impl"] != r["model"]:
            ctx.violation(f"call outcome: implementation {r['impl']} != model {r['model']}", case, kind="correspondence")
            # the tie is broken for this call: ask the rule directly whether the implementation's outcome is also wrong
            # (no attribution to KF-01 here: that needs the model's agreement)
            # (KF-01's class is the set of inputs on which the MODEL of the unchanged code leaves the rule; an input on which
            # the model follows the rule and the implementation does not is a new failure whatever its shape)
            if r["impl"] != r["spec_py"] and (r["model"] == r["spec_py"] or not (r["spec_py"] == ["ambig"] and r["impl"][0] == "run" and not r["chain"])):
                ctx.violation(f"implementation {r['impl']} deviates from the documented rule {r['spec_py']}", case)
            continue
        if "resolve" in r and r["resolve"] != r["impl"]:
            ctx.violation(f"resolve() names {r['resolve']} but the call gives {r['impl']}", case)
        if r["impl"][0] == "run" and r["entered"] != [r["impl"][1]]:
            ctx.violation(f"bodies entered {r['entered']} for outcome {r['impl']}", case)
        if r["impl"][0] != "run" and r["entered"]:
            ctx.violation(f"a method body ran although the call raised {r['impl']}", case)
        if r["static"] and po and r["spec_py"] != r["spec_coq"]:
            ctx.violation(f"harness reading of the rule {r['spec_py']} != Coq spec {r['spec_coq']}", case, kind="spec")
        stats["chain"] += int(r["chain"])
        if r["impl"] != r["spec_py"]:
            if r["spec_py"] == ["ambig"] and r["impl"][0] == "run" and not r["chain"]:
                ctx.known_hit("KF-01", case)
                stats["kf01"] += 1
            else:
                ctx.violation(f"implementation {r['impl']} deviates from the documented rule {r['spec_py']}"
                              + (" on a chain-applicable call" if r["chain"] else ""), case)
    if len(samples) < 3 and res:
        samples.append({"defs": prog["defs"], "call": prog["calls"][0], "outcome": res[0]})


SMALL_WORLDS = [
    # A; B(A); C; D(B, C)   -- two unrelated registered ancestors, one with a further registered superclass
    [{"kind": "plain", "bases": [], "meths": []}, {"kind": "plain", "bases": [0], "meths": []}, {"kind": "plain", "bases": [], "meths": []}, {"kind": "plain", "bases": [1, 2], "meths": []}],
    # diamond A; B(A); C(A); D(B, C); E(D)
    [{"kind": "plain", "bases": [], "meths": []}, {"kind": "plain", "bases": [0], "meths": []}, {"kind": "plain", "bases": [0], "meths": []}, {"kind": "plain", "bases": [1, 2], "meths": []}, {"kind": "plain", "bases": [3], "meths": []}],
    # A; B; C(A, B); D(C); an ABC X with C registered
    [{"kind": "plain", "bases": [], "meths": []}, {"kind": "plain", "bases": [], "meths": []}, {"kind": "plain", "bases": [0, 1], "meths": []}, {"kind": "plain", "bases": [2], "meths": []}, {"kind": "abc", "bases": [], "meths": [], "registers": [2]}],
]


def exhaustive_small(ctx, stats, samples):
    """every set of 2-3 one-argument methods over every class of three small multiple-inheritance hierarchies x every
    instantiable argument class (complete enumeration), plus a sample of two-argument pairs"""
    import itertools
    from ..world import World
    for spec in SMALL_WORLDS:
        w = World(spec)
        classes = [0] + w.user_ids()
        inst = [c for c in classes if w.instantiable(c)]
        for k in (2, 3):
            for combo in itertools.combinations(classes, k):
                defs = [{"id": i, "pos": [[0, c]], "npos_req": 1, "kw": [], "prio": 0} for i, c in enumerate(combo)]
                prog = {"spec": spec, "defs": defs, "calls": [{"pos": [c], "kw": {}} for c in inst]}
                check_program(ctx, prog, stats, samples)
                stats["exhaustive_programs"] += 1
        pairs = list(itertools.product(classes, repeat=2))
        for _ in range(25):
            ms = ctx.rng.sample(pairs, 3)
            defs = [{"id": i, "pos": [[0, a], [0, b]], "npos_req": 2, "kw": [], "prio": 0} for i, (a, b) in enumerate(ms)]
            calls = [{"pos": [ctx.rng.choice(inst), ctx.rng.choice(inst)], "kw": {}} for _ in range(6)]
            check_program(ctx, {"spec": spec, "defs": defs, "calls": calls}, stats, samples)


def run(ctx):
    stats = {"exhaustive_programs": 0, "evaluations": 0, "nontrivial": set(), "impl_hist": collections.Counter(), "chain": 0, "kf01": 0, "programs": 0}
    samples = []
    n = 120 if ctx.quick() else 6000
    exhaustive_small(ctx, stats, samples)
    for _ in range(n):
        prog = R.gen_program(ctx.rng)
        stats["programs"] += 1
        check_program(ctx, prog, stats, samples)
        if len(ctx.violations) > 10:
            break
    return {"evaluations": stats["evaluations"], "distinct_nontrivial": len(stats["nontrivial"]),
            "rule": "random class worlds (plain/ABC/protocol, multiple inheritance) x 1-7 methods over 1-3 positions with differing arities, optional positionals, keyword-only typed parameters, priorities -1..1 and re-registered identical signatures x ~12 calls; a case (world, methods, call) is non-trivial when more than one method is registered; distinct by content",
            "samples": samples, "programs": stats["programs"], "small_scope_programs_enumerated_completely": stats["exhaustive_programs"], "outcome_histogram": dict(stats["impl_hist"]),
            "calls_chain_applicable": stats["chain"], "deviations_attributed_to_KF-01": stats["kf01"],
            "traces_validated_against_impl": stats["evaluations"]}


def replay(ctx, payload):
    prog = payload["case"]
    res, w, b = R.eval_program(prog)
    print(json.dumps(res))
    return any(r["impl"] != r["model"] or r["impl"] != r["spec_py"] for r in res)


def replay_finding(ctx, e):
    res, w, b = R.eval_program(e["witness"])
    r = res[0]
    return r["impl"] == e["witness"]["expect_impl"] and r["spec_py"] == e["witness"]["expect_spec"]
