(* RewriteRel.v — what "behaves exactly like its original source" means in the model (C09), written from the
   property text: same value or exception, same effect trace, same final state modulo temporaries.

   Values are compared up to the code carried by lambdas: a closure of the original run corresponds to the closure
   over the same frames whose body is the rewriting of the original body ([vrel]); everything user code can observe
   ([shape]) is equal.  States are compared frame by frame on every name that is not a temporary ([srel]). *)
From Coq Require Import ZArith List Bool Arith.
Import ListNotations.
From OvldV Require Import Model.Rewrite.

(* names assigned by := in an expression, in the scope of the expression itself (lambda bodies are other scopes) *)
Fixpoint asg (x : name) (e : expr) {struct e} : bool :=
  match e with
  | EConst _ | EName _ => false
  | EAttr e1 _ => asg x e1
  | EBin _ a b => asg x a || asg x b
  | EBool _ es => asg_list x es
  | EIf c a b => asg x c || asg x a || asg x b
  | ECall f ar kw => asg x f || asg_args x ar || asg_kws x kw
  | ENamed y e1 => name_eqb x y || asg x e1
  | ELam _ _ => false
  | EComp elt _ it conds => asg x elt || asg x it || asg_list x conds
  | EFstr parts => asg_list x parts
  | EEffect _ e1 => asg x e1
  | ETuple es => asg_list x es
  | ESub a i => asg x a || asg x i
  end
with asg_list (x : name) (es : exprs) {struct es} : bool :=
  match es with ENil => false | ECons e r => asg x e || asg_list x r end
with asg_args (x : name) (a : args) {struct a} : bool :=
  match a with ANil => false | ACons _ e r => asg x e || asg_args x r end
with asg_kws (x : name) (a : kws) {struct a} : bool :=
  match a with KNil => false | KCons _ e r => asg x e || asg_kws x r end.

(* every occurrence of a name: loads, := targets, lambda parameters, comprehension variables *)
Fixpoint mentions (x : name) (e : expr) {struct e} : bool :=
  match e with
  | EConst _ => false
  | EName y => name_eqb x y
  | EAttr e1 _ => mentions x e1
  | EBin _ a b => mentions x a || mentions x b
  | EBool _ es => mentions_list x es
  | EIf c a b => mentions x c || mentions x a || mentions x b
  | ECall f ar kw => mentions x f || mentions_args x ar || mentions_kws x kw
  | ENamed y e1 => name_eqb x y || mentions x e1
  | ELam ps b => mem_name x ps || mentions x b
  | EComp elt y it conds => name_eqb x y || mentions x elt || mentions x it || mentions_list x conds
  | EFstr parts => mentions_list x parts
  | EEffect _ e1 => mentions x e1
  | ETuple es => mentions_list x es
  | ESub a i => mentions x a || mentions x i
  end
with mentions_list (x : name) (es : exprs) {struct es} : bool :=
  match es with ENil => false | ECons e r => mentions x e || mentions_list x r end
with mentions_args (x : name) (a : args) {struct a} : bool :=
  match a with ANil => false | ACons _ e r => mentions x e || mentions_args x r end
with mentions_kws (x : name) (a : kws) {struct a} : bool :=
  match a with KNil => false | KCons _ e r => mentions x e || mentions_kws x r end.

(* the := targets of an expression that are temporaries, in evaluation-independent (syntactic) order, every scope *)
Fixpoint tmp_targets (e : expr) {struct e} : list name :=
  match e with
  | EConst _ | EName _ => []
  | EAttr e1 _ => tmp_targets e1
  | EBin _ a b => tmp_targets a ++ tmp_targets b
  | EBool _ es => tmp_targets_list es
  | EIf c a b => tmp_targets c ++ tmp_targets a ++ tmp_targets b
  | ECall f ar kw => tmp_targets f ++ tmp_targets_args ar ++ tmp_targets_kws kw
  | ENamed y e1 => (if is_tmp y then [y] else []) ++ tmp_targets e1
  | ELam _ b => tmp_targets b
  | EComp elt _ it conds => tmp_targets elt ++ tmp_targets it ++ tmp_targets_list conds
  | EFstr parts => tmp_targets_list parts
  | EEffect _ e1 => tmp_targets e1
  | ETuple es => tmp_targets_list es
  | ESub a i => tmp_targets a ++ tmp_targets i
  end
with tmp_targets_list (es : exprs) {struct es} : list name :=
  match es with ENil => [] | ECons e r => tmp_targets e ++ tmp_targets_list r end
with tmp_targets_args (a : args) {struct a} : list name :=
  match a with ANil => [] | ACons _ e r => tmp_targets e ++ tmp_targets_args r end
with tmp_targets_kws (a : kws) {struct a} : list name :=
  match a with KNil => [] | KCons _ e r => tmp_targets e ++ tmp_targets_kws r end.

Definition tmp_index (x : name) : option nat := match x with NTmp n _ => Some n | _ => None end.

Section Rel.
  Variable W : Type.
  Variable p : rwp.

  (* names whose meaning the rewritten code relies on *)
  Definition special (x : name) : bool :=
    match x with
    | NUser i => is_sym (p_rs p) i || is_sym (p_cs p) i || is_alias p x
    | NTmp _ _ => false
    | _ => true
    end.

  Inductive vrel : val -> val -> Prop :=
  | vr_int : forall z, vrel (VInt z) (VInt z)
  | vr_str : forall s, vrel (VStr s) (VStr s)
  | vr_none : vrel VNone VNone
  | vr_bool : forall b, vrel (VBool b) (VBool b)
  | vr_ty : forall t, vrel (VTy t) (VTy t)
  | vr_data : forall d, vrel (VData d) (VData d)
  | vr_seq : forall k l l', Forall2 vrel l l' -> vrel (VSeq k l) (VSeq k l')
  | vr_clos : forall ps b fr k, dom p b = true -> forallb (binder_ok p) ps = true ->
                                vrel (VClos ps b fr) (VClos ps (fst (rw p k b)) fr)
  | vr_prim : forall q, vrel (VPrim q) (VPrim q)
  | vr_rec : a_method (p_anal p) = false -> vrel (VPrim PRecurse) (VPrim (POvld (p_id p))).   (* the bare name recurse in a function *)

  Definition orel (a b : option val) : Prop :=
    match a, b with None, None => True | Some v, Some v' => vrel v v' | _, _ => False end.
  Definition vars_rel (l l' : list (name * val)) : Prop := forall x, is_tmp x = false -> orel (lookup x l) (lookup x l').
  Definition vars_clean (l : list (name * val)) : Prop := forall x, special x = true -> lookup x l = None.
  Definition no_tmps (l : list (name * val)) : Prop := forall n k, lookup (NTmp n k) l = None.

  Definition frame_rel (f f' : frame) : Prop :=
    f_comp f = f_comp f' /\ vars_rel (f_vars f) (f_vars f') /\ vars_clean (f_vars f) /\ vars_clean (f_vars f') /\
    (f_comp f' = true -> no_tmps (f_vars f')).

  (* equal modulo temporaries (and closure code): the second state is the rewritten run's *)
  Definition srel (s s' : state W) : Prop :=
    Forall2 frame_rel (s_frames W s) (s_frames W s') /\
    vars_rel (s_gvars W s) (s_gvars W s') /\ vars_clean (s_gvars W s) /\ vars_clean (s_gvars W s') /\
    s_trace W s = s_trace W s' /\ s_world W s = s_world W s'.

  (* the frame that := writes to is determined by frames that exist *)
  Fixpoint tgt_fixed (s : state W) (rho : list nat) : Prop :=
    match rho with
    | [] => True
    | f :: r => match nth_error (s_frames W s) f with
                | Some fr => if f_comp fr then tgt_fixed s r else True
                | None => False
                end
    end.

  Definition out_rel {A B} (R : A -> B -> Prop) (a : outcome A) (b : outcome B) : Prop :=
    match a, b with Val x, Val y => R x y | Raise x, Raise y => x = y | _, _ => False end.

  (* outcomes of the two runs: both out of fuel, or related results in related states *)
  Definition rsim {A B} (R : A -> B -> Prop) (m : option (outcome A * state W)) (m' : option (outcome B * state W)) : Prop :=
    match m, m' with
    | None, None => True
    | Some (r, s1), Some (r', s1') => out_rel R r r' /\ srel s1 s1'
    | _, _ => False
    end.

  Definition kw_rel (a b : list (nat * val)) : Prop := Forall2 (fun x y => fst x = fst y /\ vrel (snd x) (snd y)) a b.

  (* a state with no lambda in it is related to itself *)
  Fixpoint fo (v : val) : bool :=
    match v with
    | VSeq _ l => forallb fo l
    | VClos _ _ _ => false
    | VPrim _ => true
    | _ => true
    end.
End Rel.

(* plain data: no lambda and no callable anywhere in the value *)
Fixpoint data (v : val) : bool :=
  match v with VSeq _ l => forallb data l | VClos _ _ _ | VPrim _ => false | _ => true end.

(* a state the two runs can share: no lambda stored anywhere, none of the names the rewritten code relies on is
   rebound, and no comprehension frame holds a temporary *)
Section Start.
  Variable W : Type.
  Variable p : rwp.
  Definition vars_ok (comp : bool) (l : list (name * val)) : bool :=
    forallb (fun xv => fo (snd xv) && negb (special p (fst xv)) && negb (comp && is_tmp (fst xv))) l.
  Definition start_ok (s : state W) : bool :=
    forallb (fun fr => vars_ok (f_comp fr) (f_vars fr)) (s_frames W s) && vars_ok false (s_gvars W s).

  (* the closure-call evaluator one unit of fuel below [n] *)
  Definition below typeof tbl callv binop getattr getitem truthy fmt ugl mself reg (n : nat) : evalT W :=
    match n with
    | 0 => fun _ _ _ => None
    | S m => eval W p typeof tbl callv binop getattr getitem truthy fmt ugl mself reg m
    end.
End Start.

(* a name of another function's dispatch data: ___OVLD<j> / ___MAP<j> with j not the id the rewriting is for,
   ___CODE<c> with c not this rewriting's code number *)
Definition foreign (p : rwp) (x : name) : bool :=
  match x with
  | NOvld j | NMap j => negb (Nat.eqb j (p_id p))
  | NCode c => negb (Nat.eqb c (p_code p))
  | _ => false
  end.
