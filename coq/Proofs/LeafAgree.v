(* LeafAgree.v -- re-exports the agreement lemmas (kept for compatibility; property files import the group they need). *)
From OvldV Require Export Proofs.LeafOrder Proofs.LeafCand Proofs.LeafMissing.
