(* C07 — call_next walks down the resolution order one method at a time.
   Theorems only.  Model: Model/Resolve.v lookup_next = MultiTypeMap[(caller_code, *types)] on an empty cache (the
   continuation entries resolve() writes, read back by __missing__'s leading-code-object path). *)
From Coq Require Import ZArith List Bool Arith.
Import ListNotations.
From OvldV Require Import Model.Order Model.Ty Model.Codec Model.Resolve Spec.Dispatch Proofs.ResolveNext Proofs.ResolveChain Proofs.ResolveSub.

(* FULL STATEMENT: call_next(args) from method c invokes what resolution would choose had c and everything ranked above it
   not been registered.
   PROVED, for every hierarchy, method list, key and all declared types (static ranks): when c is met walking down
   single-handler ranks, the outcome is the first rank of what lies below (C07_next_is_below) and that equals the
   resolution of the candidate list -- with the specificity tuples it has for this call -- minus c and everything
   ranked above it (C07_next_is_lookup_without_above): the stable sort commutes with the removal and _pull restarts
   with nothing processed.  Removing the methods themselves (not only the candidates) changes the specificity tuples; on chain_applicable
   calls that does not matter (C07_next_is_reduced_function below), elsewhere it does (KF-01); and ranks containing value-dependent methods (KF-08, KF-12: Props/C10.v). *)
Theorem C07_next_is_below : forall sub hasm chk fresh ms k cs caller rest,
  candidates sub hasm chk fresh ms k = Ok cs -> below (sort_desc cs) caller = Some rest ->
  lookup_next sub hasm chk fresh ms caller k = lookup_sorted rest.
Proof. exact next_is_below. Qed.
Print Assumptions C07_next_is_below.

Theorem C07_next_is_lookup_without_above : forall sub hasm chk fresh ms k cs caller rest,
  candidates sub hasm chk fresh ms k = Ok cs -> NoDup (map cid cs) -> below (sort_desc cs) caller = Some rest ->
  exists above, In caller above /\
    lookup_next sub hasm chk fresh ms caller k = lookup_cs (filter (fun c => negb (memb (cid c) above)) cs).
Proof. exact next_is_lookup_without_above. Qed.
Print Assumptions C07_next_is_lookup_without_above.

(* THE FULL STATEMENT on calls whose classes fall under pairwise comparable registered types at every position
   (chain_applicable: every call under single inheritance), for methods without re-registered signatures (all
   tiebreaks 0): call_next from c returns what the documented rule chooses for the function holding only the methods
   that remain when c and everything ranked above it are removed -- the method, 'No method', or the ambiguity.
   (The specificity tuples kept from the original call order the remaining candidates as the remaining methods' own
   tuples would: on chains level comparisons are class comparisons.) *)
Definition Refl (sub : nat -> nat -> bool) := forall c, sub c c = true.
Definition Antisym (sub : nat -> nat -> bool) := forall c d, sub c d = true -> sub d c = true -> c = d.

Theorem C07_next_is_reduced_function : forall sub hasm chk fresh, Refl sub -> Antisym sub ->
  forall ms k cs caller rest,
  NoDup (map m_id ms) -> static_ms ms = true -> static_key k = true ->
  chain_applicable sub ms k = true -> ties_zero ms = true ->
  candidates sub hasm chk fresh ms k = Ok cs -> below (sort_desc cs) caller = Some rest ->
  exists above, In caller above /\
    verdict_of (lookup_next sub hasm chk fresh ms caller k)
    = Some (spec_outcome sub (filter (fun m => negb (memb (m_id m) above)) ms) k).
Proof. exact next_is_reduced_function. Qed.
Print Assumptions C07_next_is_reduced_function.

(* the whole walk: when every candidate of the call dominates all the candidates sorted after it (no tie anywhere),
   the call runs the first candidate, call_next from the i-th runs the (i+1)-th, and from the last one it reports
   'No method' -- each applicable method is visited at most once, in non-increasing rank *)
Theorem C07_walk_in_sorted_order : forall sub hasm chk fresh ms k cs,
  candidates sub hasm chk fresh ms k = Ok cs -> NoDup (map cid cs) -> total_chain (sort_desc cs) ->
  lookup sub hasm chk fresh ms k = match sort_desc cs with [] => ONoMethod | c1 :: _ => ORun (cid c1) end /\
  forall pre c suf, sort_desc cs = pre ++ c :: suf ->
    lookup_next sub hasm chk fresh ms (cid c) k = match suf with [] => ONoMethod | c2 :: _ => ORun (cid c2) end.
Proof. exact walk_in_sorted_order. Qed.
Print Assumptions C07_walk_in_sorted_order.

(* when the current method is not applicable to args, call_next behaves like a fresh call *)
Theorem C07_foreign_caller : forall sub hasm chk fresh ms k cs caller,
  candidates sub hasm chk fresh ms k = Ok cs -> (forall c, In c cs -> cid c <> caller) ->
  lookup_next sub hasm chk fresh ms caller k = lookup sub hasm chk fresh ms k.
Proof. exact next_foreign_caller. Qed.
Print Assumptions C07_foreign_caller.

(* non-vacuity: a three-rank chain A' < A < object; call_next from the first reaches the second, from the last: No method *)
Definition wh : hier := {| h_supers := [[0]; [0; 1]; [0; 1; 2]]; h_meths := []; h_preds := []; h_fresh := [0] |}.
Definition wms : list meth := [ mkMeth 0 [Cls 0] [] 1 [] 0 0; mkMeth 1 [Cls 1] [] 1 [] 0 0; mkMeth 2 [Cls 2] [] 1 [] 0 0 ].
Example C07_chain :
  let ln := lookup_next (hsub wh) (hhasm wh) (hchk wh) (hfresh wh) wms in
  lookup (hsub wh) (hhasm wh) (hchk wh) (hfresh wh) wms (mkKey [Cls 2] []) = ORun 2 /\
  ln 2 (mkKey [Cls 2] []) = ORun 1 /\ ln 1 (mkKey [Cls 2] []) = ORun 0 /\ ln 0 (mkKey [Cls 2] []) = ONoMethod /\
  ln 2 (mkKey [Cls 1] []) = ORun 1.
Proof. vm_compute. repeat split; reflexivity. Qed.

(* non-vacuity of C07_walk_in_sorted_order: the three-rank chain above is a total chain *)
Example C07_walk_nonvacuous :
  exists cs, candidates (hsub wh) (hhasm wh) (hchk wh) (hfresh wh) wms (mkKey [Cls 2] []) = Ok cs /\
             length cs = 3 /\ total_chain (sort_desc cs).
Proof.
  eexists. split; [vm_compute; reflexivity|]. split; [reflexivity|]. apply total_chainb_spec. vm_compute. reflexivity.
Qed.
