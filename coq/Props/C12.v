(* C12 — the specificity order on types is mirror-symmetric and matches subclassing.
   Theorems only; every proof is [exact <lemma>]; Print Assumptions under each.
   Model: Model/Ty.v (tord = typeorder with fuel; [Some r] = answered).  Domain predicate: Model/TyDom.v (msym). *)
From Coq Require Import ZArith List Bool Arith.
Import ListNotations.
From OvldV Require Import Model.Order Model.Ty Model.TyDom Model.Codec Proofs.TyEq Proofs.TyMono Proofs.TyOrder Gen.Leaf Proofs.LeafOrder Proofs.TyTotal Proofs.TyAgree.

Definition Antisym (sub : nat -> nat -> bool) := forall c d, sub c d = true -> sub d c = true -> c = d.
Definition Trans (sub : nat -> nat -> bool) := forall a b c, sub a b = true -> sub b c = true -> sub a c = true.

(* second tie to the source: Order.opposite and Order.merge as regenerated from /repo's current text (Gen/Leaf.v) are the
   functions the model uses *)
Theorem C12_leaf_opposite : forall o, opposite_src o = opposite o.
Proof. exact opposite_agree. Qed.
Print Assumptions C12_leaf_opposite.

Theorem C12_leaf_merge : forall l, merge_src l = merge l.
Proof. exact merge_agree. Qed.
Print Assumptions C12_leaf_merge.

(* ... and the final issubclass fallback of typeorder (two classes, no hooks, no generic aliases) is the expression of
   the model's tord_body: SAME when each is a subclass of the other, LESS / MORE by the one-directional test, else NONE *)
Theorem C12_leaf_tail : forall s12 s21,
  cls_tail_src s12 s21 = (if s12 && s21 then SAME else if s12 then LESS else if s21 then MORE else NONE).
Proof. exact cls_tail_agree. Qed.
Print Assumptions C12_leaf_tail.

(* typeorder is total on the modelled closure: the fuel it is given always suffices (so the "= Some r" hypotheses below
   are never vacuous) *)
Theorem C12_total : forall sub hasm chk fresh t1 t2, typeorder sub hasm chk fresh t1 t2 <> None.
Proof. exact typeorder_total. Qed.
Print Assumptions C12_total.

(* every type is the same as itself *)
Theorem C12_refl : forall sub hasm chk fresh n t, tord sub hasm chk fresh (S n) t t = Some SAME.
Proof. exact tord_refl. Qed.
Print Assumptions C12_refl.

(* FULL STATEMENT (false of the faithful model, see C12_mirror_refuted_...):
     forall t1 t2, typeorder t2 t1 = opposite (typeorder t1 t2).
   PROVED: the same for every pair in the domain [msym] -- no comparison is reached in which both operands'
   order hooks answer, other than dependent-vs-dependent and tuple-vs-tuple -- for types of any nesting depth. *)
Theorem C12_mirror_partial : forall sub hasm chk fresh, Antisym sub ->
  forall n t1 t2 r1 r2, msym t1 t2 = true ->
    tord sub hasm chk fresh n t1 t2 = Some r1 -> tord sub hasm chk fresh n t2 t1 = Some r2 -> r2 = opposite r1.
Proof. exact tord_mirror. Qed.
Print Assumptions C12_mirror_partial.

(* answers do not depend on the fuel once given *)
Theorem C12_fuel_irrelevant : forall sub hasm chk fresh n m t1 t2 r1 r2,
  tord sub hasm chk fresh n t1 t2 = Some r1 -> tord sub hasm chk fresh m t1 t2 = Some r2 -> r1 = r2.
Proof. exact tord_det. Qed.
Print Assumptions C12_fuel_irrelevant.

(* on plain classes the order coincides with subclassing ... *)
Theorem C12_classes : forall sub hasm chk fresh n c d,
  tord sub hasm chk fresh (S n) (Cls c) (Cls d) = Some (cls_order sub c d).
Proof. exact tord_cls. Qed.
Print Assumptions C12_classes.

Theorem C12_classes_less : forall sub, Antisym sub ->
  forall c d, cls_order sub c d = LESS <-> (sub c d = true /\ c <> d).
Proof. exact cls_order_less. Qed.
Print Assumptions C12_classes_less.

Theorem C12_classes_mirror : forall sub c d, cls_order sub d c = opposite (cls_order sub c d).
Proof. exact cls_order_opp. Qed.
Print Assumptions C12_classes_mirror.

(* ... hence is transitive *)
Theorem C12_classes_trans : forall sub, Antisym sub -> Trans sub ->
  forall a b c, cls_order sub a b = LESS -> cls_order sub b c = LESS -> cls_order sub a c = LESS.
Proof. exact cls_order_trans. Qed.
Print Assumptions C12_classes_trans.

(* at the public entry points (fuel chosen by the model) the order and the subtype test agree on classes:
   strictly more specific = proper subclass; a class not under another is never more specific than it *)
Definition Refl (sub : nat -> nat -> bool) := forall c, sub c c = true.
Theorem C12_less_is_proper_subclass : forall sub hasm chk fresh, Refl sub -> Antisym sub -> forall c d,
  typeorder sub hasm chk fresh (Cls c) (Cls d) = Some LESS <->
  (subclasscheck sub hasm chk fresh (Cls c) (Cls d) = Some true /\ c <> d).
Proof. exact typeorder_less_is_proper_subclass. Qed.
Print Assumptions C12_less_is_proper_subclass.

Theorem C12_not_less_when_not_subclass : forall sub hasm chk fresh, Refl sub -> Antisym sub -> forall c d,
  subclasscheck sub hasm chk fresh (Cls c) (Cls d) = Some false -> typeorder sub hasm chk fresh (Cls c) (Cls d) <> Some LESS.
Proof. exact typeorder_not_less_when_not_subclass. Qed.
Print Assumptions C12_not_less_when_not_subclass.

(* a parametrised generic is more specific than its origin and compares argument-wise *)
Theorem C12_generic_origin : forall sub hasm chk fresh n o a,
  tord sub hasm chk fresh (S (S n)) (Gen o a) (Cls o) = Some LESS.
Proof. exact tord_gen_origin. Qed.
Print Assumptions C12_generic_origin.

Theorem C12_generic_args : forall sub hasm chk fresh n o a1 a2,
  a1 <> [] -> length a1 = length a2 -> ty_eqb (Gen o a1) (Gen o a2) = false ->
  tord sub hasm chk fresh (S (S n)) (Gen o a1) (Gen o a2) = omap merge (omapM2 (tord sub hasm chk fresh (S n)) a1 a2).
Proof. exact tord_gen_args. Qed.
Print Assumptions C12_generic_args.

(* a union is more general than each member, an intersection more specific *)
Theorem C12_union_member : forall sub hasm chk fresh n ts t r,
  In t ts -> ty_eqb (Uni ts) t = false -> tord sub hasm chk fresh (S (S n)) (Uni ts) t = Some r -> r = MORE.
Proof. exact tord_union_member. Qed.
Print Assumptions C12_union_member.

Theorem C12_inter_member : forall sub hasm chk fresh n ts t r,
  In t ts -> ty_eqb (Int ts) t = false -> tord sub hasm chk fresh (S (S n)) (Int ts) t = Some r -> r = LESS.
Proof. exact tord_inter_member. Qed.
Print Assumptions C12_inter_member.

(* every value-dependent type -- Literal, Dependent, StartsWith..., the Sequence / Collection / Mapping element checks and,
   since the repair of KF-24, tuple[...] -- is more specific than its bound *)
Theorem C12_dep_bound : forall sub hasm chk fresh n t r,
  is_dep t = true -> is_dep (dep_bound t) = false ->
  tord sub hasm chk fresh (S (S n)) t (dep_bound t) = Some r -> r = LESS.
Proof. exact tord_dep_bound. Qed.
Print Assumptions C12_dep_bound.

(* ---- witnesses: the full mirror statement is false of the faithful model ---- *)
(* classes: 0 object, 1 A, 2 B, 3 C (unrelated), 4 tuple *)
Definition wh : hier := {| h_supers := [[0]; [0; 1]; [0; 2]; [0; 3]; [0; 4]]; h_meths := []; h_preds := []; h_fresh := [0] |}.

(* KF-06: Union[A,B] vs Union[B,C] is LESS in both directions *)
Theorem C12_mirror_refuted_union :
  exists t1 t2, typeorder_h wh t1 t2 = Some LESS /\ typeorder_h wh t2 t1 = Some LESS.
Proof. exists (Uni [Cls 1; Cls 2]), (Uni [Cls 2; Cls 3]). vm_compute. split; reflexivity. Qed.
Print Assumptions C12_mirror_refuted_union.

(* KF-06: Intersection[A,B] vs Intersection[B,C] is MORE in both directions *)
Theorem C12_mirror_refuted_inter :
  exists t1 t2, typeorder_h wh t1 t2 = Some MORE /\ typeorder_h wh t2 t1 = Some MORE.
Proof. exists (Int [Cls 1; Cls 2]), (Int [Cls 2; Cls 3]). vm_compute. split; reflexivity. Qed.
Print Assumptions C12_mirror_refuted_inter.

(* (KF-07, two objects spelling Exactly[A] being unequal, and KF-24, tuple[...] unrelated to tuple, were repaired in
   /repo; their witnesses are replayed by the check and must pass.) *)

(* ---- non-vacuity: inputs that satisfy the hypotheses of the partial theorems ---- *)
Example C12_mirror_domain_inhabited :
  msym (Uni [Cls 1; Gen 4 [Cls 2]]) (Gen 4 [Lit [VInt 1] (Cls 3)]) = true /\
  typeorder_h wh (Uni [Cls 1; Gen 4 [Cls 2]]) (Gen 4 [Lit [VInt 1] (Cls 3)]) = Some NONE /\
  msym (Lit [VInt 1] (Cls 1)) (Fn 0 [None] (Cls 1)) = true /\
  typeorder_h wh (Uni [Cls 1; Cls 2]) (Cls 1) = Some MORE /\
  typeorder_h wh (Cls 1) (Uni [Cls 1; Cls 2]) = Some LESS.
Proof. vm_compute. repeat split; reflexivity. Qed.

(* ---- leaf tie for the __type_order__ hooks: the decisions of Union / Intersection / DependentType.__type_order__ as
   regenerated from /repo's current source on every run (Gen/Leaf.v), with the calls they make put back in, ARE the
   hooks of the type-order model ---- *)
From OvldV Require Import Proofs.LeafDep.

Theorem C12_leaf_union_hook : forall tord subck ts o,
  hook_order tord subck (Uni ts) o =
    omap (fun rs => Some (union_order_src (filter (fun r => negb (order_eqb r NONE)) rs))) (omapM (fun x => tord x o) ts).
Proof. exact union_hook_decides. Qed.
Print Assumptions C12_leaf_union_hook.

Theorem C12_leaf_inter_hook : forall tord subck ts o,
  hook_order tord subck (Int ts) o =
    omap (fun rs => Some (inter_order_src (filter (fun r => negb (order_eqb r NONE)) rs))) (omapM (fun x => tord x o) ts).
Proof. exact inter_hook_decides. Qed.
Print Assumptions C12_leaf_inter_hook.

Theorem C12_leaf_dep_hook : forall tord subck t o,
  dep_order tord subck t o =
    if is_dep o then
      omap (fun bo => Some (dep_order_src true bo (dep_lt t o) (dep_lt o t) false false)) (tord (dep_bound t) (dep_bound o))
    else
      obind (subck o (dep_bound t)) (fun s1 =>
        if s1 then Some (Some (dep_order_src false SAME false false true false))
        else omap (fun s2 => Some (dep_order_src false SAME false false false s2)) (subck (dep_bound t) o)).
Proof. exact dep_order_decides. Qed.
Print Assumptions C12_leaf_dep_hook.

(* the block of typeorder for a generic alias on the left, regenerated from the source (gen_order_src), is the model's:
   against another generic alias -- origins first, a parametrised alias below the bare one, different numbers of arguments
   unrelated, otherwise the merge of the argument-wise comparisons -- and against a plain class (the origin's answer, SAME
   read as LESS) *)
Theorem C12_leaf_generic_vs_generic : forall sub hasm chk fresh rec srec o1 a1 o2 a2,
  ty_eqb (Gen o1 a1) (Gen o2 a2) = false ->
  tord_body sub hasm chk fresh rec srec (Gen o1 a1) (Gen o2 a2) =
    match rec (Cls o1) (Cls o2) with
    | None => None
    | Some oo =>
        if order_eqb oo SAME && negb (nonempty a1 && negb (nonempty a2)) && negb (nonempty a2 && negb (nonempty a1))
           && Nat.eqb (length a1) (length a2)
        then omap (fun rs => gen_order_src true NONE oo (nonempty a1) (nonempty a2) (length a1) (length a2) (merge rs)) (omapM2 rec a1 a2)
        else Some (gen_order_src true NONE oo (nonempty a1) (nonempty a2) (length a1) (length a2) NONE)
    end.
Proof. exact gen_gen_order_decides. Qed.
Print Assumptions C12_leaf_generic_vs_generic.

Theorem C12_leaf_generic_vs_class : forall sub hasm chk fresh rec srec o1 a1 d,
  tord_body sub hasm chk fresh rec srec (Gen o1 a1) (Cls d) =
    omap (fun ot2 => gen_order_src false ot2 NONE (nonempty a1) false (length a1) 0 NONE) (rec (Cls o1) (Cls d)).
Proof. exact gen_cls_order_decides. Qed.
Print Assumptions C12_leaf_generic_vs_class.
