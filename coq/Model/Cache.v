(* Cache.v — MultiTypeMap as a state machine: the dict itself (type-tuple cache incl. continuation entries keyed by
   the caller's code object), self.errors, self.all; operations getitem (hit or __missing__) and register.
   Static view of ranks (single handler or ambiguous), as in Model/Resolve.v.
   Every operation also reports whether a resolution (mro) was computed, for C20. *)
From Coq Require Import ZArith List Bool Arith.
Import ListNotations.
From OvldV Require Import Model.Order Model.Ty Model.Resolve.

Definition key_eqb (a b : key) : bool :=
  list_eqb ty_eqb (k_pos a) (k_pos b)
  && list_eqb (fun p q : nat * ty => Nat.eqb (fst p) (fst q) && ty_eqb (snd p) (snd q)) (k_kw a) (k_kw b).

(* a dictionary key: the type tuple, optionally prefixed by the caller's code object *)
Record qkey : Type := mkQ { q_caller : option nat; q_key : key }.

Definition qkey_eqb (a b : qkey) : bool :=
  match q_caller a, q_caller b with
  | None, None => true
  | Some x, Some y => Nat.eqb x y
  | _, _ => false
  end && key_eqb (q_key a) (q_key b).

Fixpoint assoc_q {X} (q : qkey) (l : list (qkey * X)) : option X :=
  match l with
  | [] => None
  | (a, x) :: r => if qkey_eqb a q then Some x else assoc_q q r
  end.

Fixpoint assoc_k {X} (k : key) (l : list (key * X)) : option X :=
  match l with
  | [] => None
  | (a, x) :: r => if key_eqb a k then Some x else assoc_k k r
  end.

Record cstate : Type := mkC {
  cs_ms : list meth;                       (* registered handlers with their signatures, in registration order *)
  cs_dict : list (qkey * nat);             (* the dict proper: key -> handler *)
  cs_err : list (qkey * list nat);         (* self.errors: key -> remembered ambiguity *)
  cs_all : list (key * list nat) }.        (* self.all: type tuple -> codes of all candidates *)

Definition cinit (ms : list meth) : cstate := mkC ms [] [] [].

(* what MultiTypeMap.__missing__ does for a key with a leading code object once the plain key has been looked up:
   foreign    = the caller's code is not among the candidates recorded for the plain key (self.all),
   remembered = an ambiguity is remembered under the code key (self.errors),
   stored     = a handler is stored under the code key *)
Inductive code_action : Type := CA_plain | CA_error | CA_entry | CA_nomethod.

Definition code_action_of (foreign remembered stored : bool) : code_action :=
  if foreign then CA_plain else if remembered then CA_error else if stored then CA_entry else CA_nomethod.

Definition ids (g : list cand) : list nat := map (fun c => m_id (c_m c)) g.

Section Hier.
  Variable sub : nat -> nat -> bool.
  Variable hasm : nat -> nat -> bool.
  Variable chk : nat -> nat -> bool.
  Variable sub_fresh : nat -> bool.

  Notation mro := (mro sub hasm chk sub_fresh).

  (* resolve()'s write loop: first-rank entry under the plain key, then for each following rank an entry under
     (code of the previous rank's handler, key); an ambiguous rank is remembered in errors and ends the loop *)
  Fixpoint write_chain (ranks : list (list cand)) (parent : option nat) (k : key) (st : cstate) : cstate :=
    match ranks with
    | [] => st
    | g :: rest =>
        let q := mkQ parent k in
        match g with
        | [c] => write_chain rest (Some (m_id (c_m c))) k
                             (mkC (cs_ms st) ((q, m_id (c_m c)) :: cs_dict st) (cs_err st) (cs_all st))
        | _ => mkC (cs_ms st) (cs_dict st) ((q, ids g) :: cs_err st) (cs_all st)
        end
    end.

  (* result of one dictionary access: new state, outcome, and whether mro was computed *)
  Definition miss_plain (st : cstate) (k : key) : cstate * outcome * bool :=
    match mro (cs_ms st) k with
    | Err e => (st, of_err e, true)
    | Ok ranks =>
        let st1 := mkC (cs_ms st) (cs_dict st) (cs_err st) ((k, ids (concat ranks)) :: cs_all st) in
        match ranks with
        | [] => (st1, ONoMethod, true)
        | _ =>
            let st2 := write_chain ranks None k st1 in
            match assoc_q (mkQ None k) (cs_err st2) with
            | Some g => (st2, OAmbig g, true)
            | None =>
                match assoc_q (mkQ None k) (cs_dict st2) with
                | Some h => (st2, ORun h, true)
                | None => (st2, ONoMethod, true)      (* unreachable *)
                end
            end
        end
    end.

  Definition get_plain (st : cstate) (k : key) : cstate * outcome * bool :=
    match assoc_q (mkQ None k) (cs_dict st) with
    | Some h => (st, ORun h, false)
    | None => miss_plain st k
    end.

  Definition getitem (st : cstate) (q : qkey) : cstate * outcome * bool :=
    match q_caller q with
    | None => get_plain st (q_key q)
    | Some c =>
        match assoc_q q (cs_dict st) with
        | Some h => (st, ORun h, false)
        | None =>
            (* __missing__ with a leading code object *)
            match get_plain st (q_key q) with
            | (st1, ORun h, r) =>
                match assoc_k (q_key q) (cs_all st1) with
                | None => (st1, ONoMethod, r)                (* unreachable: all[k] is written with every resolution *)
                | Some cands =>
                    if negb (memb c cands) then (st1, ORun h, r)
                    else match assoc_q q (cs_err st1) with
                         | Some g => (st1, OAmbig g, r)
                         | None =>
                             match assoc_q q (cs_dict st1) with
                             | Some h2 => (st1, ORun h2, r)
                             | None => (st1, ONoMethod, r)
                             end
                         end
                end
            | other => other
            end
        end
    end.

  (* MultiTypeMap.register: self.clear(); self.errors.clear(); self.all.clear()
     (since the repair of KF-04; before it only the dict was emptied) *)
  Definition cregister (st : cstate) (m : meth) : cstate :=
    mkC (cs_ms st ++ [m]) [] [] [].

  Inductive cop : Type := CGet (q : qkey) | CReg (m : meth).

  Definition cstep (st : cstate) (o : cop) : cstate * option (outcome * bool) :=
    match o with
    | CGet q => let '(st', out, r) := getitem st q in (st', Some (out, r))
    | CReg m => (cregister st m, None)
    end.

  Fixpoint crun (st : cstate) (ops : list cop) : cstate * list (option (outcome * bool)) :=
    match ops with
    | [] => (st, [])
    | o :: r => let (st1, x) := cstep st o in let (st2, xs) := crun st1 r in (st2, x :: xs)
    end.

  (* what a brand-new table over the same handlers answers *)
  Definition fresh (ms : list meth) (q : qkey) : outcome :=
    match q_caller q with
    | None => lookup sub hasm chk sub_fresh ms (q_key q)
    | Some c => lookup_next sub hasm chk sub_fresh ms c (q_key q)
    end.
End Hier.
