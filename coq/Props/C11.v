(* C11 — Literal and the built-in value types match exactly their documented values.
   Theorems only.  Model: Model/Dep.v. *)
From Coq Require Import ZArith List Bool Arith.
Import ListNotations.
From OvldV Require Import Model.Order Model.Ty Model.Codec Model.Resolve Model.Dep Proofs.DepFacts.

(* Literal[v1..vn] (with bound b) accepts exactly the instances of the bound equal to one of the vi -- whatever n *)
Theorem C11_literal_exact : forall sub hasm chk utab vs b v,
  instance sub hasm chk utab (Lit vs b) v = Some true <->
  (instance sub hasm chk utab b v = Some true /\ val_in v vs = true).
Proof. exact literal_exact. Qed.
Print Assumptions C11_literal_exact.

(* whichever checking code is generated for a type of the closure -- tuple[...] element tests, the shallow
   Sequence / Collection / Mapping checks, Regexp / StartsWith / EndsWith / HasKey, Literal, and their | and &
   combinations at any depth -- it accepts exactly the values for which isinstance(value, type) is true
   (for a value-dependent type: among the instances of its bound, which the type-level filter guarantees) *)
Theorem C11_check_is_instance : forall sub hasm chk utab, (forall c, sub c C_OBJECT = true) ->
  forall t v, prod_tuple t = true -> plain_val sub v = true -> emit_ok sub hasm chk utab t v.
Proof. exact emit_is_instance. Qed.
Print Assumptions C11_check_is_instance.

(* the choice between if-chain and counting does not change the answer when at most one handler holds *)
Theorem C11_strategy_irrelevant : forall sub hasm chk utab hs slots args,
  no_exc sub hasm chk utab slots args hs -> length (filter (holds sub hasm chk utab slots args) hs) <= 1 ->
  chain_go sub hasm chk utab slots args hs = count_go sub hasm chk utab (map m_id hs) slots args hs [].
Proof. exact chain_is_count_when_exclusive. Qed.
Print Assumptions C11_strategy_irrelevant.

(* the lookup-table strategy on a family of Literal methods (>= 4 handlers, pairwise disjoint values):
   since the repair of KF-15 every value of every Literal is a key -- Literal[1, 2] among 4 handlers matches 2 *)
Definition wh : hier := {| h_supers := [[0]; [0; 1]; [0; 2]]; h_meths := []; h_preds := []; h_fresh := [0] |}.
Definition lit (i : nat) (vs : list Z) := mkMeth i [Lit (map VInt vs) (Cls 2)] [] 1 [] 0 0.
Definition fam := [lit 0 [1; 2]%Z; lit 1 [3]%Z; lit 2 [4]%Z; lit 3 [5; 6]%Z; mkMeth 4 [Cls 0] [] 1 [] 0 0].
Example C11_table_all_values :
  let dc v := dcall (hsub wh) (hhasm wh) (hchk wh) (hfresh wh) (fun _ _ => false) fam (mkKey [Cls 2] []) [(SPos 0, VInt v)] in
  dc 1%Z = DRun 0 /\ dc 2%Z = DRun 0 /\ dc 6%Z = DRun 3 /\ dc 7%Z = DRun 4.
Proof. vm_compute. repeat split; reflexivity. Qed.

(* overlapping Literals: the shared value is ambiguous (repair of KF-16), the others are not *)
Example C11_overlap_ambiguous :
  let dc v := dcall (hsub wh) (hhasm wh) (hchk wh) (hfresh wh) (fun _ _ => false) [lit 0 [1; 2]%Z; lit 1 [2; 3]%Z]
                    (mkKey [Cls 2] []) [(SPos 0, VInt v)] in
  dc 1%Z = DRun 0 /\ dc 2%Z = DAmbig [0; 1] /\ dc 3%Z = DRun 1.
Proof. vm_compute. repeat split; reflexivity. Qed.
