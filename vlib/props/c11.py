"""C11 — Literal and the built-in value types match exactly their documented values."""
import json, collections, typing
from .. import model, progs
from ..world import World, world_from, dec_val, enc_val
from . import dep_common as D
from .c10 import py_isinstance

CLAIM = dict(
    text="Coq theorems on Model/Dep.v: Literal[v1..vn] accepts exactly the instances of its bound equal to one of the vi, whatever n (C11_literal_exact); for every type of the closure of the built-in constructors, at any nesting depth, the checking code the library generates (tuple element tests, shallow Sequence / Collection / Mapping checks, Regexp / StartsWith / EndsWith / HasKey, Literal, | and & combinations) accepts exactly the values for which isinstance(value, type) is true (C11_check_is_instance, by induction on the type); the choice between the if-chain and counting strategies does not change the answer when at most one handler holds (C11_strategy_irrelevant); executable examples pin the lookup-table path (all values of every Literal are keys) and the overlap case (shared value -> ambiguity). Full since the repairs of KF-14/15/16/17/50/51 in /repo (fix: commits); their witnesses are replayed on every run. Tie to /repo: (a) isinstance of real type objects vs the model's instance over a type corpus x value corpus; (b) for each type T and companion Literal families on both sides of the table threshold (disjoint, overlapping, mixed value types, any value order), the method a real @ovld function runs for every corpus value vs Python's own isinstance (property oracle) vs the model's dispatch.",
    note="Trusted: as C10. Regexp modelled for literal patterns with ^ / $ anchors; bools kept out of Literal corpora (True == 1); values are the corpus' ints, strs, tuples, lists, dicts, None and plain instances.",
    technique="Coq proof (structural induction on types: emitted check = isinstance) + differential correspondence over type x value corpora", design="6 C11")

THEOREMS = ["C11_literal_exact", "C11_check_is_instance", "C11_strategy_irrelevant"]
ASSUMPTIONS = ["corpus values are plain (no user subclass of tuple), as the theorem's plain_val hypothesis requires"]


def gen_types(rng, w, corpus_enc, n):
    fids = [10]
    utab = {}
    ts = []
    for _ in range(n):
        ts.append(D.gen_dep_type(rng, w, fids, utab, corpus_enc, depth=rng.choice([0, 1, 1, 2])))
    return ts, utab


def check_instance_matrix(ctx, stats):
    rng = ctx.rng
    w = World([{"kind": "plain", "bases": [], "meths": []}])
    corpus = D.value_corpus(w)
    corpus_enc = [enc_val(v, w) for v in corpus]
    ts, utab = gen_types(rng, w, corpus_enc, 14)
    from ..world import Decoder
    dec = Decoder(w, utab=utab)
    objs = [dec.ty(t) for t in ts]
    ut = [[int(f)] + vals for f, vals in utab.items()]
    res = model.run_cases([[21, w.encode(), ut, [model.canon_ty(t) for t in ts], corpus_enc]])[0]
    for i, (t, o) in enumerate(zip(ts, objs)):
        for j, v in enumerate(corpus):
            got = py_isinstance(v, o)
            m = res[0][i][j]
            exp = 1 if got is True else 0 if got is False else 9
            stats["evaluations"] += 1
            stats["isinstance_checks"] += 1
            if exp != m:
                ctx.violation(f"isinstance(value, T) is {got} but the model's instance gives {m}",
                              {"spec": w.spec, "types": [t], "utab": utab, "value": corpus_enc[j]}, kind="correspondence")
                return


def literal_family(rng, w, mode):
    pool = rng.choice([[1, 2, 3, 7, -1, 4, 5], ["a", "ab", "b", "abc", "xb", "c"]])
    if mode == "mixed":
        pool = [1, "a", 2, "b", 3]
    if mode == "boolint":
        # values that are equal across types (1 == True, 0 == False): Literal[1] and Literal[True] are different types
        pool = [0, 1, True, False, 2]
    n = rng.choice([2, 3, 4, 5, 6])
    defs = []
    used = []
    for i in range(n):
        k = rng.randint(1, 3)
        if mode == "boolint":
            vals = rng.choice([[1], [True], [0], [False], [0, 1], [False, True], [1, 2], [True, False]])
        elif mode == "disjoint":
            avail = [x for x in pool if x not in used]
            if not avail:
                break
            vals = rng.sample(avail, min(k, len(avail)))
            used += vals
        else:
            vals = rng.sample(pool, min(k, len(pool)))
        rng.shuffle(vals)
        tys = {type(v) for v in vals}
        b = [0, w.cid(tys.pop())] if len(tys) == 1 else [0, 0]
        defs.append({"id": i, "pos": [[8, b] + [enc_val(v) for v in vals]], "npos_req": 1, "kw": [], "prio": 0})
    if rng.random() < 0.7:
        defs.append({"id": 50, "pos": [[0, 0]], "npos_req": 1, "kw": [], "prio": 0})
    calls = [{"vals": [enc_val(v)]} for v in pool + [99, "zz", (1,), None]]
    return {"spec": [], "defs": defs, "utab": {}, "calls": calls}


def single_type_program(rng, w, corpus_enc):
    fids = [10]
    utab = {}
    t = D.gen_dep_type(rng, w, fids, utab, corpus_enc, depth=rng.choice([0, 1, 2, 2, 3]))
    defs = [{"id": 0, "pos": [t], "npos_req": 1, "kw": [], "prio": 0},
            {"id": 1, "pos": [[0, 0]], "npos_req": 1, "kw": [], "prio": 0}]
    return {"spec": w.spec, "defs": defs, "utab": {str(k): v for k, v in utab.items()}, "calls": [{"vals": [e]} for e in corpus_enc]}


def nested_combo_program(rng, w, corpus_enc):
    """(d1 & d2) | d3 and (d1 | d2) & d3 with members over different bounds: the inner combination is reached with
    values outside its members' bounds, which only the bound tests keep away from the conditions"""
    fids = [10]
    utab = {}
    ds = [D.gen_dep_type(rng, w, fids, utab, corpus_enc, depth=0, allow_combo=False) for _ in range(3)]
    if rng.random() < 0.4:
        # no value-dependent type among the DIRECT members: (d1 & d2) | cls, (d1 | d2) & cls -- whether the method needs
        # run-time checks at all must be decided by looking inside the inner combination
        ds[2] = [0, rng.choice([D.INT, D.STR, D.TUPLE])]
    if rng.random() < 0.5:
        t = [2, [3, ds[0], ds[1]], ds[2]]
    else:
        t = [3, [2, ds[0], ds[1]], ds[2]]
    if rng.random() < 0.5:
        t = [t[0], t[2], t[1]]
    defs = [{"id": 0, "pos": [t], "npos_req": 1, "kw": [], "prio": 0},
            {"id": 1, "pos": [[0, 0]], "npos_req": 1, "kw": [], "prio": 0}]
    return {"spec": w.spec, "defs": defs, "utab": {str(k): v for k, v in utab.items()}, "calls": [{"vals": [e]} for e in corpus_enc]}


def check_program(ctx, prog, stats, kind):
    res, w, b = D.eval_dep_program(prog)
    byid = {d["id"]: d for d in prog["defs"]}
    # the same program as the methods of one class body (the lookup-table, if-chain and counting dispatchers must all pass
    # self on): outcomes must be those of the plain function
    try:
        bm = progs.BuiltClass(world_from(prog["spec"]), prog["defs"], utab=prog.get("utab"))
    except Exception as e:  # noqa
        ctx.violation(f"the program cannot be written as a class body: {type(e).__name__}: {str(e)[:120]}", dict(prog, calls=prog["calls"][:1]))
        return
    for call, r in zip(prog["calls"], res):
        om, em = bm.call([dec_val(e, bm.w) for e in call["vals"]])
        stats["evaluations"] += 1
        stats["method_mode_calls"] += 1
        if (D.impl_kind(om), em) != (r["impl"], r["entered"]):
            ctx.violation(f"as a method of a class the call gives {(om, em)}, as a plain function {(r['impl_raw'], r['entered'])}", dict(prog, calls=[call], method_mode=True))
            return
    broken_tie = False
    for call, r in zip(prog["calls"], res):
        if broken_tie and len(ctx.violations) > 12:
            return
        stats["evaluations"] += 1
        stats[kind] += 1
        case = dict(prog, calls=[call])
        if r["impl"] != r["model"]:
            ctx.violation(f"implementation {r['impl_raw']} != model {r['model']}", case, kind="correspondence")
            broken_tie = True       # keep going: the isinstance oracle below does not depend on the model
        v = dec_val(call["vals"][0], w)
        holders = []
        bad = False
        for d in prog["defs"]:
            ok = py_isinstance(v, b.ty(d["pos"][0]))
            if ok is True:
                holders.append(d["id"])
            elif ok is not False:
                bad = True
        if bad:
            continue
        dep_holders = [h for h in holders if byid[h]["pos"][0][0] != 0]
        if len(dep_holders) <= 1:
            # isinstance alone decides: the single value-typed method that accepts the value, else the fallback
            exp = ["run", dep_holders[0]] if dep_holders else (["run", holders[-1]] if holders else ["nomethod"])
        else:
            # several value-typed methods accept the value: the documented order between them decides (as in C10)
            exp = D.py_spec_dep(w, b, prog["defs"], [v])
            if exp is None:
                continue
        stats["distinct"].add(hash(json.dumps([prog["defs"], call, prog["utab"]])))
        if r["impl"] != exp:
            ctx.violation(f"value {v!r}: the function gives {r['impl']} but isinstance selects {exp} (holders {holders})", case)
            return


def bound_family_program(rng, w, corpus_enc):
    """the same element check under different bounds in one function (list[T] next to Sequence[T], dict-bound and
    Mapping-bound key checks): the types differ by their bound only"""
    t = [0, rng.choice([D.INT, D.STR, 0])]
    defs = [{"id": 0, "pos": [[10, 4, [0, D.LIST], t]], "npos_req": 1, "kw": [], "prio": 0},
            {"id": 1, "pos": [[10, 4, [0, 8], t]], "npos_req": 1, "kw": [], "prio": 0}]
    if rng.random() < 0.5:
        k = [1, enc_val(rng.choice(["k", "j"]))]
        defs += [{"id": 2, "pos": [[9, 2, [0, D.DICT], k]], "npos_req": 1, "kw": [], "prio": 0},
                 {"id": 3, "pos": [[9, 2, [0, 9], k]], "npos_req": 1, "kw": [], "prio": 0}]
    rng.shuffle(defs)
    defs.append({"id": 9, "pos": [[0, 0]], "npos_req": 1, "kw": [], "prio": 0})
    return {"spec": w.spec, "defs": defs, "utab": {}, "calls": [{"vals": [e]} for e in corpus_enc]}


def check_sets(ctx, stats):
    """set / frozenset element checks (shallow: the first element) -- values the model has no constructor for, so this is
    the property oracle alone: isinstance and the method a real function runs against the documented reading"""
    import ovld as _ov
    from ovld import ovld as deco
    for T, good, bad in ((int, 1, "a"), (str, "a", 1), (typing.Literal["a", "b"], "a", "c")):
        f = _ov.Ovld(name="f")

        def m_set(x: set[T]):
            return "set"

        def m_fro(x: frozenset[T]):
            return "frozenset"

        def m_obj(x: object):
            return "other"
        for m in (m_set, m_fro, m_obj):
            f.register(m)
        for mk, tag in ((set, "set"), (frozenset, "frozenset")):
            for elems, exp in (([], tag), ([good], tag), ([bad], "other"), ([None], "other")):
                v = mk(elems)
                try:
                    got = f(v)
                except TypeError as e:
                    got = "TypeError:" + str(e)[:40]
                stats["evaluations"] += 1
                stats["set_checks"] += 1
                if got != exp:
                    ctx.violation(f"{mk.__name__}[{T}] on {v!r}: the function gives {got!r}, the documented shallow element check selects {exp!r}",
                                  {"sets": True, "T": repr(T), "value": repr(v)})
                    return


def run(ctx):
    stats = collections.Counter()
    stats["distinct"] = set()
    check_sets(ctx, stats)
    samples = []
    n = 25 if ctx.quick() else 1200
    w = World([{"kind": "plain", "bases": [], "meths": []}])
    corpus_enc = [enc_val(v, w) for v in D.value_corpus(w)]
    for i in range(n):
        check_instance_matrix(ctx, stats)
        prog = single_type_program(ctx.rng, w, corpus_enc)
        check_program(ctx, prog, stats, "single_type_calls")
        for _ in range(3):
            check_program(ctx, nested_combo_program(ctx.rng, w, corpus_enc), stats, "nested_combination_calls")
        check_program(ctx, bound_family_program(ctx.rng, w, corpus_enc), stats, "bound_family_calls")
        for mode in ("disjoint", "overlap", "mixed", "boolint"):
            fam = literal_family(ctx.rng, World([]), mode)
            if len(fam["defs"]) >= 2:
                check_program(ctx, fam, stats, "literal_family_calls_" + mode)
                if len(samples) < 3:
                    samples.append({"mode": mode, "defs": fam["defs"]})
        if len(ctx.violations) > 5:
            break
    return {"evaluations": stats["evaluations"], "distinct_nontrivial": len(stats["distinct"]),
            "rule": "per round: 14 random types of the closure (depth <= 2) x 20+ corpus values for isinstance; one random type with an object fallback dispatched on every corpus value; Literal families of 2-6 methods (disjoint / overlapping / mixed value types / values equal across bool and int, shuffled value order, with or without fallback) dispatched on every pool value and four foreign values; a dispatch case is non-trivial (all involve a value type), distinct by (methods, tables, call)",
            "samples": samples, "isinstance_checks": stats["isinstance_checks"], "single_type_calls": stats["single_type_calls"], "nested_combination_calls": stats["nested_combination_calls"],
            "literal_family_calls": {m: stats["literal_family_calls_" + m] for m in ("disjoint", "overlap", "mixed", "boolint")},
            "calls_repeated_as_methods_of_a_class": stats["method_mode_calls"], "bound_family_calls": stats["bound_family_calls"], "set_element_checks": stats["set_checks"], "traces_validated_against_impl": stats["evaluations"]}


def replay(ctx, payload):
    """re-run the recorded program through the same comparisons; reproduced iff it raises a violation again"""
    case = payload["case"]
    if "defs" in case:
        stats = collections.Counter()
        stats["distinct"] = set()
        before = len(ctx.violations)
        check_program(ctx, case, stats, "replayed_calls")
        return len(ctx.violations) > before
    return True


def replay_finding(ctx, e):
    wit = e.get("witness_C11", e["witness"])
    res, w, b = D.eval_dep_program(wit)
    return [r["impl"] for r in res] == wit["expect_impl"]
