(* C16 — variants and mixins compose without ever disturbing their parents.
   Theorems only; every proof is [exact <lemma>] or a witness checked by vm_compute; Print Assumptions under each.
   Model: Model/Graph.v (one node per Ovld object; [step] = one public operation; [run ops] = the graph after the
   history [ops] from nothing).  Every statement quantifies over ALL finite histories.
   The model follows the code after the repairs 7f4d316 (lock() also locks every mixin of the locked node, recursively),
   7be068c (add_mixins ends with _update() when it added something) and ad8ac70 (compile calls _lock_parents: a parent
   that lists this node as a linkback child stays open, but its own parents are treated the same way, recursively).
   Observable of a node ([obs]): the table snapshot of its last build if it is in use, else what a first use would build.
   Abstraction: a node's behaviour IS its effective table (signature key -> method); dispatch over a table is the
   Resolve component's business.
   Relations: [Anc g a n] a is n or something n derives from;  [Lb g a n] n is a or derives from a through linkback
   derivations only (Proofs/GraphBase.v);  [NLPath g c a] a is reached from c through non-linkback derivations only. *)
From Coq Require Import ZArith List Bool Arith.
Import ListNotations.
From OvldV Require Import Model.Graph Spec.Overlay Proofs.GraphTab Proofs.GraphBase Proofs.GraphUpd Proofs.GraphInv
  Proofs.GraphProps Proofs.GraphLock.

(* no traversal ever runs out of fuel: the model answers every operation of every history *)
Theorem C16_never_stuck : forall ops o, snd (step (run ops) o) <> Stuck.
Proof. exact never_stuck. Qed.
Print Assumptions C16_never_stuck.

(* ---------- overlay ---------- *)
(* what any (re)build of node n snapshots is the parents' effective tables overlaid by the own table: the own method
   wins on an identical signature key, among parents the later mixin wins (Spec/Overlay.v overlay_get) *)
Theorem C16_overlay : forall ops n x t, let g := run ops in
  g_get g n = Some x -> defns (length g) g n = Some t ->
  exists pts, Forall2 (fun m pt => defns (length g) g m = Some pt) (n_mixins x) pts /\
              forall k, t_get k t = overlay_get k pts (n_own x).
Proof. intros ops n x t. exact (overlay_defns (run ops) n x t (Inv_run ops)). Qed.
Print Assumptions C16_overlay.

(* FULL (no domain left): in every history, every node's observable is the overlay of its parents' observables and its
   own table.  (Before the repairs this held only outside the classes KF-18, KF-40, KF-43.) *)
Theorem C16_overlay_used : forall ops n x t, let g := run ops in
  g_get g n = Some x -> obs g n = Some t ->
  exists pts, Forall2 (fun m pt => obs g m = Some pt) (n_mixins x) pts /\
              forall k, t_get k t = overlay_get k pts (n_own x).
Proof. exact overlay_used. Qed.
Print Assumptions C16_overlay_used.

(* ... because no node is ever out of date: the observable of every node of every history is what a rebuild would give now *)
Theorem C16_always_fresh : forall ops n, n < length (run ops) ->
  obs (run ops) n = defns (length (run ops)) (run ops) n.
Proof. exact always_fresh. Qed.
Print Assumptions C16_always_fresh.

(* ---------- isolation ---------- *)
(* an operation on N (for the constructors: the node they create) changes the observable of no node that does not
   derive from N -- in particular of no parent and no sibling *)
Theorem C16_isolation : forall ops o m, let g := run ops in
  m < length g -> ~ Anc g (target g o) m -> obs (step_g g o) m = obs g m.
Proof. exact isolation. Qed.
Print Assumptions C16_isolation.

(* ... and of no node already in use that is not reached from N through linkback derivations
   (an unused non-linkback child legitimately sees its parent's changes: it has not been built yet) *)
Theorem C16_isolation_used : forall ops o m x, let g := run ops in
  g_get g m = Some x -> n_compiled x = true -> m <> target g o -> ~ Lb g (target g o) m ->
  obs (step_g g o) m = obs g m.
Proof. exact isolation_used. Qed.
Print Assumptions C16_isolation_used.

(* putting a node to use changes no observable (it only builds and locks) *)
Theorem C16_use_invisible : forall ops n m, let g := run ops in obs (step_g g (OUse n)) m = obs g m.
Proof. exact use_invisible. Qed.
Print Assumptions C16_use_invisible.

(* ---------- lock ---------- *)
(* a refused operation changes nothing at all *)
Theorem C16_refused_unchanged : forall g o, snd (step g o) <> Done -> step_g g o = g.
Proof. exact refused_unchanged. Qed.
Print Assumptions C16_refused_unchanged.

(* a locked node refuses every modification *)
Theorem C16_locked_refuses : forall g o x, is_modification o = true -> g_get g (target g o) = Some x -> n_locked x = true ->
  step_g g o = g /\ (snd (step g o) = Locked \/ snd (step g o) = Invalid).
Proof. exact locked_refuses. Qed.
Print Assumptions C16_locked_refuses.

(* FULL: once c is in use, take any node v from which c derives through linkback derivations only (c itself included)
   and that is not itself a linkback derivation: every parent m of v, and everything m derives from through derivations
   of either kind, is locked.  With v = c: plain paths of any length (the old KF-18) and plain-then-linkback paths;
   with v above c: the non-propagating ancestors of the linkback parents of a used node (the old KF-43). *)
Theorem C16_lock : forall ops c yc v y m a, let g := run ops in
  g_get g c = Some yc -> n_compiled yc = true -> Lb g v c -> g_get g v = Some y -> n_linkback y = false ->
  In m (n_mixins y) -> Anc g a m -> exists w, g_get g a = Some w /\ n_locked w = true.
Proof. exact lock_full. Qed.
Print Assumptions C16_lock.

(* consequently whoever can still be modified and has a used descendant reaches it by propagation *)
Theorem C16_modifiable_reaches : forall ops N xN c yc, let g := run ops in
  g_get g N = Some xN -> n_locked xN = false -> g_get g c = Some yc -> n_compiled yc = true -> Anc g N c -> Lb g N c.
Proof. intros ops N xN c yc. exact (unlocked_anc_lb (run ops) N xN c yc (Inv_run ops) (LK_run ops)). Qed.
Print Assumptions C16_modifiable_reaches.

(* the statement that was refuted before the repair of KF-18, now a theorem *)
Theorem C16_lock_plain_paths : forall ops c y a, let g := run ops in
  g_get g c = Some y -> n_compiled y = true -> NLPath g c a -> exists w, g_get g a = Some w /\ n_locked w = true.
Proof. exact lock_nlpath. Qed.
Print Assumptions C16_lock_plain_paths.

(* a locked function never derives from a modifiable one *)
Theorem C16_lock_closed : forall ops a m z, let g := run ops in
  g_get g m = Some z -> n_locked z = true -> Anc g a m -> exists w, g_get g a = Some w /\ n_locked w = true.
Proof. exact lock_closed. Qed.
Print Assumptions C16_lock_closed.

(* ---------- linkback ---------- *)
(* after every successful register / unregister / add_mixins on N, every node deriving from N through linkback
   derivations shows exactly what a rebuild would give now (which, by C16_overlay, contains N's change);
   the only exception is an add_mixins that had nothing to add, which changes nothing at all *)
Theorem C16_linkback : forall ops o k, let g := run ops in
  is_modification o = true -> snd (step g o) = Done -> Lb g (target g o) k ->
  obs (step_g g o) k = defns (length (step_g g o)) (step_g g o) k \/
  (exists n ms, o = OAddMixins n ms /\ nself n ms = [] /\ step_g g o = g).
Proof. exact linkback. Qed.
Print Assumptions C16_linkback.

(* ---------- the witnesses of the repaired findings, now showing the repaired behaviour ---------- *)
(* KF-18 (fixed 7f4d316): f0 <- f1 <- f2 plain copies, f2 used: f0.register is refused, f2 is up to date *)
Example C16_kf18_repaired :
  let ops := [OCreate [] false; ORegister 0 0 1; OCopy 0 [] false; OCopy 1 [] false; OUse 2] in
  step (run ops) (ORegister 0 1 9) = (run ops, Locked) /\ fresh_b (run ops) 2 = true /\
  map (fun x => n_locked x) (run ops) = [true; true; false].
Proof. vm_compute. repeat split; reflexivity. Qed.

(* KF-40 (fixed 7be068c): f0 used, then f0.add_mixins(f1): f0 is rebuilt with f1's method and f1 is locked *)
Example C16_kf40_repaired :
  let ops := [OCreate [] false; ORegister 0 0 1; OCreate [] false; ORegister 1 1 2; OUse 0; OAddMixins 0 [1]] in
  obs (run ops) 0 = Some [((1, 0%Z), 2); ((0, 0%Z), 1)] /\ fresh_b (run ops) 0 = true /\
  map (fun x => n_locked x) (run ops) = [false; true].
Proof. vm_compute. repeat split; reflexivity. Qed.

(* KF-40, linkback side: the used linkback child of f0 sees the parent f0 acquires later *)
Example C16_kf40_linkback_repaired :
  let ops := [OCreate [] false; ORegister 0 0 1; OCopy 0 [] true; OUse 1; OCreate [] false; ORegister 2 1 2; OAddMixins 0 [2]] in
  obs (run ops) 1 = Some [((1, 0%Z), 2); ((0, 0%Z), 1)] /\ fresh_b (run ops) 1 = true.
Proof. vm_compute. repeat split; reflexivity. Qed.

(* KF-43 (fixed ad8ac70): f0 <- f1 (plain copy, never used) <- f2 (linkback copy of f1, used): using f2 leaves f1 open
   (its changes propagate) but locks f0; f0.register is refused; f1.register still succeeds and shows up in f2 *)
Example C16_kf43_repaired :
  let ops := [OCreate [] false; ORegister 0 0 1; OCopy 0 [] false; OCopy 1 [] true; OUse 2] in
  step (run ops) (ORegister 0 1 9) = (run ops, Locked) /\
  map (fun x => n_locked x) (run ops) = [true; false; false] /\
  snd (step (run ops) (ORegister 1 1 9)) = Done /\
  obs (step_g (run ops) (ORegister 1 1 9)) 2 = Some [((0, 0%Z), 1); ((1, 0%Z), 9)].
Proof. vm_compute. repeat split; reflexivity. Qed.

(* ---------- a non-trivial history ---------- *)
Example C16_history_example :
  let ops := [OCreate [] false; ORegister 0 0 1; OCopy 0 [] true; OCopy 0 [] false; OUse 1; ORegister 0 1 2;
              OUse 2; ORegister 0 2 3; OVariant 1 [] false 3 4; OUse 3; OAddMixins 2 [3]] in
  map (fun o => snd o) (map (step (run (firstn 7 ops))) [ORegister 0 2 3]) = [Locked] /\
  obs (run ops) 1 = Some [((0, 0%Z), 1); ((1, 0%Z), 2)] /\
  obs (run ops) 3 = Some [((0, 0%Z), 1); ((1, 0%Z), 2); ((3, 0%Z), 4)] /\
  obs (run ops) 2 = Some [((0, 0%Z), 1); ((1, 0%Z), 2); ((3, 0%Z), 4)].
Proof. vm_compute. repeat split; reflexivity. Qed.
