"""Regenerates the generated sections of DESIGN.md (between <!-- BEGIN:x --> / <!-- END:x --> markers) from
findings/*.json, seeded/*/meta.json and the property modules, so the document cannot drift from the machinery."""
import json, glob, os, re, importlib
from . import VERIF


def findings_table():
    rows = ["| id | properties | status | what fails (witness in findings/<id>.json) | disposition |", "|---|---|---|---|---|"]
    for f in sorted(glob.glob(os.path.join(VERIF, "findings", "KF-*.json")), key=lambda p: int(re.search(r"KF-(\d+)", p).group(1))):
        e = json.load(open(f))
        disp = e.get("fixed", "") if e["status"] == "fixed" else "open: recorded, not repaired (" + e.get("classifier", "")[:110] + ")"
        rows.append(f"| {e['id']} | {', '.join(e['properties'])} | {e['status']} | {e['what'][:230]} | {disp[:230]} |")
    return "\n".join(rows)


def seeded_table():
    rows = ["| seeded change | breaks | confirmed (143 tests pass, demo fails with / passes without) | caught by checks | what it needs to manifest |", "|---|---|---|---|---|"]
    for f in sorted(glob.glob(os.path.join(VERIF, "seeded", "*", "meta.json"))):
        d = json.load(open(f))
        name = f.split("/")[-2]
        needs = " ".join(d.get("needs", "").split())[:260]
        rows.append(f"| seeded/{name} | {d['property']} | {'yes' if d['confirmed']['ok'] else 'NO'} | {', '.join(d['caught_by']) or '**none**'} | {needs} |")
    return "\n".join(rows)


def theorems_table():
    rows = ["| property | theorems in coq/Props/<id>.v (all print 'Closed under the global context') |", "|---|---|"]
    for f in sorted(glob.glob(os.path.join(VERIF, "vlib", "props", "c[0-9]*.py"))):
        pid = os.path.basename(f)[:-3].upper()
        mod = importlib.import_module(f"vlib.props.{pid.lower()}")
        if getattr(mod, "CLAIM", None):
            rows.append(f"| {pid} | {', '.join(mod.THEOREMS)} |")
    return "\n".join(rows)


def known_findings_index():
    """known_findings.json: the one-file view of findings/*.json (open findings with the input that fails, repaired ones as
    'fixed: property=<id> <commit> <what failed>'); the checks read the per-finding files, this index is regenerated from them"""
    out = {"comment": "generated from findings/KF-*.json by `python -m vlib.docgen`; the checks read findings/*.json (witness, classifier); never written at check time",
           "open": [], "fixed": []}
    for f in sorted(glob.glob(os.path.join(VERIF, "findings", "KF-*.json")), key=lambda p: int(re.search(r"KF-(\d+)", p).group(1))):
        e = json.load(open(f))
        if e["status"] == "fixed":
            out["fixed"].append({"id": e["id"], "properties": e["properties"], "line": e.get("fixed", ""), "file": "findings/" + os.path.basename(f)})
        else:
            out["open"].append({"id": e["id"], "properties": e["properties"], "what_fails": e["what"], "identified_by": e.get("classifier", ""),
                                "call_site": e.get("call_site", ""), "file": "findings/" + os.path.basename(f)})
    json.dump(out, open(os.path.join(VERIF, "known_findings.json"), "w"), indent=1)


def main():
    known_findings_index()
    p = os.path.join(VERIF, "DESIGN.md")
    s = open(p).read()
    for name, fn in (("findings", findings_table), ("seeded", seeded_table), ("theorems", theorems_table)):
        pat = re.compile(rf"(<!-- BEGIN:{name} -->\n).*?(<!-- END:{name} -->)", re.S)
        if pat.search(s):
            s = pat.sub(lambda m: m.group(1) + fn() + "\n" + m.group(2), s)
    open(p, "w").write(s)
    print("DESIGN.md generated sections refreshed")


if __name__ == "__main__":
    main()
