"""Run-time side of the C09 / C08 behaviour runs.

One *scenario* = a generated module (written to a real file so that inspect.getsource works) defining an overloaded
function `fself` (plain function or method of an OvldBase class) with
  * leaf methods, one per row of a small dispatch table, which log their call and return (leaf id, args, kwargs);
  * the method under test M (its body comes from the grammar or from a template), dispatched on a Trigger class.
The module is executed twice from the same file (so line numbers agree):
  * for real: `ovld`, `OvldBase`, `recurse`, `call_next` are the library's -> M is rewritten by recode;
  * as written: `ovld` / `OvldBase` are pass-throughs and `recurse` / `call_next` (and their aliases, and the function's
    own name) are plain callables of the documented meaning: they call the real overloaded function of the first run.
Both runs call M once with the same arguments; value / exception kind, effect log, number of user calls and the
traceback's (filename, line) pairs inside the module are compared by the callers.

Everything user code can observe is canonicalised into the model's value encoding (coq/Model/Run_Rewrite.v)."""
import os, sys, ast, types, itertools, traceback, tempfile, linecache, inspect
from . import rewrite_lang as RL

TYPE_IDS = {int: 1, str: 2, type(None): 3, bool: 4, type: 5, list: 6, tuple: 7, dict: 8, types.FunctionType: 10,
            types.BuiltinFunctionType: 10, types.MethodType: 10}


class Runtime:
    """the helpers a scenario module sees; one instance per execution so that logs are separate"""

    def __init__(self):
        self.log = []
        self.calls = 0
        rt = self

        class Trig:
            def __repr__(self):
                return "Trig()"

        class TrigBase:
            pass

        self.Trig = Trig
        self.dcls = {}

        def eff(tag, v):
            rt.log.append([tag, canon(v, rt, shape=True)])
            return v

        self.eff = eff

    def D(self, d):
        """callable user object number d: even -> returns (itself, *args); odd -> raises UserErr"""
        if d not in self.dcls:
            rt = self

            class Data:
                _d = d

                def __call__(self, *a, **k):
                    rt.calls += 1
                    rt.log.append([1000 + d, canon(tuple(a), rt, shape=True)])
                    if d % 2:
                        raise UserErr(d)
                    return (self,) + tuple(a)

                def __getattr__(self, name):
                    if name.startswith("__"):
                        raise AttributeError(name)
                    return (self, RL.ident_id(name))

                def __repr__(self):
                    return f"D{d}"

            Data.__name__ = f"D{d}"
            self.dcls[d] = Data
        return self.dcls[d]

    def leaf(self, c, args, kwargs):
        self.calls += 1
        self.log.append([1000 + 100 + c, canon(tuple(args), self, shape=True)])
        return (c, tuple(args), tuple(sorted(((RL.ident_id(k), v) for k, v in kwargs.items()), key=lambda kv: kv[0])))


class UserErr(Exception):
    pass


def canon(v, rt, shape=False):
    """value -> model encoding (sx_val; with shape=True what user code sees: functions are data 0)"""
    if isinstance(v, bool):
        return [3, int(v)]
    if isinstance(v, int):
        return [0, v]
    if v is None:
        return [2]
    if isinstance(v, str):
        try:
            return [1, RL.ident_id(v)]
        except ValueError:
            return [1, 0]
    if isinstance(v, list):
        return [6, 0, [canon(x, rt, shape) for x in v]]
    if isinstance(v, tuple):
        return [6, 1, [canon(x, rt, shape) for x in v]]
    if isinstance(v, dict):
        return [6, 2, [[6, 1, [canon(k, rt, shape), canon(x, rt, shape)]] for k, x in v.items()]]
    d = getattr(type(v), "_d", None)
    if d is not None:
        return [5, d]
    if isinstance(v, type):
        return [4, type_id(v, rt)]
    if isinstance(v, (types.FunctionType, types.BuiltinFunctionType, types.MethodType, types.LambdaType)) or (callable(v) and type(v).__name__ != "K"):
        return [5, 0]
    return [5, 99]


def type_id(t, rt):
    if t in TYPE_IDS:
        return TYPE_IDS[t]
    d = getattr(t, "_d", None)
    if d is not None:
        return 10 + d
    if t is rt.Trig:
        return 90
    return 99


def exc_kind(e):
    from ovld.utils import UsageError
    if isinstance(e, UsageError):
        return "usage"
    if isinstance(e, SyntaxError):
        return "syntax"
    if isinstance(e, (UserErr, AttributeError, IndexError, KeyError)):
        return "user"
    if isinstance(e, NameError):
        return "name"
    if isinstance(e, TypeError):
        return "type"
    if isinstance(e, RecursionError):
        return "recursion"
    return type(e).__name__


MODEL_EXC = {0: "type", 1: "type", 2: "name", 3: "user", 4: "usage"}   # XNoMethod and XType are both TypeError in Python

# ---------------------------------------------------------------- scenario description
# a leaf: dict(pos=[type id, type id], kw={name id: (type id, required?)})
TYPE_SRC = {1: "int", 3: "type(None)", 6: "list", 7: "tuple", 8: "dict"}


def type_src(t):
    if t in TYPE_SRC:
        return TYPE_SRC[t]
    if t >= 11:
        return f"D{t - 10}"
    raise ValueError(t)


DEFAULT_LEAVES = [
    dict(pos=[1, 1], kw={}),
    dict(pos=[1, 6], kw={31: (1, False)}),
    dict(pos=[6, 1], kw={31: (1, False), 32: (6, False)}),
    dict(pos=[7, 1], kw={32: (7, True)}),
    dict(pos=[1, 7], kw={31: (7, False)}),
    dict(pos=[6, 6], kw={}),
    dict(pos=[3, 1], kw={}),
    dict(pos=[12, 1], kw={31: (1, False)}),
    dict(pos=[7, 7], kw={}),
    dict(pos=[1, 3], kw={}),
]


def model_table(leaves, nid, code):
    """rows (function id, key, leaf id) of the model's table: exact types; every subset of the optional keyword-only
    parameters in every order; the same again behind the caller's code object (call_next from M, which is not a
    candidate for these argument types, is a fresh lookup)"""
    rows = []
    for c, lf in enumerate(leaves):
        req = [k for k, (t, r) in lf["kw"].items() if r]
        opt = [k for k, (t, r) in lf["kw"].items() if not r]
        for n in range(len(opt) + 1):
            for sub in itertools.combinations(opt, n):
                for perm in itertools.permutations(list(sub) + req):
                    key = [[1, t] for t in lf["pos"]] + [[2, [1, k], lf["kw"][k][0]] for k in perm]
                    rows.append([nid, key, c])
                    rows.append([nid, [[0, code]] + key, c])
    return rows


def module_source(sc):
    """sc: dict(method=bool, leaves=[...], m_src=str (the def of M, indented for its place, decorated with @mark),
    prelude=str)"""
    ind = "    " if sc["method"] else ""
    lines = []
    if sc.get("prelude"):
        lines.append(sc["prelude"])
    if sc["method"]:
        lines.append("class K(OvldBase):")
    slf = "self, " if sc["method"] else ""
    for c, lf in enumerate(sc["leaves"]):
        params = [f"v10: {type_src(lf['pos'][0])}", f"v11: {type_src(lf['pos'][1])}"]
        if lf["kw"]:
            params.append("*")
            for k, (t, r) in lf["kw"].items():
                params.append(f"{RL.ident(k)}: {type_src(t)}" + ("" if r else " = MISSING_KW"))
        kws = ", ".join(f"{RL.ident(k)}={RL.ident(k)}" for k in lf["kw"])
        if not sc["method"]:
            lines.append("@ovld")
        lines.append(f"{ind}def fself({slf}{', '.join(params)}):")
        tup = "(self, v10, v11)" if sc["method"] else "(v10, v11)"
        lines.append(f"{ind}    return LEAF({c}, {tup}, dict({kws}))")
    lines.append(sc["m_src"])
    return "\n".join(lines) + "\n"


class Missing:
    def __repr__(self):
        return "MISSING_KW"


def leaf_factory(rt, missing):
    def LEAF(c, args, kwargs):
        return rt.leaf(c, args, {k: v for k, v in kwargs.items() if v is not missing})
    return LEAF


def base_globals(rt, sc):
    missing = Missing()
    g = {"eff": rt.eff, "Trig": rt.Trig, "LEAF": leaf_factory(rt, missing), "MISSING_KW": missing, "UserErr": UserErr,
         "__name__": "c09_scenario"}
    for d in range(1, 8):
        g[f"D{d}"] = rt.D(d)
    for i, enc in sc.get("globals", {}).items():
        g[RL.ident(int(i))] = decode_value(enc, rt)
    return g


def decode_value(enc, rt):
    t = enc[0]
    if t == 0:
        return enc[1]
    if t == 1:
        return RL.ident(enc[1])
    if t == 2:
        return None
    if t == 3:
        return bool(enc[1])
    if t == 5:
        return rt.D(enc[1])()
    if t == 6:
        items = [decode_value(x, rt) for x in enc[2]]
        if enc[1] == 0:
            return items
        if enc[1] == 1:
            return tuple(items)
        return {k: v for k, v in items}
    raise ValueError(enc)


class Outcome:
    def __init__(self):
        self.kind = None      # "value" | exception kind | "build:<kind>"
        self.value = None
        self.log = None
        self.calls = None
        self.tb = None        # [(basename, lineno)] inside the scenario module, innermost last
        self.msg = ""
        self.rep = None

    def as_list(self):
        return [self.kind, self.value, self.log, self.calls]


def stable_repr(v):
    import re
    return re.sub(r"0x[0-9a-f]+", "0x", repr(v))[:400]


def tb_lines(e, path):
    out = []
    for fs in traceback.extract_tb(e.__traceback__):
        if fs.filename == path:
            out.append(fs.lineno)
    return out


def run_scenario(sc, workdir):
    """-> (registered Outcome, as-written Outcome, info)"""
    from vlib import use_repo
    use_repo()
    import ovld as OV
    src = module_source(sc)
    path = os.path.join(workdir, f"c09_{abs(hash(src)) % 10**12}.py")
    with open(path, "w") as f:
        f.write(src)
    linecache.checkcache(path)
    code = compile(src, path, "exec")
    arg2 = sc.get("arg2", [0, 5])

    # ---- run 1: the real library
    reg = Outcome()
    rt1 = Runtime()
    g1 = base_globals(rt1, sc)
    marks1 = []
    g1.update({"ovld": OV.ovld, "OvldBase": OV.OvldBase, "recurse": OV.recurse, "call_next": OV.call_next,
               "rec": OV.recurse, "mark": lambda fn: (marks1.append(fn), fn)[1],
               "REGISTER": lambda f, fn: f.register(fn)})
    real_f = None
    inst1 = None
    info = {"path": path, "src": src, "rec_syms": None, "cn_syms": None, "anal": None}
    try:
        exec(code, g1)
        if marks1:
            from ovld.recode import _search_names
            fn = marks1[-1]
            ov = (g1["K"].fself if sc["method"] else g1["fself"]).__ovld__
            info["rec_syms"] = list(_search_names(fn.__code__, (OV.recurse, ov, ov.dispatch), fn.__globals__, fn.__closure__))
            info["cn_syms"] = list(_search_names(fn.__code__, (OV.call_next,), fn.__globals__, fn.__closure__))
            info["anal"] = ov.analyze_arguments()
        if sc["method"]:
            inst1 = g1["K"]()
            real_f = inst1.fself
            g1["K"].fself.__ovld__.ensure_compiled()
        else:
            real_f = g1["fself"]
            real_f.__ovld__.ensure_compiled()
    except BaseException as e:   # build-time failure (SyntaxError, UsageError, ...)
        reg.kind = "build:" + exc_kind(e)
        reg.msg = f"{type(e).__name__}: {e}"[:200]
        reg.log, reg.calls = list(rt1.log), rt1.calls
        real_f = None
    if real_f is not None:
        rt1.log.clear()
        rt1.calls = 0
        try:
            v = real_f(rt1.Trig(), decode_value(arg2, rt1), **{k: decode_value(e, rt1) for k, e in sc.get("call_kw", {}).items()})
            if inspect.isgenerator(v):
                v = list(v)
            reg.kind, reg.value, reg.rep = "value", canon(v, rt1), stable_repr(v)
        except BaseException as e:
            reg.kind, reg.msg, reg.tb = exc_kind(e), f"{type(e).__name__}: {e}"[:200], tb_lines(e, path)
        reg.log, reg.calls = list(rt1.log), rt1.calls

    # ---- run 2: the source as written, names bound to plain callables of the documented meaning.
    # The documented callables call a *separately built* real function whose M is a stub that is never reached
    # (recurse / call_next are only ever applied to non-Trigger arguments in these scenarios).
    asw = Outcome()
    rt2 = Runtime()
    g2 = base_globals(rt2, sc)
    target = build_target(sc, rt2, workdir, OV)
    marks2 = []

    def passthrough(fn=None, **kw):
        if fn is None:
            return lambda f: f
        return fn

    bound = {}

    def documented(*a, **k):
        f = target["f"] if not sc["method"] else getattr(bound["self"], "fself")
        return f(*a, **k)

    g2.update({"ovld": passthrough, "OvldBase": object, "recurse": documented, "call_next": documented, "rec": documented,
               "mark": lambda fn: (marks2.append(fn), fn)[1], "REGISTER": lambda f, fn: None})
    try:
        exec(code, g2)
        rt2.log.clear()
        rt2.calls = 0
        m_plain = marks2[-1]
        if not sc["method"]:
            g2["fself"] = documented
        else:
            # the function's own name inside a class body is not a global; K.fself in the as-written run is the last def
            pass
        bound["self"] = target["inst"]
        try:
            ckw = {k: decode_value(e, rt2) for k, e in sc.get("call_kw", {}).items()}
            if sc["method"]:
                v = m_plain(target["inst"], rt2.Trig(), decode_value(arg2, rt2), **ckw)
            else:
                v = m_plain(rt2.Trig(), decode_value(arg2, rt2), **ckw)
            if inspect.isgenerator(v):
                v = list(v)
            asw.kind, asw.value, asw.rep = "value", canon(v, rt2), stable_repr(v)
        except BaseException as e:
            asw.kind, asw.msg, asw.tb = exc_kind(e), f"{type(e).__name__}: {e}"[:200], tb_lines(e, path)
    except BaseException as e:
        asw.kind, asw.msg = "build:" + exc_kind(e), f"{type(e).__name__}: {e}"[:200]
    asw.log, asw.calls = list(rt2.log), rt2.calls
    return reg, asw, info


def build_target(sc, rt, workdir, OV):
    """the real overloaded function the documented callables forward to: same leaves, M replaced by a stub"""
    sc2 = dict(sc)
    ind = "    " if sc["method"] else ""
    slf = "self, " if sc["method"] else ""
    dec = "" if sc["method"] else "@ovld\n"
    sig = sc.get("stub_sig", "v10: Trig, v11: object")
    sc2["m_src"] = f"{dec}{ind}def fself({slf}{sig}):\n{ind}    raise AssertionError('stub reached')"
    sc2["prelude"] = ""
    src = module_source(sc2)
    path = os.path.join(workdir, f"c09_t_{abs(hash(src)) % 10**12}.py")
    with open(path, "w") as f:
        f.write(src)
    g = base_globals(rt, sc)
    g.update({"ovld": OV.ovld, "OvldBase": OV.OvldBase, "recurse": OV.recurse, "call_next": OV.call_next})
    exec(compile(src, path, "exec"), g)
    if sc["method"]:
        inst = g["K"]()
        return {"f": None, "inst": inst}
    return {"f": g["fself"], "inst": None}


# ---------------------------------------------------------------- classifiers of the known findings (on encodings)
def walk(e, fn, ctx):
    """pre-order walk with context dict(iter=bool)"""
    fn(e, ctx)
    t = e[0]
    if t == 2:
        walk(e[1], fn, ctx)
    elif t == 3:
        walk(e[2], fn, ctx); walk(e[3], fn, ctx)
    elif t in (4, 10, 12):
        for x in e[-1]:
            walk(x, fn, ctx)
    elif t == 5:
        for x in e[1:]:
            walk(x, fn, ctx)
    elif t == 6:
        walk(e[1], fn, dict(ctx, func=True))
        for _, a in e[2]:
            walk(a, fn, ctx)
        for _, v in e[3]:
            walk(v, fn, ctx)
    elif t in (7, 8, 11):
        walk(e[2], fn, ctx)
    elif t == 9:
        walk(e[1], fn, ctx)
        walk(e[3], fn, dict(ctx, iter=True))
        for c in e[4]:
            walk(c, fn, ctx)
    elif t == 13:
        walk(e[1], fn, ctx); walk(e[2], fn, ctx)


def classify(body, params):
    """which known-finding classes (and other reasons to be outside the theorem's domain) a body falls in"""
    is_method, cx, posnames, rs, cs, aliases = params[0], params[1], params[2], params[3], params[4], [a[0] for a in params[5]]
    rs = rs[1] if rs[0] else None
    cs = cs[1] if cs[0] else None
    pos = {p[1] for p in posnames if p[0]}
    out = set()

    def is_user(n, i):
        return n[0] == 0 and n[1] == i

    def binder(n):
        if n[0] != 0:
            out.add("KF-26")
        elif n[1] == rs or n[1] == cs or n[1] in aliases:
            out.add("KF-26")

    def visit(e, ctx):
        t = e[0]
        handled_func = False
        if t == 6:
            f = e[1]
            sym = f[1][1] if (f[0] == 1 and f[1][0] == 0) else None
            star = any(st for st, _ in e[2])
            if sym is not None and sym in (rs, cs) and sym is not None:
                if not star:
                    if ctx.get("iter"):
                        out.add("KF-11")
                    names = [k for k, _ in e[3]]
                    if any(k[0] == 0 for k in names):
                        out.add("KF-10")
                    if any(k[0] == 1 and k[1] in pos for k in names):
                        out.add("KF-09")
                    named = [k[1] for k in names if k[0] == 1]
                    if len(set(named)) != len(named):
                        out.add("dupkw")
                else:
                    if sym == cs:
                        out.add("KF-28")
                    elif is_method:
                        out.add("KF-27")
        if t == 1:
            n = e[1]
            if n[0] == 1:
                out.add("tmp")
            if n[0] == 0 and n[1] in aliases:
                out.add("KF-29")
            if ctx.get("func") is not True or ctx.get("func_handled") is not True:
                pass
        if t == 7:
            binder(e[1])
        if t == 8:
            for x in e[1]:
                binder(x)
        if t == 9:
            binder(e[2])

    def bare(e, ctx):
        # bare uses of the symbols: every Name occurrence except the func of a handled (unstarred) call
        t = e[0]
        if t == 6:
            f = e[1]
            sym = f[1][1] if (f[0] == 1 and f[1][0] == 0) else None
            star = any(st for st, _ in e[2])
            if sym in (rs, cs) and sym is not None and not star:
                ctx2 = dict(ctx)
                for _, a in e[2]:
                    bare(a, ctx2)
                for _, v in e[3]:
                    bare(v, ctx2)
                return
            if sym == cs and sym is not None and star:
                pass  # KF-28 recorded by visit
            elif sym == rs and sym is not None and star:
                pass  # the mangled function name: fine in functions, KF-27 in methods (recorded by visit)
            else:
                bare(f, ctx)
            for _, a in e[2]:
                bare(a, ctx)
            for _, v in e[3]:
                bare(v, ctx)
            return
        if t == 1:
            n = e[1]
            if n[0] == 0 and n[1] == cs and cs is not None:
                out.add("cn-bare")
            if n[0] == 0 and n[1] == rs and rs is not None and is_method:
                out.add("KF-27")
            return
        if t == 2:
            bare(e[1], ctx)
        elif t == 3:
            bare(e[2], ctx); bare(e[3], ctx)
        elif t in (4, 10, 12):
            for x in e[-1]:
                bare(x, ctx)
        elif t == 5:
            for x in e[1:]:
                bare(x, ctx)
        elif t in (7, 8, 11):
            bare(e[2], ctx)
        elif t == 9:
            bare(e[1], ctx); bare(e[3], ctx)
            for c in e[4]:
                bare(c, ctx)
        elif t == 13:
            bare(e[1], ctx); bare(e[2], ctx)

    for s in body:
        e = s[-1]
        if s[0] == 1:
            binder(s[1])
        walk(e, visit, {})
        bare(e, {})
    return out
