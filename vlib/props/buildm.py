"""Shared machinery of C18 / C19 (component Build): scenarios (definition lists + operations), the real library driven
through its public API, the encoding for the extracted model (opcodes 60-62), a sys.settrace line tracer with
source-anchored markers (which visible step of the build / the resolution has completed), a failure injector and a
cooperative line-level scheduler."""
import os, re, sys, ast, json, threading, linecache, itertools, hashlib
from .. import use_repo, REPO_SRC, model

use_repo()
import ovld  # noqa: E402
from ovld import call_next  # noqa: E402
from ovld.types import class_check  # noqa: E402

LIB = os.path.dirname(os.path.abspath(ovld.__file__))


# ----------------------------------------------------------------------------------------------- class universe
class A: pass
class B(A): pass
class C(B): pass
class D: pass


class HookFault(Exception):
    """raised by a user hook on its n-th call"""


class Hooks:
    """user type hooks (a class_check predicate and a __type_order__ hook) that count their calls and raise on the n-th"""
    def __init__(self):
        self.count = 0
        self.armed = None
        self.on_raise = None

    def tick(self):
        self.count += 1
        if self.armed is not None and self.count == self.armed:
            self.armed = None
            if self.on_raise:
                self.on_raise()
            raise HookFault(f"hook call {self.count}")


HOOKS = Hooks()


class HO:
    """a class with an order hook (typeorder consults it)"""
    @classmethod
    def __type_order__(cls, other):
        HOOKS.tick()
        return NotImplemented


def _is_d(cls):
    HOOKS.tick()
    return cls is D


CHK = class_check(_is_d)

TYPES = {"object": object, "int": int, "bool": bool, "str": str, "float": float, "A": A, "B": B, "C": C, "D": D, "HO": HO, "CHK": CHK}
KEYVALS = {"int": 1, "bool": True, "str": "s", "float": 2.0, "A": A(), "B": B(), "C": C(), "D": D(), "HO": HO(), "list": []}
KEYCLS = {k: type(v) for k, v in KEYVALS.items()}


def rank_of(m, keyname):
    """the harness's own reading of the resolution order for single-argument methods over these classes:
    applicable iff the key's class is a subclass of the annotation; higher priority first, then the more specific class
    (longer MRO); class_check types sit just above object.  Validated against the library per scenario (chain_valid)."""
    t = TYPES[m["t"]]
    kc = KEYCLS[keyname]
    if m["t"] == "CHK":
        if kc is not D:
            return None
        depth = 3
    else:
        if not issubclass(kc, t):
            return None
        depth = 2 * len(t.__mro__)
    return 1 + depth + 100 * (m.get("prio", 0) + 2)


def py_chain(scn, regs, keyname):
    """chain_rk in Python: groups of labels by decreasing rank (for validation only)"""
    gs = {}
    for l in regs:
        r = rank_of(scn["methods"][l], keyname)
        if r is not None:
            gs.setdefault(r, []).append(l)
    return [sorted(gs[r]) for r in sorted(gs, reverse=True)]


# ----------------------------------------------------------------------------------------------- scenario -> real objects
TR = threading.local()
_uid = itertools.count()


def method_source(i, m):
    kind = m.get("kind", "ok")
    ann = f"T{i}"
    if kind == "conflict":
        head = f"def m{i}(y: {ann}, x: {ann} = None):"
    else:
        head = f"def m{i}(x: {ann}):"
    lines = [head]
    if kind == "bare":
        lines.append("    g = call_next")
    lines.append(f"    TR.t.append({i})")
    if m.get("body") == "next" and kind != "conflict":
        lines.append("    return call_next(x)")
    else:
        lines.append(f"    return {i}")
    return "\n".join(lines) + "\n"


def make_functions(scn):
    """each method compiled from its own generated source under a linecache-registered file name (recode reads it);
    kind 'nosrc' is compiled under a name inspect cannot resolve"""
    fns = []
    tag = next(_uid)
    for i, m in enumerate(scn["methods"]):
        src = method_source(i, m)
        fname = "<bm:%s>" % hashlib.sha1(src.encode()).hexdigest()[:16] if m.get("kind") != "nosrc" else f"<bm-nosrc:{tag}:{i}>"
        ns = {"call_next": call_next, "TR": TR, f"T{i}": TYPES[m["t"]], "__name__": f"bm{tag}"}
        if m.get("kind") != "nosrc":
            linecache.cache[fname] = (len(src), None, src.splitlines(True), fname)
        exec(compile(src, fname, "exec"), ns)
        fns.append(ns[f"m{i}"])
    # one shared globals dict per scenario would also share the ___MAP global; separate dicts = separate modules.
    # The library keys that global by Ovld id, so both layouts behave alike; we use one dict per scenario:
    shared = {"call_next": call_next, "TR": TR, "__name__": f"bm{tag}"}
    out = []
    import types as _t
    for i, f in enumerate(fns):
        shared[f"T{i}"] = TYPES[scn["methods"][i]["t"]]
        g = _t.FunctionType(f.__code__, shared, f.__name__, f.__defaults__, f.__closure__)
        g.__annotations__ = dict(f.__annotations__)
        g.__kwdefaults__ = f.__kwdefaults__
        out.append(g)
    return out


CONFIG_PREFIXES = ("Argument '", "ovld does not support", "Some, but not all")


def exc_kind(e):
    from ovld.utils import UsageError
    if isinstance(e, (InjectedError, KeyboardInterrupt)):
        return "injected"
    if isinstance(e, HookFault):
        return "hook"
    if isinstance(e, UsageError) or isinstance(e, OSError):
        return "config"
    if isinstance(e, KeyError):
        return "internal"
    if isinstance(e, TypeError):
        msg = str(e)
        if msg.startswith("No method"):
            return "nomethod"
        if msg.startswith("Ambiguous resolution"):
            return "ambig"
        if msg.startswith(CONFIG_PREFIXES):
            return "config"
    return "other:" + type(e).__name__


class InjectedError(RuntimeError):
    pass


class Impl:
    """one overloaded function of the real library, built from a scenario"""
    def __init__(self, scn, defs=None):
        self.scn = scn
        self.fns = make_functions(scn)
        self.ov = ovld.Ovld()
        for i in (scn["defs0"] if defs is None else defs):
            self.ov.register(self.fns[i], priority=scn["methods"][i].get("prio", 0))
        self.f = self.ov.dispatch

    def do(self, op):
        kind, arg = op
        TR.t = []
        try:
            if kind == "call":
                self.f(KEYVALS[self.scn["keys"][arg]])
            elif kind == "reg":
                self.ov.register(self.fns[arg], priority=self.scn["methods"][arg].get("prio", 0))
            else:
                self.f.unregister(self.fns[arg])
            return [list(TR.t), "ret"]
        except BaseException as e:  # noqa
            return [list(TR.t), exc_kind(e)]

    def defs(self):
        fl = list(self.ov.defns.values())
        return [self.fns.index(f) for f in fl]


def is_valid(m):
    return m.get("kind", "ok") == "ok"


_fresh_cache = {}


def fresh_outcome(scn, defs, key):
    """what a freshly built function over the complete definition list does on its first call with this key"""
    ck = (json.dumps(scn["methods"]), tuple(defs), scn["keys"][key])
    if ck not in _fresh_cache:
        _fresh_cache[ck] = Impl(scn, defs).do(("call", key))
    return _fresh_cache[ck]


def chain_valid(scn):
    """the chain data sent to the model agrees with MultiTypeMap.mro of the library on every prefix of the valid methods"""
    valid = [i for i in range(len(scn["methods"])) if is_valid(scn["methods"][i])]
    for n in range(1, len(valid) + 1):
        regs = valid[:n]
        im = Impl(scn, regs)
        try:
            im.ov.compile()
        except Exception:
            return False
        code2label = {}
        for h in im.ov.map.type_tuples:
            for i in regs:
                if h.__code__.co_filename == im.fns[i].__code__.co_filename and h.__code__.co_firstlineno == im.fns[i].__code__.co_firstlineno:
                    code2label[h] = i
        for key in scn["keys"]:
            kc = KEYCLS[key]
            try:
                groups = im.ov.map.mro((kc,))
            except Exception:
                return False
            real = [sorted(code2label[c.handler] for c in g) for g in groups]
            if real != py_chain(scn, regs, key):
                return False
    return True


# ----------------------------------------------------------------------------------------------- model encoding
OPC = {"call": 0, "reg": 1, "unreg": 2}
RK = {0: "ret", 1: "config", 2: "nomethod", 3: "ambig", 4: "internal"}


def enc_methods(scn):
    rows = []
    for m in scn["methods"]:
        kind = {"ok": 0, "conflict": 1}.get(m.get("kind", "ok"), 2)
        body = 1 if m.get("body") == "next" else 0
        recoded = 1 if (body and kind == 0) else 0
        ranks = []
        for ki, key in enumerate(scn["keys"]):
            r = rank_of(m, key)
            if r is not None:
                ranks.append([ki, r])
        rows.append([kind, recoded, body, ranks])
    return rows


def enc_ops(ops):
    return [[OPC[k], a] for k, a in ops]


def dec_outcome(x):
    if x == -1:
        return None
    return [list(x[0]), RK[x[1]]]


def inject_case(scn, setup, trigger, afterops):
    return [60, enc_methods(scn), list(scn["defs0"]), enc_ops(setup), [OPC[trigger[0]], trigger[1]], enc_ops(afterops)]


def crosscheck_extraction(cases):
    """the extracted model and Coq's own evaluator (vm_compute) must agree on the same raw cases"""
    return model.run_cases(cases) == model.run_in_coq(cases)


def model_inject(scn, setup, trigger, afterops):
    case = inject_case(scn, setup, trigger, afterops)
    rows = model.run_cases([case])[0]
    out = []
    for pc, flags, outs, res in rows:
        out.append({"pc": pc, "flags": flags, "after": [dec_outcome(o) for o in outs], "result": dec_outcome(res)})
    return out


def model_sched(scn, setup, tops, schedule, afterops):
    case = [61, enc_methods(scn), list(scn["defs0"]), enc_ops(setup), enc_ops(tops), list(schedule), enc_ops(afterops)]
    r = model.run_cases([case])[0]
    return {"threads": [dec_outcome(o) for o in r[0]], "after": [dec_outcome(o) for o in r[1]], "pcs": r[2]}


def model_reach(scn, setup, tops, bound, afterops):
    case = [62, enc_methods(scn), list(scn["defs0"]), enc_ops(setup), enc_ops(tops), bound, enc_ops(afterops)]
    r = model.run_cases([case])[0]
    seen = set()
    for th, af in r:
        seen.add(json.dumps([[dec_outcome(o) for o in th], [dec_outcome(o) for o in af]]))
    return seen


def visible_counts(scn, rows, trigger):
    """v(n) = number of steps with a visible effect on the shared state executed before row n (see markers below)"""
    v = 0
    out = []
    for r in rows:
        out.append(v)
        pc = r["pc"]
        code = pc[0]
        if code == 0 and trigger[0] != "call":
            v += 1                                   # _defns updated
        elif code in (11, 13, 16, 17, 21):
            v += 1                                   # new table / swap / register / flag / candidate codes
        elif code == 15:
            m = scn["methods"][pc[1]]
            if m.get("body") == "next" and is_valid(m):
                v += 1                               # ___MAP global re-pointed by recode
        elif code == 22 and pc[1] > 0:
            v += 1                                   # one dictionary write of resolve
    return out


# ----------------------------------------------------------------------------------------------- markers
# Visible steps of the build / the resolution, anchored in the SOURCE TEXT of the library (not in line numbers):
MARKER_PATTERNS = [
    ("core.py", r"self\._defns\[sig\]\s*=\s*fn", "DEFS"),
    ("core.py", r"self\._defns\s*=\s*\{\s*sig", "DEFS"),
    ("core.py", r"self\.map\s*=\s*MultiTypeMap\(", "NEWMAP"),
    ("core.py", r"self\.dispatch\.__code__\s*=", "SWAP"),
    ("core.py", r"self\._compiled\s*=\s*True", "FLAG"),
    ("recode.py", r"new_fn\.__globals__\[map_mangled\]\s*=", "CNMAP"),
    ("typemap.py", r"^\s*s\.add\(handler\)", "REG"),
    ("typemap.py", r"self\.all\[obj_t_tup\]\s*=", "ALL"),
    ("typemap.py", r"^\s*target\[tup\]\s*=\s*value", "WRITE"),      # since the repair of KF-20: one loop applies the collected writes
    ("typemap.py", r"^\s*self\[tup\]\s*=\s*func", "WRITE"),         # before it: written where they are computed
    ("typemap.py", r"^\s*self\.errors\[tup\]\s*=", "WRITE"),
]
REQUIRED_KINDS = ["DEFS", "NEWMAP", "SWAP", "FLAG", "CNMAP", "REG", "ALL", "WRITE"]

_marker_tables = {}


def marker_table():
    """(file, line) -> (kind, span) for marker statements, and (file, line) -> span for every statement"""
    if LIB in _marker_tables:
        return _marker_tables[LIB]
    starts, spans, missing = {}, {}, []
    for fn in sorted({f for f, _, _ in MARKER_PATTERNS}):
        path = os.path.join(LIB, fn)
        src = open(path).read()
        lines = src.splitlines()
        tree = ast.parse(src)
        stmts = []
        for node in ast.walk(tree):
            if isinstance(node, ast.stmt):
                body = getattr(node, "body", None)
                if isinstance(body, list) and body and isinstance(body[0], ast.stmt):
                    end = max(node.lineno, body[0].lineno - 1)
                else:
                    end = node.end_lineno
                stmts.append((node.lineno, end))
        for (a, b) in stmts:
            for ln in range(a, b + 1):
                cur = spans.get((path, ln))
                if cur is None or (b - a) < (cur[1] - cur[0]):
                    spans[(path, ln)] = (a, b)
        for (f, pat, kind) in MARKER_PATTERNS:
            if f != fn:
                continue
            hit = False
            for (a, b) in stmts:
                if re.search(pat, lines[a - 1]):
                    starts[(path, a)] = (kind, (a, b))
                    hit = True
    found = {k for (k, _) in starts.values()}
    missing = [k for k in REQUIRED_KINDS if k not in found]
    _marker_tables[LIB] = (starts, spans, missing)
    return _marker_tables[LIB]


def is_lib_file(fn):
    return fn.startswith(LIB) or fn.startswith("<ovld:")


class Tracer:
    """sys.settrace tracer over the library's lines.  Counts line events, tracks which marker statements have started /
    completed, optionally raises an exception at event number `inject_at` (before that line executes)."""
    def __init__(self, inject_at=None, exc=None, keep_events=False, inject_when=None):
        self.starts, self.spans, self.missing = marker_table()
        self.n = 0
        self.depth = 0
        self.inject_at = inject_at
        self.inject_when = inject_when   # ("KIND", n): at the first event at which n markers of that kind have completed
        self.exc = exc
        self.fired = None
        self.done = []          # kinds of completed markers, in order
        self.inflight = []      # (kind, file, span, depth)
        self.started = []       # kinds of started markers, in order
        self.keep = keep_events
        self.events = []
        self.stack_at_fire = None
        self.snap = None
        self.on_line = None

    def snapshot(self):
        return {"done": list(self.done), "inflight": [x[0] for x in self.inflight], "started": list(self.started), "event": self.n}

    def glob(self, frame, event, arg):
        if is_lib_file(frame.f_code.co_filename):
            self.depth += 1
            return self.loc
        return None

    def loc(self, frame, event, arg):
        if event == "return":
            self.depth -= 1
            return self.loc
        if event != "line":
            return self.loc
        fn, ln, d = frame.f_code.co_filename, frame.f_lineno, self.depth
        # completion of in-flight markers
        if self.inflight:
            keep = []
            for (kind, f, span, md) in self.inflight:
                if d < md or (d == md and not (f == fn and span[0] <= ln <= span[1])):
                    self.done.append(kind)
                else:
                    keep.append((kind, f, span, md))
            self.inflight = keep
        k = self.n
        self.n += 1
        if self.keep:
            self.events.append((os.path.basename(fn), ln, frame.f_code.co_name, d))
        if self.on_line is not None:
            self.on_line(self)
        hit = self.inject_at is not None and k == self.inject_at
        if self.inject_when is not None and self.fired is None:
            hit = self.done.count(self.inject_when[0]) >= self.inject_when[1]
        if hit and self.fired is None:
            self.fired = (os.path.basename(fn), ln, frame.f_code.co_name)
            names = []
            fr = frame
            while fr is not None:
                if is_lib_file(fr.f_code.co_filename):
                    names.append(fr.f_code.co_name)
                fr = fr.f_back
            self.stack_at_fire = names
            self.snap = self.snapshot()
            raise self.exc("injected")
        st = self.starts.get((fn, ln))
        if st is not None:
            kind, span = st
            if not any(f == fn and sp == span and md == d for (_, f, sp, md) in self.inflight):
                self.inflight.append((kind, fn, span, d))
                self.started.append(kind)
        return self.loc

    def run(self, thunk):
        old = sys.gettrace()
        sys.settrace(self.glob)
        try:
            return thunk()
        finally:
            sys.settrace(old)


# ----------------------------------------------------------------------------------------------- cooperative scheduler
SEG_KINDS = {"STEP": 0, "FIRST": 1, "END": 2, "DEFS": 5, "NEWMAP": 11, "SWAP": 13, "CNMAP": 15, "REG": 16, "FLAG": 17, "ALL": 21, "WRITE": 22}


class Sched:
    """Runs one operation per thread on the same function; every executed library line of every thread is a scheduling
    point: a thread only runs while the controller waits for it, and parks at the first line event at which its current
    target is reached (per-thread semaphores), so a schedule is replayed deterministically.  Segments: [tid, kind, n] =
    thread tid runs until n more marker statements of that kind have completed in it (FIRST: until its first line event,
    i.e. just after the call read the entry point; STEP: n lines; END: to completion)."""
    def __init__(self, im, ops, timeout=20.0):
        self.im = im
        self.ops = ops
        n = len(ops)
        self.sems = [threading.Semaphore(0) for _ in range(n)]
        self.ctrl = threading.Semaphore(0)
        self.done = [False] * n
        self.results = [None] * n
        self.tracers = [Tracer() for _ in range(n)]
        self.timeout = timeout
        self.target = [None] * n
        self.threads = []
        for i in range(n):
            self.tracers[i].on_line = self._make_yield(i)
            t = threading.Thread(target=self._body, args=(i,), daemon=True)
            self.threads.append(t)
            t.start()

    def _make_yield(self, i):
        def y(tr):
            tg = self.target[i]
            if tg is not None and not tg(tr):
                return
            self.ctrl.release()
            if not self.sems[i].acquire(timeout=self.timeout):
                raise SystemExit
        return y

    def _body(self, i):
        if not self.sems[i].acquire(timeout=self.timeout):
            return
        tr = self.tracers[i]
        sys.settrace(tr.glob)
        try:
            self.results[i] = self.im.do(self.ops[i])
        finally:
            sys.settrace(None)
            self.done[i] = True
            self.ctrl.release()

    def _go(self, i, target):
        if self.done[i]:
            return
        self.target[i] = target
        self.sems[i].release()
        if not self.ctrl.acquire(timeout=self.timeout):
            raise RuntimeError("scheduler: thread did not come back")

    def segment(self, tid, kind, n):
        tr = self.tracers[tid]
        if self.done[tid] or n <= 0:
            return
        if kind == "FIRST":
            if tr.n < 1:
                self._go(tid, lambda t: True)
        elif kind == "END":
            self._go(tid, lambda t: False)
        elif kind == "STEP":
            # the thread is parked AT event number tr.n - 1 (or has not started); n more lines execute
            goal = tr.n + n
            self._go(tid, lambda t: t.n >= goal)
        else:
            goal = tr.done.count(kind) + n
            if tr.n < 1:
                self._go(tid, lambda t: True)
            if tr.done.count(kind) < goal:
                self._go(tid, lambda t: t.done.count(kind) >= goal)

    def run(self, segments):
        for tid, kind, n in segments:
            self.segment(tid, kind, n)
        for i in range(len(self.ops)):
            self.segment(i, "END", 1)
        for t in self.threads:
            t.join(self.timeout)
        return self.results


def enc_segments(segments):
    return [[t, SEG_KINDS[k], n] for t, k, n in segments]


def model_segments(scn, setup, tops, segments, afterops):
    case = [61, enc_methods(scn), list(scn["defs0"]), enc_ops(setup), enc_ops(tops), enc_segments(segments), enc_ops(afterops)]
    r = model.run_cases([case])[0]
    return {"threads": [dec_outcome(o) for o in r[0]], "after": [dec_outcome(o) for o in r[1]]}


def impl_segments(scn, setup, tops, segments, afterops):
    im = Impl(scn)
    for o in setup:
        im.do(tuple(o))
    sc = Sched(im, [tuple(o) for o in tops])
    res = sc.run([tuple(s) for s in segments])
    after = [im.do(tuple(o)) for o in afterops]
    return {"threads": res, "after": after, "lines": [t.n for t in sc.tracers]}
