(* C17 — overloaded methods in classes merge per class and inherit without leaking.
   Theorems only; every proof is [exact <lemma>] or a witness checked by vm_compute; Print Assumptions under each.
   Model: Model/ClassDict.v on top of Model/Graph.v.  [cd_name g bases body]: what one class statement does for one
   method name -- [bases]: what getattr(base, name, None) gives for each base in order (nothing / plain function /
   overloaded function = graph node), [body]: the definitions of that name in the class body in order (plain def,
   @ovld def, @extend_super def) -- result: the new graph and the entry of the class dictionary, or the error raised.
   [pd_name]: the same for a class without the metaclass (plain mixin class).
   [Inv]: the invariant of every graph that can be built (C17_reachable_inv); [obs]: a function's observable (C16).
   self / recurse / call_next on the bound method are not the business of this model (entry point and rewriting: C03, C09);
   the correspondence run observes them (instance tags travel through call_next and recurse). *)
From Coq Require Import ZArith List Bool Arith.
Import ListNotations.
From OvldV Require Import Model.Graph Model.ClassDict Spec.Overlay Proofs.GraphTab Proofs.GraphBase Proofs.GraphInv
  Proofs.GraphProps Proofs.GraphStack Proofs.ClassDictBase Proofs.ClassDictProps Proofs.ClassDictMerge.

(* the hypothesis [Inv g] of the theorems below holds of every graph built by public operations and class statements *)
Theorem C17_reachable_inv :
  Inv [] /\ (forall g o, Inv g -> Inv (step_g g o)) /\
  (forall g bases body g' a, Inv g -> cd_name g bases body = COk g' a -> Inv g').
Proof. exact (conj Inv_nil (conj Inv_step Inv_cd_name)). Qed.
Print Assumptions C17_reachable_inv.

(* the same-signature rule of registration, as a stack: after registering regs = [(signature, method); ...] in order on an
   empty function, key (s, -j) holds the j-th most recent method registered for s, and nothing else is in the table *)
Theorem C17_pushdown_stack : forall regs, exists t, reg_all regs [] = Some t /\ forall k, t_get k t = stack_get k regs.
Proof. exact pushdown_stack. Qed.
Print Assumptions C17_pushdown_stack.

(* same-named definitions in one class body (no extend_super mark, no merged function inherited through __prepare__)
   form ONE new function whose table is the body's definitions registered in body order *)
Theorem C17_merge : forall g bases body, Inv g -> prepared_b bases = false -> merge_dom body = true ->
  exists g' n t, cd_name g bases body = COk g' (AOvld n false) /\ length g <= n /\
                 obs g' n = Some t /\ forall k, t_get k t = stack_get k (regs_of body).
Proof. exact merge. Qed.
Print Assumptions C17_merge.

(* [merge_dom] leaves out exactly the bodies that are refused with the explicit error "@ovld requires Ovld instance" *)
Theorem C17_merge_explicit_error : forall g bases d1 d2 r, prepared_b bases = false ->
  forallb (fun d => negb (is_ext d)) (d1 :: d2 :: r) = true ->
  merge_dom (d1 :: d2 :: r) = true \/ cd_name g bases (d1 :: d2 :: r) = CFail ENotOvld.
Proof. exact merge_or_error. Qed.
Print Assumptions C17_merge_explicit_error.

(* FULL STATEMENT (false of the faithful model, see C17_late_mark_refuted):
     whenever a definition of the body carries the extend_super mark, the class statement succeeds and the resulting
     function's table is the bases' inherited tables for that name, in base order, overlaid by the body's definitions.
   PROVED on the decidable domain [extend_dom] (the mark is on the FIRST definition of the name, and only there) with
   [prepared_b bases = false], for every successful class statement:
     - no base has the name: the marked function itself holds all the body's definitions (stack rule);
     - otherwise: a new function p whose table is, by the lookup rule of Spec/Overlay.v, the overlay of
       [table of base 1; ...; table of base n; table of the marked definition] by the table of the remaining definitions
       (a plain function of a base counts as a one-method table). *)
Theorem C17_extend_partial : forall g bases d1 rest g' a, Inv g -> attrs_valid g bases = true -> prepared_b bases = false ->
  extend_dom (d1 :: rest) = true -> cd_name g bases (d1 :: rest) = COk g' a ->
  (filter present bases = [] ->
     exists n t, a = AOvld n true /\ obs g' n = Some t /\ forall k, t_get k t = stack_get k (regs_of (d1 :: rest))) /\
  (filter present bases <> [] ->
     exists p t pts own, a = AOvld p false /\ obs g' p = Some t /\
       Forall2 (base_table g') (filter present bases) pts /\
       (forall k, t_get k own = stack_get k (regs_of rest)) /\
       forall k, t_get k t = overlay_get k (pts ++ [[((d_sig d1, 0%Z), d_label d1)]]) own).
Proof. exact extend. Qed.
Print Assumptions C17_extend_partial.

(* executing a class statement touches no function that existed before: every old node is literally unchanged,
   hence so is every old observable (bases, siblings, unrelated functions) *)
Theorem C17_no_leak : forall g bases body g' a, Inv g -> cd_name g bases body = COk g' a ->
  forall k, k < length g -> g_get g' k = g_get g k /\ obs g' k = obs g k.
Proof. exact no_leak. Qed.
Print Assumptions C17_no_leak.

Theorem C17_no_leak_plain : forall g body g' a, Inv g -> pd_name g body = COk g' a ->
  forall k, k < length g -> g_get g' k = g_get g k /\ obs g' k = obs g k.
Proof. exact no_leak_plain. Qed.
Print Assumptions C17_no_leak_plain.

(* KF-41 (fixed ef3dd84): [def f ...] followed by [@extend_super def f ...] used to die with AttributeError.
   Now, for every graph and every bases: the class statement succeeds and yields one new function holding both
   definitions -- the plain one as own method, the marked one as a mixin (so the plain one wins on an identical signature).
   (The bases' methods are still not collected in this situation: that is the open KF-42, below.) *)
Theorem C17_plain_then_mark : forall g bases d1 d2, Inv g -> prepared_b bases = false ->
  d_kind d1 = DPlain -> d_kind d2 = DExt ->
  exists g' p t, cd_name g bases [d1; d2] = COk g' (AOvld p false) /\ length g <= p /\ obs g' p = Some t /\
    forall k, t_get k t = overlay_get k [[((d_sig d2, 0%Z), d_label d2)]] [((d_sig d1, 0%Z), d_label d1)].
Proof. exact plain_then_mark. Qed.
Print Assumptions C17_plain_then_mark.

(* the old witness of KF-41 *)
Example C17_kf41_repaired :
  match cd_name [] [] [mkDef DPlain 0 1; mkDef DExt 1 2] with
  | COk g' (AOvld p false) => obs g' p = Some [((1, 0%Z), 2); ((0, 0%Z), 1)]
  | _ => False
  end.
Proof. vm_compute. reflexivity. Qed.

(* KF-42: the mark on a later definition is ignored: base function 0 has a method for signature 0, the subclass body is
   [@ovld def (sig 2); @extend_super def (sig 3)], and the resulting function has no method for signature 0 *)
Theorem C17_late_mark_refuted :
  exists ops bases body g' n t pt,
    cls_kf42 body = true /\ attrs_valid (run ops) bases = true /\ prepared_b bases = false /\
    cd_name (run ops) bases body = COk g' (AOvld n false) /\ obs g' n = Some t /\
    bases = [AOvld 0 false] /\ defns (length (run ops)) (run ops) 0 = Some pt /\
    t_get (0, 0%Z) pt = Some 1 /\ t_get (0, 0%Z) t = None.
Proof.
  exists [OCreate [] false; ORegister 0 0 1; ORegister 0 1 2], [AOvld 0 false], [mkDef DOvld 2 3; mkDef DExt 3 4].
  eexists. eexists. eexists. eexists. vm_compute. repeat split; reflexivity.
Qed.
Print Assumptions C17_late_mark_refuted.

(* ---------- non-vacuity ---------- *)
Example C17_domains_inhabited :
  let g := run [OCreate [] false; ORegister 0 0 1; ORegister 0 1 2; OCreate [] false; ORegister 1 4 9] in
  let bases := [AOvld 0 false; ANone; APlain 2 7] in
  let body := [mkDef DExt 1 5; mkDef DPlain 3 6; mkDef DOvld 3 8] in
  attrs_valid g bases = true /\ prepared_b bases = false /\ extend_dom body = true /\
  merge_dom [mkDef DPlain 0 1; mkDef DPlain 0 2; mkDef DOvld 1 3] = true /\
  match cd_name g bases body with
  | COk g' (AOvld p false) =>
      obs g' p = Some [((0, 0%Z), 1); ((1, 0%Z), 5); ((2, 0%Z), 7); ((3, 0%Z), 8); ((3, (-1)%Z), 6)]
  | _ => False
  end.
Proof. vm_compute. repeat split; reflexivity. Qed.
