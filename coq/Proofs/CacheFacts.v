(* CacheFacts.v — C04 / C20 on the MultiTypeMap state machine (Model/Cache.v). *)
From Coq Require Import ZArith List Bool Arith Lia.
Import ListNotations.
From OvldV Require Import Model.Order Model.Ty Model.Resolve Model.Cache Proofs.TyEq.

Lemma key_eqb_eq a b : key_eqb a b = true <-> a = b.
Proof.
  unfold key_eqb. rewrite andb_true_iff.
  rewrite (list_eqb_spec' ty_eqb ty_eqb_eq).
  rewrite (list_eqb_spec' (fun p q : nat * ty => Nat.eqb (fst p) (fst q) && ty_eqb (snd p) (snd q))).
  - destruct a, b; simpl. split; [intros [-> ->]; reflexivity | intros H; injection H; auto].
  - intros [n1 t1] [n2 t2]. simpl. rewrite andb_true_iff, Nat.eqb_eq, ty_eqb_eq.
    split; [intros [-> ->]; reflexivity | intros E; injection E; auto].
Qed.

Lemma qkey_eqb_eq a b : qkey_eqb a b = true <-> a = b.
Proof.
  unfold qkey_eqb. rewrite andb_true_iff, key_eqb_eq. destruct a as [ca ka], b as [cb kb]; simpl.
  destruct ca, cb; simpl; split; try (intros [H1 H2]; try discriminate).
  - apply Nat.eqb_eq in H1. congruence.
  - intros H. injection H as -> ->. split; [apply Nat.eqb_refl|reflexivity].
  - intros H; discriminate.
  - intros H; discriminate.
  - congruence.
  - intros H. injection H as ->. auto.
Qed.

Lemma qkey_eqb_refl q : qkey_eqb q q = true.
Proof. now apply qkey_eqb_eq. Qed.

Lemma assoc_q_cons {X} q q' (x : X) l :
  assoc_q q ((q', x) :: l) = if qkey_eqb q' q then Some x else assoc_q q l.
Proof. reflexivity. Qed.

Section Hier.
  Variable sub : nat -> nat -> bool.
  Variable hasm : nat -> nat -> bool.
  Variable chk : nat -> nat -> bool.
  Variable sub_fresh : nat -> bool.

  Notation mro := (mro sub hasm chk sub_fresh).
  Notation lookup := (lookup sub hasm chk sub_fresh).
  Notation write_chain := (write_chain).
  Notation get_plain := (get_plain sub hasm chk sub_fresh).
  Notation miss_plain := (miss_plain sub hasm chk sub_fresh).
  Notation getitem := (getitem sub hasm chk sub_fresh).

  (* write_chain never touches the method list, and only adds entries whose plain-key part is k *)
  Lemma write_chain_ms ranks p k st : cs_ms (write_chain ranks p k st) = cs_ms st.
  Proof.
    revert p st. induction ranks as [|g r IH]; intros p st; simpl; [reflexivity|].
    destruct g as [|c [|c2 t]]; simpl; try reflexivity. now rewrite IH.
  Qed.

  (* plain entries (caller = None) after write_chain started with a parent are the old ones *)
  Lemma write_chain_plain_some ranks p k k' st :
    assoc_q (mkQ None k') (cs_dict (write_chain ranks (Some p) k st)) = assoc_q (mkQ None k') (cs_dict st) /\
    assoc_q (mkQ None k') (cs_err (write_chain ranks (Some p) k st)) = assoc_q (mkQ None k') (cs_err st).
  Proof.
    revert p st. induction ranks as [|g r IH]; intros p st; simpl; [auto|].
    destruct g as [|c [|c2 t]]; simpl; auto.
    destruct (IH (m_id (c_m c)) (mkC (cs_ms st) ((mkQ (Some p) k, m_id (c_m c)) :: cs_dict st) (cs_err st) (cs_all st))) as [H1 H2].
    rewrite H1, H2. simpl. auto.
  Qed.

  (* the plain-key invariant: whatever the cache holds under a plain key is what a fresh table answers *)
  Definition PInv (ms : list meth) (st : cstate) : Prop :=
    cs_ms st = ms /\
    (forall k h, assoc_q (mkQ None k) (cs_dict st) = Some h -> lookup ms k = ORun h) /\
    (forall k g, assoc_q (mkQ None k) (cs_err st) = Some g -> lookup ms k = OAmbig g).

  Lemma PInv_init ms : PInv ms (cinit ms).
  Proof. repeat split; intros; discriminate. Qed.

  Lemma lookup_of_ranks ms k ranks :
    mro ms k = Ok ranks ->
    lookup ms k = match ranks with [] => ONoMethod | g :: _ => rank_outcome g end.
  Proof. intros H. unfold Resolve.lookup. now rewrite H. Qed.

  Lemma miss_plain_spec ms st k st' out r :
    PInv ms st -> miss_plain st k = (st', out, r) -> PInv ms st' /\ out = lookup ms k.
  Proof.
    intros (Hms & HD & HE) H. unfold Cache.miss_plain in H. subst ms.
    destruct (mro (cs_ms st) k) as [ranks|e] eqn:Em.
    - pose proof (lookup_of_ranks _ _ _ Em) as Hl.
      destruct ranks as [|g rest].
      + injection H as <- <- <-. split; [|now rewrite Hl].
        repeat split; simpl; auto.
      + set (st1 := mkC (cs_ms st) (cs_dict st) (cs_err st) ((k, ids (concat (g :: rest))) :: cs_all st)) in *.
        assert (Hw : PInv (cs_ms st) (write_chain (g :: rest) None k st1) /\
                     (forall h, assoc_q (mkQ None k) (cs_dict (write_chain (g :: rest) None k st1)) = Some h -> rank_outcome g = ORun h) /\
                     (forall gg, assoc_q (mkQ None k) (cs_err (write_chain (g :: rest) None k st1)) = Some gg -> rank_outcome g = OAmbig gg) /\
                     (assoc_q (mkQ None k) (cs_err (write_chain (g :: rest) None k st1)) = None ->
                      exists h, assoc_q (mkQ None k) (cs_dict (write_chain (g :: rest) None k st1)) = Some h)).
        { cbn [Cache.write_chain]. destruct g as [|c [|c2 t]].
          - (* empty group: unreachable, but harmless: remembered as an ambiguity of nobody *)
            simpl. repeat split; simpl; auto.
            + intros k' g'. destruct (qkey_eqb (mkQ None k) (mkQ None k')) eqn:E; [|apply HE].
              apply qkey_eqb_eq in E. injection E as <-. intros H0; injection H0 as <-. now rewrite Hl.
            + intros h Hh. apply HD in Hh. rewrite Hl in Hh. simpl in Hh. discriminate.
            + rewrite qkey_eqb_refl. intros gg H0; injection H0 as <-. reflexivity.
            + rewrite qkey_eqb_refl. discriminate.
          - set (st2 := mkC (cs_ms st1) ((mkQ None k, m_id (c_m c)) :: cs_dict st1) (cs_err st1) (cs_all st1)).
            destruct (write_chain_plain_some rest (m_id (c_m c)) k k st2) as [H1 H2].
            assert (HP : PInv (cs_ms st) (write_chain rest (Some (m_id (c_m c))) k st2)).
            { repeat split.
              - rewrite write_chain_ms. reflexivity.
              - intros k' h. destruct (write_chain_plain_some rest (m_id (c_m c)) k k' st2) as [H1' _]. rewrite H1'.
                unfold st2. simpl. destruct (qkey_eqb (mkQ None k) (mkQ None k')) eqn:E; [|apply HD].
                apply qkey_eqb_eq in E. injection E as <-. intros H0; injection H0 as <-. now rewrite Hl.
              - intros k' g'. destruct (write_chain_plain_some rest (m_id (c_m c)) k k' st2) as [_ H2']. rewrite H2'.
                unfold st2. simpl. apply HE. }
            split; [exact HP|]. rewrite H1, H2. unfold st2. simpl. rewrite qkey_eqb_refl.
            repeat split.
            + intros h H0. injection H0 as <-. reflexivity.
            + intros gg Hg. apply HE in Hg. rewrite Hl in Hg. simpl in Hg. discriminate.
            + eauto.
          - simpl. repeat split; simpl; auto.
            + intros k' g'. destruct (qkey_eqb (mkQ None k) (mkQ None k')) eqn:E; [|apply HE].
              apply qkey_eqb_eq in E. injection E as <-. intros H0; injection H0 as <-. now rewrite Hl.
            + intros h Hh. apply HD in Hh. rewrite Hl in Hh. simpl in Hh. discriminate.
            + rewrite qkey_eqb_refl. intros gg H0; injection H0 as <-. reflexivity.
            + rewrite qkey_eqb_refl. discriminate. }
        destruct Hw as (HP & Hd & He & Hex).
        destruct (assoc_q (mkQ None k) (cs_err (write_chain (g :: rest) None k st1))) as [gg|] eqn:Eerr.
        * injection H as <- <- <-. split; [exact HP|]. rewrite Hl. symmetry. now apply He.
        * destruct (Hex eq_refl) as [h Hh]. rewrite Hh in H. injection H as <- <- <-.
          split; [exact HP|]. rewrite Hl. symmetry. now apply Hd.
    - injection H as <- <- <-. split; [repeat split; auto|].
      unfold Resolve.lookup. now rewrite Em.
  Qed.

  Lemma get_plain_spec ms st k st' out r :
    PInv ms st -> get_plain st k = (st', out, r) -> PInv ms st' /\ out = lookup ms k.
  Proof.
    intros HP H. unfold Cache.get_plain in H.
    destruct (assoc_q (mkQ None k) (cs_dict st)) as [h|] eqn:E.
    - injection H as <- <- <-. split; [exact HP|]. destruct HP as (_ & HD & _). symmetry. now apply HD.
    - eapply miss_plain_spec; eauto.
  Qed.

  (* C20 (table level): a plain key that is in the dict is answered without any resolution, and lookups only add entries *)
  Lemma get_plain_hit st k h : assoc_q (mkQ None k) (cs_dict st) = Some h -> get_plain st k = (st, ORun h, false).
  Proof. intros H. unfold Cache.get_plain. now rewrite H. Qed.

  (* ---- histories of plain accesses ---- *)
  Definition plain_op (o : cop) : bool := match o with CGet q => match q_caller q with None => true | _ => false end | CReg _ => false end.

  Definition op_fresh (ms : list meth) (o : cop) (res : option (outcome * bool)) : Prop :=
    match o with
    | CGet q => exists r, res = Some (fresh sub hasm chk sub_fresh ms q, r)
    | CReg _ => True
    end.

  Theorem plain_history_free ms : forall ops st,
    PInv ms st -> forallb plain_op ops = true ->
    Forall2 (op_fresh ms) ops (snd (crun sub hasm chk sub_fresh st ops)) /\ PInv ms (fst (crun sub hasm chk sub_fresh st ops)).
  Proof.
    induction ops as [|o r IH]; intros st HP Hpl; simpl; [split; [constructor|exact HP]|].
    simpl in Hpl. apply andb_true_iff in Hpl. destruct Hpl as [Ho Hr].
    destruct o as [q|m]; [|discriminate]. destruct q as [[c|] k]; [discriminate|].
    unfold Cache.cstep, Cache.getitem. simpl q_caller. simpl q_key.
    destruct (get_plain st k) as [[st1 out] rr] eqn:Eg.
    destruct (get_plain_spec _ _ _ _ _ _ HP Eg) as [HP1 ->].
    destruct (IH st1 HP1 Hr) as [HF HP2].
    destruct (crun sub hasm chk sub_fresh st1 r) as [st2 xs] eqn:Ec. simpl in *.
    split; [|exact HP2]. constructor; [|exact HF]. exists rr. reflexivity.
  Qed.

  (* C20 at table level: after a successful plain access, the same key is a hit (no resolution) for as long as only
     accesses happen: dict entries under plain keys are never removed or changed by getitem *)
  Lemma write_chain_keeps_plain ranks p k st k' h :
    assoc_q (mkQ None k') (cs_dict st) = Some h ->
    (p = None -> k <> k') ->
    assoc_q (mkQ None k') (cs_dict (write_chain ranks p k st)) = Some h.
  Proof.
    revert p st. induction ranks as [|g r IH]; intros p st H Hne; simpl; [exact H|].
    destruct g as [|c [|c2 t]]; simpl; auto.
    apply IH; [|discriminate]. simpl.
    destruct (qkey_eqb (mkQ p k) (mkQ None k')) eqn:E; [|exact H].
    apply qkey_eqb_eq in E. injection E as -> ->. exfalso. now apply Hne.
  Qed.

  Lemma miss_plain_keeps st k st' out r k' h :
    assoc_q (mkQ None k) (cs_dict st) = None ->
    assoc_q (mkQ None k') (cs_dict st) = Some h ->
    miss_plain st k = (st', out, r) -> assoc_q (mkQ None k') (cs_dict st') = Some h.
  Proof.
    intros Hmiss Hk' H. unfold Cache.miss_plain in H.
    assert (Hne : k <> k') by (intros ->; congruence).
    destruct (mro (cs_ms st) k) as [ranks|e]; [|injection H as <- _ _; exact Hk'].
    destruct ranks as [|g rest]; [injection H as <- _ _; exact Hk'|].
    set (st1 := mkC (cs_ms st) (cs_dict st) (cs_err st) ((k, ids (concat (g :: rest))) :: cs_all st)) in *.
    assert (Hw : assoc_q (mkQ None k') (cs_dict (write_chain (g :: rest) None k st1)) = Some h)
      by (apply write_chain_keeps_plain; [exact Hk'|auto]).
    destruct (assoc_q (mkQ None k) (cs_err (write_chain (g :: rest) None k st1))); [injection H as <- _ _; exact Hw|].
    destruct (assoc_q (mkQ None k) (cs_dict (write_chain (g :: rest) None k st1))); injection H as <- _ _; exact Hw.
  Qed.

  Lemma miss_plain_stores st k st' h r :
    miss_plain st k = (st', ORun h, r) -> assoc_q (mkQ None k) (cs_dict st') = Some h.
  Proof.
    intros H. unfold Cache.miss_plain in H.
    destruct (mro (cs_ms st) k) as [ranks|e]; [|destruct e; discriminate].
    destruct ranks as [|g rest]; [discriminate|].
    set (st1 := mkC (cs_ms st) (cs_dict st) (cs_err st) ((k, ids (concat (g :: rest))) :: cs_all st)) in *.
    destruct (assoc_q (mkQ None k) (cs_err (write_chain (g :: rest) None k st1))); [discriminate|].
    destruct (assoc_q (mkQ None k) (cs_dict (write_chain (g :: rest) None k st1))) as [h'|] eqn:E; [|discriminate].
    injection H as <- <- _. exact E.
  Qed.

  Lemma get_plain_keeps st k st' out r k' h :
    assoc_q (mkQ None k') (cs_dict st) = Some h ->
    get_plain st k = (st', out, r) -> assoc_q (mkQ None k') (cs_dict st') = Some h.
  Proof.
    intros Hk' H. unfold Cache.get_plain in H.
    destruct (assoc_q (mkQ None k) (cs_dict st)) eqn:E; [injection H as <- _ _; exact Hk'|].
    eapply miss_plain_keeps; eauto.
  Qed.

  Lemma get_plain_stores st k st' h r :
    get_plain st k = (st', ORun h, r) -> assoc_q (mkQ None k) (cs_dict st') = Some h.
  Proof.
    intros H. unfold Cache.get_plain in H.
    destruct (assoc_q (mkQ None k) (cs_dict st)) eqn:E; [injection H as <- <- _; exact E|].
    eapply miss_plain_stores; eauto.
  Qed.

  Lemma getitem_keeps st q st' out r k' h :
    assoc_q (mkQ None k') (cs_dict st) = Some h ->
    getitem st q = (st', out, r) -> assoc_q (mkQ None k') (cs_dict st') = Some h.
  Proof.
    intros Hk' H. unfold Cache.getitem in H. destruct (q_caller q) as [c|].
    - destruct (assoc_q q (cs_dict st)); [injection H as <- _ _; exact Hk'|].
      destruct (get_plain st (q_key q)) as [[st1 o1] r1] eqn:Eg.
      pose proof (get_plain_keeps _ _ _ _ _ _ _ Hk' Eg) as H1.
      destruct o1; try (injection H as <- _ _; exact H1).
      destruct (assoc_k (q_key q) (cs_all st1)); [|injection H as <- _ _; exact H1].
      destruct (negb (memb c l)); [injection H as <- _ _; exact H1|].
      destruct (assoc_q q (cs_err st1)); [injection H as <- _ _; exact H1|].
      destruct (assoc_q q (cs_dict st1)); injection H as <- _ _; exact H1.
    - eapply get_plain_keeps; eauto.
  Qed.

  Fixpoint all_gets (ops : list cop) : bool :=
    match ops with [] => true | CGet _ :: r => all_gets r | CReg _ :: _ => false end.

  Lemma crun_keeps : forall ops st k' h,
    all_gets ops = true -> assoc_q (mkQ None k') (cs_dict st) = Some h ->
    assoc_q (mkQ None k') (cs_dict (fst (crun sub hasm chk sub_fresh st ops))) = Some h.
  Proof.
    induction ops as [|o r IH]; intros st k' h Hg Hk'; simpl; [exact Hk'|].
    destruct o as [q|m]; [|discriminate]. simpl in Hg. unfold Cache.cstep.
    destruct (getitem st q) as [[st1 o1] r1] eqn:Eg.
    pose proof (getitem_keeps _ _ _ _ _ _ _ Hk' Eg) as H1.
    specialize (IH st1 k' h Hg H1).
    destruct (crun sub hasm chk sub_fresh st1 r). exact IH.
  Qed.

  (* C20, table level: once a plain access succeeded, any later access of the same key -- after any sequence of
     accesses of any keys -- is answered from the dict without computing a resolution *)
  Theorem resolved_once st k st1 h r ops :
    get_plain st k = (st1, ORun h, r) -> all_gets ops = true ->
    get_plain (fst (crun sub hasm chk sub_fresh st1 ops)) k = (fst (crun sub hasm chk sub_fresh st1 ops), ORun h, false).
  Proof.
    intros H Hg. apply get_plain_hit. apply crun_keeps; [exact Hg|]. eapply get_plain_stores; eauto.
  Qed.
End Hier.

Section Reg.
  Variable sub : nat -> nat -> bool.
  Variable hasm : nat -> nat -> bool.
  Variable chk : nat -> nat -> bool.
  Variable sub_fresh : nat -> bool.

  (* after a registration, plain accesses behave as on a fresh table over the extended method list *)
  Theorem register_fresh st m ops :
    forallb plain_op ops = true ->
    Forall2 (op_fresh sub hasm chk sub_fresh (cs_ms st ++ [m])) ops
            (snd (crun sub hasm chk sub_fresh (cregister st m) ops)).
  Proof.
    intros Hp. apply plain_history_free; [|exact Hp].
    unfold cregister, PInv. simpl. repeat split; intros; discriminate.
  Qed.

  (* ... hence after any sequence of registrations and plain accesses *)
  Fixpoint final_ms (ms : list meth) (ops : list cop) : list meth :=
    match ops with [] => ms | CReg m :: r => final_ms (ms ++ [m]) r | CGet _ :: r => final_ms ms r end.

  Definition plain_or_reg (o : cop) : bool := match o with CGet q => match q_caller q with None => true | _ => false end | CReg _ => true end.

  Theorem mixed_history_inv : forall ops st ms,
    PInv sub hasm chk sub_fresh ms st -> forallb plain_or_reg ops = true ->
    PInv sub hasm chk sub_fresh (final_ms ms ops) (fst (crun sub hasm chk sub_fresh st ops)).
  Proof.
    induction ops as [|o r IH]; intros st ms HP Hp; simpl; [exact HP|].
    simpl in Hp. apply andb_true_iff in Hp. destruct Hp as [Ho Hr].
    destruct o as [q|m].
    - destruct q as [[c|] k]; [discriminate|]. unfold Cache.cstep, Cache.getitem. simpl q_caller. simpl q_key.
      destruct (get_plain sub hasm chk sub_fresh st k) as [[st1 out] rr] eqn:Eg.
      destruct (get_plain_spec _ _ _ _ _ _ _ _ _ _ HP Eg) as [HP1 _].
      specialize (IH st1 ms HP1 Hr). destruct (crun sub hasm chk sub_fresh st1 r). exact IH.
    - simpl.
      assert (HP1 : PInv sub hasm chk sub_fresh (ms ++ [m]) (cregister st m)).
      { destruct HP as (Hms & _ & _). unfold cregister, PInv. simpl. rewrite Hms. repeat split; intros; discriminate. }
      specialize (IH _ _ HP1 Hr). destruct (crun sub hasm chk sub_fresh (cregister st m) r). exact IH.
  Qed.
End Reg.
