"""C02 — static resolution follows the documented priority-then-specificity rule."""
import json, collections
from . import resolve_common as R

CLAIM = dict(
    text="Coq theorems relating the executable model of MultiTypeMap resolution (Model/Resolve.v: level tables by Kahn layering of the applicable registered types, arity/keyword filter, stable sort by (priority, sum of levels, tiebreak), _pull, first-rank outcome) to the documented rule (Spec/Dispatch.v: applicable, beats, spec_outcome) for every class DAG, every method list and every key: 'No method' exactly when no method is applicable (C02_no_method); a method the rule names as winner is returned (C02_winner_complete); the method returned is applicable and beaten by none (C02_winner_maximal). The only remaining difference -- rule says Ambiguous, implementation returns an unbeaten method -- is real (C02_exact_refuted, KF-01: layer-index levels order unrelated classes) and is classified by chain_applicable. Key lemma: Kahn rounds are strictly monotone along the subclass order (Proofs/ResolveLevels.v). Tie to /repo: every generated program is run through the real Ovld (public call and resolve(), bodies record entry) and through the extracted model; outcomes must agree exactly, and every deviation from the rule must be of the KF-01 shape, outside chain_applicable, and predicted by the model.",
    note="Trusted: Coq kernel, extraction, driver, hand model (validated by the correspondence), issubclass table of the generated classes, the harness's guarded hook fixing set-iteration order to registration order (OVLD_VERIF). Reading adopted: a Python binding TypeError raised by the generated entry point for a call shape no method accepts counts as the 'no applicable method' error. Tiebreaks come from the registration model (defs_register). Theorems assume the level computation did not fail (candidates = Ok), which the correspondence observes on every static case.",
    technique="Coq proof (Kahn-layer monotonicity, sort/_pull lemmas, spec vs model) + differential correspondence on generated programs", design="6 C02")

THEOREMS = ["C02_no_method", "C02_winner_complete", "C02_winner_maximal", "C02_exact_refuted"]
ASSUMPTIONS = ["generated worlds satisfy the theorems' hypotheses (issubclass reflexive/antisymmetric): checked per world",
               "call shapes mixing keywords with omitted optional positionals are left to C03 (entry point)"]


def check_program(ctx, prog, stats, samples):
    res, w, b = R.eval_program(prog)
    po = w.is_partial_order()
    for call, r in zip(prog["calls"], res):
        stats["evaluations"] += 1
        case = {"spec": prog["spec"], "defs": prog["defs"], "calls": [call]}
        key = json.dumps([prog["spec"], prog["defs"], call])
        if len(prog["defs"]) > 1:
            stats["nontrivial"].add(hash(key))
        stats["impl_hist"][r["impl"][0]] += 1
        if r["impl"] != r["model"]:
            ctx.violation(f"call outcome: implementation {r['impl']} != model {r['model']}", case, kind="correspondence")
            continue
        if "resolve" in r and r["resolve"] != r["impl"]:
            ctx.violation(f"resolve() names {r['resolve']} but the call gives {r['impl']}", case)
        if r["impl"][0] == "run" and r["entered"] != [r["impl"][1]]:
            ctx.violation(f"bodies entered {r['entered']} for outcome {r['impl']}", case)
        if r["impl"][0] != "run" and r["entered"]:
            ctx.violation(f"a method body ran although the call raised {r['impl']}", case)
        if r["static"] and po and r["spec_py"] != r["spec_coq"]:
            ctx.violation(f"harness reading of the rule {r['spec_py']} != Coq spec {r['spec_coq']}", case, kind="spec")
        stats["chain"] += int(r["chain"])
        if r["impl"] != r["spec_py"]:
            if r["spec_py"] == ["ambig"] and r["impl"][0] == "run" and not r["chain"]:
                ctx.known_hit("KF-01", case)
                stats["kf01"] += 1
            else:
                ctx.violation(f"implementation {r['impl']} deviates from the documented rule {r['spec_py']}"
                              + (" on a chain-applicable call" if r["chain"] else ""), case)
    if len(samples) < 3 and res:
        samples.append({"defs": prog["defs"], "call": prog["calls"][0], "outcome": res[0]})


def run(ctx):
    stats = {"evaluations": 0, "nontrivial": set(), "impl_hist": collections.Counter(), "chain": 0, "kf01": 0, "programs": 0}
    samples = []
    n = 120 if ctx.quick() else 6000
    for _ in range(n):
        prog = R.gen_program(ctx.rng)
        stats["programs"] += 1
        check_program(ctx, prog, stats, samples)
        if len(ctx.violations) > 10:
            break
    return {"evaluations": stats["evaluations"], "distinct_nontrivial": len(stats["nontrivial"]),
            "rule": "random class worlds (plain/ABC/protocol, multiple inheritance) x 1-7 methods over 1-3 positions with differing arities, optional positionals, keyword-only typed parameters, priorities -1..1 and re-registered identical signatures x ~12 calls; a case (world, methods, call) is non-trivial when more than one method is registered; distinct by content",
            "samples": samples, "programs": stats["programs"], "outcome_histogram": dict(stats["impl_hist"]),
            "calls_chain_applicable": stats["chain"], "deviations_attributed_to_KF-01": stats["kf01"],
            "traces_validated_against_impl": stats["evaluations"]}


def replay(ctx, payload):
    prog = payload["case"]
    res, w, b = R.eval_program(prog)
    print(json.dumps(res))
    return any(r["impl"] != r["model"] or r["impl"] != r["spec_py"] for r in res)


def replay_finding(ctx, e):
    res, w, b = R.eval_program(e["witness"])
    r = res[0]
    return r["impl"] == e["witness"]["expect_impl"] and r["spec_py"] == e["witness"]["expect_spec"]
