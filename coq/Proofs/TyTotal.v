(* TyTotal.v — the fuel handed to tord / subck by typeorder / subclasscheck always suffices: both are total on the
   modelled closure (so the "= Some r" hypotheses of the C12 / C13 theorems are never vacuous). *)
From Coq Require Import ZArith List Bool Arith Lia.
Import ListNotations.
From OvldV Require Import Model.Order Model.Ty Proofs.TyEq.

Fixpoint lsz (l : list ty) : nat := match l with [] => 0 | x :: xs => tsize x + lsz xs end.

Lemma tsize_pos t : 1 <= tsize t.
Proof. destruct t; simpl; lia. Qed.

Lemma lsz_eq : forall l, (fix lsz (l : list ty) : nat := match l with [] => 0 | x :: xs => tsize x + lsz xs end) l = lsz l.
Proof. induction l; simpl; auto. Qed.

Lemma lsz_In x l : In x l -> tsize x <= lsz l.
Proof. induction l as [|a r IH]; simpl; [intros []|]. intros [->|H]; [lia|]. specialize (IH H). lia. Qed.

Lemma tsize_Gen o a : tsize (Gen o a) = S (S (lsz a)). Proof. simpl. now rewrite lsz_eq. Qed.
Lemma tsize_Uni a : tsize (Uni a) = S (lsz a). Proof. simpl. now rewrite lsz_eq. Qed.
Lemma tsize_Int a : tsize (Int a) = S (lsz a). Proof. simpl. now rewrite lsz_eq. Qed.
Lemma tsize_TFn f a b : tsize (TFn f a b) = S (lsz a + tsize b). Proof. simpl. now rewrite lsz_eq. Qed.
Lemma tsize_Prod a b : tsize (Prod a b) = S (lsz a + tsize b). Proof. simpl. now rewrite lsz_eq. Qed.

Lemma dep_bound_size t : is_dep t = true -> tsize (dep_bound t) < tsize t.
Proof. destruct t; try discriminate; intros _; rewrite ?tsize_TFn, ?tsize_Prod; simpl; lia. Qed.

(* option-combinators are defined as soon as the function is on every element *)
Lemma oexists_some {X} (f : X -> option bool) l : (forall x, In x l -> f x <> None) -> oexists f l <> None.
Proof.
  induction l as [|a r IH]; simpl; intros H; [discriminate|].
  destruct (f a) as [[|]|] eqn:E.
  - discriminate.
  - apply IH. intros x Hx. apply H. now right.
  - exfalso. apply (H a); [now left|exact E].
Qed.

Lemma oforall_some {X} (f : X -> option bool) l : (forall x, In x l -> f x <> None) -> oforall f l <> None.
Proof.
  induction l as [|a r IH]; simpl; intros H; [discriminate|].
  destruct (f a) as [[|]|] eqn:E.
  - apply IH. intros x Hx. apply H. now right.
  - discriminate.
  - exfalso. apply (H a); [now left|exact E].
Qed.

Lemma omapM_some {X Y} (f : X -> option Y) l : (forall x, In x l -> f x <> None) -> omapM f l <> None.
Proof.
  induction l as [|a r IH]; simpl; intros H; [discriminate|].
  destruct (f a) eqn:E; [|exfalso; apply (H a); [now left|exact E]].
  destruct (omapM f r) eqn:E2; simpl; [discriminate|]. exfalso. apply IH; [|reflexivity]. intros x0 Hx. apply H. now right.
Qed.

Lemma oforall2_some {X} (f : X -> X -> option bool) l1 l2 :
  (forall x y, In x l1 -> In y l2 -> f x y <> None) -> oforall2 f l1 l2 <> None.
Proof.
  revert l2. induction l1 as [|a r IH]; intros [|b s] H; simpl; try discriminate.
  destruct (f a b) as [[|]|] eqn:E.
  - apply IH. intros x y Hx Hy. apply H; simpl; auto.
  - discriminate.
  - exfalso. apply (H a b); simpl; auto.
Qed.

Lemma omapM2_some {X Y} (f : X -> X -> option Y) l1 l2 :
  (forall x y, In x l1 -> In y l2 -> f x y <> None) -> omapM2 f l1 l2 <> None.
Proof.
  revert l2. induction l1 as [|a r IH]; intros [|b s] H; simpl; try discriminate.
  destruct (f a b) eqn:E; [|exfalso; apply (H a b); simpl; auto].
  destruct (omapM2 f r s) eqn:E2; simpl; [discriminate|]. exfalso. apply (IH s); [|exact E2]. intros x0 y0 Hx Hy. apply H; simpl; auto.
Qed.

Section Hier.
  Variable sub : nat -> nat -> bool.
  Variable hasm : nat -> nat -> bool.
  Variable chk : nat -> nat -> bool.
  Variable sub_fresh : nat -> bool.

  Notation subck := (subck sub hasm chk sub_fresh).
  Notation tord := (tord sub hasm chk sub_fresh).
  Notation supck := (supck sub hasm chk sub_fresh).
  Notation issub := (issub sub hasm chk sub_fresh).

  (* supck is defined when the recursive test is defined on everything smaller *)
  Lemma supck_some (rec : ty -> ty -> option bool) t a :
    (forall x, tsize x < tsize t -> rec a x <> None) -> supck rec t a <> None.
  Proof.
    intros H. destruct t; simpl; try discriminate.
    - assert (Hs : oexists (fun x => rec a x) ts <> None).
      { apply oexists_some. intros x Hx. apply H. rewrite tsize_Uni. pose proof (lsz_In _ _ Hx). lia. }
      destruct (oexists (fun x => rec a x) ts); [discriminate|contradiction].
    - assert (Hs : oforall (fun x => rec a x) ts <> None).
      { apply oforall_some. intros x Hx. apply H. rewrite tsize_Int. pose proof (lsz_In _ _ Hx). lia. }
      destruct (oforall (fun x => rec a x) ts); [discriminate|contradiction].
    - destruct (is_dep a); [discriminate|]. assert (Hs : rec a t <> None) by (apply H; simpl; lia).
      destruct (rec a t); [discriminate|contradiction].
    - destruct (is_dep a); [discriminate|]. assert (Hs : rec a t <> None) by (apply H; simpl; lia).
      destruct (rec a t); [discriminate|contradiction].
    - destruct (is_dep a); [discriminate|]. assert (Hs : rec a t <> None) by (apply H; rewrite tsize_TFn; lia).
      destruct (rec a t); [discriminate|contradiction].
    - destruct (is_dep a); [discriminate|]. assert (Hs : rec a t <> None) by (apply H; rewrite tsize_Prod; lia).
      destruct (rec a t); [discriminate|contradiction].
  Qed.

  Lemma supck_nohook (rec : ty -> ty -> option bool) t a :
    supck rec t a = Some None -> match t with Cls _ | Gen _ _ => True | _ => False end.
  Proof.
    destruct t; simpl; auto.
    - destruct (oexists _ ts); discriminate.
    - destruct (oforall _ ts); discriminate.
    - discriminate.
    - discriminate.
    - discriminate.
    - discriminate.
    - destruct (is_dep a); [discriminate|]. destruct (rec a t); discriminate.
    - destruct (is_dep a); [discriminate|]. destruct (rec a t); discriminate.
    - destruct (is_dep a); [discriminate|]. destruct (rec a t); discriminate.
    - destruct (is_dep a); [discriminate|]. destruct (rec a t); discriminate.
  Qed.

  Theorem subck_total : forall n t1 t2, tsize t1 + tsize t2 < n -> subck n t1 t2 <> None.
  Proof.
    induction n as [|n IH]; intros t1 t2 Hlt; [lia|].
    cbn [Ty.subck]. unfold subck_body.
    destruct (ty_eqb t1 t2); [discriminate|].
    assert (Hsup : supck (subck n) t2 t1 <> None) by (apply supck_some; intros x Hx; apply IH; lia).
    destruct (supck (subck n) t2 t1) as [[r|]|] eqn:Es; [discriminate| |contradiction].
    pose proof (supck_nohook _ _ _ Es) as Hk.
    destruct t2; try contradiction.
    - destruct t1; simpl; discriminate.
    - assert (Hi : issub_cls sub sub_fresh (match t1 with Gen o0 _ => Cls o0 | _ => t1 end) o <> None) by (destruct t1; simpl; discriminate).
      destruct (issub_cls sub sub_fresh _ o) as [[|]|]; [|discriminate|contradiction].
      destruct (Nat.eqb _ _); [|discriminate].
      apply oforall2_some. intros x y Hx Hy. apply IH.
      rewrite tsize_Gen in Hlt. pose proof (lsz_In _ _ Hy).
      destruct t1; simpl in Hx; try contradiction. rewrite tsize_Gen in Hlt. pose proof (lsz_In _ _ Hx). lia.
  Qed.
End Hier.

Section HierOrd.
  Variable sub : nat -> nat -> bool.
  Variable hasm : nat -> nat -> bool.
  Variable chk : nat -> nat -> bool.
  Variable sub_fresh : nat -> bool.

  Notation subck := (subck sub hasm chk sub_fresh).
  Notation tord := (tord sub hasm chk sub_fresh).
  Notation supck := (supck sub hasm chk sub_fresh).
  Notation issub := (issub sub hasm chk sub_fresh).

  Definition mu (t1 t2 : ty) : nat :=
    2 * (tsize t1 + tsize t2) + (if is_gen t2 && negb (is_gen t1) then 1 else 0).

  Lemma mu_bound t1 t2 : mu t1 t2 <= 2 * (tsize t1 + tsize t2) + 1.
  Proof. unfold mu. destruct (is_gen t2 && negb (is_gen t1)); lia. Qed.

  Lemma dep_order_some (rec : ty -> ty -> option order) (srec : ty -> ty -> option bool) t o :
    is_dep t = true ->
    (forall x y, tsize x + tsize y < tsize t + tsize o -> rec x y <> None) ->
    (forall x y, tsize x + tsize y < tsize t + tsize o -> srec x y <> None) ->
    dep_order rec srec t o <> None.
  Proof.
    intros Hd HR HS. unfold dep_order. pose proof (dep_bound_size _ Hd) as Hb.
    destruct (is_dep o) eqn:Ho.
    - pose proof (dep_bound_size _ Ho) as Hbo.
      assert (H : rec (dep_bound t) (dep_bound o) <> None) by (apply HR; lia).
      destruct (rec (dep_bound t) (dep_bound o)) as [[]|]; try discriminate. contradiction.
    - assert (H1 : srec o (dep_bound t) <> None) by (apply HS; lia).
      destruct (srec o (dep_bound t)) as [[|]|]; [discriminate| |contradiction].
      assert (H2 : srec (dep_bound t) o <> None) by (apply HS; lia).
      destruct (srec (dep_bound t) o) as [[|]|]; [discriminate|discriminate|contradiction].
  Qed.

  Lemma hook_order_some (rec : ty -> ty -> option order) (srec : ty -> ty -> option bool) t o :
    (forall x y, tsize x + tsize y < tsize t + tsize o -> rec x y <> None) ->
    (forall x y, tsize x + tsize y < tsize t + tsize o -> srec x y <> None) ->
    hook_order rec srec t o <> None.
  Proof.
    intros HR HS. destruct t; cbn [hook_order]; try discriminate; try (apply dep_order_some; auto; fail).
    - assert (H : omapM (fun x => rec x o) ts <> None).
      { apply omapM_some. intros x Hx. apply HR. rewrite tsize_Uni. pose proof (lsz_In _ _ Hx). lia. }
      destruct (omapM (fun x => rec x o) ts); [discriminate|contradiction].
    - assert (H : omapM (fun x => rec x o) ts <> None).
      { apply omapM_some. intros x Hx. apply HR. rewrite tsize_Int. pose proof (lsz_In _ _ Hx). lia. }
      destruct (omapM (fun x => rec x o) ts); [discriminate|contradiction].
    - destruct (ty_eqb o (Cls c)); [discriminate|].
      assert (H : rec (Cls c) o <> None) by (apply HR; simpl; lia).
      destruct (rec (Cls c) o); [discriminate|contradiction].
    - destruct o; try (apply dep_order_some; auto; fail).
      destruct (Nat.eqb _ _); [|discriminate].
      assert (H : omapM2 rec ts ts0 <> None).
      { apply omapM2_some. intros x y Hx Hy. apply HR. rewrite !tsize_Prod.
        pose proof (lsz_In _ _ Hx). pose proof (lsz_In _ _ Hy). lia. }
      destruct (omapM2 rec ts ts0); [discriminate|contradiction].
  Qed.

  Lemma issub_some (srec : ty -> ty -> option bool) a b :
    is_gen a = false -> is_gen b = false ->
    (forall x y, tsize x + tsize y < tsize a + tsize b -> srec x y <> None) ->
    issub srec a b <> None.
  Proof.
    intros Ha Hb HS. destruct b; try discriminate Hb; cbn [Ty.issub]; try discriminate.
    - destruct a; try discriminate Ha; simpl; discriminate.
    - assert (H : supck srec (Uni ts) a <> None) by (apply supck_some; intros x Hx; apply HS; lia).
      destruct (supck srec (Uni ts) a) as [[r|]|] eqn:E; [discriminate| |contradiction].
      exact (False_ind _ (supck_nohook _ _ _ _ _ _ _ E)).
    - assert (H : supck srec (Int ts) a <> None) by (apply supck_some; intros x Hx; apply HS; lia).
      destruct (supck srec (Int ts) a) as [[r|]|] eqn:E; [discriminate| |contradiction].
      exact (False_ind _ (supck_nohook _ _ _ _ _ _ _ E)).
  Qed.

  Theorem tord_total : forall n t1 t2, mu t1 t2 < n -> tord n t1 t2 <> None.
  Proof.
    induction n as [|n IH]; intros t1 t2 Hlt; [lia|].
    cbn [Ty.tord]. unfold tord_body.
    destruct (ty_eqb t1 t2); [discriminate|].
    assert (Hs1 : 1 <= tsize t1) by apply tsize_pos. assert (Hs2 : 1 <= tsize t2) by apply tsize_pos.
    assert (Hmu : 2 * (tsize t1 + tsize t2) <= n) by (unfold mu in Hlt; lia).
    assert (HR : forall x y, tsize x + tsize y < tsize t1 + tsize t2 -> tord n x y <> None).
    { intros x y Hxy. apply IH. pose proof (mu_bound x y). lia. }
    assert (HS : forall x y, tsize x + tsize y < tsize t1 + tsize t2 -> subck n x y <> None).
    { intros x y Hxy. apply subck_total. lia. }
    assert (H12 : hook_order (tord n) (subck n) t1 t2 <> None) by (apply hook_order_some; auto).
    destruct (hook_order (tord n) (subck n) t1 t2) as [[r|]|] eqn:E12; [discriminate| |contradiction].
    assert (H21 : hook_order (tord n) (subck n) t2 t1 <> None)
      by (apply hook_order_some; intros x y Hxy; [apply HR|apply HS]; lia).
    destruct (hook_order (tord n) (subck n) t2 t1) as [[r|]|] eqn:E21; [discriminate| |contradiction].
    destruct (is_gen t1) eqn:G1; destruct (is_gen t2) eqn:G2.
    - destruct t1 as [|o1 a1| | | | | | | | | |]; try discriminate G1.
      destruct t2 as [|o2 a2| | | | | | | | | |]; try discriminate G2.
      rewrite !tsize_Gen in *.
      assert (Hc : tord n (Cls o1) (Cls o2) <> None) by (apply HR; simpl; lia).
      destruct (tord n (Cls o1) (Cls o2)) as [[]|]; try discriminate; [|contradiction].
      destruct a1; destruct a2; try discriminate.
      destruct (Nat.eqb _ _); [|discriminate].
      assert (Hm : omapM2 (tord n) (t :: a1) (t0 :: a2) <> None).
      { apply omapM2_some. intros x y Hx Hy. apply HR.
        pose proof (lsz_In _ _ Hx). pose proof (lsz_In _ _ Hy). lia. }
      destruct (omapM2 (tord n) (t :: a1) (t0 :: a2)); [discriminate|contradiction].
    - destruct t1 as [|o1 a1| | | | | | | | | |]; try discriminate G1. rewrite tsize_Gen in *.
      assert (Hc : tord n (Cls o1) t2 <> None) by (apply HR; simpl; lia).
      destruct t2; try discriminate G2; (destruct (tord n (Cls o1) _) as [[]|]; [discriminate..|contradiction]).
    - assert (Hc : tord n t2 t1 <> None).
      { apply IH. unfold mu in *. rewrite G1, G2 in *. simpl in *. lia. }
      destruct t2; try discriminate G2.
      destruct t1; try discriminate G1; (destruct (tord n (Gen o args) _); [discriminate|contradiction]).
    - assert (Hi1 : issub (subck n) t1 t2 <> None) by (apply issub_some; auto).
      assert (Hi2 : issub (subck n) t2 t1 <> None) by (apply issub_some; auto; intros x y Hxy; apply HS; lia).
      remember (issub (subck n) t1 t2) as i1. remember (issub (subck n) t2 t1) as i2.
      destruct i1 as [b1|]; [|contradiction]. destruct i2 as [b2|]; [|contradiction].
      destruct t1; try discriminate G1; destruct t2; try discriminate G2; discriminate.
  Qed.

  (* the public functions never run out of fuel *)
  Theorem typeorder_total t1 t2 : typeorder sub hasm chk sub_fresh t1 t2 <> None.
  Proof. unfold typeorder, fuel_for. apply tord_total. pose proof (mu_bound t1 t2). lia. Qed.

  Theorem subclasscheck_total t1 t2 : subclasscheck sub hasm chk sub_fresh t1 t2 <> None.
  Proof. unfold subclasscheck, fuel_for. apply subck_total. lia. Qed.
End HierOrd.
