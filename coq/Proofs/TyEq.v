(* TyEq.v — induction principles for the nested inductives val and ty; val_eqb / ty_eqb decide Leibniz equality. *)
From Coq Require Import ZArith List Bool Arith Lia.
Import ListNotations.
From OvldV Require Import Model.Order Model.Ty.

Section ValInd.
  Variable P : val -> Prop.
  Hypothesis HInt : forall z, P (VInt z).
  Hypothesis HStr : forall s, P (VStr s).
  Hypothesis HBool : forall b, P (VBool b).
  Hypothesis HNone : P VNone.
  Hypothesis HTup : forall l, Forall P l -> P (VTup l).
  Hypothesis HLst : forall l, Forall P l -> P (VLst l).
  Hypothesis HDict : forall l, Forall (fun kv => P (fst kv) /\ P (snd kv)) l -> P (VDict l).
  Hypothesis HObj : forall c i, P (VObj c i).

  Fixpoint val_ind' (v : val) : P v :=
    match v with
    | VInt z => HInt z
    | VStr s => HStr s
    | VBool b => HBool b
    | VNone => HNone
    | VTup l => HTup l ((fix go (l : list val) : Forall P l :=
                           match l with [] => Forall_nil _ | x :: xs => Forall_cons x (val_ind' x) (go xs) end) l)
    | VLst l => HLst l ((fix go (l : list val) : Forall P l :=
                           match l with [] => Forall_nil _ | x :: xs => Forall_cons x (val_ind' x) (go xs) end) l)
    | VDict l => HDict l ((fix go (l : list (val * val)) : Forall (fun kv => P (fst kv) /\ P (snd kv)) l :=
                             match l with
                             | [] => Forall_nil _
                             | (k, v) :: xs => Forall_cons (k, v) (conj (val_ind' k) (val_ind' v)) (go xs)
                             end) l)
    | VObj c i => HObj c i
    end.
End ValInd.

Section TyInd.
  Variable P : ty -> Prop.
  Hypothesis HCls : forall c, P (Cls c).
  Hypothesis HGen : forall o a, Forall P a -> P (Gen o a).
  Hypothesis HUni : forall a, Forall P a -> P (Uni a).
  Hypothesis HInt : forall a, Forall P a -> P (Int a).
  Hypothesis HExa : forall i c, P (Exa i c).
  Hypothesis HStrict : forall i c, P (Strict i c).
  Hypothesis HHasM : forall i m, P (HasM i m).
  Hypothesis HChk : forall i p, P (Chk i p).
  Hypothesis HLit : forall vs b, P b -> P (Lit vs b).
  Hypothesis HFn : forall f ps b, P b -> P (Fn f ps b).
  Hypothesis HTFn : forall f a b, Forall P a -> P b -> P (TFn f a b).
  Hypothesis HProd : forall a b, Forall P a -> P b -> P (Prod a b).

  Fixpoint ty_ind' (t : ty) : P t :=
    let go := fix go (l : list ty) : Forall P l :=
                match l with [] => Forall_nil _ | x :: xs => Forall_cons x (ty_ind' x) (go xs) end in
    match t with
    | Cls c => HCls c
    | Gen o a => HGen o a (go a)
    | Uni a => HUni a (go a)
    | Int a => HInt a (go a)
    | Exa i c => HExa i c
    | Strict i c => HStrict i c
    | HasM i m => HHasM i m
    | Chk i p => HChk i p
    | Lit vs b => HLit vs b (ty_ind' b)
    | Fn f ps b => HFn f ps b (ty_ind' b)
    | TFn f a b => HTFn f a b (go a) (ty_ind' b)
    | Prod a b => HProd a b (go a) (ty_ind' b)
    end.
End TyInd.

Lemma list_eqb_spec {X} (e : X -> X -> bool) (l1 : list X) :
  Forall (fun x => forall y, e x y = true <-> x = y) l1 ->
  forall l2, list_eqb e l1 l2 = true <-> l1 = l2.
Proof.
  induction 1 as [|x xs Hx _ IH]; intros [|y ys]; simpl; try (split; congruence).
  rewrite andb_true_iff, Hx, IH. split; [intros [-> ->]; reflexivity | intros H; inversion H; auto].
Qed.

Lemma list_eqb_spec' {X} (e : X -> X -> bool) :
  (forall x y, e x y = true <-> x = y) -> forall l1 l2, list_eqb e l1 l2 = true <-> l1 = l2.
Proof. intros H l1. apply list_eqb_spec. apply Forall_forall. intros; apply H. Qed.

Lemma val_leq_eq : forall l1 l2,
  (fix leq (l1 l2 : list val) {struct l1} : bool :=
     match l1, l2 with
     | [], [] => true
     | x :: xs, y :: ys => val_eqb x y && leq xs ys
     | _, _ => false
     end) l1 l2 = list_eqb val_eqb l1 l2.
Proof. induction l1 as [|x xs IH]; intros [|y ys]; simpl; try reflexivity. now rewrite IH. Qed.

Definition pair_eqb (p q : val * val) : bool := val_eqb (fst p) (fst q) && val_eqb (snd p) (snd q).

Lemma val_deq_eq : forall l1 l2,
  (fix deq (l1 l2 : list (val * val)) {struct l1} : bool :=
     match l1, l2 with
     | [], [] => true
     | (k1, v1) :: xs, (k2, v2) :: ys => val_eqb k1 k2 && val_eqb v1 v2 && deq xs ys
     | _, _ => false
     end) l1 l2 = list_eqb pair_eqb l1 l2.
Proof.
  induction l1 as [|[k1 v1] xs IH]; intros [|[k2 v2] ys]; simpl; try reflexivity.
  unfold pair_eqb at 1; simpl. now rewrite IH.
Qed.

Lemma val_eqb_eq : forall a b, val_eqb a b = true <-> a = b.
Proof.
  induction a as [z|s|b0| |l IH|l IH|l IH|c i] using val_ind'; intros b; destruct b; simpl;
    try (split; congruence).
  - rewrite Z.eqb_eq. split; congruence.
  - rewrite (list_eqb_spec' Z.eqb Z.eqb_eq). split; congruence.
  - rewrite Bool.eqb_true_iff. split; congruence.
  - rewrite val_leq_eq, (list_eqb_spec val_eqb l IH). split; congruence.
  - rewrite val_leq_eq, (list_eqb_spec val_eqb l IH). split; congruence.
  - rewrite val_deq_eq.
    rewrite (list_eqb_spec pair_eqb l).
    + split; congruence.
    + eapply Forall_impl; [|exact IH]. intros [k v] [Hk Hv] [k' v']; unfold pair_eqb; simpl in *.
      rewrite andb_true_iff, Hk, Hv. split; [intros [-> ->]; reflexivity | intros H; inversion H; auto].
  - rewrite andb_true_iff, Nat.eqb_eq, Z.eqb_eq. split; [intros [-> ->]; reflexivity | intros H; inversion H; auto].
Qed.

Lemma oval_eqb_eq : forall a b, oval_eqb a b = true <-> a = b.
Proof.
  intros [a|] [b|]; simpl; try (split; congruence).
  rewrite val_eqb_eq. split; congruence.
Qed.

Lemma ty_leq_eq : forall l1 l2,
  (fix leq (l1 l2 : list ty) {struct l1} : bool :=
     match l1, l2 with
     | [], [] => true
     | x :: xs, y :: ys => ty_eqb x y && leq xs ys
     | _, _ => false
     end) l1 l2 = list_eqb ty_eqb l1 l2.
Proof. induction l1 as [|x xs IH]; intros [|y ys]; simpl; try reflexivity. now rewrite IH. Qed.

Lemma ty_eqb_eq : forall a b, ty_eqb a b = true <-> a = b.
Proof.
  induction a as [c|o a IH|a IH|a IH|i c|i c|i m|i p|vs b IHb|f ps b IHb|f a b IH IHb|a b IH IHb] using ty_ind';
    intros t; destruct t; simpl; try (split; congruence);
    rewrite ?ty_leq_eq, ?andb_true_iff, ?Nat.eqb_eq, ?(list_eqb_spec ty_eqb a IH), ?IHb,
      ?(list_eqb_spec' val_eqb val_eqb_eq), ?(list_eqb_spec' oval_eqb oval_eqb_eq);
    try (split; [intuition congruence | intros H; inversion H; auto]).
Qed.

Lemma ty_eqb_refl : forall a, ty_eqb a a = true.
Proof. intros a. now apply ty_eqb_eq. Qed.

Lemma ty_eqb_sym : forall a b, ty_eqb a b = ty_eqb b a.
Proof.
  intros a b. destruct (ty_eqb a b) eqn:E1, (ty_eqb b a) eqn:E2; try reflexivity.
  - apply ty_eqb_eq in E1. subst. rewrite ty_eqb_refl in E2. discriminate.
  - apply ty_eqb_eq in E2. subst. rewrite ty_eqb_refl in E1. discriminate.
Qed.

Lemma ty_eqb_neq : forall a b, ty_eqb a b = false <-> a <> b.
Proof.
  intros a b. split.
  - intros H E. apply ty_eqb_eq in E. congruence.
  - intros H. destruct (ty_eqb a b) eqn:E; [apply ty_eqb_eq in E; contradiction | reflexivity].
Qed.
