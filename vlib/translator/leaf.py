"""Leaf translator: regenerates coq/Gen/Leaf.v from the CURRENT text of a few small decision functions of /repo
(second tie between model and source; the primary tie is the correspondence run of every check).

Translated (Python `ast` -> Gallina text):
  mro.py      Order.opposite, Order.merge, the issubclass fallback at the end of typeorder
  typemap.py  Candidate.sort_key, Candidate.dominates, the arity / required-keyword filter of MultiTypeMap.mro,
              the grouping loop of MultiTypeMap.mro._pull, the code-key decision chain of MultiTypeMap.__missing__
coq/Proofs/LeafAgree.v proves the generated definitions extensionally equal to the hand-written ones the model uses
(Model/Order.v, Model/Resolve.v) with edit-tolerant scripts, so a harmless respelling re-proves while a semantic edit
(>= -> >, a dropped branch, a swapped LESS/MORE) breaks a proof obligation.

Fail-open: when the source leaves the supported subset the hand-written definitions are re-exported under the generated
names and `leaf_translated` is false; that alone is never an alarm (the correspondence still covers the code)."""
import ast, os, textwrap
from .. import REPO_SRC, VERIF

OUT = os.path.join(VERIF, "coq", "Gen", "Leaf.v")


class Unsupported(Exception):
    pass


def _find(tree, cls, fn):
    for n in tree.body:
        if isinstance(n, ast.ClassDef) and n.name == cls:
            for m in n.body:
                if isinstance(m, ast.FunctionDef) and m.name == fn:
                    return m
    raise Unsupported(f"{cls}.{fn} not found")


ORDERS = {"LESS", "MORE", "SAME", "NONE"}


def order_const(e):
    if isinstance(e, ast.Attribute) and isinstance(e.value, ast.Name) and e.value.id == "Order" and e.attr in ORDERS:
        return e.attr
    raise Unsupported(ast.dump(e))


# ---- Order.opposite -------------------------------------------------------------------------------------------
def tr_opposite(fn):
    """if self is Order.X: return Order.Y elif ... else: return self  ->  match"""
    def expr(e):
        if isinstance(e, ast.Name) and e.id == "self":
            return "o"
        return order_const(e)

    def cond(e):
        if isinstance(e, ast.Compare) and len(e.ops) == 1 and isinstance(e.ops[0], (ast.Is, ast.Eq)) \
                and isinstance(e.left, ast.Name) and e.left.id == "self":
            return f"order_eqb o {order_const(e.comparators[0])}"
        raise Unsupported(ast.dump(e))

    def stmts(body):
        if len(body) == 1 and isinstance(body[0], ast.Return):
            return expr(body[0].value)
        if isinstance(body[0], ast.If):
            i = body[0]
            els = i.orelse if i.orelse else body[1:]
            return f"(if {cond(i.test)} then {stmts(i.body)} else {stmts(els)})"
        raise Unsupported(ast.dump(body[0]))
    body = [s for s in fn.body if not (isinstance(s, ast.Expr) and isinstance(s.value, ast.Constant))]
    return "Definition opposite_src (o : order) : order :=\n  " + stmts(body) + "."


# ---- Order.merge ----------------------------------------------------------------------------------------------
def tr_merge(fn):
    """orders = set(orders); if orders == {A}: ...; elif not (orders - {A, B}): ...; else ..."""
    def setlit(e):
        if isinstance(e, ast.Set):
            return [order_const(x) for x in e.elts]
        raise Unsupported(ast.dump(e))

    def cond(e):
        # orders == {X}
        if isinstance(e, ast.Compare) and len(e.ops) == 1 and isinstance(e.ops[0], ast.Eq) \
                and isinstance(e.left, ast.Name) and e.left.id == "orders":
            xs = setlit(e.comparators[0])
            mem = " || ".join(f"order_eqb x {x}" for x in xs)
            cover = " && ".join(f"existsb (fun x => order_eqb x {x}) l" for x in xs)
            return f"(forallb (fun x => {mem}) l && {cover})"
        # not (orders - {A, B})
        if isinstance(e, ast.UnaryOp) and isinstance(e.op, ast.Not) and isinstance(e.operand, ast.BinOp) \
                and isinstance(e.operand.op, ast.Sub) and isinstance(e.operand.left, ast.Name) and e.operand.left.id == "orders":
            xs = setlit(e.operand.right)
            mem = " || ".join(f"order_eqb x {x}" for x in xs)
            return f"forallb (fun x => {mem}) l"
        raise Unsupported(ast.dump(e))

    def stmts(body):
        if len(body) == 1 and isinstance(body[0], ast.Return):
            return order_const(body[0].value)
        if isinstance(body[0], ast.If):
            i = body[0]
            els = i.orelse if i.orelse else body[1:]
            return f"(if {cond(i.test)} then {stmts(i.body)} else {stmts(els)})"
        raise Unsupported(ast.dump(body[0]))
    body = list(fn.body)
    if not (isinstance(body[0], ast.Assign) and isinstance(body[0].value, ast.Call) and getattr(body[0].value.func, "id", "") == "set"):
        raise Unsupported("merge: expected orders = set(orders)")
    return "Definition merge_src (l : list order) : order :=\n  " + stmts(body[1:]) + "."


# ---- Candidate.sort_key / dominates ----------------------------------------------------------------------------
FIELDS = {"priority": "c_prio", "tiebreak": "c_tie", "specificity": "c_spec"}


def tr_sort_key(fn):
    r = fn.body[-1]
    if not (isinstance(r, ast.Return) and isinstance(r.value, ast.Tuple) and len(r.value.elts) == 3):
        raise Unsupported("sort_key: expected a 3-tuple")
    out = []
    for e in r.value.elts:
        if isinstance(e, ast.Attribute) and getattr(e.value, "id", "") == "self" and e.attr in ("priority", "tiebreak"):
            out.append(("Z", f"{FIELDS[e.attr]} c"))
        elif isinstance(e, ast.Call) and getattr(e.func, "id", "") == "sum" and isinstance(e.args[0], ast.Attribute) \
                and e.args[0].attr == "specificity":
            out.append(("nat", "sumn (c_spec c)"))
        else:
            raise Unsupported(ast.dump(e))
    if [k for k, _ in out] != ["Z", "nat", "Z"]:
        raise Unsupported("sort_key: unexpected component kinds")
    return ("Definition sort_key_src (c : cand) : Z * nat * Z :=\n  (" + ", ".join(v for _, v in out) + ").")


def tr_dominates(fn):
    def fld(e):
        if isinstance(e, ast.Attribute) and isinstance(e.value, ast.Name) and e.value.id in ("self", "other") and e.attr in FIELDS:
            return FIELDS[e.attr], ("a" if e.value.id == "self" else "b")
        raise Unsupported(ast.dump(e))

    def cmp_(op, x, y, kind):
        if kind == "Z":
            return {ast.Gt: f"Z.ltb {y} {x}", ast.Lt: f"Z.ltb {x} {y}", ast.GtE: f"Z.leb {y} {x}", ast.LtE: f"Z.leb {x} {y}",
                    ast.Eq: f"Z.eqb {x} {y}", ast.NotEq: f"negb (Z.eqb {x} {y})"}[type(op)]
        return {ast.Gt: f"Nat.ltb {y} {x}", ast.Lt: f"Nat.ltb {x} {y}", ast.GtE: f"Nat.leb {y} {x}", ast.LtE: f"Nat.leb {x} {y}",
                ast.Eq: f"Nat.eqb {x} {y}", ast.NotEq: f"negb (Nat.eqb {x} {y})"}[type(op)]

    def cond(e):
        if isinstance(e, (ast.BoolOp, ast.UnaryOp)):
            return value(e)
        if isinstance(e, ast.Compare) and len(e.ops) == 1:
            f1, v1 = fld(e.left)
            f2, v2 = fld(e.comparators[0])
            if f1 != f2:
                raise Unsupported("comparison of different fields")
            if f1 == "c_spec":
                if isinstance(e.ops[0], ast.NotEq):
                    return f"negb (list_eqb Nat.eqb ({f1} {v1}) ({f2} {v2}))"
                if isinstance(e.ops[0], ast.Eq):
                    return f"list_eqb Nat.eqb ({f1} {v1}) ({f2} {v2})"
                raise Unsupported("specificity comparison")
            return cmp_(e.ops[0], f"({f1} {v1})", f"({f2} {v2})", "Z")
        raise Unsupported(ast.dump(e))

    def value(e):
        if isinstance(e, ast.Constant) and isinstance(e.value, bool):
            return "true" if e.value else "false"
        if isinstance(e, ast.BoolOp):
            op = " && " if isinstance(e.op, ast.And) else " || "
            return "(" + op.join(value(v) for v in e.values) + ")"
        if isinstance(e, ast.UnaryOp) and isinstance(e.op, ast.Not):
            return f"negb ({value(e.operand)})"
        if isinstance(e, ast.Compare):
            return cond(e)
        # all(s1 >= s2 for s1, s2 in zip(self.specificity, other.specificity))
        if isinstance(e, ast.Call) and getattr(e.func, "id", "") == "all" and isinstance(e.args[0], ast.GeneratorExp):
            g = e.args[0]
            gen = g.generators[0]
            if not (isinstance(gen.iter, ast.Call) and getattr(gen.iter.func, "id", "") == "zip" and len(gen.iter.args) == 2
                    and isinstance(gen.target, ast.Tuple) and len(gen.target.elts) == 2 and not gen.ifs):
                raise Unsupported("all(... zip ...)")
            f1, v1 = fld(gen.iter.args[0])
            f2, v2 = fld(gen.iter.args[1])
            n1, n2 = gen.target.elts[0].id, gen.target.elts[1].id
            c = g.elt
            if not (isinstance(c, ast.Compare) and len(c.ops) == 1 and isinstance(c.left, ast.Name) and isinstance(c.comparators[0], ast.Name)):
                raise Unsupported("element comparison")
            env = {n1: "x", n2: "y"}
            return f"all2_src (fun x y => {cmp_(c.ops[0], env[c.left.id], env[c.comparators[0].id], 'nat')}) ({f1} {v1}) ({f2} {v2})"
        raise Unsupported(ast.dump(e))

    def stmts(body):
        if len(body) == 1 and isinstance(body[0], ast.Return):
            return value(body[0].value)
        if isinstance(body[0], ast.If):
            i = body[0]
            els = i.orelse if i.orelse else body[1:]
            return f"(if {cond(i.test)} then {stmts(i.body)} else {stmts(els)})"
        raise Unsupported(ast.dump(body[0]))
    return "Definition dominates_src (a b : cand) : bool :=\n  " + stmts(fn.body) + "."


# ---- the arity / keyword filter of MultiTypeMap.mro ---------------------------------------------------------------
def tr_arity(tree):
    fn = _find(tree, "MultiTypeMap", "mro")
    target = None
    for n in ast.walk(fn):
        if isinstance(n, ast.DictComp) and n.generators and n.generators[0].ifs:
            src = ast.unparse(n.generators[0].ifs[0])
            if "req_pos" in src and "req_names" in src and "max_pos" in src:
                target = n.generators[0].ifs[0]
                break
    if target is None:
        raise Unsupported("arity filter not found")

    def term(e):
        if isinstance(e, ast.Attribute) and getattr(e.value, "id", "") == "sig":
            return {"req_pos": "m_req m", "max_pos": "m_max m"}.get(e.attr) or (_ for _ in ()).throw(Unsupported(e.attr))
        if isinstance(e, ast.Name) and e.id == "nargs":
            return "nargs"
        if isinstance(e, ast.IfExp) and "vararg" in ast.unparse(e.test):
            return term(e.orelse)        # vararg is always False (Signature.extract)
        raise Unsupported(ast.dump(e))

    def cond(e):
        if isinstance(e, ast.BoolOp) and isinstance(e.op, ast.And):
            return "(" + " && ".join(cond(v) for v in e.values) + ")"
        if isinstance(e, ast.Compare):
            parts = []
            left = e.left
            for op, right in zip(e.ops, e.comparators):
                a, b = term(left), term(right)
                parts.append({ast.LtE: f"Nat.leb ({a}) ({b})", ast.Lt: f"Nat.ltb ({a}) ({b})", ast.GtE: f"Nat.leb ({b}) ({a})",
                              ast.Gt: f"Nat.ltb ({b}) ({a})"}[type(op)])
                left = right
            return "(" + " && ".join(parts) + ")"
        if isinstance(e, ast.UnaryOp) and isinstance(e.op, ast.Not) and isinstance(e.operand, ast.BinOp) and isinstance(e.operand.op, ast.Sub) \
                and ast.unparse(e.operand.left) == "sig.req_names" and ast.unparse(e.operand.right) == "names":
            return "forallb (fun k => memb k names) (m_reqkw m)"
        raise Unsupported(ast.dump(e))
    return "Definition arity_ok_src (m : meth) (nargs : nat) (names : list nat) : bool :=\n  " + cond(target) + "."


# ---- the code-key branch of MultiTypeMap.__missing__ ------------------------------------------------------------------
def tr_missing(tree):
    """if obj_t_tup and isinstance(obj_t_tup[0], CodeType): real_tup = obj_t_tup[1:]; self[real_tup]; <if chain>
    -> missing_code_src (foreign remembered stored : bool) : code_action"""
    fn = _find(tree, "MultiTypeMap", "__missing__")
    branch = None
    for st in fn.body:
        if isinstance(st, ast.If) and "CodeType" in ast.unparse(st.test):
            branch = st
            break
    if branch is None:
        raise Unsupported("code-key branch not found")
    pre = [ast.unparse(x) for x in branch.body[:-1]]
    if pre != ["real_tup = obj_t_tup[1:]", "self[real_tup]"]:
        raise Unsupported("statements before the chain: " + "; ".join(pre))
    chain = branch.body[-1]
    if not isinstance(chain, ast.If):
        raise Unsupported("no decision chain")
    ATOMS = {"obj_t_tup[0] not in self.all[real_tup]": "foreign", "obj_t_tup[0] in self.all[real_tup]": "negb foreign",
             "obj_t_tup in self.errors": "remembered", "obj_t_tup not in self.errors": "negb remembered",
             "obj_t_tup in self": "stored", "obj_t_tup not in self": "negb stored"}
    ACTIONS = {"return self[real_tup]": "CA_plain", "raise self.errors[obj_t_tup]": "CA_error",
               "return self[obj_t_tup]": "CA_entry", "raise self.key_error(real_tup, ())": "CA_nomethod"}

    def cond(e):
        src = ast.unparse(e)
        if src in ATOMS:
            return ATOMS[src]
        if isinstance(e, ast.BoolOp):
            op = " && " if isinstance(e.op, ast.And) else " || "
            return "(" + op.join(cond(v) for v in e.values) + ")"
        if isinstance(e, ast.UnaryOp) and isinstance(e.op, ast.Not):
            return "negb (" + cond(e.operand) + ")"
        raise Unsupported(src)

    def stmts(b):
        if len(b) == 1 and ast.unparse(b[0]) in ACTIONS:
            return ACTIONS[ast.unparse(b[0])]
        if len(b) >= 1 and isinstance(b[0], ast.If):
            i = b[0]
            els = i.orelse if i.orelse else b[1:]
            if not els:
                raise Unsupported("if without else")
            return f"(if {cond(i.test)} then {stmts(i.body)} else {stmts(els)})"
        raise Unsupported("statement " + ast.unparse(b[0])[:60])
    return "Definition missing_code_src (foreign remembered stored : bool) : code_action :=\n  " + stmts([chain]) + "."


# ---- the class fallback at the end of typeorder ---------------------------------------------------------------------
def tr_tail(tree):
    """sx = issubclass(t1, t2); sy = issubclass(t2, t1); if/elif chain over sx, sy returning Order constants
    -> cls_tail_src (s12 s21 : bool) : order   (s12 = issubclass(t1, t2), s21 = issubclass(t2, t1))"""
    fn = None
    for n in tree.body:
        if isinstance(n, ast.FunctionDef) and n.name == "typeorder":
            fn = n
    if fn is None:
        raise Unsupported("typeorder not found")
    body = fn.body
    # the trailing if-chain and the assignments just before it
    if not isinstance(body[-1], ast.If):
        raise Unsupported("typeorder does not end with an if chain")
    names = {}
    k = len(body) - 2
    while k >= 0 and isinstance(body[k], ast.Assign) and len(body[k].targets) == 1 and isinstance(body[k].targets[0], ast.Name):
        src = ast.unparse(body[k].value)
        if src == "issubclass(t1, t2)":
            names[body[k].targets[0].id] = "s12"
        elif src == "issubclass(t2, t1)":
            names[body[k].targets[0].id] = "s21"
        else:
            raise Unsupported("assignment " + src)
        k -= 1
    # (the tests may also be written inline in the conditions)

    def cond(e):
        if isinstance(e, ast.Name) and e.id in names:
            return names[e.id]
        if isinstance(e, ast.BoolOp):
            op = " && " if isinstance(e.op, ast.And) else " || "
            return "(" + op.join(cond(v) for v in e.values) + ")"
        if isinstance(e, ast.UnaryOp) and isinstance(e.op, ast.Not):
            return "negb " + cond(e.operand)
        if isinstance(e, ast.Call) and ast.unparse(e) == "issubclass(t1, t2)":
            return "s12"
        if isinstance(e, ast.Call) and ast.unparse(e) == "issubclass(t2, t1)":
            return "s21"
        raise Unsupported(ast.unparse(e))

    def stmts(b):
        if len(b) == 1 and isinstance(b[0], ast.Return):
            return order_const(b[0].value)
        if len(b) >= 1 and isinstance(b[0], ast.If):
            i = b[0]
            els = i.orelse if i.orelse else b[1:]
            if not els:
                raise Unsupported("if without else")
            return f"(if {cond(i.test)} then {stmts(i.body)} else {stmts(els)})"
        raise Unsupported("statement in the final chain")
    return "Definition cls_tail_src (s12 s21 : bool) : order :=\n  " + stmts([body[-1]]) + "."


# ---- the grouping loop of MultiTypeMap.mro._pull -----------------------------------------------------------------
def tr_pull(tree):
    """for c2 in candidates[1:]: if COND: continue else: processed.add(c2.handler); rval.append(c2)
    -> grp_src kept rest, where kept is rval (its first element is c1 = candidates[0])"""
    mro = _find(tree, "MultiTypeMap", "mro")
    pull = None
    for n in ast.walk(mro):
        if isinstance(n, ast.FunctionDef) and n.name == "_pull":
            pull = n
    if pull is None:
        raise Unsupported("_pull not found")
    loops = [n for n in pull.body if isinstance(n, ast.For)]
    if len(loops) != 1:
        raise Unsupported("expected one for loop in _pull")
    loop = loops[0]
    if not (isinstance(loop.target, ast.Name) and ast.unparse(loop.iter) == "candidates[1:]" and not loop.orelse):
        raise Unsupported("loop header " + ast.unparse(loop.iter))
    v = loop.target.id
    # rval = [candidates[0]]; c1 = candidates[0] must precede the loop
    pre = [ast.unparse(x) for x in pull.body if isinstance(x, ast.Assign)]
    if "rval = [candidates[0]]" not in pre:
        raise Unsupported("rval initialisation")
    leader = [p.split(" = ")[0] for p in pre if p.endswith(" = candidates[0]")]
    if len(loop.body) != 1 or not isinstance(loop.body[0], ast.If):
        raise Unsupported("loop body")
    i = loop.body[0]

    def is_skip(b):
        return len(b) == 1 and isinstance(b[0], ast.Continue)

    def is_join(b):
        srcs = sorted(ast.unparse(x) for x in b)
        return srcs == sorted([f"processed.add({v}.handler)", f"rval.append({v})"])

    def cond(e):
        if isinstance(e, ast.Call) and isinstance(e.func, ast.Name) and e.func.id == "any" and len(e.args) == 1 \
                and isinstance(e.args[0], ast.GeneratorExp) and len(e.args[0].generators) == 1:
            g = e.args[0].generators[0]
            if isinstance(g.target, ast.Name) and ast.unparse(g.iter) == "rval" and not g.ifs \
                    and ast.unparse(e.args[0].elt) == f"{g.target.id}.dominates({v})":
                return "existsb (fun c => dominates_src c c2) kept"
        if isinstance(e, ast.Call) and isinstance(e.func, ast.Attribute) and e.func.attr == "dominates" \
                and isinstance(e.func.value, ast.Name) and e.func.value.id in leader and len(e.args) == 1 and ast.unparse(e.args[0]) == v:
            return "match kept with c1 :: _ => dominates_src c1 c2 | [] => false end"
        if isinstance(e, ast.UnaryOp) and isinstance(e.op, ast.Not):
            return "negb (" + cond(e.operand) + ")"
        raise Unsupported(ast.unparse(e))
    if is_skip(i.body) and is_join(i.orelse):
        c = cond(i.test)
    elif is_join(i.body) and (not i.orelse or is_skip(i.orelse)):
        c = "negb (" + cond(i.test) + ")"
    else:
        raise Unsupported("branches of the grouping test")
    return ("Fixpoint grp_src (kept rest : list cand) : list cand :=\n  match rest with\n  | [] => []\n"
            f"  | c2 :: r => if {c} then grp_src kept r else c2 :: grp_src (kept ++ [c2]) r\n  end.")


# ---- FuncDependentType.__lt__ (dependent.py): the comparison of two parametrised conditions by their Any wildcards -----
def tr_dep_lt(tree):
    """if len(self.parameters) != len(other.parameters): return False
       A = sum(<cond over p1 is [not] Any, p2 is [not] Any> for p1, p2 in zip(self.parameters, other.parameters)); B = sum(...)
       return <boolean expression over A, B: truthiness, not, and/or, comparisons>
    -> dep_lt_src (fa fb : list bool) : bool   (fa / fb: which parameters of self / other are typing.Any)"""
    fn = _find(tree, "FuncDependentType", "__lt__")
    if [a.arg for a in fn.args.args] != ["self", "other"]:
        raise Unsupported("parameters of __lt__")
    body = [st for st in fn.body if not (isinstance(st, ast.Expr) and isinstance(st.value, ast.Constant))]
    g = body[0]
    if not (isinstance(g, ast.If) and ast.unparse(g.test) == "len(self.parameters) != len(other.parameters)"
            and [ast.unparse(x) for x in g.body] == ["return False"] and not g.orelse):
        raise Unsupported("length guard")
    ATOMS = {"p1 is Any": "x", "p1 is not Any": "negb x", "p2 is Any": "y", "p2 is not Any": "negb y"}

    def cond(e):
        src = ast.unparse(e)
        if src in ATOMS:
            return ATOMS[src]
        if isinstance(e, ast.BoolOp):
            return "(" + (" && " if isinstance(e.op, ast.And) else " || ").join(cond(v) for v in e.values) + ")"
        if isinstance(e, ast.UnaryOp) and isinstance(e.op, ast.Not):
            return "negb (" + cond(e.operand) + ")"
        raise Unsupported("condition " + src)
    names = []
    lets = []
    for st in body[1:-1]:
        if not (isinstance(st, ast.Assign) and len(st.targets) == 1 and isinstance(st.targets[0], ast.Name)):
            raise Unsupported("statement " + ast.unparse(st)[:60])
        v = st.value
        if not (isinstance(v, ast.Call) and ast.unparse(v.func) == "sum" and len(v.args) == 1 and isinstance(v.args[0], ast.GeneratorExp)
                and len(v.args[0].generators) == 1):
            raise Unsupported("not a sum over a generator: " + ast.unparse(v)[:60])
        gen = v.args[0].generators[0]
        if not (ast.unparse(gen.target) in ("(p1, p2)", "p1, p2") and ast.unparse(gen.iter) == "zip(self.parameters, other.parameters)" and not gen.ifs):
            raise Unsupported("generator " + ast.unparse(gen)[:80])
        nm = st.targets[0].id
        names.append(nm)
        lets.append(f"  let {nm} := count2 (fun x y => {cond(v.args[0].elt)}) fa fb in")

    def truth(e):
        if isinstance(e, ast.Name) and e.id in names:
            return f"negb (Nat.eqb {e.id} 0)"
        if isinstance(e, ast.UnaryOp) and isinstance(e.op, ast.Not):
            return "negb (" + truth(e.operand) + ")"
        if isinstance(e, ast.BoolOp):
            # `a and b` / `a or b` of ints returns one of the operands; only its truth value is used by the caller
            return "(" + (" && " if isinstance(e.op, ast.And) else " || ").join(truth(v) for v in e.values) + ")"
        if isinstance(e, ast.Compare) and len(e.ops) == 1:
            def num(t):
                if isinstance(t, ast.Name) and t.id in names:
                    return t.id
                if isinstance(t, ast.Constant) and isinstance(t.value, int) and not isinstance(t.value, bool) and 0 <= t.value < 100:
                    return str(t.value)
                raise Unsupported("operand " + ast.unparse(t))
            a, b = num(e.left), num(e.comparators[0])
            op = type(e.ops[0])
            tbl = {ast.Gt: f"Nat.ltb {b} {a}", ast.Lt: f"Nat.ltb {a} {b}", ast.GtE: f"Nat.leb {b} {a}", ast.LtE: f"Nat.leb {a} {b}",
                   ast.Eq: f"Nat.eqb {a} {b}", ast.NotEq: f"negb (Nat.eqb {a} {b})"}
            if op not in tbl:
                raise Unsupported("comparison " + ast.unparse(e))
            return "(" + tbl[op] + ")"
        raise Unsupported("result " + ast.unparse(e))
    ret = body[-1]
    if not isinstance(ret, ast.Return):
        raise Unsupported("no final return")
    return ("Definition dep_lt_src (fa fb : list bool) : bool :=\n  if negb (Nat.eqb (length fa) (length fb)) then false else\n"
            + "\n".join(lets) + "\n  " + truth(ret.value) + ".")


# ---- DependentType.__type_order__ (dependent.py): the decision tree, over the results of the calls it makes ------------
def _order_chain(stmts, cond, ret):
    """a chain of if / elif / else statements each ending in `return <order>` -> nested Coq if-expression"""
    def go(b):
        if len(b) == 1 and isinstance(b[0], ast.Return):
            return ret(b[0].value)
        if len(b) >= 1 and isinstance(b[0], ast.If):
            i = b[0]
            els = i.orelse if i.orelse else b[1:]
            if not els:
                raise Unsupported("if without else")
            return f"(if {cond(i.test)} then {go(i.body)} else {go(els)})"
        raise Unsupported("statement " + ast.unparse(b[0])[:60])
    return go(stmts)


def tr_dep_order(tree):
    """-> dep_order_src (odep : bool) (bo : order) (lt gt s1 s2 : bool) : order
       odep = isinstance(other, DependentType), bo = typeorder(self.bound, other.bound), lt = self < other, gt = other < self,
       s1 = subclasscheck(other, self.bound), s2 = subclasscheck(self.bound, other)"""
    fn = _find(tree, "DependentType", "__type_order__")
    ATOMS = {"isinstance(other, DependentType)": "odep", "self < other": "lt", "other < self": "gt", "other > self": "lt", "self > other": "gt",
             "subclasscheck(other, self.bound)": "s1", "subclasscheck(self.bound, other)": "s2"}
    ovar = [None]

    def cond(e):
        src = ast.unparse(e)
        if src in ATOMS:
            return ATOMS[src]
        if isinstance(e, ast.Compare) and len(e.ops) == 1 and isinstance(e.left, ast.Name) and e.left.id == ovar[0]:
            c = order_const(e.comparators[0])
            if isinstance(e.ops[0], (ast.Is, ast.Eq)):
                return f"order_eqb bo {c}"
            if isinstance(e.ops[0], (ast.IsNot, ast.NotEq)):
                return f"negb (order_eqb bo {c})"
        if isinstance(e, ast.BoolOp):
            return "(" + (" && " if isinstance(e.op, ast.And) else " || ").join(cond(v) for v in e.values) + ")"
        if isinstance(e, ast.UnaryOp) and isinstance(e.op, ast.Not):
            return "negb (" + cond(e.operand) + ")"
        raise Unsupported("condition " + src[:60])

    def ret(e):
        if isinstance(e, ast.Name) and e.id == ovar[0]:
            return "bo"
        return order_const(e)

    def strip(b):
        out = []
        for st in b:
            if isinstance(st, ast.Expr) and isinstance(st.value, ast.Constant):
                continue
            if isinstance(st, ast.Assign) and ast.unparse(st.value) == "typeorder(self.bound, other.bound)" and len(st.targets) == 1 and isinstance(st.targets[0], ast.Name):
                ovar[0] = st.targets[0].id
                continue
            if isinstance(st, ast.If):
                st = ast.If(test=st.test, body=strip(st.body), orelse=strip(st.orelse))
            out.append(st)
        return out
    return ("Definition dep_order_src (odep : bool) (bo : order) (lt gt s1 s2 : bool) : order :=\n  "
            + _order_chain(strip(fn.body), cond, ret) + ".")


def _tr_member_order(tree, cls, name):
    """Union / Intersection .__type_order__ (types.py): the list of the members' comparisons with the other type, NONE
    answers dropped, then an if-chain over that list -> <name> (cmp : list order) : order   (cmp: the non-NONE answers)"""
    fn = _find(tree, cls, "__type_order__")
    body = [st for st in fn.body if not (isinstance(st, ast.Expr) and isinstance(st.value, ast.Constant))]
    # the guard for the bare class object (`other is Union`), outside the model
    if isinstance(body[0], ast.If) and ast.unparse(body[0].test) == f"other is {cls}" and not body[0].orelse:
        body = body[1:]
    pre = [ast.unparse(x) for x in body[:2]]
    if pre != ["classes = self.types", "compare = [x for t in classes if (x := typeorder(t, other)) is not Order.NONE]"]:
        raise Unsupported("statements before the chain: " + "; ".join(pre)[:120])

    def elem(e):          # a condition on one element x of compare
        if isinstance(e, ast.Compare) and len(e.ops) == 1 and isinstance(e.left, ast.Name) and e.left.id == "x":
            c = order_const(e.comparators[0])
            if isinstance(e.ops[0], (ast.Is, ast.Eq)):
                return f"order_eqb x {c}"
            if isinstance(e.ops[0], (ast.IsNot, ast.NotEq)):
                return f"negb (order_eqb x {c})"
        if isinstance(e, ast.BoolOp):
            return "(" + (" && " if isinstance(e.op, ast.And) else " || ").join(elem(v) for v in e.values) + ")"
        if isinstance(e, ast.UnaryOp) and isinstance(e.op, ast.Not):
            return "negb (" + elem(e.operand) + ")"
        raise Unsupported("element condition " + ast.unparse(e)[:60])

    def cond(e):
        src = ast.unparse(e)
        if src == "not compare":
            return "(match cmp with [] => true | _ => false end)"
        if src == "compare":
            return "(match cmp with [] => false | _ => true end)"
        if isinstance(e, ast.Call) and isinstance(e.func, ast.Name) and e.func.id in ("any", "all") and len(e.args) == 1 \
                and isinstance(e.args[0], ast.GeneratorExp) and len(e.args[0].generators) == 1:
            g = e.args[0].generators[0]
            if ast.unparse(g.target) == "x" and ast.unparse(g.iter) == "compare" and not g.ifs:
                return f"({'existsb' if e.func.id == 'any' else 'forallb'} (fun x => {elem(e.args[0].elt)}) cmp)"
        if isinstance(e, ast.BoolOp):
            return "(" + (" && " if isinstance(e.op, ast.And) else " || ").join(cond(v) for v in e.values) + ")"
        if isinstance(e, ast.UnaryOp) and isinstance(e.op, ast.Not):
            return "negb (" + cond(e.operand) + ")"
        raise Unsupported("condition " + src[:60])
    return f"Definition {name} (cmp : list order) : order :=\n  " + _order_chain(body[2:], cond, order_const) + "."


# ---- sort_types (mro.py): what one comparison adds to the dependency graph; TypeMap.__missing__: the level of a round ----
def tr_edge(tree):
    """for i, t1 in enumerate(avail): for t2 in avail[i + 1:]: order = typeorder(t1, t2); if order is Order.X: deps[a].add(b) ...
    -> edge_src (o : order) : option bool   (Some true: deps[t2].add(t1), Some false: deps[t1].add(t2), None: nothing)"""
    fn = None
    for n in tree.body:
        if isinstance(n, ast.FunctionDef) and n.name == "sort_types":
            fn = n
    if fn is None:
        raise Unsupported("sort_types not found")
    outer = [st for st in fn.body if isinstance(st, ast.For) and ast.unparse(st.iter) == "enumerate(avail)" and ast.unparse(st.target) in ("(i, t1)", "i, t1")]
    if len(outer) != 1:
        raise Unsupported("outer loop over enumerate(avail)")
    inner = [st for st in outer[0].body if isinstance(st, ast.For)]
    if len(outer[0].body) != 1 or len(inner) != 1 or ast.unparse(inner[0].target) != "t2" or ast.unparse(inner[0].iter).replace(" ", "") != "avail[i+1:]":
        raise Unsupported("inner loop over avail[i + 1:]")
    body = [st for st in inner[0].body if not (isinstance(st, ast.Expr) and isinstance(st.value, ast.Constant))]
    if not (len(body) == 2 and ast.unparse(body[0]) == "order = typeorder(t1, t2)" and isinstance(body[1], ast.If)):
        raise Unsupported("loop body")
    ACTIONS = {"deps[t2].add(t1)": "Some true", "deps[t1].add(t2)": "Some false"}

    def cond(e):
        if isinstance(e, ast.Compare) and len(e.ops) == 1 and ast.unparse(e.left) == "order":
            c = order_const(e.comparators[0])
            if isinstance(e.ops[0], (ast.Is, ast.Eq)):
                return f"order_eqb o {c}"
            if isinstance(e.ops[0], (ast.IsNot, ast.NotEq)):
                return f"negb (order_eqb o {c})"
        if isinstance(e, ast.BoolOp):
            return "(" + (" && " if isinstance(e.op, ast.And) else " || ").join(cond(v) for v in e.values) + ")"
        raise Unsupported("condition " + ast.unparse(e)[:60])

    def go(b):
        if not b:
            return "None"
        if len(b) == 1 and isinstance(b[0], ast.Expr) and ast.unparse(b[0]) in ACTIONS:
            return ACTIONS[ast.unparse(b[0])]
        if len(b) == 1 and isinstance(b[0], ast.Pass):
            return "None"
        if len(b) == 1 and isinstance(b[0], ast.If):
            return f"(if {cond(b[0].test)} then {go(b[0].body)} else {go(b[0].orelse)})"
        raise Unsupported("statement " + ast.unparse(b[0])[:60])
    return "Definition edge_src (o : order) : option bool :=\n  " + go([body[1]]) + "."


def tr_level(tree):
    """groups = list(sort_types(obj_t, self.types)); for lvl, grp in enumerate(reversed(groups)): ... {h: lvl for h in handlers}
    -> level_index_src (nr r : nat) : nat   (r: index of the round in the order sort_types yields them, nr: their number)"""
    fn = _find(tree, "TypeMap", "__missing__")
    srcs = [ast.unparse(st) for st in fn.body]
    if "groups = list(sort_types(obj_t, self.types))" not in srcs:
        raise Unsupported("groups = list(sort_types(...)) not found")
    loops = [st for st in fn.body if isinstance(st, ast.For) and ast.unparse(st.target) in ("(lvl, grp)", "lvl, grp")]
    if len(loops) != 1:
        raise Unsupported("loop over the rounds")
    it = ast.unparse(loops[0].iter)
    if "{h: lvl for h in handlers}" not in ast.unparse(loops[0]):
        raise Unsupported("the level stored is not lvl")
    if it == "enumerate(reversed(groups))":
        expr = "nr - 1 - r"
    elif it == "enumerate(groups)":
        expr = "r"
    else:
        raise Unsupported("iteration " + it)
    return f"Definition level_index_src (nr r : nat) : nat := {expr}."


# ---- subclasscheck (mro.py): the generic-alias branch -------------------------------------------------------------
def tr_gen_sub(tree):
    """if o1 or o2: o1 = o1 or t1; o2 = o2 or t2; <decision over issubclass(o1, o2), o2 is t2, len(args1) vs len(args2),
    all(subclasscheck(a1, a2) for a1, a2 in zip(args1, args2))>
    -> gen_sub_src (osub plain : bool) (n1 n2 : nat) (args_ok : bool) : bool
       osub = issubclass(o1, o2), plain = (o2 is t2), n1 / n2 = number of type arguments, args_ok = the argument-wise test"""
    fn = None
    for n in tree.body:
        if isinstance(n, ast.FunctionDef) and n.name == "subclasscheck":
            fn = n
    if fn is None:
        raise Unsupported("subclasscheck not found")
    blk = [st for st in fn.body if isinstance(st, ast.If) and ast.unparse(st.test) == "o1 or o2"]
    if len(blk) != 1:
        raise Unsupported("the `if o1 or o2:` block")
    body = [st for st in blk[0].body if not (isinstance(st, ast.Expr) and isinstance(st.value, ast.Constant))]
    if [ast.unparse(x) for x in body[:2]] != ["o1 = o1 or t1", "o2 = o2 or t2"]:
        raise Unsupported("origin defaults")
    SKIP = {"args1 = get_args(t1)", "args2 = get_args(t2)"}
    ATOMS = {"issubclass(o1, o2)": "osub", "o2 is t2": "plain", "o2 is not t2": "negb plain"}
    ALL = "all((subclasscheck(a1, a2) for a1, a2 in zip(args1, args2)))"

    def num(e):
        src = ast.unparse(e)
        if src == "len(args1)":
            return "n1"
        if src == "len(args2)":
            return "n2"
        raise Unsupported("operand " + src)

    def cond(e):
        src = ast.unparse(e)
        if src in ATOMS:
            return ATOMS[src]
        if isinstance(e, ast.Compare) and len(e.ops) == 1:
            a, b = num(e.left), num(e.comparators[0])
            tbl = {ast.Eq: f"Nat.eqb {a} {b}", ast.NotEq: f"negb (Nat.eqb {a} {b})", ast.Lt: f"Nat.ltb {a} {b}", ast.Gt: f"Nat.ltb {b} {a}",
                   ast.LtE: f"Nat.leb {a} {b}", ast.GtE: f"Nat.leb {b} {a}"}
            if type(e.ops[0]) in tbl:
                return "(" + tbl[type(e.ops[0])] + ")"
        if isinstance(e, ast.BoolOp):
            return "(" + (" && " if isinstance(e.op, ast.And) else " || ").join(cond(v) for v in e.values) + ")"
        if isinstance(e, ast.UnaryOp) and isinstance(e.op, ast.Not):
            return "negb (" + cond(e.operand) + ")"
        raise Unsupported("condition " + src[:60])

    def ret(e):
        src = ast.unparse(e)
        if src == "True":
            return "true"
        if src == "False":
            return "false"
        if src.replace(" ", "") == ALL.replace(" ", "") or src.replace(" ", "") == ALL.replace("((", "(").replace("))", ")").replace(" ", ""):
            return "args_ok"
        raise Unsupported("result " + src[:80])

    def go(b):
        b = [st for st in b if ast.unparse(st) not in SKIP and not (isinstance(st, ast.Expr) and isinstance(st.value, ast.Constant))]
        if len(b) == 1 and isinstance(b[0], ast.Return):
            return ret(b[0].value)
        if len(b) >= 1 and isinstance(b[0], ast.If):
            i = b[0]
            els = i.orelse if i.orelse else b[1:]
            if not els:
                raise Unsupported("if without else")
            return f"(if {cond(i.test)} then {go(i.body)} else {go(els)})"
        raise Unsupported("statement " + ast.unparse(b[0])[:60])
    return "Definition gen_sub_src (osub plain : bool) (n1 n2 : nat) (args_ok : bool) : bool :=\n  " + go(body[2:]) + "."


# ---- typeorder (mro.py): the generic-alias block `if o1:` ------------------------------------------------------------
def tr_gen_order(tree):
    """-> gen_order_src (o2p : bool) (ot2 oo : order) (e1 e2 : bool) (n1 n2 : nat) (merged : order) : order
       o2p = bool(o2), ot2 = typeorder(o1, t2), oo = typeorder(o1, o2), e1 / e2 = args1 / args2 non-empty, n1 / n2 = their
       lengths, merged = Order.merge([typeorder(a1, a2) for a1, a2 in zip(args1, args2)])"""
    fn = None
    for n in tree.body:
        if isinstance(n, ast.FunctionDef) and n.name == "typeorder":
            fn = n
    if fn is None:
        raise Unsupported("typeorder not found")
    blk = [st for st in fn.body if isinstance(st, ast.If) and ast.unparse(st.test) == "o1" and not st.orelse]
    if len(blk) != 1:
        raise Unsupported("the `if o1:` block")
    CALLS = {"typeorder(o1, t2)": "ot2", "typeorder(o1, o2)": "oo"}
    SKIP = {"args1 = get_args(t1)", "args2 = get_args(t2)", "ords = [typeorder(a1, a2) for a1, a2 in zip(args1, args2)]"}
    ATOMS = {"o2": "o2p", "not o2": "negb o2p", "args1": "e1", "args2": "e2", "not args1": "negb e1", "not args2": "negb e2"}

    def oconst(e, env):
        # Order.X, or <variable holding an order>.X (the enum member reached through an instance)
        if isinstance(e, ast.Attribute) and isinstance(e.value, ast.Name) and e.attr in ORDERS and (e.value.id == "Order" or e.value.id in env):
            return e.attr
        raise Unsupported("order constant " + ast.unparse(e))

    def oexpr(e, env):
        src = ast.unparse(e)
        if src in CALLS:
            return CALLS[src]
        if isinstance(e, ast.Name) and e.id in env:
            return env[e.id]
        if src == "Order.merge(ords)":
            return "merged"
        return oconst(e, env)

    def num(e):
        src = ast.unparse(e)
        if src == "len(args1)":
            return "n1"
        if src == "len(args2)":
            return "n2"
        raise Unsupported("operand " + src)

    def cond(e, env):
        src = ast.unparse(e)
        if src in ATOMS:
            return ATOMS[src]
        if isinstance(e, ast.Compare) and len(e.ops) == 1 and isinstance(e.ops[0], (ast.Is, ast.IsNot, ast.Eq, ast.NotEq)) \
                and not ast.unparse(e.left).startswith("len("):
            left = e.left
            if isinstance(left, ast.NamedExpr):
                env[left.target.id] = oexpr(left.value, env)
                lv = env[left.target.id]
            else:
                lv = oexpr(left, env)
            c = oconst(e.comparators[0], env)
            pos = isinstance(e.ops[0], (ast.Is, ast.Eq))
            return f"order_eqb {lv} {c}" if pos else f"negb (order_eqb {lv} {c})"
        if isinstance(e, ast.Compare) and len(e.ops) == 1:
            a, b = num(e.left), num(e.comparators[0])
            tbl = {ast.Eq: f"Nat.eqb {a} {b}", ast.NotEq: f"negb (Nat.eqb {a} {b})", ast.Lt: f"Nat.ltb {a} {b}", ast.Gt: f"Nat.ltb {b} {a}",
                   ast.LtE: f"Nat.leb {a} {b}", ast.GtE: f"Nat.leb {b} {a}"}
            if type(e.ops[0]) in tbl:
                return "(" + tbl[type(e.ops[0])] + ")"
        if isinstance(e, ast.BoolOp):
            return "(" + (" && " if isinstance(e.op, ast.And) else " || ").join(cond(v, env) for v in e.values) + ")"
        if isinstance(e, ast.UnaryOp) and isinstance(e.op, ast.Not):
            return "negb (" + cond(e.operand, env) + ")"
        raise Unsupported("condition " + src[:60])

    def go(b, env):
        """sequence of statements that ends by returning on every path -> Coq expression"""
        b = [st for st in b if ast.unparse(st) not in SKIP and not (isinstance(st, ast.Expr) and isinstance(st.value, ast.Constant))]
        if not b:
            raise Unsupported("a path does not return")
        st = b[0]
        if isinstance(st, ast.Return):
            return oexpr(st.value, env)
        if isinstance(st, ast.Assign) and len(st.targets) == 1 and isinstance(st.targets[0], ast.Name):
            env = dict(env)
            env[st.targets[0].id] = oexpr(st.value, env)
            return go(b[1:], env)
        if isinstance(st, ast.If):
            env = dict(env)
            c = cond(st.test, env)
            body_returns = isinstance(st.body[-1], ast.Return)
            if st.orelse:
                return f"(if {c} then {go(st.body, env)} else {go(st.orelse + b[1:] if not isinstance(st.orelse[-1], ast.Return) else st.orelse, env)})"
            if body_returns:
                return f"(if {c} then {go(st.body, env)} else {go(b[1:], env)})"
            # a conditional re-assignment: if c: v = X
            if len(st.body) == 1 and isinstance(st.body[0], ast.Assign) and len(st.body[0].targets) == 1 and isinstance(st.body[0].targets[0], ast.Name):
                v = st.body[0].targets[0].id
                old = env.get(v)
                if old is None:
                    raise Unsupported("conditional assignment to an unbound variable")
                env[v] = f"(if {c} then {oexpr(st.body[0].value, env)} else {old})"
                return go(b[1:], env)
        raise Unsupported("statement " + ast.unparse(st)[:60])
    return ("Definition gen_order_src (o2p : bool) (ot2 oo : order) (e1 e2 : bool) (n1 n2 : nat) (merged : order) : order :=\n  "
            + go(blk[0].body, {}) + ".")


# ---- generate_dependent_dispatch (recode.py): the two decisions that pick the strategy --------------------------------
def _cmp_nat(e, names):
    def num(t):
        src = ast.unparse(t)
        if src in names:
            return names[src]
        if isinstance(t, ast.Constant) and isinstance(t.value, int) and not isinstance(t.value, bool) and 0 <= t.value < 100:
            return str(t.value)
        raise Unsupported("operand " + src[:40])
    if isinstance(e, ast.Compare) and len(e.ops) == 1:
        a, b = num(e.left), num(e.comparators[0])
        tbl = {ast.Eq: f"Nat.eqb {a} {b}", ast.NotEq: f"negb (Nat.eqb {a} {b})", ast.Lt: f"Nat.ltb {a} {b}", ast.Gt: f"Nat.ltb {b} {a}",
               ast.LtE: f"Nat.leb {a} {b}", ast.GtE: f"Nat.leb {b} {a}"}
        if type(e.ops[0]) in tbl:
            return "(" + tbl[type(e.ops[0])] + ")"
    if isinstance(e, ast.BoolOp):
        return "(" + (" && " if isinstance(e.op, ast.And) else " || ").join(_cmp_nat(v, names) for v in e.values) + ")"
    if isinstance(e, ast.UnaryOp) and isinstance(e.op, ast.Not):
        return "negb (" + _cmp_nat(e.operand, names) + ")"
    raise Unsupported("condition " + ast.unparse(e)[:60])


def tr_keyable(tree):
    """inside `if getattr(focus, "keyable_type", False):` -- the chain over len(keyed) / sum(map(len, all_keys)) / len(featured)
    whose branches set exclusive / keyexpr / keyed -> keyable_src (distinct nkeyed nfeat : nat) : kchoice"""
    fn = None
    for n in tree.body:
        if isinstance(n, ast.FunctionDef) and n.name == "generate_dependent_dispatch":
            fn = n
    if fn is None:
        raise Unsupported("generate_dependent_dispatch not found")
    hits = [n for n in ast.walk(fn) if isinstance(n, ast.If) and ast.unparse(n.test) in ("getattr(focus, 'keyable_type', False)", 'getattr(focus, "keyable_type", False)')]
    if len(hits) != 1:
        raise Unsupported("the keyable branch")
    chain = hits[0].body[-1]
    if not isinstance(chain, ast.If):
        raise Unsupported("no decision chain in the keyable branch")
    names = {"len(keyed)": "distinct", "sum(map(len, all_keys))": "nkeyed", "len(featured)": "nfeat"}
    KINDS = {frozenset(["exclusive = False", "keyexpr = keyed = None"]): "KCount", frozenset(["exclusive = False", "keyed = keyexpr = None"]): "KCount",
             frozenset(["exclusive = True", "keyexpr = None"]): "KChain",
             frozenset(["keyexpr = focus.keygen().format(arg=argname(k))"]): "KTable"}

    def go(b):
        b = [st for st in b if not (isinstance(st, ast.Expr) and isinstance(st.value, ast.Constant))]
        if len(b) == 1 and isinstance(b[0], ast.If):
            i = b[0]
            if not i.orelse:
                raise Unsupported("if without else")
            return f"(if {_cmp_nat(i.test, names)} then {go(i.body)} else {go(i.orelse)})"
        key = frozenset(ast.unparse(st) for st in b)
        if key in KINDS:
            return KINDS[key]
        raise Unsupported("branch " + "; ".join(sorted(key))[:80])
    return "Definition keyable_src (distinct nkeyed nfeat : nat) : kchoice :=\n  " + go([chain]) + "."


def tr_final_choice(tree):
    """if keyexpr: <table> elif exclusive: <if-chain> else: <counting>  -> final_src (haskey exclusive : bool) : kchoice"""
    fn = None
    for n in tree.body:
        if isinstance(n, ast.FunctionDef) and n.name == "generate_dependent_dispatch":
            fn = n
    if fn is None:
        raise Unsupported("generate_dependent_dispatch not found")
    tops = [st for st in fn.body if isinstance(st, ast.If) and ast.unparse(st.test) in ("keyexpr", "exclusive", "not keyexpr", "not exclusive")]
    if len(tops) != 1:
        raise Unsupported("the final strategy chain")

    def kind(b):
        src = "\n".join(ast.unparse(st) for st in b)
        marks = {"KTable": ".get(" in src and "FALLTHROUGH" in src, "KChain": "if {conj}: return HANDLER" in src, "KCount": "SUMMATION" in src}
        got = [k for k, v in marks.items() if v]
        if len(got) != 1:
            raise Unsupported("strategy branch not recognised")
        return got[0]

    def cond(e):
        src = ast.unparse(e)
        tbl = {"keyexpr": "haskey", "exclusive": "exclusive", "not keyexpr": "negb haskey", "not exclusive": "negb exclusive"}
        if src in tbl:
            return tbl[src]
        if isinstance(e, ast.BoolOp):
            return "(" + (" && " if isinstance(e.op, ast.And) else " || ").join(cond(v) for v in e.values) + ")"
        raise Unsupported("condition " + src[:40])

    def go(i):
        els = i.orelse
        if not els:
            raise Unsupported("if without else")
        rest = go(els[0]) if len(els) == 1 and isinstance(els[0], ast.If) else kind(els)
        return f"(if {cond(i.test)} then {kind(i.body)} else {rest})"
    return "Definition final_src (haskey exclusive : bool) : kchoice :=\n  " + go(tops[0]) + "."


HEADER = """(* GENERATED by vlib/translator/leaf.py from /repo/src/ovld/{mro,typemap,dependent,types,recode}.py on every run -- do not edit.
   Proofs/LeafAgree.v proves these equal to the hand-written definitions the model uses. *)
From Coq Require Import ZArith List Bool Arith.
Import ListNotations.
From OvldV Require Import Model.Order Model.Ty Model.Resolve Model.Cache Model.Dep.

Fixpoint all2_src (f : nat -> nat -> bool) (l1 l2 : list nat) : bool :=
  match l1, l2 with
  | x :: xs, y :: ys => f x y && all2_src f xs ys
  | _, _ => true
  end.
"""

FALLBACK = {
    "opposite": "Definition opposite_src (o : order) : order := opposite o.",
    "merge": "Definition merge_src (l : list order) : order := merge l.",
    "sort_key": "Definition sort_key_src (c : cand) : Z * nat * Z := (c_prio c, sumn (c_spec c), c_tie c).",
    "dominates": "Definition dominates_src (a b : cand) : bool := dominates a b.",
    "arity": "Definition arity_ok_src (m : meth) (nargs : nat) (names : list nat) : bool := arity_ok m nargs names.",
    "pull": "Definition grp_src (kept rest : list cand) : list cand := grp kept rest.",
    "missing": "Definition missing_code_src (foreign remembered stored : bool) : code_action := code_action_of foreign remembered stored.",
    "dep_lt": "Definition dep_lt_src (fa fb : list bool) : bool := if Nat.eqb (length fa) (length fb) then negb (Nat.eqb (count2 (fun x y => y && negb x) fa fb) 0) && Nat.eqb (count2 (fun x y => x && negb y) fa fb) 0 else false.",
    "dep_order": "Definition dep_order_src (odep : bool) (bo : order) (lt gt s1 s2 : bool) : order := dep_decide odep bo lt gt s1 s2.",
    "union_order": "Definition union_order_src (cmp : list order) : order := match cmp with [] => NONE | _ => if existsb ge_same cmp then MORE else LESS end.",
    "inter_order": "Definition inter_order_src (cmp : list order) : order := match cmp with [] => NONE | _ => if existsb le_same cmp then LESS else MORE end.",
    "edge": "Definition edge_src (o : order) : option bool := edge_dir o.",
    "level": "Definition level_index_src (nr r : nat) : nat := level_index nr r.",
    "gen_sub": "Definition gen_sub_src (osub plain : bool) (n1 n2 : nat) (args_ok : bool) : bool := gen_sub_decide osub plain n1 n2 args_ok.",
    "gen_order": "Definition gen_order_src (o2p : bool) (ot2 oo : order) (e1 e2 : bool) (n1 n2 : nat) (merged : order) : order := gen_order_decide o2p ot2 oo e1 e2 n1 n2 merged.",
    "keyable": "Definition keyable_src (distinct nkeyed nfeat : nat) : kchoice := keyable_decide distinct nkeyed nfeat.",
    "final_choice": "Definition final_src (haskey exclusive : bool) : kchoice := final_choice haskey exclusive.",
    "tail": "Definition cls_tail_src (s12 s21 : bool) : order := if s12 && s21 then SAME else if s12 then LESS else if s21 then MORE else NONE.",
}


def regenerate():
    notes = {}
    parts = [HEADER]
    try:
        mro_tree = ast.parse(open(os.path.join(REPO_SRC, "ovld", "mro.py")).read())
        tm_tree = ast.parse(open(os.path.join(REPO_SRC, "ovld", "typemap.py")).read())
        dep_tree = ast.parse(open(os.path.join(REPO_SRC, "ovld", "dependent.py")).read())
        ty_tree = ast.parse(open(os.path.join(REPO_SRC, "ovld", "types.py")).read())
        rc_tree = ast.parse(open(os.path.join(REPO_SRC, "ovld", "recode.py")).read())
    except Exception as e:  # noqa
        mro_tree = tm_tree = dep_tree = ty_tree = rc_tree = None
        notes["parse"] = f"not translated: {e}"
    jobs = [("opposite", lambda: tr_opposite(_find(mro_tree, "Order", "opposite"))),
            ("merge", lambda: tr_merge(_find(mro_tree, "Order", "merge"))),
            ("sort_key", lambda: tr_sort_key(_find(tm_tree, "Candidate", "sort_key"))),
            ("dominates", lambda: tr_dominates(_find(tm_tree, "Candidate", "dominates"))),
            ("arity", lambda: tr_arity(tm_tree)),
            ("pull", lambda: tr_pull(tm_tree)),
            ("tail", lambda: tr_tail(mro_tree)),
            ("missing", lambda: tr_missing(tm_tree)),
            ("gen_sub", lambda: tr_gen_sub(mro_tree)),
            ("gen_order", lambda: tr_gen_order(mro_tree)),
            ("edge", lambda: tr_edge(mro_tree)),
            ("level", lambda: tr_level(tm_tree)),
            ("keyable", lambda: tr_keyable(rc_tree)),
            ("final_choice", lambda: tr_final_choice(rc_tree)),
            ("dep_lt", lambda: tr_dep_lt(dep_tree)),
            ("dep_order", lambda: tr_dep_order(dep_tree)),
            ("union_order", lambda: _tr_member_order(ty_tree, "Union", "union_order_src")),
            ("inter_order", lambda: _tr_member_order(ty_tree, "Intersection", "inter_order_src"))]
    ok = True
    for name, job in jobs:
        try:
            parts.append(job())
            notes[name] = "translated"
        except Exception as e:  # noqa: fail open
            parts.append("(* not translated: " + str(e).replace("*)", "* )").replace("(*", "( *").replace('"', "'")[:200] + " *)\n" + FALLBACK[name])
            notes[name] = f"not translated ({type(e).__name__}: {str(e)[:80]})"
            ok = False
    parts.append(f"Definition leaf_translated : bool := {'true' if ok else 'false'}.")
    content = "\n\n".join(parts) + "\n"
    from ..build import _write_if_changed
    notes["changed"] = _write_if_changed(OUT, content)
    return notes
