(* Codec.v — decoding of harness cases (integer s-expressions) into model data, and encoding of outcomes.
   Encodings (tag first):
     val: (0 z) int | (1 ch...) str | (2 b) bool | (3) None | (4 v...) tuple | (5 v...) list | (6 (k v)...) dict | (7 c i) object
     ty : (0 c) | (1 o t...) Gen | (2 t...) Uni | (3 t...) Int | (4 i c) Exa | (5 i c) Strict | (6 i m) HasM | (7 i p) Chk
          | (8 b v...) Lit | (9 f b p...) Fn with p = (0) Any / (1 v) | (10 f b t...) TFn | (11 b t...) Prod
     hier: ((supers of class 0) (supers of class 1) ...) ((methods of class 0) ...) ((classes satisfying predicate 0) ...) (classes d with issubclass(K, d) for constructed K) *)
From Coq Require Import ZArith List Bool Arith.
Import ListNotations.
From OvldV Require Import Model.Sx Model.Order Model.Ty.

Fixpoint val_of (s : sx) : val :=
  match s with
  | A z => VInt z
  | L l =>
      match l with
      | A 0%Z :: A z :: _ => VInt z
      | A 1%Z :: r => VStr (map sx_z r)
      | A 2%Z :: b :: _ => VBool (sx_bool b)
      | A 3%Z :: _ => VNone
      | A 4%Z :: r => VTup (map val_of r)
      | A 5%Z :: r => VLst (map val_of r)
      | A 6%Z :: r =>
          VDict (map (fun p => match p with
                               | L (k :: v :: _) => (val_of k, val_of v)
                               | _ => (VNone, VNone)
                               end) r)
      | A 7%Z :: A c :: A i :: _ => VObj (Z.to_nat c) i
      | _ => VNone
      end
  end.

Fixpoint ty_of (s : sx) : ty :=
  match s with
  | A z => Cls (Z.to_nat z)
  | L l =>
      match l with
      | A 0%Z :: A c :: _ => Cls (Z.to_nat c)
      | A 1%Z :: A o :: r => Gen (Z.to_nat o) (map ty_of r)
      | A 2%Z :: r => Uni (map ty_of r)
      | A 3%Z :: r => Int (map ty_of r)
      | A 4%Z :: A i :: A c :: _ => Exa (Z.to_nat i) (Z.to_nat c)
      | A 5%Z :: A i :: A c :: _ => Strict (Z.to_nat i) (Z.to_nat c)
      | A 6%Z :: A i :: A m :: _ => HasM (Z.to_nat i) (Z.to_nat m)
      | A 7%Z :: A i :: A p :: _ => Chk (Z.to_nat i) (Z.to_nat p)
      | A 8%Z :: b :: r => Lit (map val_of r) (ty_of b)
      | A 9%Z :: A f :: b :: r =>
          Fn (Z.to_nat f)
             (map (fun p => match p with L (A 1%Z :: v :: _) => Some (val_of v) | _ => None end) r)
             (ty_of b)
      | A 10%Z :: A f :: b :: r => TFn (Z.to_nat f) (map ty_of r) (ty_of b)
      | A 11%Z :: b :: r => Prod (map ty_of r) (ty_of b)
      | _ => Cls 0
      end
  end.

(* hierarchy tables *)
Record hier : Type := {
  h_supers : list (list nat);
  h_meths : list (list nat);
  h_preds : list (list nat);
  h_fresh : list nat }.

Definition mem (x : nat) (l : list nat) : bool := existsb (Nat.eqb x) l.

Definition hier_of (s : sx) : hier :=
  {| h_supers := map (fun r => map sx_nat (sx_list r)) (sx_list (sx_nth 0 s));
     h_meths := map (fun r => map sx_nat (sx_list r)) (sx_list (sx_nth 1 s));
     h_preds := map (fun r => map sx_nat (sx_list r)) (sx_list (sx_nth 2 s));
     h_fresh := map sx_nat (sx_list (sx_nth 3 s)) |}.

Definition hsub (h : hier) (c d : nat) : bool := mem d (nth c (h_supers h) []).
Definition hhasm (h : hier) (c m : nat) : bool := mem m (nth c (h_meths h) []).
Definition hchk (h : hier) (p c : nat) : bool := mem c (nth p (h_preds h) []).
Definition hfresh (h : hier) (d : nat) : bool := mem d (h_fresh h).

Definition typeorder_h (h : hier) := typeorder (hsub h) (hhasm h) (hchk h) (hfresh h).
Definition subclasscheck_h (h : hier) := subclasscheck (hsub h) (hhasm h) (hchk h) (hfresh h).

(* outcomes *)
Definition of_order (o : option order) : sx :=
  match o with
  | Some LESS => A (-1)%Z
  | Some MORE => A 1%Z
  | Some SAME => A 0%Z
  | Some NONE => A 2%Z
  | None => A 9%Z
  end.

Definition of_obool (o : option bool) : sx :=
  match o with Some true => A 1%Z | Some false => A 0%Z | None => A 9%Z end.
